#!/usr/bin/env python3
"""seedcheck.py [-all] [Cnn ...] : fast regression of the "must report" side. Every seeded change under /verif/seeded
(for the given properties, default all) is applied to a scratch copy of /repo (outside /repo and /verif, removed
afterwards) and the check of the property it breaks is run with `vlcheck -repo`; it must exit 1. With -all every one of
the 20 checks is run on every seed and the reporting rules are listed. Exit 1 if a seed is missed."""
import glob, json, os, re, shutil, subprocess, sys, tempfile
from concurrent.futures import ThreadPoolExecutor

V = '/verif'
args = sys.argv[1:]
allchecks = '-all' in args
args = [a for a in args if a != '-all']
seeds = sorted(os.path.basename(os.path.dirname(p)) for p in glob.glob(V + '/seeded/*/meta.json'))
if args:
    seeds = [s for s in seeds if s.split('-')[0] in args or s in args]

def one(s):
    wt = tempfile.mkdtemp(prefix='seedchk-', dir='/tmp')
    ev = tempfile.mkdtemp(prefix='seedchkev-', dir='/tmp')
    try:
        subprocess.run(['rsync', '-a', '--exclude', '.git', '/repo/', wt + '/'], check=True)
        a = subprocess.run(['git', 'apply', V + '/seeded/' + s + '/patch.diff'], cwd=wt, capture_output=True, text=True)
        if a.returncode != 0:
            return s, None, 'does not apply'
        shutil.copy(V + '/known_findings.json', ev)
        open(ev + '/MANIFEST.json', 'w').write('{}')
        props = ['C%02d' % i for i in range(1, 21)] if allchecks else [s.split('-')[0]]
        out = {}
        for p in props:
            r = subprocess.run([os.environ.get('VLCHECK', V + '/bin/vlcheck'), '-property', p, '-repo', wt, '-verif', ev], capture_output=True, text=True)
            if r.returncode == 1:
                out[p] = sorted(set(re.findall(r'\[' + p + r'\.(\w+)\]', r.stdout))) or ['?']
            elif r.returncode != 0:
                out[p] = ['BROKEN']
        return s, out, ''
    finally:
        shutil.rmtree(wt, ignore_errors=True)
        shutil.rmtree(ev, ignore_errors=True)

missed = 0
with ThreadPoolExecutor(4 if allchecks else 8) as ex:
    for s, out, err in ex.map(one, seeds):
        own = s.split('-')[0]
        if out is None or own not in out:
            missed += 1
            print('%-8s MISSED %s %s' % (s, err, json.dumps(out)))
        else:
            others = {k: v for k, v in out.items() if k != own}
            print('%-8s %s %s' % (s, ' '.join(out[own]), ('others: ' + json.dumps(others)) if others else ''))
print('%d seeds, %d missed' % (len(seeds), missed))
sys.exit(1 if missed else 0)
