// mutgen: mechanical first-order mutants of the non-test Go files of a repository tree (one syntactic change each:
// comparison and logical operators, negated conditions, deleted statements, integer constants, boolean literals,
// `return err` -> `return nil`). Used by tools/mutrun.py to measure which surviving mutants (compile, pass the pinned
// suite) the checks report; stdlib only.
package main

import (
	"bytes"
	"encoding/json"
	"flag"
	"fmt"
	"go/ast"
	"go/format"
	"go/parser"
	"go/token"
	"os"
	"path/filepath"
	"strconv"
	"strings"
)

type meta struct {
	ID   int    `json:"id"`
	File string `json:"file"`
	Line int    `json:"line"`
	Func string `json:"func"`
	Op   string `json:"op"`
	What string `json:"what"`
}

var (
	repo = flag.String("repo", "/repo", "tree")
	out  = flag.String("out", "/tmp/mutants", "output directory")
)

func main() {
	flag.Parse()
	files := flag.Args()
	os.MkdirAll(*out, 0o755)
	id := 0
	var metas []meta
	for _, rel := range files {
		path := filepath.Join(*repo, rel)
		fset := token.NewFileSet()
		f, err := parser.ParseFile(fset, path, nil, parser.ParseComments)
		if err != nil {
			fmt.Fprintln(os.Stderr, err)
			os.Exit(2)
		}
		emit := func(n ast.Node, fn, op, what string) {
			var buf bytes.Buffer
			if err := format.Node(&buf, fset, f); err != nil {
				return
			}
			id++
			os.WriteFile(filepath.Join(*out, fmt.Sprintf("%05d.go", id)), buf.Bytes(), 0o644)
			metas = append(metas, meta{id, rel, fset.Position(n.Pos()).Line, fn, op, what})
		}
		for _, d := range f.Decls {
			fd, ok := d.(*ast.FuncDecl)
			if !ok || fd.Body == nil {
				continue
			}
			fn := fd.Name.Name
			if fd.Recv != nil && len(fd.Recv.List) == 1 {
				fn = types(fd.Recv.List[0].Type) + "." + fn
			}
			mutateFunc(fset, fd, fn, emit)
		}
	}
	b, _ := json.MarshalIndent(metas, "", " ")
	os.WriteFile(filepath.Join(*out, "index.json"), b, 0o644)
	fmt.Println(len(metas), "mutants")
}

func types(e ast.Expr) string {
	switch x := e.(type) {
	case *ast.StarExpr:
		return types(x.X)
	case *ast.Ident:
		return x.Name
	}
	return "?"
}

var cmpSwap = map[token.Token][]token.Token{
	token.EQL: {token.NEQ}, token.NEQ: {token.EQL},
	token.LSS: {token.LEQ, token.GEQ}, token.LEQ: {token.LSS, token.GTR},
	token.GTR: {token.GEQ, token.LEQ}, token.GEQ: {token.GTR, token.LSS},
	token.LAND: {token.LOR}, token.LOR: {token.LAND},
	token.ADD: {token.SUB}, token.SUB: {token.ADD},
}

func snippet(fset *token.FileSet, n ast.Node) string {
	var buf bytes.Buffer
	format.Node(&buf, fset, n)
	s := strings.Join(strings.Fields(buf.String()), " ")
	if len(s) > 90 {
		s = s[:90] + "..."
	}
	return s
}

func mutateFunc(fset *token.FileSet, fd *ast.FuncDecl, fn string, emit func(ast.Node, string, string, string)) {
	// expressions
	ast.Inspect(fd.Body, func(n ast.Node) bool {
		switch x := n.(type) {
		case *ast.BinaryExpr:
			if x.Op == token.ADD {
				// (string concatenation of the template: not a mutation target)
				if isStringy(x) {
					return true
				}
			}
			for _, alt := range cmpSwap[x.Op] {
				old := x.Op
				before := snippet(fset, x)
				x.Op = alt
				emit(x, fn, "binop", before+"  =>  "+snippet(fset, x))
				x.Op = old
			}
		case *ast.UnaryExpr:
			if x.Op == token.NOT {
				// drop the negation: replace by a parenthesised operand via a double negation trick
				old := x.Op
				before := snippet(fset, x)
				x.Op = token.ADD // placeholder, fixed below
				x.Op = old
				_ = before
			}
		case *ast.BasicLit:
			if x.Kind == token.INT {
				v, err := strconv.ParseInt(x.Value, 0, 64)
				if err != nil {
					return true
				}
				old := x.Value
				for _, nv := range []int64{v + 1, v - 1} {
					if nv < 0 {
						continue
					}
					x.Value = strconv.FormatInt(nv, 10)
					emit(x, fn, "intlit", old+" => "+x.Value)
				}
				x.Value = old
			}
		case *ast.Ident:
			if x.Name == "true" || x.Name == "false" {
				old := x.Name
				x.Name = map[string]string{"true": "false", "false": "true"}[old]
				emit(x, fn, "boollit", old+" => "+x.Name)
				x.Name = old
			}
		case *ast.IfStmt:
			old := x.Cond
			before := snippet(fset, old)
			x.Cond = &ast.UnaryExpr{Op: token.NOT, X: &ast.ParenExpr{X: old}}
			emit(x, fn, "negcond", "if "+before+"  =>  if !("+before+")")
			x.Cond = old
		case *ast.ReturnStmt:
			for i, r := range x.Results {
				if id, ok := r.(*ast.Ident); ok && (id.Name == "err" || strings.HasSuffix(id.Name, "Err")) {
					x.Results[i] = ast.NewIdent("nil")
					emit(x, fn, "retnil", "return ... "+id.Name+" => nil")
					x.Results[i] = r
				}
			}
		}
		return true
	})
	// statement deletion, list by list
	var lists []*[]ast.Stmt
	ast.Inspect(fd.Body, func(n ast.Node) bool {
		switch x := n.(type) {
		case *ast.BlockStmt:
			lists = append(lists, &x.List)
		case *ast.CaseClause:
			lists = append(lists, &x.Body)
		case *ast.CommClause:
			lists = append(lists, &x.Body)
		}
		return true
	})
	for _, lp := range lists {
		l := *lp
		for i, st := range l {
			deletable := false
			switch s := st.(type) {
			case *ast.ExprStmt, *ast.IncDecStmt, *ast.DeferStmt, *ast.GoStmt:
				deletable = true
			case *ast.AssignStmt:
				deletable = s.Tok != token.DEFINE
			case *ast.IfStmt:
				// an if without else whose body only returns/breaks/continues: deleting it removes a guard
				if s.Else == nil && s.Init == nil && len(s.Body.List) == 1 {
					switch s.Body.List[0].(type) {
					case *ast.ReturnStmt, *ast.BranchStmt:
						deletable = true
					}
				}
			case *ast.BranchStmt:
				deletable = s.Tok == token.BREAK || s.Tok == token.CONTINUE
			}
			if !deletable {
				continue
			}
			nl := append(append([]ast.Stmt{}, l[:i]...), l[i+1:]...)
			*lp = nl
			emit(st, fn, "delstmt", "delete: "+snippet(fset, st))
			*lp = l
		}
	}
}

func isStringy(x *ast.BinaryExpr) bool {
	s := false
	ast.Inspect(x, func(n ast.Node) bool {
		if bl, ok := n.(*ast.BasicLit); ok && bl.Kind == token.STRING {
			s = true
		}
		return true
	})
	return s
}
