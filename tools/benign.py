#!/usr/bin/env python3
"""benign.py [names...] : the "must stay silent" side of testing the checker. Every patch under /verif/benign is a
behaviour-preserving refactoring of varlink/go (extract/inline helper, if-chain <-> switch, early return, renamed
locals, ...). Each is applied to a scratch copy of /repo's working tree (outside /repo and /verif, removed afterwards)
and all 20 quick checks are run against it with `vlcheck -repo`. Any report is a false alarm of the checker.
Exit 1 if any check reports."""
import glob, json, os, re, shutil, subprocess, sys, tempfile
from concurrent.futures import ThreadPoolExecutor

V = '/verif'
props = ['C%02d' % i for i in range(1, 21)]
patches = sorted(glob.glob(V + '/benign/*.diff'))
if len(sys.argv) > 1:
    patches = [p for p in patches if os.path.basename(p)[:-5] in sys.argv[1:]]

def check(p, wt, ev):
    r = subprocess.run([os.environ.get('VLCHECK', V + '/bin/vlcheck'), '-property', p, '-repo', wt, '-verif', ev], capture_output=True, text=True)
    if r.returncode == 0:
        return p, None
    lines = [l for l in r.stdout.split('\n') if re.match(r'^\S+: \[', l) or re.match(r'^\S+:\d+: \[', l)]
    return p, lines[:4] or ['exit %d: %s' % (r.returncode, (r.stderr or r.stdout)[-300:])]

bad = 0
for pt in patches:
    name = os.path.basename(pt)[:-5]
    wt = tempfile.mkdtemp(prefix='benign-', dir='/tmp')
    ev = tempfile.mkdtemp(prefix='benignev-', dir='/tmp')
    try:
        subprocess.run(['rsync', '-a', '--exclude', '.git', '/repo/', wt + '/'], check=True)
        a = subprocess.run(['git', 'apply', pt], cwd=wt, capture_output=True, text=True)
        if a.returncode != 0:
            print('%-40s DOES NOT APPLY: %s' % (name, a.stderr.strip()[:200]))
            bad += 1
            continue
        shutil.copy(V + '/known_findings.json', ev)
        open(ev + '/MANIFEST.json', 'w').write('{}')
        with ThreadPoolExecutor(10) as ex:
            res = dict(ex.map(lambda p: check(p, wt, ev), props))
        rep = {p: r for p, r in res.items() if r}
        if rep:
            bad += 1
            print('%-40s FALSE ALARM' % name)
            for p, ls in sorted(rep.items()):
                for l in ls:
                    print('      ' + l[:400])
        else:
            print('%-40s silent (20/20 checks pass)' % name)
    finally:
        shutil.rmtree(wt, ignore_errors=True)
        shutil.rmtree(ev, ignore_errors=True)
print('%d benign refactorings, %d with a report' % (len(patches), bad))
sys.exit(1 if bad else 0)
