#!/usr/bin/env python3
"""Validates MANIFEST.json and every evidence file against the given schemas (run with python3-vt)."""
import json, sys, glob, jsonschema
ms = json.load(open('/root/.vp/MANIFEST.schema.json'))
es = json.load(open('/root/.vp/EVIDENCE.schema.json'))
m = json.load(open('/verif/MANIFEST.json'))
jsonschema.validate(m, ms)
bad = 0
for c in m['checks']:
    try:
        jsonschema.validate(json.load(open(c['evidence_file'])), es)
    except Exception as e:
        bad += 1
        print('INVALID', c['evidence_file'], str(e)[:300])
ids = [c['property_id'] for c in m['checks']] + [n['property_id'] for n in m['not_applicable']]
assert sorted(ids) == ['C%02d' % i for i in range(1, 21)], ids
print('manifest valid; %d checks, %d n/a, %d bad evidence' % (len(m['checks']), len(m['not_applicable']), bad))
sys.exit(1 if bad else 0)
