#!/bin/bash
# Runs the repository's pinned test suite (guard off) and compares with BASELINE.json's stable_pass list.
export GOFLAGS=-mod=mod GOPROXY=off GOSUMDB=off GOTOOLCHAIN=local
cd "${1:-/repo}" || exit 2
go test -json -vet=off -count=1 -timeout 25m ./... 2>/dev/null | python3 -c '
import json,sys
want=set(json.load(open("/root/.vp/BASELINE.json"))["stable_pass"])
got=set()
for l in sys.stdin:
    try: e=json.loads(l)
    except Exception: continue
    if e.get("Action")=="pass" and e.get("Test"): got.add(e["Package"]+"::"+e["Test"])
missing=sorted(want-got)
print("baseline: %d/%d stable tests pass"%(len(want&got),len(want)))
for m in missing: print("MISSING",m)
sys.exit(1 if missing else 0)'
