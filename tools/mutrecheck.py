#!/usr/bin/env python3
"""mutrecheck.py <mutants dir> <results.jsonl> <out.jsonl> [workers]: re-evaluates the mutants recorded as 'unflagged'
(survived the tests, reported by no check) with the current checker."""
import json, os, shutil, subprocess, sys, re, threading, queue
mdir, resp, outp = sys.argv[1], sys.argv[2], sys.argv[3]
workers = int(sys.argv[4]) if len(sys.argv) > 4 else 8
VL = os.environ.get('VLCHECK', '/verif/bin/vlcheck')
SRC = os.environ.get('MUT_SRC', '/tmp/clean')
rows = [json.loads(l) for l in open(resp)]
done = set()
if os.path.exists(outp):
    for l in open(outp):
        try: done.add(json.loads(l)['id'])
        except Exception: pass
def group(f):
    if f.startswith('varlink/idl/'): return 'idl'
    if f.startswith('cmd/varlink-go-interface-generator/'): return 'gen'
    if f.startswith('varlink/internal/ctxio/'): return 'ctxio'
    return 'varlink'
ALL = ['C%02d' % i for i in range(1, 21)]
PROPS = {'idl': ['C05', 'C06', 'C07', 'C08', 'C09'], 'gen': ['C07', 'C08'],
         'ctxio': ['C01', 'C02', 'C03', 'C10', 'C11', 'C14', 'C16', 'C17', 'C18'],
         'varlink': [p for p in ALL if p not in ('C05', 'C06', 'C07', 'C09')]}
q = queue.Queue()
for m in rows:
    if m['status'] == 'unflagged' and m['id'] not in done: q.put(m)
lock = threading.Lock()
def work(k):
    tree = '/tmp/mutr-%d' % k; ev = '/tmp/mutrev-%d' % k
    shutil.rmtree(tree, ignore_errors=True); shutil.rmtree(ev, ignore_errors=True)
    shutil.copytree(SRC, tree, symlinks=True)
    os.makedirs(ev); shutil.copy('/verif/known_findings.json', ev); open(ev + '/MANIFEST.json', 'w').write('{}')
    while True:
        try: m = q.get_nowait()
        except queue.Empty: break
        g = group(m['file']); orig = os.path.join(SRC, m['file']); dst = os.path.join(tree, m['file'])
        shutil.copy(os.path.join(mdir, '%05d.go' % m['id']), dst)
        res = {k2: m[k2] for k2 in ('id', 'file', 'line', 'func', 'op', 'what')}
        rep = {}
        try:
            for p in PROPS[g]:
                r = subprocess.run([VL, '-property', p, '-repo', tree, '-verif', ev], capture_output=True, text=True)
                if r.returncode == 1:
                    rep[p] = sorted(set(re.findall(r'\[' + p + r'\.(\w+)\]', r.stdout)))
                elif r.returncode != 0:
                    rep[p] = ['BROKEN:' + (r.stdout + r.stderr)[-200:]]
        finally:
            shutil.copy(orig, dst)
        res['status'] = 'flagged' if rep else 'unflagged'; res['reports'] = rep
        with lock: open(outp, 'a').write(json.dumps(res) + '\n')
    shutil.rmtree(tree, ignore_errors=True); shutil.rmtree(ev, ignore_errors=True)
ths = [threading.Thread(target=work, args=(k,)) for k in range(workers)]
for t in ths: t.start()
for t in ths: t.join()
print('done')
