#!/usr/bin/env python3
"""verify_seed.py <staging dir of one mutant> <id> : confirms a seeded change in a scratch worktree of /repo and
files it under /verif/seeded/<id>/.

 (a) clean tree + demonstration passes; (b) change applied + demonstration fails; (c) change applied + the pinned
 test suite passes; (d) every registered quick check is run against the changed tree (vlcheck -repo <worktree>).
The worktree is removed afterwards."""
import json, os, re, shutil, subprocess, sys, glob, tempfile

stage, sid = sys.argv[1], sys.argv[2]
V = '/verif'
env = dict(os.environ, GOFLAGS='-mod=mod', GOPROXY='off', GOSUMDB='off', GOTOOLCHAIN='local')
prop = sid.split('-')[0]

def sh(cmd, cwd, timeout=600):
    p = subprocess.run(cmd, cwd=cwd, env=env, shell=True, capture_output=True, text=True, timeout=timeout)
    return p.returncode, (p.stdout + p.stderr)

wt = tempfile.mkdtemp(prefix='seedwt-', dir='/tmp')
os.rmdir(wt)
subprocess.run(['git', '-C', '/repo', 'worktree', 'add', '-q', '--detach', wt, 'HEAD'], check=True)
res = {'id': sid, 'property': prop}
try:
    patch = os.path.join(stage, 'patch.ported.diff') if os.path.exists(os.path.join(stage, 'patch.ported.diff')) else os.path.join(stage, 'patch.diff')
    demo_txt = open(os.path.join(stage, 'demo.txt')).read()
    demos = sorted(glob.glob(os.path.join(stage, '*_test.go')))
    # placement
    placed = []
    for d in demos:
        base = os.path.basename(d)
        m = re.search(r'((?:varlink|cmd)/[\w./-]*?)' + re.escape(base), demo_txt)
        if m:
            rel = m.group(1) + base
        else:
            m2 = re.search(r'((?:varlink|cmd)/[\w./-]*/)', demo_txt)
            rel = (m2.group(1) if m2 else 'varlink/') + base
        placed.append((d, rel))
    # command
    cmd = None
    for line in demo_txt.replace('\\\n', ' ').split('\n'):
        if 'go test' in line and ' ./' in line[line.index('go test'):]:
            cmd = line[line.index('go test'):].strip().rstrip('`').strip()
            break
    if not cmd:
        raise SystemExit('no go test command in demo.txt')
    res['demo_cmd'] = cmd
    res['demo_files'] = [r for _, r in placed]
    for d, rel in placed:
        shutil.copy(d, os.path.join(wt, rel))
    rc_clean, out_clean = sh(cmd, wt)
    res['clean_demo_passes'] = rc_clean == 0
    rc, out = sh('git apply ' + patch, wt)
    if rc != 0:
        raise SystemExit('patch does not apply: ' + out)
    rc_b, out_b = sh('go build ./varlink/... ./cmd/varlink-go-interface-generator/', wt)
    res['mutant_builds'] = rc_b == 0
    rc_mut, out_mut = sh(cmd, wt)
    res['mutant_demo_fails'] = rc_mut != 0
    res['mutant_demo_output_tail'] = out_mut[-600:]
    # suite without the demo
    for _, rel in placed:
        os.remove(os.path.join(wt, rel))
    for attempt in range(4):  # TestAnonUnix/TestUnix bind fixed addresses: concurrent runs in other worktrees collide
        rc_s, out_s = sh('/verif/tools/baseline.sh ' + wt, wt)
        if rc_s == 0:
            break
    res['suite_passes_with_change'] = rc_s == 0
    res['suite_line'] = out_s.strip().split('\n')[0]
    # checks
    ev = tempfile.mkdtemp(prefix='seedev-', dir='/tmp')
    shutil.copy(os.path.join(V, 'known_findings.json'), ev)
    open(os.path.join(ev, 'MANIFEST.json'), 'w').write('{}')
    caught = {}
    for i in range(1, 21):
        p = 'C%02d' % i
        r = subprocess.run([os.environ.get('VLCHECK', os.path.join(V, 'bin/vlcheck')), '-property', p, '-repo', wt, '-verif', ev], capture_output=True, text=True)
        if r.returncode == 1:
            rules = sorted(set(re.findall(r'\[' + p + r'\.(\w+)\]', r.stdout)))
            caught[p] = rules
        elif r.returncode != 0:
            caught[p] = ['BROKEN: ' + r.stderr[-200:]]
    shutil.rmtree(ev)
    res['checks_reporting'] = caught
    res['caught_by_own_property'] = prop in caught
finally:
    subprocess.run(['git', '-C', '/repo', 'worktree', 'remove', '--force', wt])
    subprocess.run(['git', '-C', '/repo', 'worktree', 'prune'])
ok = res.get('clean_demo_passes') and res.get('mutant_builds') and res.get('mutant_demo_fails') and res.get('suite_passes_with_change')
res['confirmed'] = bool(ok)
out = os.path.join(V, 'seeded', sid)
if ok:
    os.makedirs(out, exist_ok=True)
    shutil.copy(patch, os.path.join(out, 'patch.diff'))
    for d, _ in placed:
        shutil.copy(d, os.path.join(out, os.path.basename(d) + '.txt'))  # .txt: not compiled by anything under /verif
    notes = open(os.path.join(stage, 'notes.txt')).read() if os.path.exists(os.path.join(stage, 'notes.txt')) else ''
    meta = {
        'id': sid, 'breaks_property': prop,
        'needs_to_manifest': notes.strip(),
        'demonstration': {'files': [os.path.basename(d) + '.txt' for d, _ in placed], 'place_at': [r for _, r in placed], 'command': cmd},
        'what_i_ran': [
            'scratch worktree of /repo HEAD; demonstration placed; `%s` -> %s on the unchanged tree' % (cmd, 'PASS' if res['clean_demo_passes'] else 'FAIL'),
            '`git apply patch.diff`; build ok; same command -> %s' % ('FAIL (as required)' if res['mutant_demo_fails'] else 'PASS'),
            'pinned suite with the change (demonstration removed): ' + res['suite_line'],
            'all 20 quick checks against the changed tree (vlcheck -repo <worktree>): reporting = ' + json.dumps(caught),
        ],
        'checks_reporting': caught,
        'caught_by_own_property': res['caught_by_own_property'],
    }
    json.dump(meta, open(os.path.join(out, 'meta.json'), 'w'), indent=1)
print(json.dumps({k: res[k] for k in res if k != 'mutant_demo_output_tail'}))
if not ok:
    print('TAIL:', res.get('mutant_demo_output_tail', '')[-300:])
