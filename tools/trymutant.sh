#!/bin/bash
# usage: trymutant.sh <patch.diff> <property> [property...]
# Applies a seeded change to /repo, runs the quick checks of the given properties, and always undoes the change.
patch="$1"; shift
cd /repo || exit 2
if ! git diff --quiet; then echo "/repo has uncommitted changes" >&2; exit 2; fi
git apply "$patch" || { echo "patch does not apply" >&2; exit 2; }
trap 'git -C /repo checkout -- . ; git -C /repo clean -fdq' EXIT
cd /verif
for p in "$@"; do
  out=$(./bin/vlcheck -property "$p" -tier quick 2>&1); rc=$?
  echo "== $p exit=$rc"
  echo "$out" | grep -E '^\S+:[0-9]+: \[|VIOLATION|BROKEN|^      ' | head -${MAXLINES:-12}
done
