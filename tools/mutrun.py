#!/usr/bin/env python3
"""mutrun.py <mutants dir> <results.jsonl> [workers] : mechanical mutation run (the mutants come from tools/mutgen).
Each mutant is placed into a scratch copy of the tree (outside /repo and /verif), built (linux + windows for package
varlink), run against the tests of the packages it can affect (a mutant that fails them is 'killed' - of no interest
here), and the survivors are given to the checks of the properties anchored in the mutated file. Result per mutant:
nocompile | killed | flagged (which rules) | unflagged. The unflagged survivors are the interesting ones: equivalent
mutants, changes outside the twenty properties, or gaps of the rule sets (triaged by hand / by sub-agents)."""
import json, os, shutil, subprocess, sys, re, threading, queue

mdir, outp = sys.argv[1], sys.argv[2]
workers = int(sys.argv[3]) if len(sys.argv) > 3 else 8
VL = os.environ.get('VLCHECK', '/verif/bin/vlcheck')
SRC = os.environ.get('MUT_SRC', '/tmp/clean')
env = dict(os.environ, GOFLAGS='-mod=mod', GOPROXY='off', GOSUMDB='off', GOTOOLCHAIN='local')
index = json.load(open(os.path.join(mdir, 'index.json')))
done = set()
if os.path.exists(outp):
    for l in open(outp):
        try: done.add(json.loads(l)['id'])
        except Exception: pass

def group(f):
    if f.startswith('varlink/idl/'): return 'idl'
    if f.startswith('cmd/varlink-go-interface-generator/'): return 'gen'
    if f.startswith('varlink/internal/ctxio/'): return 'ctxio'
    return 'varlink'
TESTS = {'idl': './varlink/idl/ ./cmd/varlink-go-interface-generator/', 'gen': './cmd/varlink-go-interface-generator/',
         'ctxio': './varlink/internal/ctxio/ ./varlink/', 'varlink': './varlink/'}
ALL = ['C%02d' % i for i in range(1, 21)]
PROPS = {'idl': ['C05', 'C06', 'C07', 'C08', 'C09'], 'gen': ['C07', 'C08'],
         'ctxio': ['C01', 'C02', 'C03', 'C10', 'C11', 'C14', 'C16', 'C17', 'C18'],
         'varlink': [p for p in ALL if p not in ('C05', 'C06', 'C07', 'C09')]}
lock = threading.Lock()
q = queue.Queue()
for m in index:
    if m['id'] not in done: q.put(m)

def sh(cmd, cwd, timeout):
    try:
        p = subprocess.run(cmd, cwd=cwd, env=env, shell=True, capture_output=True, text=True, timeout=timeout)
        return p.returncode, p.stdout + p.stderr
    except subprocess.TimeoutExpired:
        return 124, 'timeout'

def work(k):
    tree = '/tmp/mutw-%d' % k
    ev = '/tmp/mutev-%d' % k
    shutil.rmtree(tree, ignore_errors=True); shutil.rmtree(ev, ignore_errors=True)
    shutil.copytree(SRC, tree, symlinks=True)
    os.makedirs(ev); shutil.copy('/verif/known_findings.json', ev); open(ev + '/MANIFEST.json', 'w').write('{}')
    while True:
        try: m = q.get_nowait()
        except queue.Empty: break
        g = group(m['file'])
        orig = os.path.join(SRC, m['file']); dst = os.path.join(tree, m['file'])
        shutil.copy(os.path.join(mdir, '%05d.go' % m['id']), dst)
        res = dict(m)
        try:
            rc, o = sh('go build ./varlink/... ./cmd/varlink-go-interface-generator/ && GOOS=windows go build ./varlink/', tree, 300)
            if rc != 0:
                res['status'] = 'nocompile'
            else:
                rc, o = sh('go test -vet=off -count=1 -timeout 120s ' + TESTS[g], tree, 400)
                if rc != 0:
                    res['status'] = 'killed'
                else:
                    rep = {}
                    for p in PROPS[g]:
                        r = subprocess.run([VL, '-property', p, '-repo', tree, '-verif', ev], capture_output=True, text=True)
                        if r.returncode == 1:
                            rep[p] = sorted(set(re.findall(r'\[' + p + r'\.(\w+)\]', r.stdout)))
                        elif r.returncode != 0:
                            rep[p] = ['BROKEN:' + (r.stdout + r.stderr)[-200:]]
                    res['status'] = 'flagged' if rep else 'unflagged'
                    res['reports'] = rep
        finally:
            shutil.copy(orig, dst)
        with lock:
            open(outp, 'a').write(json.dumps(res) + '\n')
    shutil.rmtree(tree, ignore_errors=True); shutil.rmtree(ev, ignore_errors=True)

ths = [threading.Thread(target=work, args=(k,)) for k in range(workers)]
for t in ths: t.start()
for t in ths: t.join()
print('done')
