#!/usr/bin/env python3
"""Regenerates /verif/MANIFEST.json from the list of properties the checker implements
(./bin/vlcheck -list) and the per-property texts in tools/claims.json."""
import json, subprocess, os, sys
V = os.path.dirname(os.path.dirname(os.path.abspath(__file__)))
props = [json.loads(l) for l in open(os.path.join(V, 'properties.jsonl'))]
claims = json.load(open(os.path.join(V, 'tools', 'claims.json')))
impl = subprocess.run([os.path.join(V, 'bin', 'vlcheck'), '-list'], capture_output=True, text=True, check=True).stdout.split()
fix_commits = subprocess.run(['git', '-C', '/repo', 'log', '--format=%h %s', '--grep=^fix:'], capture_output=True, text=True).stdout.strip().split('\n')
checks = []
na = []
for p in props:
    i = p['id']
    c = claims.get(i)
    # the rule-by-rule statement maintained next to the rules themselves (checker/cNN.go `explain`, copied into every
    # evidence file) is the authoritative text; claims.json holds the shorter first-version summary as a fallback
    try:
        ex = json.load(open(os.path.join(V, 'evidence', i + '.json')))['coverage']['explanation']
        if c and ex:
            c = dict(c, text=ex)
    except Exception:
        pass
    if i in impl and c and c.get('claim', True):
        checks.append({
            "property_id": i,
            "quick_cmd": f"./bin/vlcheck -property {i} -tier quick",
            "thorough_cmd": f"./bin/vlcheck -property {i} -tier thorough",
            "evidence_file": f"/verif/evidence/{i}.json",
            "replay_cmd_template": "./bin/vlcheck -explain {path}",
            "engine": "vlcheck",
            "level_claimed": {"category": c.get('level', 'other'), "text": c['text'], "design_ref": f"DESIGN.md section 3, {i}"},
            "level_note": c['note'],
            "technique": c['technique'],
        })
    else:
        na.append({"property_id": i, "reason": (c or {}).get('na_reason', "check not built yet (build in progress); the planned static rules are in DESIGN.md section 3")})
m = {
    "version": 1,
    "setup_cmd": "cd /verif/checker && GOFLAGS=-mod=vendor GOPROXY=off GOSUMDB=off GOTOOLCHAIN=local GOWORK=off go build -o /verif/bin/vlcheck .",
    "hooks": {
        "guard": "verif",
        "enable": "none: static analysis reads the source; no hook or instrumentation commits exist in /repo",
        "baseline_off_cmd": "/verif/tools/baseline.sh /repo",
        "source_commits": [],
        "add_only": True,
    },
    "engines": [{
        "name": "vlcheck", "path": "/verif/checker",
        "serves_properties": [c['property_id'] for c in checks],
        "kind_free_text": "repository-specific static analyser over go/packages + go/types + go/ssa (x/tools v0.29.0, vendored): term normalisation, dominator-based edge facts, reachability-avoiding-edges, path counting, lock-set analysis, an abstract interpreter for the IDL parser's cursor, and a lexical-context analysis of the code generator's output buffer. Nothing from /repo is executed.",
    }],
    "checks": checks,
    "not_applicable": na,
    "notes": "All verdicts are computed from /repo's current working tree on every run (no cached results). Rules that speak about 'every path of' a function analyse that function's inlined view (DESIGN.md 9.2: repository helpers, including closures handed to helpers, are inlined at SSA level by a static transformation; nothing is executed), so a step may be written out or factored into a helper. The checker itself is tested both ways on every thorough run: 80 independently written breaking changes (/verif/seeded) must be reported, behaviour-preserving refactorings (/verif/benign) must stay silent, and /verif/handmut makes every rule fire (DESIGN.md 9.5). Genuine defects found on the pinned tree were repaired by the 'fix:' commits in /repo (see known_findings.json 'fixed' records and DESIGN.md section 4): " + "; ".join(fix_commits),
}
json.dump(m, open(os.path.join(V, 'MANIFEST.json'), 'w'), indent=1)
print("checks:", [c['property_id'] for c in checks], "n/a:", [n['property_id'] for n in na])
