#!/usr/bin/env python3
"""rulecov.py [names...] : rule-level mutation test of the checker. /verif/handmut/*.json each describe one small edit of
varlink/go that breaks one named rule ({"file","old","new","count","expect":{"Cnn":["rule",...]},"why"}; an optional "base_patch" names a behaviour-preserving refactoring from /verif/benign
that is applied first, so that the break is made in refactored code). The edit is
made in a scratch copy of /repo (outside /repo and /verif, removed afterwards), the copy must still compile, and the
check of each expected property must exit 1 naming (at least) the expected rule(s). Complements /verif/seeded (changes
written by independent agents) by making sure every rule has been seen to fire at least once.
Exit 1 if an expectation is not met."""
import glob, json, os, re, shutil, subprocess, sys, tempfile
from concurrent.futures import ThreadPoolExecutor

V = '/verif'
env = dict(os.environ, GOFLAGS='-mod=mod', GOPROXY='off', GOSUMDB='off', GOTOOLCHAIN='local')
specs = sorted(glob.glob(V + '/handmut/*.json'))
if len(sys.argv) > 1:
    specs = [s for s in specs if os.path.basename(s)[:-5] in sys.argv[1:]]

def one(sp):
    name = os.path.basename(sp)[:-5]
    d = json.load(open(sp))
    wt = tempfile.mkdtemp(prefix='hm-', dir='/tmp')
    ev = tempfile.mkdtemp(prefix='hmev-', dir='/tmp')
    try:
        subprocess.run(['rsync', '-a', '--exclude', '.git', '/repo/', wt + '/'], check=True)
        if d.get('base_patch'):
            a = subprocess.run(['git', 'apply', os.path.join(V, d['base_patch'])], cwd=wt, capture_output=True, text=True)
            if a.returncode != 0:
                return name, False, 'base patch does not apply: ' + a.stderr[:200]
        edits = d.get('edits') or [d]
        for e in edits:
            path = os.path.join(wt, e['file'])
            s = open(path).read()
            if e['old'] not in s:
                return name, False, 'pattern not found in ' + e['file']
            cnt = e.get('count', 1)
            s = s.replace(e['old'], e['new']) if cnt == 'all' else s.replace(e['old'], e['new'], int(cnt))
            open(path, 'w').write(s)
        b = subprocess.run(['go', 'build', './varlink/...', './cmd/varlink-go-interface-generator/'], cwd=wt, env=env, capture_output=True, text=True)
        if b.returncode != 0:
            return name, False, 'does not build: ' + b.stderr[:300]
        shutil.copy(V + '/known_findings.json', ev)
        open(ev + '/MANIFEST.json', 'w').write('{}')
        msgs = []
        ok = True
        for p, rules in d['expect'].items():
            r = subprocess.run([os.environ.get('VLCHECK', V + '/bin/vlcheck'), '-property', p, '-repo', wt, '-verif', ev], capture_output=True, text=True)
            got = sorted(set(re.findall(r'\[' + p + r'\.(\w+)\]', r.stdout)))
            if r.returncode != 1 or not all(x in got for x in rules):
                ok = False
            msgs.append('%s exit=%d rules=%s (expected %s)' % (p, r.returncode, got, rules))
        return name, ok, '; '.join(msgs)
    finally:
        shutil.rmtree(wt, ignore_errors=True)
        shutil.rmtree(ev, ignore_errors=True)

bad = 0
with ThreadPoolExecutor(8) as ex:
    for name, ok, msg in ex.map(one, specs):
        if not ok:
            bad += 1
        print('%-34s %s  %s' % (name, 'fires' if ok else 'NOT AS EXPECTED', msg))
print('%d hand mutants, %d not as expected' % (len(specs), bad))
sys.exit(1 if bad else 0)
