#!/usr/bin/env python3
"""usage: handmut.py <relfile> <old> <new> <count|all> <prop>...  : apply a textual edit to /repo, build, run checks, undo."""
import sys, subprocess, os
f, old, new, cnt, props = sys.argv[1], sys.argv[2], sys.argv[3], sys.argv[4], sys.argv[5:]
path = '/repo/' + f
s = open(path).read()
if old not in s:
    print('PATTERN NOT FOUND'); sys.exit(2)
s2 = s.replace(old, new) if cnt == 'all' else s.replace(old, new, int(cnt))
open(path, 'w').write(s2)
env = dict(os.environ, GOFLAGS='-mod=mod', GOPROXY='off', GOSUMDB='off', GOTOOLCHAIN='local')
try:
    b = subprocess.run(['go', 'build', './varlink/...', './cmd/varlink-go-interface-generator/'], cwd='/repo', env=env, capture_output=True, text=True)
    if b.returncode != 0:
        print('DOES NOT BUILD:', b.stderr[:300])
    else:
        for p in props:
            r = subprocess.run(['/verif/bin/vlcheck', '-property', p], cwd='/verif', capture_output=True, text=True)
            lines = [l[:240] for l in r.stdout.split('\n') if ('[' + p + '.') in l]
            print('  %s exit=%d %s' % (p, r.returncode, 'CAUGHT' if r.returncode == 1 else ('MISSED' if r.returncode == 0 else 'BROKEN ' + r.stderr[-300:])))
            for l in lines[:3]:
                print('     ', l)
finally:
    subprocess.run(['git', '-C', '/repo', 'checkout', '--', '.'])
