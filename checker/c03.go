package main

import (
	"fmt"
	"go/types"
	"sort"
	"strings"

	"golang.org/x/tools/go/ssa"
)

func init() {
	register(&propDef{
		id: "C03", level: "other", perCfg: true,
		explain: "Necessary structural conditions of C03, decided for all paths. P1 raw preservation (type rule): the structs that are the targets of json.Unmarshal at the frame reads (service request, client reply; found by role) keep the member with JSON key `parameters` as json.RawMessage - the library never decodes parameters into interface{}/float64 on the way. P2 inbound flow: the handler-facing accessor decodes exactly the raw request parameters (nil-guarded) into the caller's value; the client's receive decodes exactly the raw reply parameters into the caller's value. P3 outbound flow: Send stores its parameters argument unchanged in the marshalled call; the reply functions store theirs unchanged in the marshalled reply. P4 wire-schema agreement: JSON key sets and Go kinds of the encoder and decoder structs agree in both directions (call: method string, parameters, more/oneway/upgrade bool; reply: parameters, continues bool, error string). P5 continues mapping: receive returns the exported Continues bit exactly on the edge `continues member == true`, and 0 on the complementary edge - every success return has tested the member. P6 transports are pass-through: PipeCon.Read/Write hand the caller's slice to the pipe ends and return their results; the bridge wires reader <- StdoutPipe and writer <- StdinPipe (not swapped) in every GOOS variant; NewConnection hands (protocol, address) to the dialer (with C19.A4); P7: the frame path shared by all transports reads each frame with one direct bufio.Reader.ReadBytes and returns it unchanged (re-evaluated from C02.F2). P12 (= C02.F1) nothing rewrites the encoded frame between the encoder and the write. P13 (= C11.N4) every reply is decoded into a fresh value. P14 no function of the write path that takes the reply object as a parameter assigns a member of it. P15 (= C01.R5) every request is decoded into a fresh value that is not kept in shared state: members absent from a frame must not show what an earlier call left behind. P10 (= C01.R2), P11 (= C17.D1-D3,D6), P15 (= C01.R5) are re-evaluated here. P2 also: the bridge reports success only after the frame was decoded. P6: the bridge command is started on every path that hands out its pipes.",
		notDec:  "JSON equality of arbitrary documents (delegated to encoding/json given P1-P3: raw bytes in, raw bytes out); kernel behaviour of the four transports.",
		trusted: []string{"encoding/json: a json.RawMessage member receives / emits the member's bytes verbatim (modulo validation and compaction of insignificant whitespace)"},
		run:     runC03,
	})
}

func jsonKeysOf(st *types.Struct) map[string]string {
	out := map[string]string{}
	for i := 0; i < st.NumFields(); i++ {
		t := st.Field(i).Type()
		kind := types.TypeString(t.Underlying(), shortQual)
		if pt, ok := t.(*types.Pointer); ok && isNamed(pt.Elem(), "encoding/json", "RawMessage") || isNamed(t, "encoding/json", "RawMessage") {
			kind = "raw"
		} else if _, ok := t.Underlying().(*types.Interface); ok {
			kind = "any"
		}
		out[strings.ToLower(jsonKey(st, i))] = kind
	}
	return out
}

func runC03(r *Run, p *Prog) {
	// P10: without call ids a reply written for a oneway call pairs every later call with its predecessor's reply
	siblingRules(r, p, "C01", []string{"R2"}, "P10")
	// P11: a cancelled receive must not leave a helper behind that consumes the next reply; on the bridge transport this needs the deadline on the right pipe end
	siblingRules(r, p, "C17", []string{"D1", "D2", "D3", "D6"}, "P11")
	// P12: what the handler reads is what the client passed only if nothing rewrites the encoded frame between the encoder and the write
	siblingRules(r, p, "C02", []string{"F1"}, "P12")
	// P13: what the client hands back is what this reply carried only if every reply is decoded into a fresh value
	siblingRules(r, p, "C11", []string{"N4"}, "P13")
	// P15: what the handler reads is what this call carried only if every request is decoded into a fresh value that
	// is not shared: members absent from a frame keep what an earlier call on the connection left in a reused header
	siblingRules(r, p, "C01", []string{"R5"}, "P15")
	// P14: the write path sends the reply it was handed: no function that takes a reply object as a parameter and
	// reaches the connection write assigns a member of it (dropping an "empty" parameters value, rewriting the name)
	r.Guard("P14", func() {
		ro0 := DiscoverRoles(p)
		n := 0
		for _, f := range p.FuncsOf(pkgVarlink) {
			if !ro0.keepsWriting(f) {
				continue
			}
			for _, prm := range f.Params {
				pt, ok := prm.Type().(*types.Pointer)
				if !ok || replyF.Type == nil || !types.Identical(pt.Elem(), replyF.Type) {
					continue
				}
				n++
				var bad ssa.Instruction
				for _, ref := range *prm.Referrers() {
					if fa, isFA := ref.(*ssa.FieldAddr); isFA {
						for _, st := range storesTo(fa) {
							bad = st
						}
					}
					if st, isSt := ref.(*ssa.Store); isSt && st.Addr == ssa.Value(prm) {
						bad = st
					}
				}
				pos := f.Pos()
				if bad != nil {
					pos = bad.Pos()
				}
				r.Ob("P14", shortName(f), "the write path leaves the reply it was handed unchanged", pos, bad == nil,
					"a function of the write path assigns a member of the reply object it was given: what goes out is not what the handler replied")
			}
		}
		if n == 0 {
			r.Unresolved("P14", "write-path function taking the reply object")
		}
	})
	ro := DiscoverRoles(p)
	T := ro.T
	cm := buildClientModel(p, ro)
	entry := dispatchView(p, ro)
	if cm.Send == nil || cm.Decode == nil || cm.CallLit == nil || entry == nil {
		r.Unresolved("P1", "client Send/receive and service dispatch entry")
		return
	}
	sdec := decodeSitesDeep(p, entry)
	if len(sdec) != 1 {
		r.Unresolved("P1", "request decode in the dispatch entry")
		return
	}
	reqSt := derefStruct(sdec[0].Target.Type())
	repSt := derefStruct(cm.Decode.Target.Type())
	callSt := cm.CallLit.Type().(*types.Pointer).Elem().Underlying().(*types.Struct)
	replyT := replyF.Type
	if reqSt == nil || repSt == nil || replyT == nil {
		r.Unresolved("P1", "wire structs")
		return
	}
	replySt := replyT.Underlying().(*types.Struct)
	// ---- P1
	r.Guard("P1", func() {
		for _, x := range []struct {
			st   *types.Struct
			what string
			fn   *ssa.Function
		}{{reqSt, "decoded request", entry}, {repSt, "decoded reply", cm.Recv}} {
			i, fld := structFieldByJSON(x.st, "parameters")
			ok := false
			if i >= 0 {
				t := fld.Type()
				if pt, isP := t.(*types.Pointer); isP {
					t = pt.Elem()
				}
				ok = isNamed(t, "encoding/json", "RawMessage")
			}
			r.Ob("P1", shortName(x.fn), x.what+": member `parameters` is json.RawMessage", x.fn.Pos(), ok,
				"the parameters are decoded generically by the library before the user's typed decode: integers beyond 2^53 lose digits, numbers change representation")
		}
	})
	// ---- P2
	r.Guard("P2", func() {
		// service side: functions with *Call receiver that decode c.In.<parameters member>
		_, pf := structFieldByJSON(reqSt, "parameters")
		n := 0
		for _, f := range p.FuncsOf(pkgVarlink) {
			for _, d := range decodeSites(f) {
				dt := strip(T.T(d.Data))
				if pf == nil || !strings.HasSuffix(dt, ".In."+pf.Name()+")") && !strings.HasSuffix(dt, ".In."+pf.Name()) {
					continue
				}
				n++
				okData := dt == "*(param:"+f.Params[0].Name()+".In."+pf.Name()+")"
				okTarget := false
				for _, prm := range f.Params {
					if strip(T.T(d.Call.Call.Args[1])) == "param:"+prm.Name() {
						okTarget = true
					}
				}
				okNil := hasFactRe(T.FactsAt(d.Call.Block()), `^NE\(nil,param:\w+\.In\.`+pf.Name()+`\)$`)
				r.Ob("P2", shortName(f), "the handler decodes exactly the raw request parameters into its own value (nil-guarded)", d.Call.Pos(), okData && okTarget && okNil,
					fmt.Sprintf("data=%s (raw request parameters: %v), target is the caller's value: %v, nil-guarded: %v", dt, okData, okTarget, okNil))
				// ... and it reports success only for what the decoder did: every return is the decoder's verdict or an
				// error of its own (a shortcut for "empty" parameters leaves the caller's value as it was)
				if res := f.Signature.Results(); res.Len() == 1 && isErrorType(res.At(0).Type()) {
					for _, rv := range returnedValues(f, 0) {
						vt := strip(T.T(rv.Val))
						okRet := rv.Val == ssa.Value(d.Call) || strings.HasPrefix(vt, "call:fmt.Errorf(") || strings.HasPrefix(vt, "call:errors.New(") || strings.Contains(vt, "global:")
						if !okRet && vt == "nil" {
							okRet = hasFact(T.FactsAt(rv.Ret.Block()), "EQ", T.T(d.Call), "nil")
						}
						r.Ob("P2", shortName(f), "success is reported only after the parameters were decoded", rv.Ret.Pos(), okRet,
							"returns "+vt+" without the decoder having run: the handler's value keeps whatever it held (null, or the previous call's data) although the client passed an object")
					}
				}
			}
		}
		if n == 0 {
			r.Unresolved("P2", "handler-facing decode of the request parameters")
		}
		// client side
		_, rf := structFieldByJSON(repSt, "parameters")
		mT := strip(T.T(cm.Decode.Target))
		n = 0
		for _, d := range decodeSites(cm.Recv) {
			if d.Call == cm.Decode.Call {
				continue
			}
			n++
			dt := strip(T.T(d.Data))
			okData := rf != nil && dt == "*("+mT+"."+rf.Name()+")"
			okTarget := strip(T.T(d.Call.Call.Args[1])) == "param:"+cm.Recv.Params[len(cm.Recv.Params)-1].Name()
			okNil := rf != nil && hasFact(T.FactsAt(d.Call.Block()), "NE", mT+"."+rf.Name(), "nil")
			r.Ob("P2", shortName(cm.Recv), "receive decodes exactly the raw reply parameters into the caller's value (nil-guarded)", d.Call.Pos(), okData && okTarget && okNil,
				fmt.Sprintf("data=%s, target is the caller's value: %v, nil-guarded: %v", dt, okTarget, okNil))
		}
		if n == 0 {
			r.Ob("P2", shortName(cm.Recv), "receive decodes the reply parameters", cm.Recv.Pos(), false, "the reply parameters are never decoded into the caller's value")
		}
	})
	// ---- P3
	r.Guard("P3", func() {
		_, cf := structFieldByJSON(callSt, "parameters")
		vals := fieldStores(cm.CallLit)[cf.Name()]
		okS := len(vals) == 1 && strings.HasPrefix(strip(T.T(vals[0])), "param:")
		r.Ob("P3", shortName(cm.Send), "Send marshals its parameters argument unchanged", cm.CallLit.Pos(), okS, fmt.Sprintf("call.parameters = %v", termsOf(T, vals)))
		n := 0
		for _, f := range p.FuncsOf(pkgVarlink) {
			for _, b := range f.Blocks {
				for _, in := range b.Instrs {
					a, ok := in.(*ssa.Alloc)
					if !ok {
						continue
					}
					if pt, ok := a.Type().(*types.Pointer); !ok || !types.Identical(pt.Elem(), replyT) {
						continue
					}
					n++
					vals := fieldStores(a)[replyF.Parameters]
					okk := len(vals) <= 1
					// a function of the generic reply API (it has an interface-typed parameters argument) must pass
					// that argument on; a typed helper (no such argument) builds its own typed value, whose content
					// is the business of C04.T9 / C12.X2
					generic := false
					for _, prm := range f.Params {
						if it, ok := prm.Type().Underlying().(*types.Interface); ok && it.NumMethods() == 0 {
							generic = true
						}
					}
					for _, v := range vals {
						if strings.HasPrefix(strip(T.T(v)), "param:") {
							continue
						}
						if al := unwrapAlloc(v); !generic && al != nil && al.Parent() == f && derefStruct(al.Type()) != nil {
							continue
						}
						okk = false
					}
					r.Ob("P3", shortName(f), "reply literal carries the function's parameters argument unchanged", a.Pos(), okk, fmt.Sprintf("reply.Parameters = %v", termsOf(T, vals)))
				}
			}
		}
		if n == 0 {
			r.Unresolved("P3", "serviceReply literals")
		}
	})
	// ---- P4
	r.Guard("P4", func() {
		cmp := func(what string, enc, dec map[string]string, want map[string]string) {
			var ks []string
			for k := range want {
				ks = append(ks, k)
			}
			sort.Strings(ks)
			for _, k := range ks {
				e, d := enc[k], dec[k]
				okE := e == want[k] || (want[k] == "payload" && (e == "any" || e == "raw"))
				okD := d == want[k] || (want[k] == "payload" && d == "raw")
				r.Ob("P4", what, "key "+k+": encoder "+e+" / decoder "+d, cm.Send.Pos(), okE && okD,
					fmt.Sprintf("wire member %q: encoder side has kind %q, decoder side %q, the protocol needs %q on both", k, e, d, want[k]))
			}
			for k := range enc {
				if _, ok := want[k]; !ok {
					r.Ob("P4", what, "encoder emits only protocol members (extra key "+k+")", cm.Send.Pos(), false, "a member outside the protocol is put on the wire")
				}
			}
		}
		cmp("call", jsonKeysOf(callSt), jsonKeysOf(reqSt), map[string]string{"method": "string", "parameters": "payload", "more": "bool", "oneway": "bool", "upgrade": "bool"})
		cmp("reply", jsonKeysOf(replySt), jsonKeysOf(repSt), map[string]string{"parameters": "payload", "continues": "bool", "error": "string"})
	})
	// ---- P5
	r.Guard("P5", func() {
		fc := flagConsts(p)
		_, cf := structFieldByJSON(repSt, "continues")
		if cf == nil {
			r.Unresolved("P5", "continues member of the decoded reply")
			return
		}
		mT := strip(T.T(cm.Decode.Target)) + "." + cf.Name()
		n := 0
		for _, rv := range returnedValues(cm.Recv, 1) {
			if T.T(rv.Val) != "nil" {
				continue
			}
			n++
			fs := T.FactsAt(rv.Ret.Block())
			flag := strip(T.T(rv.Ret.Results[0]))
			isT := hasFact(fs, "EQ", mT, "const:true")
			isF := hasFact(fs, "EQ", mT, "const:false")
			want := "const:0"
			if isT {
				want = fmt.Sprintf("const:%d", fc["Continues"])
			}
			r.Ob("P5", shortName(cm.Recv), "a success return reports Continues exactly when the frame's continues member is true", rv.Ret.Pos(), (isT || isF) && flag == want,
				fmt.Sprintf("success return with flags %s; continues member known true=%v / false=%v here: a reply of a more-sequence would be taken for the last one (or vice versa)", flag, isT, isF))
		}
		if n < 2 {
			r.Ob("P5", shortName(cm.Recv), "both outcomes (continues / final) exist", cm.Recv.Pos(), false, fmt.Sprintf("%d success returns", n))
		}
	})
	// ---- P7: the frame bytes reach the decoder unchanged on every transport (shared read primitive)
	r.Guard("P7", func() {
		ctxioFrameReadRules(r, p, T, ro.CG, "P7")
		r.Floor("P7", 2)
	})
	// ---- P6
	r.Guard("P6", func() {
		pc := p.NamedType(pkgVarlink, "PipeCon")
		if pc == nil {
			r.Unresolved("P6", "PipeCon")
			return
		}
		// the two pipe ends by type (the member with a Read method, the member with a Write method), not by name
		rdF, wrF := "", ""
		if st, ok := pc.Underlying().(*types.Struct); ok {
			for i := 0; i < st.NumFields(); i++ {
				ms := types.NewMethodSet(st.Field(i).Type())
				hasR, hasW := ms.Lookup(nil, "Read") != nil, ms.Lookup(nil, "Write") != nil
				switch {
				case hasR && !hasW:
					rdF = st.Field(i).Name()
				case hasW && !hasR:
					wrF = st.Field(i).Name()
				}
			}
		}
		if rdF == "" || wrF == "" {
			r.Unresolved("P6", "the read end and the write end among PipeCon's members")
			return
		}
		for _, m := range []struct{ name, field string }{{"Read", rdF}, {"Write", wrF}} {
			f := p.Func(pkgVarlink, "PipeCon."+m.name)
			ok := false
			detail := "method missing"
			if f != nil {
				detail = ""
				for _, rv := range returnedValues(f, 0) {
					t := strip(T.T(rv.Val))
					want := "ext(call:invoke:" + m.name + "(param:" + f.Params[0].Name() + "." + m.field + ",param:" + f.Params[1].Name() + "),0)"
					ok = t == want
					detail = "returns " + t + ", expected " + want
				}
			}
			r.Ob("P6", "PipeCon."+m.name, "pipe "+m.name+" passes the caller's slice to the "+m.field+" end and returns its result", pc.Obj().Pos(), ok, detail)
		}
		// the child is reaped only by the transport's Close, after both pipe ends were closed: os/exec's Wait closes the
		// parent's pipe ends, so a Wait that can run earlier (another goroutine, another method) discards replies the
		// client has not read yet
		nw := 0
		for _, f := range p.FuncsOf(pkgVarlink) {
			for _, cs := range callsIn(f, false) {
				name := calleeName(cs.Common)
				if name != "exec.Cmd.Wait" && name != "os.Process.Wait" && name != "exec.Cmd.Run" && name != "exec.Cmd.Output" && name != "exec.Cmd.CombinedOutput" {
					continue
				}
				nw++
				root := f
				for root.Parent() != nil {
					root = root.Parent()
				}
				inClose := f.Parent() == nil && f.Name() == "Close" && f.Signature.Recv() != nil && types.Identical(derefT(f.Signature.Recv().Type()), pc)
				_, isCall := cs.Instr.(*ssa.Call)
				closed := 0
				if inClose {
					for _, fld := range []string{rdF, wrF} {
						fld := fld
						ok, _ := everyPathPasses(f, nil, func(i ssa.Instruction) bool { return i == cs.Instr }, func(i ssa.Instruction) bool {
							c, ok := i.(*ssa.Call)
							return ok && c.Call.IsInvoke() && c.Call.Method.Name() == "Close" && strings.HasSuffix(strip(T.T(c.Call.Value)), "."+fld)
						})
						if ok {
							closed++
						}
					}
				}
				r.Ob("P6", shortName(f), "the bridge process is waited for only in the transport's Close, after both pipe ends are closed", cs.Instr.Pos(), inClose && isCall && closed == 2,
					fmt.Sprintf("%s is called in %s (in the transport's Close: %v, pipe ends closed before: %d of 2): exec's Wait closes the pipes once the child exits, so output the client has not read yet is lost", name, shortName(f), inClose, closed))
			}
		}
		if nw == 0 {
			r.Ob("P6", "PipeCon.Close", "the bridge process is reaped by Close", pc.Obj().Pos(), false, "no Wait on the bridge process: it is never reaped")
		}
		// bridge wiring
		n := 0
		for _, f := range p.FuncsOf(pkgVarlink) {
			for _, b := range f.Blocks {
				for _, in := range b.Instrs {
					a, ok := in.(*ssa.Alloc)
					if !ok {
						continue
					}
					if pt, ok := a.Type().(*types.Pointer); !ok || !types.Identical(pt.Elem(), pc) {
						continue
					}
					fs := fieldStores(a)
					if len(fs) == 0 {
						continue // a by-value receiver spill, not a literal
					}
					n++
					rd, wr := termsOf(T, fs[rdF]), termsOf(T, fs[wrF])
					okk := len(fs[rdF]) == 1 && pipeOrigin(T, fs[rdF][0], "exec.Cmd.StdoutPipe", 0) && len(fs[wrF]) == 1 && pipeOrigin(T, fs[wrF][0], "exec.Cmd.StdinPipe", 0)
					r.Ob("P6", shortName(f), "bridge reads the child's stdout and writes its stdin", a.Pos(), okk, fmt.Sprintf("reader=%v writer=%v", rd, wr))
					// ... and the command is running: every success return of the constructor has passed cmd.Start() and
					// seen its error nil (in the constructor's inlined view: the platform files share one body or not)
					top := f
					for top.Parent() != nil {
						top = top.Parent()
					}
					v := p.Inlined(top, nil)
					var starts []*ssa.Call
					for _, cs := range callsNamed(v, false, "exec.Cmd.Start") {
						if c, ok := cs.Instr.(*ssa.Call); ok {
							starts = append(starts, c)
						}
					}
					if res := v.Signature.Results(); res.Len() > 0 && isErrorType(res.At(res.Len()-1).Type()) {
						for _, rv := range returnedValues(v, res.Len()-1) {
							if k, isK := rv.Val.(*ssa.Const); !isK || !k.IsNil() {
								continue
							}
							started := false
							for _, sc := range starts {
								if hasFact(T.FactsAt(rv.Ret.Block()), "EQ", T.T(sc), "nil") {
									started = true
								}
							}
							r.Ob("P6", shortName(v), "the bridge command has been started (Start() == nil) wherever the constructor succeeds", rv.Ret.Pos(), started,
								"a connection is returned although the bridge command was not started, or its start is not known to have succeeded: every call on it blocks or fails")
						}
					}
				}
			}
		}
		if n == 0 {
			r.Unresolved("P6", "construction of the bridge pipe")
		}
	})
}

// pipeOrigin: v is result #0 of the named os/exec call, possibly wrapped in a repo struct literal that holds it.
func pipeOrigin(T *Terms, v ssa.Value, call string, depth int) bool {
	if depth > 3 {
		return false
	}
	if strings.HasPrefix(strip(T.T(v)), "ext(call:"+call+"(") {
		return true
	}
	if al := unwrapAlloc(v); al != nil {
		for _, vals := range fieldStores(al) {
			for _, x := range vals {
				if pipeOrigin(T, x, call, depth+1) {
					return true
				}
			}
		}
	}
	return false
}

func derefT(t types.Type) types.Type {
	if pt, ok := t.(*types.Pointer); ok {
		return pt.Elem()
	}
	return t
}
