package main

import (
	"fmt"
	"go/constant"
	"go/types"
	"regexp"
	"strconv"
	"strings"

	"golang.org/x/tools/go/ssa"
)

func init() {
	register(&propDef{
		id: "C11", level: "other", perCfg: false,
		explain: "Necessary structural conditions of C11, decided for all paths of the client's Send and of the receive function it returns (found by role: the function in package varlink that marshals a call struct and writes it on a Connection's wrapper; its closure that reads a frame). N1 forbidden flag pairs: with both tests of (More,Oneway) resp. (More,Upgrade) taken true, neither json.Marshal nor the write nor a success return is reachable. N2 flag fidelity: each bool member of the marshalled call struct with JSON key more/oneway/upgrade is exactly `flags & <exported constant of that name> != 0`; the four flag constants are distinct single bits; method and parameters members are the arguments unchanged. N3 EOF mapping: on the write path and on the read path the edge `err == io.EOF` returns io.ErrUnexpectedEOF, other errors are returned unchanged, and the decode resp. the success return require err == nil. N4: the frame is decoded into a fresh zero value, a decode error is returned at once; error != \"\" returns DispatchError() of Error{Name: error, Parameters: raw parameters}; otherwise the success returns. N5: exactly one frame read per receive call. N7: the shared frame-read primitive reads each frame with one direct bufio.Reader.ReadBytes in its helper (no second read path) and returns it unchanged (re-evaluated from C02.F2). N6: panic census over the client functions. N9 (= C12.X3) the Error value handed to the typed-error conversion has Name and Parameters set on every path. N1 also converse: the flag combinations the protocol allows are not refused. N2 also: the convenience wrappers pass exactly the flag constants their name says. N4 also: every frame read reaches the decoder unchanged. N8 (= C12.X2). N10 error discipline of the client side (engine errdisc).",
		notDec:  "Behaviour of encoding/json on wrong-shape documents (a frame that is not an object of the reply's shape fails to decode - library contract); the discarded decode error of reply parameters into the caller's value (outside the statement).",
		trusted: []string{"bufio.Reader.ReadBytes returns io.EOF (with the partial data) iff the stream ends before the delimiter", "encoding/json.Unmarshal fails for a value that is not an object or null when decoding into a struct"},
		run:     runC11,
	})
}

type clientModel struct {
	Send      *ssa.Function // inlined view (package helpers inlined, exported API kept as calls)
	SendBuilt *ssa.Function
	Recv      *ssa.Function
	Write     *ssa.Call
	Marshal   *ssa.Call
	Read      *ssa.Call
	Decode    *decodeSite
	CallLit   *ssa.Alloc // the marshalled call struct
}

func buildClientModel(p *Prog, ro *Roles) *clientModel {
	T := ro.T
	cm := &clientModel{}
	// Send: the function of package varlink that - with the package's unexported helpers inlined (a shared frame
	// writer, an error-mapping helper) - writes on the client connection wrapper; the exported API stays calls, so
	// Call/Upgrade are not mistaken for it
	keepAPI := func(callee *ssa.Function) bool {
		return fnPkgPath(callee) != pkgVarlink || callee.Object() != nil && callee.Object().Exported()
	}
	type cand struct {
		f, v *ssa.Function
		w    *ssa.Call
	}
	var cands []cand
	for _, f := range p.FuncsOf(pkgVarlink) {
		if f.Parent() != nil {
			continue
		}
		v := p.Inlined(f, keepAPI)
		for _, cs := range callsIn(v, false) {
			if isProtoWrite(cs) && isClientConnRecv(recvOf(cs)) && !ro.rootedInCall(recvOf(cs)) {
				if c, ok := cs.Instr.(*ssa.Call); ok {
					cands = append(cands, cand{f, v, c})
				}
			}
		}
	}
	for _, c := range cands {
		helper := false
		for _, d := range cands {
			if d.f != c.f && ro.CG.Reach([]*ssa.Function{d.f}, false)[c.f] {
				helper = true
			}
		}
		if !helper {
			cm.Send, cm.SendBuilt, cm.Write = c.v, c.f, c.w
		}
	}
	if cm.Send == nil {
		return cm
	}
	ro.CG.AddView(cm.Send)
	for _, cs := range callsNamed(cm.Send, false, "json.Marshal") {
		cm.Marshal, _ = cs.Instr.(*ssa.Call)
	}
	if cm.Marshal != nil {
		cm.CallLit = unwrapAllocThroughLoad(cm.Marshal.Call.Args[0])
	} else {
		// the encoder is reached through a helper outside the view: the call of Send that hands a struct literal to a
		// function from which json.Marshal / Encoder.Encode is reachable
		cg := ro.CG
		for _, cs := range callsIn(cm.Send, false) {
			c, ok := cs.Instr.(*ssa.Call)
			t := cs.Common.StaticCallee()
			if !ok || t == nil || !p.InRepo(t) {
				continue
			}
			enc := false
			for g := range cg.Reach([]*ssa.Function{t}, false) {
				for _, c2 := range callsIn(g, false) {
					if n := c2.Name(); n == "json.Marshal" || n == "json.Encoder.Encode" {
						enc = true
					}
				}
			}
			if !enc {
				continue
			}
			for _, a := range cs.Common.Args {
				if al := unwrapAllocThroughLoad(a); al != nil && derefStruct(al.Type()) != nil {
					cm.Marshal, cm.CallLit = c, al
				}
			}
		}
	}
	// the receive function: what Send returns as its function result - a closure of Send or a method value
	// (c.receiveReply) - found through the returned MakeClosure, not by name
	var recvCands []*ssa.Function
	recvCands = append(recvCands, cm.SendBuilt.AnonFuncs...)
	for _, rv := range returnedValues(cm.SendBuilt, 0) {
		mc, ok := rv.Val.(*ssa.MakeClosure)
		if !ok {
			continue
		}
		fn, _ := mc.Fn.(*ssa.Function)
		if fn == nil {
			continue
		}
		if fn.Synthetic != "" {
			// bound method wrapper: its body calls the method
			for _, cs := range callsIn(fn, false) {
				if t := cs.Common.StaticCallee(); t != nil && p.InRepo(t) {
					recvCands = appendFn(recvCands, t)
				}
			}
		} else {
			recvCands = appendFn(recvCands, fn)
		}
	}
	for _, a := range recvCands {
		for _, cs := range callsIn(a, false) {
			if isProtoReadBytes(cs) {
				cm.Recv = a
				cm.Read, _ = cs.Instr.(*ssa.Call)
			}
		}
	}
	if cm.Recv == nil {
		// the frame read may be written in a helper of the receive function (`c.readReply(ctx)`)
		for _, a := range recvCands {
			v := p.Inlined(a, keepAPI)
			for _, cs := range callsIn(v, false) {
				if isProtoReadBytes(cs) {
					cm.Recv = a
				}
			}
		}
	}
	// the receive function is analysed in its inlined view (helpers of package varlink such as a frame type's
	// payload() are part of it)
	if cm.Recv != nil {
		v := p.Inlined(cm.Recv, func(callee *ssa.Function) bool {
			// exported API (DispatchError, ...) stays a call: the rules name it
			return fnPkgPath(callee) != pkgVarlink || callee.Object() != nil && callee.Object().Exported()
		})
		cm.Recv, cm.Read = v, nil
		for _, cs := range callsIn(v, false) {
			if isProtoReadBytes(cs) {
				cm.Read, _ = cs.Instr.(*ssa.Call)
			}
		}
	}
	if cm.Recv != nil && cm.Read != nil {
		for _, d := range decodeSites(cm.Recv) {
			if strings.Contains(T.T(d.Data), T.T(cm.Read)) {
				dd := d
				cm.Decode = &dd
			}
		}
	}
	return cm
}

// unwrapAllocThroughLoad: MakeInterface(load(alloc)) -> alloc (a struct literal passed by value).
func unwrapAllocThroughLoad(v ssa.Value) *ssa.Alloc {
	if mi, ok := v.(*ssa.MakeInterface); ok {
		v = mi.X
	}
	if ld, ok := v.(*ssa.UnOp); ok {
		if a, ok := ld.X.(*ssa.Alloc); ok {
			return a
		}
	}
	if a, ok := v.(*ssa.Alloc); ok {
		return a
	}
	return nil
}

func flagConsts(p *Prog) map[string]int64 {
	out := map[string]int64{}
	sc := p.Pkgs[pkgVarlink].Types.Scope()
	for _, n := range []string{"More", "Oneway", "Continues", "Upgrade"} {
		if c, ok := sc.Lookup(n).(*types.Const); ok {
			if v, ok := constant.Int64Val(c.Val()); ok {
				out[n] = v
			}
		}
	}
	return out
}

func isIOErr(T *Terms, v ssa.Value, name string) bool {
	return strip(T.T(v)) == "global:io."+name
}

func runC11(r *Run, p *Prog) {
	// N8: the remote error of an error frame keeps its name unless it is one of the four org.varlink.service errors
	siblingRules(r, p, "C12", []string{"X2"}, "N8")
	// N9: the remote error for an error frame is built without crashing: the Error value handed to the typed-error
	// conversion has both members set on every path (the conversion asserts the dynamic type of Parameters)
	siblingRules(r, p, "C12", []string{"X3"}, "N9")
	// N10: error discipline of the client side of the package (errdisc.go)
	r.Guard("N10", func() {
		ro := DiscoverRoles(p)
		svc := serviceSideFuncs(p, ro)
		var fns []*ssa.Function
		for _, f := range p.FuncsOf(pkgVarlink) {
			if !svc[f] {
				fns = append(fns, f)
			}
		}
		errorDiscipline(r, p, ro.T, "N10", fns)
		r.Floor("N10", 5)
	})
	ro := DiscoverRoles(p)
	T := ro.T
	cm := buildClientModel(p, ro)
	if cm.Send == nil || cm.Marshal == nil || cm.Recv == nil || cm.Read == nil || cm.Decode == nil || cm.CallLit == nil {
		r.Unresolved("N1", "client Send (marshal + write on the connection wrapper) and its receive closure (frame read + decode)")
		return
	}
	send, recv := cm.Send, cm.Recv
	fc := flagConsts(p)
	var flagsP string
	for _, prm := range send.Params {
		if b, ok := prm.Type().Underlying().(*types.Basic); ok && b.Info()&types.IsInteger != 0 {
			flagsP = "param:" + prm.Name()
		}
	}
	flagTerm := func(name string) string { return fmt.Sprintf("(%s & const:%d)", flagsP, fc[name]) }
	// what a fact about `flags & M` (M a constant mask) says about one flag bit: `flags&M == C` fixes every bit of M;
	// `flags&M != 0` says "set" only for a single-bit M. So `flags&More != 0`, `flags&More == More` and
	// `flags&(More|Oneway) == More|Oneway` are all understood.
	reMask := regexp.MustCompile(`^\(` + regexp.QuoteMeta(flagsP) + ` & const:(\d+)\)$`)
	flagFact := func(fs []Fact, name string, set bool) bool {
		bit := fc[name]
		for _, f := range fs {
			for _, pr := range [][2]string{{f.A, f.B}, {f.B, f.A}} {
				m := reMask.FindStringSubmatch(strip(pr[0]))
				if m == nil || !strings.HasPrefix(pr[1], "const:") {
					continue
				}
				mask, err1 := strconv.ParseInt(m[1], 10, 64)
				c, err2 := strconv.ParseInt(strings.TrimPrefix(pr[1], "const:"), 10, 64)
				if err1 != nil || err2 != nil || mask&bit == 0 {
					continue
				}
				switch f.Op {
				case "EQ":
					if c&^mask != 0 {
						continue
					}
					if set == (c&bit != 0) {
						return true
					}
				case "NE":
					// flags&M != C: informative only for the single-bit mask
					if mask == bit && (c == 0 && set || c == bit && !set) {
						return true
					}
				}
			}
		}
		return false
	}
	_ = flagTerm
	// bothSetContradicted: the facts cannot hold when every bit of `bits` is set: `flags&M != M` (or `== C` with a bit
	// of `bits` missing in C) for a mask M inside `bits` - the negated side of a combined test
	// `flags&(More|Oneway) == More|Oneway`.
	bothSetContradicted := func(fs []Fact, bits int64) bool {
		for _, f := range fs {
			for _, pr := range [][2]string{{f.A, f.B}, {f.B, f.A}} {
				m := reMask.FindStringSubmatch(strip(pr[0]))
				if m == nil || !strings.HasPrefix(pr[1], "const:") {
					continue
				}
				mask, err1 := strconv.ParseInt(m[1], 10, 64)
				c, err2 := strconv.ParseInt(strings.TrimPrefix(pr[1], "const:"), 10, 64)
				if err1 != nil || err2 != nil {
					continue
				}
				known := mask & bits // bits of the masked value that are 1 under the assumption
				switch f.Op {
				case "NE":
					if mask&^bits == 0 && c == mask {
						return true // the masked value is exactly `mask` under the assumption
					}
				case "EQ":
					if known&^c != 0 {
						return true // a bit assumed set is required to be clear
					}
				}
			}
		}
		return false
	}
	r.Guard("N2c", func() {
		ok := len(fc) == 4
		seen := map[int64]bool{}
		for _, v := range fc {
			if v <= 0 || v&(v-1) != 0 || seen[v] {
				ok = false
			}
			seen[v] = true
		}
		r.Ob("N2", "-", "More, Oneway, Continues, Upgrade are distinct single-bit constants", p.Pkgs[pkgVarlink].Types.Scope().Lookup("More").Pos(), ok, fmt.Sprintf("flag constants: %v", fc))
	})
	// ---- N1
	r.Guard("N1", func() {
		for _, pair := range [][2]string{{"More", "Oneway"}, {"More", "Upgrade"}} {
			a, b := pair[0], pair[1]
			reach, w := reachInstr(send, nil, func(in ssa.Instruction) bool {
				return in == ssa.Instruction(cm.Marshal) || in == ssa.Instruction(cm.Write) || isNilErrorReturn(in)
			}, nil, func(x, y *ssa.BasicBlock) bool {
				fs := T.edgeFactsOn(x, y)
				return flagFact(fs, a, false) || flagFact(fs, b, false) || bothSetContradicted(fs, fc[a]|fc[b])
			})
			r.Ob("N1", shortName(send), a+" with "+b+" is refused before anything is marshalled or written", send.Pos(), !reach,
				"with both "+a+" and "+b+" set, the marshal, the write or a success return is reachable: the forbidden combination goes out on the wire", witnessPos(p, w)...)
		}
	})
	// ---- N1 converse: nothing else is refused. For every combination of More/Oneway/Upgrade that the protocol allows,
	// no error return in front of the marshal is reachable on paths consistent with that combination
	r.Guard("N1", func() {
		names := []string{"More", "Oneway", "Upgrade"}
		for mask := 0; mask < 8; mask++ {
			set := map[string]bool{"More": mask&1 != 0, "Oneway": mask&2 != 0, "Upgrade": mask&4 != 0}
			if set["More"] && (set["Oneway"] || set["Upgrade"]) {
				continue
			}
			var on []string
			for _, nm := range names {
				if set[nm] {
					on = append(on, nm)
				}
			}
			reach, w := reachInstr(send, nil, func(in ssa.Instruction) bool {
				ret, ok := in.(*ssa.Return)
				if !ok || len(ret.Results) == 0 {
					return false
				}
				if cm.Marshal.Block() == ret.Block() || cm.Marshal.Block().Dominates(ret.Block()) {
					return false // after the marshal: encoder and I/O errors are not refusals of the flags
				}
				k, isK := ret.Results[len(ret.Results)-1].(*ssa.Const)
				return !(isK && k.IsNil())
			}, func(in ssa.Instruction) bool { return in == ssa.Instruction(cm.Marshal) }, func(x, y *ssa.BasicBlock) bool {
				fs := T.edgeFactsOn(x, y)
				for _, nm := range names {
					if flagFact(fs, nm, !set[nm]) {
						return true // this edge needs the flag to be the other way round
					}
				}
				return false
			})
			what := "no flag"
			if len(on) > 0 {
				what = strings.Join(on, "+")
			}
			r.Ob("N1", shortName(send), "a call with "+what+" is not refused", send.Pos(), !reach,
				"an error return in front of the marshal is reachable for a call with "+what+" (of More/Oneway/Upgrade): a combination the protocol allows is refused, or the flag tests are not `flags&X != 0`", witnessPos(p, w)...)
		}
	})
	// ---- N2 (wrappers): the convenience functions of the package request exactly the flags their contract says: Call
	// and everything built on it none, Upgrade the Upgrade flag; a flags parameter of the wrapper is passed through
	r.Guard("N2", func() {
		n := 0
		for _, f := range p.FuncsOf(pkgVarlink) {
			for _, cs := range callsIn(f, false) {
				if staticTarget(cs.Common) != cm.SendBuilt || f == cm.SendBuilt {
					continue
				}
				a := cs.Common.Args
				fl := a[len(a)-1]
				n++
				want := int64(0)
				top := f
				for top.Parent() != nil {
					top = top.Parent()
				}
				if top.Name() == "Upgrade" {
					want = fc["Upgrade"]
				}
				okf := false
				if k, isK := fl.(*ssa.Const); isK && k.Value != nil {
					okf = k.Int64() == want
				} else if _, isPar := fl.(*ssa.Parameter); isPar {
					okf = true
				}
				r.Ob("N2", shortName(f), fmt.Sprintf("%s requests the flags of its contract (%d)", shortName(top), want), cs.Instr.Pos(), okf,
					"the call is sent with flags "+strip(T.T(fl))+": a plain call that sets more/oneway/upgrade gets no reply, several replies, or a connection switched to another protocol")
			}
		}
		r.Stat("N2_wrapper_calls", n)
	})
	// ---- N2
	r.Guard("N2", func() {
		st := cm.CallLit.Type().(*types.Pointer).Elem().Underlying().(*types.Struct)
		fs := fieldStores(cm.CallLit)
		for _, key := range []string{"more", "oneway", "upgrade"} {
			i, fld := structFieldByJSON(st, key)
			if i < 0 {
				r.Ob("N2", shortName(send), "call struct has a member with JSON key "+key, cm.CallLit.Pos(), false, "no such member: the flag is never sent")
				continue
			}
			name := strings.Title(key)
			vals := fs[fld.Name()]
			want := "(" + flagTerm(name) + " != const:0)"
			ok := len(vals) == 1 && strip(T.T(vals[0])) == want
			detail := fmt.Sprintf("member %s (key %q) is %v; expected exactly %s", fld.Name(), key, termsOf(T, vals), want)
			if !ok && len(vals) == 1 {
				// conditional-store idiom: a single `m.F = true` whose only flag guard is this flag's test, and that
				// test is evaluated on every path to the marshal
				if k, isK := vals[0].(*ssa.Const); isK && constTerm(k) == "const:true" {
					detail += " (conditional stores are accepted only when guarded by exactly that flag test on every path)"
					var store *ssa.Store
					for _, ref := range *cm.CallLit.Referrers() {
						if fa, isFa := ref.(*ssa.FieldAddr); isFa && fa.Field == i {
							for _, st := range storesTo(fa) {
								store = st
							}
						}
					}
					if store != nil {
						own, other := false, false
						for _, f := range T.FactsAt(store.Block()) {
							if !strings.Contains(f.A+f.B, flagsP+" & ") {
								continue
							}
							if flagFact([]Fact{f}, name, true) {
								own = true
							} else {
								other = true
							}
						}
						var test ssa.Instruction
						for d := store.Block().Idom(); d != nil && test == nil; d = d.Idom() {
							if len(T.edgeFactsOn(d, d.Succs[0])) > 0 && (flagFact(T.edgeFactsOn(d, d.Succs[0]), name, true) || flagFact(T.edgeFactsOn(d, d.Succs[0]), name, false)) {
								test = d.Instrs[len(d.Instrs)-1]
							}
						}
						if own && !other && test != nil {
							if always, _ := everyPathPasses(send, nil, func(in ssa.Instruction) bool { return in == ssa.Instruction(cm.Marshal) }, func(in ssa.Instruction) bool { return in == test }); always {
								ok = true
							}
						}
					}
				}
			}
			r.Ob("N2", shortName(send), "member "+key+" = flags & "+name+" != 0", cm.CallLit.Pos(), ok, detail)
			b, isB := fld.Type().Underlying().(*types.Basic)
			r.Ob("N2", shortName(send), "member "+key+" is a bool", fld.Pos(), isB && b.Kind() == types.Bool, "")
		}
		for key, prm := range map[string]int{"method": 2, "parameters": 3} {
			i, fld := structFieldByJSON(st, key)
			if i < 0 || prm >= len(send.Params) {
				r.Ob("N2", shortName(send), "call struct has a member with JSON key "+key, cm.CallLit.Pos(), false, "missing")
				continue
			}
			vals := fs[fld.Name()]
			ok := len(vals) == 1 && strip(T.T(vals[0])) == "param:"+send.Params[prm].Name()
			r.Ob("N2", shortName(send), "member "+key+" is Send's argument unchanged", cm.CallLit.Pos(), ok, fmt.Sprintf("member is %v", termsOf(T, vals)))
		}
	})
	// ---- N3
	eofRule := func(fn *ssa.Function, errV ssa.Value, what string, use ssa.Instruction, useWhat string) {
		errT := T.T(errV)
		// the next step (decode / success) requires err == nil
		r.Ob("N3", shortName(fn), what+": "+useWhat+" requires err == nil", use.Pos(), hasFact(T.FactsAt(use.Block()), "EQ", errT, "nil"),
			useWhat+" is reachable although the "+what+" may have failed: a reply that was not fully received would be reported as success")
		n := 0
		for _, rv := range returnedValues(fn, fn.Signature.Results().Len()-1) {
			fs := T.FactsAt(rv.Ret.Block())
			if !hasFact(fs, "NE", errT, "nil") && !hasFact(fs, "EQ", errT, "*(global:io.EOF)") {
				continue // (err == io.EOF implies err != nil)
			}
			n++
			isEOF := hasFact(fs, "EQ", errT, "*(global:io.EOF)")
			notEOF := hasFact(fs, "NE", errT, "*(global:io.EOF)")
			vt := strip(T.T(rv.Val))
			switch {
			case isEOF:
				r.Ob("N3", shortName(fn), what+": io.EOF is reported as io.ErrUnexpectedEOF", rv.Ret.Pos(), vt == "*(global:io.ErrUnexpectedEOF)", "on err == io.EOF the function returns "+vt)
			case notEOF:
				r.Ob("N3", shortName(fn), what+": other errors are returned unchanged", rv.Ret.Pos(), T.T(rv.Val) == errT, "on err != io.EOF the function returns "+vt)
			default:
				r.Ob("N3", shortName(fn), what+": error return distinguishes io.EOF", rv.Ret.Pos(), T.T(rv.Val) != errT || false, "an error return after a failed "+what+" does not test for io.EOF: a stream that ends before the NUL is reported as plain EOF")
			}
		}
		if n < 2 {
			r.Ob("N3", shortName(fn), what+": both error returns (EOF and other) exist", fn.Pos(), false, fmt.Sprintf("%d error returns after a failed %s", n, what))
		}
	}
	r.Guard("N3", func() {
		wErr := &ssa.Extract{}
		_ = wErr
		// write path: success = the MakeClosure / success return
		var succ ssa.Instruction
		for _, s := range successReturns(T, send) {
			succ = s
		}
		if succ == nil {
			r.Unresolved("N3", "success return of Send")
			return
		}
		eofRule(send, extractOf(cm.Write, 1), "write", succ, "the success return")
		eofRule(recv, extractOf(cm.Read, 1), "frame read", cm.Decode.Call, "the decode")
	})
	// ---- N4
	r.Guard("N4", func() {
		ok, why := freshTarget(p, *cm.Decode)
		r.Ob("N4", shortName(recv), "the reply is decoded into a fresh zero value", cm.Decode.Call.Pos(), ok, why)
		want := "slice(ext(" + T.T(cm.Read) + ",0),nil,(call:len(ext(" + T.T(cm.Read) + ",0)) - const:1))"
		r.Ob("N4", shortName(recv), "decoded bytes are exactly the frame without its NUL", cm.Decode.Call.Pos(), T.T(cm.Decode.Data) == want, "decoded bytes are "+strip(T.T(cm.Decode.Data)))
		// every frame that was read completely is handed to the decoder: on the read-success edge no return is reachable
		// that does not pass the decode (a pre-check of the frame's first byte refuses `null`, which must count as an
		// empty reply, and decides on something other than the decoder's verdict)
		{
			readErr := "ext(" + T.T(cm.Read) + ",1)"
			for _, b := range recv.Blocks {
				for _, s := range b.Succs {
					if !hasFact(T.edgeFactsOn(b, s), "EQ", readErr, "nil") {
						continue
					}
					skip, w := reachFromBlock(recv, s, isReturn, nil)
					_ = skip
					// search again, now stopping at the decode
					reach, w2 := reachFromBlockAvoid(recv, s, isReturn, func(in ssa.Instruction) bool { return in == ssa.Instruction(cm.Decode.Call) }, nil)
					_ = w
					r.Ob("N4", shortName(recv), "a completely received frame always reaches the decoder", p.InstrPos(b.Instrs[len(b.Instrs)-1]), !reach,
						"after a successful frame read a return is reachable without decoding the frame: some frames are judged by something other than the JSON decoder (the bare literal null, for one, must be an empty reply)", witnessPos(p, w2)...)
				}
			}
		}
		decErr := T.T(cm.Decode.Call)
		// decode error returned at once
		for _, b := range recv.Blocks {
			for _, s := range b.Succs {
				if !hasFact(T.edgeFactsOn(b, s), "NE", decErr, "nil") {
					continue
				}
				okRet := len(s.Instrs) > 0
				for _, in := range s.Instrs {
					switch x := in.(type) {
					case *ssa.Return:
						if T.T(x.Results[len(x.Results)-1]) != decErr {
							okRet = false
						}
					case *ssa.DebugRef:
					default:
						okRet = false
					}
				}
				r.Ob("N4", shortName(recv), "a frame that does not decode yields the decode error at once", p.InstrPos(b.Instrs[len(b.Instrs)-1]), okRet, "on the decode-error edge something other than `return 0, err` happens")
			}
		}
		// every later use requires decErr == nil
		st := derefStruct(cm.Decode.Target.Type())
		ei, efld := structFieldByJSON(st, "error")
		pi, pfld := structFieldByJSON(st, "parameters")
		if ei < 0 || pi < 0 {
			r.Unresolved("N4", "reply members with JSON keys error / parameters")
			return
		}
		mT := strip(T.T(cm.Decode.Target))
		errM := mT + "." + efld.Name()
		parM := mT + "." + pfld.Name()
		nErr := 0
		for _, rv := range returnedValues(recv, 1) {
			fs := T.FactsAt(rv.Ret.Block())
			if !hasFact(fs, "EQ", decErr, "nil") {
				continue
			}
			isErrFrame := hasFact(fs, "NE", errM, `const:""`)
			noErrFrame := hasFact(fs, "EQ", errM, `const:""`)
			vt := strip(T.T(rv.Val))
			switch {
			case isErrFrame:
				nErr++
				okk := false
				detail := "returns " + vt
				if c, ok := rv.Val.(*ssa.Call); ok && calleeName(&c.Call) == "varlink.Error.DispatchError" {
					if a := unwrapAlloc(c.Call.Args[0]); a != nil {
						fsS := fieldStores(a)
						n, pp := fsS["Name"], fsS["Parameters"]
						okk = len(n) == 1 && strip(T.T(n[0])) == errM && len(pp) == 1 && strip(T.T(pp[0])) == parM
						detail = fmt.Sprintf("Error{Name: %v, Parameters: %v}", termsOf(T, n), termsOf(T, pp))
					}
				}
				r.Ob("N4", shortName(recv), "an error frame yields DispatchError() of Error{Name: error member, Parameters: raw parameters}", rv.Ret.Pos(), okk, detail)
			case noErrFrame:
				r.Ob("N4", shortName(recv), "a success return has a nil error", rv.Ret.Pos(), vt == "nil", "returns "+vt)
			default:
				r.Ob("N4", shortName(recv), "every return after a successful decode has examined the error member", rv.Ret.Pos(), false, "a return is reachable without testing whether the frame is an error reply")
			}
		}
		if nErr == 0 {
			r.Ob("N4", shortName(recv), "error frames are reported", recv.Pos(), false, "no return on the edge error != \"\"")
		}
	})
	// ---- N5
	r.Guard("N5", func() {
		lo, hi := countOnPaths(recv, nil, func(in ssa.Instruction) bool {
			ci, ok := in.(ssa.CallInstruction)
			return ok && isProtoReadBytes(CallSite{ci, ci.Common(), recv})
		})
		r.Ob("N5", shortName(recv), "exactly one frame read per receive", cm.Read.Pos(), lo == 1 && hi == 1 && !blockInLoop(cm.Read.Block()), fmt.Sprintf("between %d and %d frame reads per call", lo, hi))
	})
	// ---- N7: the frame bytes handed to receive are exactly the next frame (shared read primitive)
	r.Guard("N7", func() {
		ctxioFrameReadRules(r, p, T, ro.CG, "N7")
		r.Floor("N7", 2)
	})
	// ---- N6
	r.Guard("N6", func() {
		var roots []*ssa.Function
		roots = append(roots, send)
		for _, n := range []string{"Connection.Call", "Connection.Upgrade", "Connection.GetInfo", "Connection.GetInterfaceDescription", "Connection.Close", "Resolver.Resolve", "Resolver.GetInfo", "Resolver.Close", "NewResolver", "Error.DispatchError", "Error.Error"} {
			if f := p.Func(pkgVarlink, n); f != nil {
				roots = append(roots, f)
			}
		}
		fns := ro.CG.Reach(roots, false)
		// restrict to package varlink (ctxio census is part of C10)
		sel := map[*ssa.Function]bool{}
		for f := range fns {
			if fnPkgPath(f) == pkgVarlink {
				sel[f] = true
			}
		}
		n := panicCensus(r, p, T, "N6", sel)
		r.Stat("N6_panic_sites", n)
		r.Floor("N6", 2)
	})
}

func extractOf(c *ssa.Call, idx int) ssa.Value {
	for _, ref := range *c.Referrers() {
		if ex, ok := ref.(*ssa.Extract); ok && ex.Index == idx {
			return ex
		}
	}
	return c
}

func termsOf(T *Terms, vs []ssa.Value) []string {
	var out []string
	for _, v := range vs {
		out = append(out, strip(T.T(v)))
	}
	return out
}
