package main

// Inlined views (E11). A rule that speaks about what a function does "on every path" should not depend on whether a
// step is written in the function itself or in a helper it calls. Prog.Inlined(f) returns a copy of f in which the calls
// of repository functions with statically known callee are replaced by the callee's body (ssa.InlinedView, added to the
// vendored go/ssa; nothing is executed, the originals are not modified). Rules that opt in analyse the copy with the same
// engines (terms, edge facts, reachability, path counting) as any built function. Calls that are not inlined - dynamic
// calls, recursion, callees with conditional defers or recover, functions outside the repository - stay calls.

import (
	"bytes"
	"fmt"
	"go/constant"
	"go/token"
	"os"
	"sort"

	"golang.org/x/tools/go/ssa"
)

const inlineDepth = 4

type inlineKey struct {
	f     *ssa.Function
	depth int
}

var inlineCache = map[*Prog]map[inlineKey]*ssa.Function{}
var inlineOrigin = map[*ssa.Function]map[ssa.Instruction][]*ssa.Function{}
var inlineOf = map[*ssa.Function]*ssa.Function{} // inlined view -> original

// Inlined returns the inlined view of f: repo callees up to inlineDepth levels, except those for which keep returns true.
func (p *Prog) Inlined(f *ssa.Function, keep func(callee *ssa.Function) bool) *ssa.Function {
	return p.inlinedDepth(f, inlineDepth, keep)
}

// setNonNilHook: facts branch folding in views may use. The load of an error variable that is only assigned
// errors.New/fmt.Errorf by its initialiser is not nil; neither is an exported error variable of a package outside the
// repository (io.EOF, io.ErrUnexpectedEOF, context.Canceled ...: sentinel values of the standard library).
// constFuncMap: g is a package-level map from string constants to functions that is assigned only by its initialiser
// (a composite literal) and never updated, deleted from or handed out anywhere: a constant dispatch table.
func (p *Prog) constFuncMap(g *ssa.Global) []ssa.ConstMapEntry {
	mm, ok := p.ConstGlobal(g).(*ssa.MakeMap)
	if os.Getenv("VLDEBUG") == "constmap" {
		fmt.Fprintf(os.Stderr, "constFuncMap %s: const=%v ok=%v\n", g.Name(), p.ConstGlobal(g), ok)
	}
	if !ok {
		return nil
	}
	var out []ssa.ConstMapEntry
	for _, ref := range *mm.Referrers() {
		switch x := ref.(type) {
		case *ssa.MapUpdate:
			k, ok := x.Key.(*ssa.Const)
			if !ok || k.Value == nil || k.Value.Kind() != constant.String {
				return nil
			}
			v := x.Value
			for {
				if ct, ok := v.(*ssa.ChangeType); ok {
					v = ct.X
					continue
				}
				break
			}
			fn, ok := v.(*ssa.Function)
			if !ok {
				return nil
			}
			out = append(out, ssa.ConstMapEntry{Key: k, Fn: fn})
		case *ssa.Store:
			if x.Val != ssa.Value(mm) {
				return nil
			}
		case *ssa.DebugRef:
		default:
			return nil
		}
	}
	// every use of the variable in the program is a load that feeds lookups only
	for _, f := range p.Funcs {
		for _, b := range f.Blocks {
			for _, in := range b.Instrs {
				ld, ok := in.(*ssa.UnOp)
				if !ok || ld.X != ssa.Value(g) {
					continue
				}
				for _, r := range *ld.Referrers() {
					switch r.(type) {
					case *ssa.Lookup, *ssa.DebugRef:
					default:
						if c, isC := r.(*ssa.Call); isC {
							if bi, isB := c.Call.Value.(*ssa.Builtin); isB && bi.Name() == "len" {
								continue
							}
						}
						return nil
					}
				}
			}
		}
	}
	sort.Slice(out, func(i, j int) bool {
		return constant.StringVal(out[i].Key.Value) < constant.StringVal(out[j].Key.Value)
	})
	return out
}

func (p *Prog) setNonNilHook() {
	ssa.ConstFuncMapHook = p.constFuncMap
	ssa.KnownNonNilHook = func(v ssa.Value) bool {
		// strings.Split, and strings.SplitN with a constant n != 0, return a non-nil slice (n == 0 is the only nil result)
		if c, isCall := v.(*ssa.Call); isCall {
			switch calleeName(&c.Call) {
			case "strings.Split", "strings.SplitAfter":
				return true
			case "strings.SplitN", "strings.SplitAfterN":
				if len(c.Call.Args) == 3 {
					if k, isK := c.Call.Args[2].(*ssa.Const); isK && k.Value != nil && k.Int64() != 0 {
						return true
					}
				}
			}
			return false
		}
		u, ok := v.(*ssa.UnOp)
		if !ok || u.Op != token.MUL {
			return false
		}
		g, ok := u.X.(*ssa.Global)
		if !ok {
			return false
		}
		if g.Pkg != nil && g.Pkg.Pkg != nil && p.Pkgs[g.Pkg.Pkg.Path()] == nil && g.Object() != nil && g.Object().Exported() && isErrorType(u.Type()) {
			return true
		}
		if c, ok := p.ConstGlobal(g).(*ssa.Call); ok {
			switch calleeName(&c.Call) {
			case "errors.New", "fmt.Errorf":
				return true
			}
		}
		return false
	}
}

func (p *Prog) inlinedDepth(f *ssa.Function, depth int, keep func(callee *ssa.Function) bool) *ssa.Function {
	if f == nil || len(f.Blocks) == 0 {
		return f
	}
	// branch folding in views may use: the load of an error variable that is only assigned errors.New/fmt.Errorf by its
	// initialiser is not nil
	p.setNonNilHook()
	if keep == nil {
		if m := inlineCache[p]; m != nil {
			if g, ok := m[inlineKey{f, depth}]; ok {
				return g
			}
		}
	}
	nf, _, origin := ssa.InlinedView(f, func(site ssa.CallInstruction, callee *ssa.Function, d int) bool {
		if d >= depth || !p.InRepo(callee) {
			return false
		}
		if keep != nil && keep(callee) {
			return false
		}
		return true
	})
	var buf bytes.Buffer
	if !ssa.SanityCheckFunction(nf, &buf) {
		fmt.Fprintf(os.Stderr, "vlcheck: inlined view of %s is not well-formed:\n%s", funcFullName(f), buf.String())
		brokenf("inlined view of %s failed the SSA sanity check", funcFullName(f))
	}
	inlineOrigin[nf] = origin
	inlineOf[nf] = f
	if keep == nil {
		if inlineCache[p] == nil {
			inlineCache[p] = map[inlineKey]*ssa.Function{}
		}
		inlineCache[p][inlineKey{f, depth}] = nf
	}
	return nf
}

// origFn: the built function an inlined view was made from (f itself otherwise).
func origFn(f *ssa.Function) *ssa.Function {
	if o, ok := inlineOf[f]; ok {
		return o
	}
	if o, ok := ssa.ViewOf[f]; ok {
		return o // a closure copied into a view
	}
	return f
}

// inlinedFrom: the chain of callees the instruction was copied from (nil: written in the function itself).
func inlinedFrom(in ssa.Instruction) []*ssa.Function {
	if in == nil || in.Parent() == nil {
		return nil
	}
	if m := inlineOrigin[in.Parent()]; m != nil {
		return m[in]
	}
	return nil
}

// inlineSelfTest builds the inlined view of every repository function and runs the SSA sanity check on each.
func inlineSelfTest(p *Prog) (int, int) {
	n, ninl := 0, 0
	for _, f := range p.Funcs {
		if len(f.Blocks) == 0 {
			continue
		}
		nf := p.Inlined(f, nil)
		n++
		if nf != f {
			for range inlineOrigin[nf] {
				ninl++
				break
			}
		}
	}
	return n, ninl
}

// viewsOf: the inlined views made so far (in this run) of functions of fns.
func viewsOf(p *Prog, fns []*ssa.Function) []*ssa.Function {
	in := map[*ssa.Function]bool{}
	for _, f := range fns {
		in[f] = true
	}
	var out []*ssa.Function
	for k, v := range inlineCache[p] {
		if in[k.f] && v != k.f && !in[v] {
			out = append(out, v)
		}
	}
	sort.Slice(out, func(i, j int) bool { return out[i].Pos() < out[j].Pos() })
	return out
}

// isBuiltDuplicate: f is a built function of which an inlined view exists in this run (role maps keep both keys so that
// a callee found through a call instruction resolves; iterations skip the built duplicate).
func isBuiltDuplicate(f *ssa.Function) bool {
	if _, isView := inlineOf[f]; isView {
		return false
	}
	for _, o := range inlineOf {
		if o == f {
			return true
		}
	}
	return false
}
