package main

import (
	"fmt"
	"go/token"
	"go/types"
	"os"
	"os/exec"
	"path/filepath"
	"regexp"
	"regexp/syntax"
	"sort"
	"strings"

	"golang.org/x/tools/go/ssa"
)

func init() {
	register(&propDef{
		id: "C09", level: "proof", perCfg: true,
		explain: "Proof, by abstract interpretation of package idl's SSA (no input is run), of the clauses that make idl.New total, for ALL byte strings: the parser's cursor (found by shape: the struct whose string member is indexed by its int member; primitives recognised by shape: read-and-advance returning -1 at end of input, step-back) is tracked with relational bounds - ov = upper bound of position-len(input), net advance since entry, distances to every snapshot/read/token, the peek set, intervals of read results - joined at merges and widened at loops, with assume/guarantee summaries per reader (success returns guarantee cursor within the input and not before entry). Obligations, enumerated from the SSA and each discharged or the check fails: O1 every slice of the input has 0 <= lo <= hi <= len, every direct store to the position is covered by the anchored-regexp lemma; O2 every reader is entered with the cursor within the input, every success return leaves it there, every step-back stays at or after the entry position, on every back edge the cursor is within a bounded distance of the end; O3 every loop iteration and every recursion cycle consumes at least one byte (so iterations and recursion depth are bounded by len(input)+K); Q2 a possibly failed reader's result is tested before the cursor is used again (or the cursor is proved unchanged); O1 also covers a direct index input[i] in a reader (i must be a cursor snapshot known to be strictly below len(input), e.g. under `pos < len(input)`); O4 every other panic site of the package (indexes into tables, type assertions, explicit panics, divisions, regexp.MustCompile on constants which the checker compiles itself) is discharged. O1 also verifies the primitives themselves on every path: read-and-advance adds exactly 1 to the position and returns -1 iff position >= len(input), otherwise int(input[position]) under position < len; step-back subtracts exactly 1. O1x cross-checks the compiler's bounds-check-elimination report where available. O4 also: nil-dereference census - a pointer result of a reader is dereferenced only where it is known non-nil (tested, or the reader's non-nil-when-ok summary).",
		notDec:  "Memory exhaustion; stack depth beyond the stated 64 KiB input bound (depth <= input length by O3); panics or divergence inside regexp, bytes.Buffer, fmt (trusted not to panic below 2 GiB).",
		trusted: []string{"regexp (RE2) is linear and does not panic; FindString with a ^-anchored pattern returns a prefix of its argument", "bytes.Buffer and fmt.Errorf neither panic nor diverge", "a goroutine stack suffices for recursion depth <= 64 Ki frames"},
		run:     runC09,
	})
}

// emitCursor copies the cursor obligations of the given rules into the run.
func emitCursor(r *Run, res *CursorResult, rules map[string]bool) int {
	n := 0
	for _, o := range res.Obs {
		if !rules[o.rule] {
			continue
		}
		n++
		r.Ob(o.rule, o.fn, o.construct, o.pos, o.ok, o.detail)
	}
	return n
}

func runC09(r *Run, p *Prog) {
	res := RunCursor(p, pkgIDL)
	if res.Problem != "" {
		r.Unresolved("O1", res.Problem)
		return
	}
	a := res.A
	r.Note("cursor=%s primitives: read-and-advance=%s step-back=%s; readers analysed=%d; summaries stable after %d round(s)", a.cursorT.Obj().Name(), a.next.Name(), a.back.Name(), len(a.methods), res.Rounds)
	r.Ob("O2", "-", "reader summaries reach a fixpoint", a.cursorT.Obj().Pos(), res.Stable, "no fixpoint of the assume/guarantee summaries within 20 rounds: nothing can be concluded")
	n := emitCursor(r, res, map[string]bool{"O1": true, "O2": true, "O3": true, "Q2": true})
	r.Stat("cursor_obligations", n)
	r.Ob("O3", "-", "no recursion cycle of readers without consuming a byte", a.cursorT.Obj().Pos(), len(res.Cycles) == 0,
		"readers can call each other in a cycle without any of them consuming input (unbounded recursion on some input): "+strings.Join(res.Cycles, "; "))
	// the primitive's own index
	r.Ob("O1", shortName(a.next), "the read primitive indexes the input only under position < len(input)", a.next.Pos(), nextGuarded(a), "the read-and-advance primitive can index the input out of range")
	// entry points: exported functions of the package create the cursor at position 0 and call readers with it
	for _, f := range p.FuncsOf(pkgIDL) {
		if f.Parent() != nil || f.Signature.Recv() != nil || f.Object() == nil || !f.Object().Exported() {
			continue
		}
		fv := p.Inlined(f, func(c *ssa.Function) bool { return a.isCursorMethod(c) }) // (a constructor helper is part of the entry point)
		for _, b := range fv.Blocks {
			for _, in := range b.Instrs {
				al, ok := in.(*ssa.Alloc)
				if !ok {
					continue
				}
				if pt, ok := al.Type().(*types.Pointer); !ok || !a.isCursorT(pt.Elem()) {
					continue
				}
				fs := fieldStores(al)
				posName := a.cursorT.Underlying().(*types.Struct).Field(a.posIdx).Name()
				r.Ob("O2", shortName(f), "the cursor is created at position 0", al.Pos(), len(fs[posName]) == 0, "the entry point starts the cursor at a non-zero position: the readers' entry assumption 0 <= position <= len(input) is not established")
			}
		}
	}
	// O3c: code of the package reachable from the entry points that is not a cursor reader (post-parse passes, helpers)
	// must terminate evidently: no recursion, loops counted / over a slice. The cursor argument bounds only the readers.
	r.Guard("O3c", func() {
		isReader := map[*ssa.Function]bool{a.next: true, a.back: true}
		for _, f := range a.methods {
			isReader[f] = true
			isReader[origFn(f)] = true
		}
		for f := range a.inlinedHelpers {
			isReader[f] = true // analysed as part of the readers that call it
		}
		if a.skipUntil != nil {
			isReader[a.skipUntil] = true // the synthesised loop of reads (cursor.go: outlineSkipUntil), analysed where it is called
		}
		cg := BuildCallGraph(p)
		var roots []*ssa.Function
		for _, f := range p.FuncsOf(pkgIDL) {
			if f.Parent() == nil && f.Object() != nil && f.Object().Exported() {
				roots = append(roots, f)
			}
		}
		n := 0
		for f := range cg.Reach(roots, true) {
			if fnPkgPath(f) != pkgIDL || isReader[f] {
				continue
			}
			n++
			// recursion: f reaches itself
			rec := false
			for _, g := range cg.Callees[f] {
				if g == f || cg.Reach([]*ssa.Function{g}, true)[f] {
					rec = true
				}
			}
			r.Ob("O3", shortName(f), "non-reader code is not recursive", f.Pos(), !rec,
				"a function outside the cursor readers is (mutually) recursive: the progress argument (every cycle consumes input) does not bound it, so neither termination nor its cost on adversarial input is established")
			for _, b := range f.Blocks {
				if isLoopHeader(b) {
					ok := countedLoop(b) || rangeLoop(b)
					r.Ob("O3", shortName(f), fmt.Sprintf("non-reader loop #%d is a counted/range loop", a.loopNo(b)), p.InstrPos(b.Instrs[0]), ok, "a loop outside the cursor readers whose termination is not evident")
				}
			}
		}
		r.Stat("non_reader_functions", n)
	})
	// ---- O1p: the two primitives are what the cursor analysis takes them to be. Everything above rests on: the read
	// primitive advances the position by exactly one on every path, and yields -1 exactly when the position was at or
	// beyond the end, otherwise the byte at that position (0..255), read under `position < len(input)`; the step-back
	// primitive subtracts exactly one.
	r.Guard("O1", func() {
		T := NewTerms(p)
		nx := a.next
		st := a.cursorT.Underlying().(*types.Struct)
		posN, inN := st.Field(a.posIdx).Name(), st.Field(a.inIdx).Name()
		recv := ""
		if len(nx.Params) > 0 {
			recv = nx.Params[0].Name()
		}
		posT := "param:" + recv + "." + posN
		lenT := "call:len(param:" + recv + "." + inN + ")"
		// (a) the advance
		var adv []*ssa.Store
		for _, b := range nx.Blocks {
			for _, in := range b.Instrs {
				if s, ok := in.(*ssa.Store); ok && isRecvField(s.Addr, nx, a.posIdx, a.cursorT) {
					adv = append(adv, s)
				}
			}
		}
		okAdv := len(adv) == 1
		if okAdv {
			bo, isBo := adv[0].Val.(*ssa.BinOp)
			okAdv = isBo && bo.Op == token.ADD && strip(T.T(bo.X)) == posT
			if okAdv {
				k, isK := constInt(bo.Y)
				okAdv = isK && k == 1
			}
			if okAdv {
				every, _ := everyPathPasses(nx, nil, isReturn, func(i ssa.Instruction) bool { return i == ssa.Instruction(adv[0]) })
				okAdv = every
			}
		}
		r.Ob("O1", shortName(nx), "the read primitive advances the position by exactly one on every path", nx.Pos(), okAdv,
			"the read primitive does not add exactly 1 to the position on every path: the bounds of every reader (position relative to the end of the input, progress of loops) are computed from that step")
		// (b) the value
		okVal, why := true, ""
		nRet := 0
		var check func(v ssa.Value, facts []Fact, depth int)
		check = func(v ssa.Value, facts []Fact, depth int) {
			if depth > 4 {
				okVal, why = false, "result too deeply merged"
				return
			}
			switch x := v.(type) {
			case *ssa.Phi:
				for i, e := range x.Edges {
					pred := x.Block().Preds[i]
					fs := append(append([]Fact{}, T.FactsAt(pred)...), T.edgeFactsOn(pred, x.Block())...)
					check(e, fs, depth+1)
				}
			case *ssa.Const:
				if k, ok := constInt(x); !ok || k != -1 {
					okVal, why = false, "a constant other than -1 is returned: "+strip(T.T(x))
					return
				}
				// -1 only where the position is at or beyond the end
				lo := false
				for _, f := range facts {
					if f.Op == "LE" && strip(f.A) == lenT && strip(f.B) == posT {
						lo = true
					}
				}
				if !lo {
					okVal, why = false, "-1 is returned on a path that has not established position >= len(input)"
				}
			case *ssa.Convert:
				ix, ok := x.X.(*ssa.Index)
				if !ok {
					okVal, why = false, "the byte result is not input[position]"
					return
				}
				if strip(T.T(ix.X)) != "param:"+recv+"."+inN || strip(T.T(ix.Index)) != posT {
					okVal, why = false, "the byte result is "+strip(T.T(ix))+", not input[position]"
					return
				}
				guarded := false
				for _, f := range T.FactsAt(ix.Block()) {
					if f.Op == "LT" && strip(f.A) == posT && strip(f.B) == lenT {
						guarded = true
					}
				}
				if !guarded {
					okVal, why = false, "input[position] is read without position < len(input)"
				}
				if bt, isB := x.Type().Underlying().(*types.Basic); !isB || bt.Kind() != types.Int {
					okVal, why = false, "the byte is not converted to int (a signed narrower type would make bytes >= 0x80 negative)"
				}
			default:
				okVal, why = false, "unexpected result "+strip(T.T(v))
			}
		}
		for _, rv := range returnedValues(nx, 0) {
			nRet++
			check(rv.Val, T.FactsAt(rv.Ret.Block()), 0)
		}
		r.Ob("O1", shortName(nx), "the read primitive yields -1 exactly at or beyond the end and the byte at the position otherwise", nx.Pos(), okVal && nRet > 0, why)
		// (c) the step back
		bk := a.back
		var dec []*ssa.Store
		for _, b := range bk.Blocks {
			for _, in := range b.Instrs {
				if s, ok := in.(*ssa.Store); ok && isRecvField(s.Addr, bk, a.posIdx, a.cursorT) {
					dec = append(dec, s)
				}
			}
		}
		okDec := len(dec) == 1
		if okDec {
			bo, isBo := dec[0].Val.(*ssa.BinOp)
			okDec = isBo && bo.Op == token.SUB
			if okDec {
				k, isK := constInt(bo.Y)
				_, isLd := bo.X.(*ssa.UnOp)
				okDec = isK && k == 1 && isLd
			}
		}
		r.Ob("O1", shortName(bk), "the step-back primitive subtracts exactly one from the position", bk.Pos(), okDec, "the step-back primitive does not subtract exactly 1")
	})
	r.Floor("O1", 5)
	r.Floor("O2", 10)
	r.Floor("O3", 5)
	// ---- O4
	r.Guard("O4", func() {
		fns := map[*ssa.Function]bool{}
		for _, f := range p.FuncsOf(pkgIDL) {
			fns[f] = true
		}
		readerFns := map[*ssa.Function]bool{a.next: true, a.back: true}
		for _, f := range a.methods {
			readerFns[f] = true
			readerFns[origFn(f)] = true
		}
		for f := range a.inlinedHelpers {
			readerFns[f] = true
		}
		if a.skipUntil != nil {
			readerFns[a.skipUntil] = true
		}
		censusSkip = func(in ssa.Instruction) bool {
			// slices and indexes of the input are O1's business - in the functions the cursor analysis covers. Anywhere
			// else (the entry point building an error message from input[lineStart:position], a post-pass) nothing
			// bounds the cursor, and the site is judged here like any other slice
			f := in.Parent()
			if ch := inlinedFrom(in); len(ch) > 0 {
				f = ch[len(ch)-1] // the function the instruction was written in
			}
			if f == nil || !(readerFns[f] || readerFns[origFn(f)]) {
				return false
			}
			switch x := in.(type) {
			case *ssa.Slice:
				if ld, ok := x.X.(*ssa.UnOp); ok && isRecvField(ld.X, nil, a.inIdx, a.cursorT) {
					return true
				}
			case *ssa.Index:
				if ld, ok := x.X.(*ssa.UnOp); ok && isRecvField(ld.X, nil, a.inIdx, a.cursorT) {
					return true
				}
			}
			return false
		}
		var rng func(v ssa.Value, depth int) (int, int, bool)
		rng = func(v ssa.Value, depth int) (int, int, bool) {
			if c, ok := v.(*ssa.Call); ok && c.Call.StaticCallee() == a.next {
				return -1, 255, true
			}
			// a variable that holds read results (`c := next(); for pred(c) { c = next() }`)
			if ph, ok := v.(*ssa.Phi); ok && depth < 3 && len(ph.Edges) > 0 {
				lo, hi := 1<<30, -(1 << 30)
				for _, e := range ph.Edges {
					if e == ssa.Value(ph) {
						continue
					}
					l, h, ok := rng(e, depth+1)
					if !ok {
						return 0, 0, false
					}
					lo, hi = min(lo, l), max(hi, h)
				}
				if lo <= hi {
					return lo, hi, true
				}
			}
			return 0, 0, false
		}
		censusRange = func(v ssa.Value) (int, int, bool) { return rng(v, 0) }
		censusNil = true
		defer func() { censusSkip, censusRange, censusNil = nil, nil, false }()
		n := panicCensus(r, p, NewTerms(p), "O4", fns)
		// regexp.MustCompile on constants: compile them here
		for f := range fns {
			for _, cs := range compiledPatterns(p, f) {
				n++
				pats, isK := patternTexts(cs.Common.Args[0])
				ok := false
				detail := "pattern is not a constant"
				if isK {
					ok = true
					for _, pat := range pats {
						_, err := regexp.Compile(pat)
						_, err2 := syntax.Parse(pat, syntax.Perl)
						if err != nil || err2 != nil {
							ok = false
						}
					}
					detail = fmt.Sprintf("pattern(s) %q compile: %v", pats, ok)
				}
				r.Ob("O4", shortName(f), "regexp.MustCompile #"+fmt.Sprint(n)+" cannot panic (constant pattern compiled by the checker)", cs.Instr.Pos(), ok, detail)
			}
			// map updates on made maps, explicit nil-map writes
			for _, b := range f.Blocks {
				for _, in := range b.Instrs {
					if mu, ok := in.(*ssa.MapUpdate); ok {
						n++
						_, made := mu.Map.(*ssa.MakeMap)
						if !made {
							made = mapMemberAlwaysMade(p, mu.Map)
						}
						if prm, isPrm := mu.Map.(*ssa.Parameter); isPrm && !made && f.Object() != nil && !f.Object().Exported() {
							// a parameter of an unexported helper: every call site in the package hands in a made map
							idx := -1
							for i, q := range f.Params {
								if q == prm {
									idx = i
								}
							}
							sites, good := 0, true
							for _, g := range p.FuncsOf(pkgIDL) {
								for _, cs := range callsIn(g, false) {
									if cs.Common.StaticCallee() != f || idx < 0 || idx >= len(cs.Common.Args) {
										continue
									}
									sites++
									if _, isMade := cs.Common.Args[idx].(*ssa.MakeMap); !isMade {
										good = false
									}
								}
							}
							made = sites > 0 && good
						}
						r.Ob("O4", shortName(f), "map update on a map created with make", mu.Pos(), made, "write to a map that is not known to be non-nil")
					}
				}
			}
		}
		r.Stat("O4_panic_sites", n)
		r.Floor("O4", 3)
	})
	// thorough tier: cross-check the census against the compiler's list of bounds checks it could not eliminate
	if r.Tier == "thorough" && p.Cfg.GOOS == "linux" && p.Cfg.GOARCH == "amd64" {
		r.Guard("O1x", func() { bceCrossCheck(r, p, res) })
	}
}

// nextGuarded: in the read primitive the index instruction is dominated by position < len(input).
func nextGuarded(a *analyzer) bool {
	T := NewTerms(a.p)
	for _, b := range a.next.Blocks {
		for _, in := range b.Instrs {
			ix, ok := in.(*ssa.Index)
			if !ok {
				continue
			}
			it, xt := T.T(ix.Index), T.T(ix.X)
			good := false
			for _, f := range T.FactsAt(b) {
				if f.Op == "LT" && f.A == it && f.B == "call:len("+xt+")" {
					good = true
				}
			}
			// no store to position between the test and the index
			if !good {
				return false
			}
		}
	}
	return true
}

// bceCrossCheck: every bounds check the compiler reports for package idl lies on a line where the census has an obligation.
func bceCrossCheck(r *Run, p *Prog, res *CursorResult) {
	tmp, err := os.MkdirTemp("", "vlcheck-bce-")
	if err != nil {
		r.Note("BCE cross-check skipped: %v", err)
		return
	}
	defer os.RemoveAll(tmp)
	cmd := exec.Command("go", "build", "-gcflags=-d=ssa/check_bce/debug=1", "./varlink/idl")
	cmd.Dir = p.Dir
	cmd.Env = append(os.Environ(), "GOFLAGS=-mod=mod", "GOPROXY=off", "GOSUMDB=off", "GOTOOLCHAIN=local", "GOWORK=off", "GOCACHE="+filepath.Join(tmp, "cache"))
	out, _ := cmd.CombinedOutput()
	re := regexp.MustCompile(`idl\.go:(\d+):\d+: Found (IsInBounds|IsSliceInBounds)`)
	lines := map[string]bool{}
	for _, m := range re.FindAllStringSubmatch(string(out), -1) {
		lines[m[1]] = true
	}
	have := map[string]bool{}
	for _, k := range r.order {
		o := r.obligs[k]
		if i := strings.LastIndex(o.Pos, ":"); i >= 0 {
			have[o.Pos[i+1:]] = true
		}
	}
	// the read primitive's own index
	have[fmt.Sprint(p.Fset.Position(res.A.next.Pos()).Line)] = true
	for _, b := range res.A.next.Blocks {
		for _, in := range b.Instrs {
			if in.Pos().IsValid() {
				have[fmt.Sprint(p.Fset.Position(in.Pos()).Line)] = true
			}
		}
	}
	// calls that the compiler inlines at their call site: the read primitive (its index is guarded, see O1 above) and
	// library methods (trusted base); their bounds checks are reported on the caller's line
	for _, f := range p.FuncsOf(pkgIDL) {
		for _, cs := range callsIn(f, true) {
			t := cs.Common.StaticCallee()
			if t == res.A.next || (t != nil && !p.InRepo(t)) {
				have[fmt.Sprint(p.Fset.Position(cs.Instr.Pos()).Line)] = true
			}
		}
	}
	var miss []string
	for l := range lines {
		if !have[l] {
			miss = append(miss, l)
		}
	}
	sort.Strings(miss)
	r.Stat("compiler_bounds_checks", len(lines))
	r.Ob("O1", "-", "every bounds check the compiler could not eliminate is covered by a census obligation", res.A.cursorT.Obj().Pos(), len(miss) == 0 && len(lines) > 0,
		fmt.Sprintf("bounds checks reported by the compiler (-d=ssa/check_bce) on idl.go lines %v have no obligation in the census (compiler reported %d in total)", miss, len(lines)))
}

// rangeLoop: the header is driven by a range iterator (map/string range: `next` instruction) or a rangeindex phi.
func rangeLoop(h *ssa.BasicBlock) bool {
	for _, in := range h.Instrs {
		if _, ok := in.(*ssa.Next); ok {
			return true
		}
	}
	return strings.HasPrefix(h.Comment, "rangeindex") || strings.HasPrefix(h.Comment, "rangeiter")
}

// mapMemberAlwaysMade: v is a load of a struct member all of whose stores in the package are freshly made maps.
func mapMemberAlwaysMade(p *Prog, v ssa.Value) bool {
	ld, ok := v.(*ssa.UnOp)
	if !ok {
		return false
	}
	fa, ok := ld.X.(*ssa.FieldAddr)
	if !ok {
		return false
	}
	pt, ok := fa.X.Type().Underlying().(*types.Pointer)
	if !ok {
		return false
	}
	n := 0
	for _, f := range p.FuncsOf(fnPkgPath(ld.Parent())) {
		for _, b := range f.Blocks {
			for _, in := range b.Instrs {
				st, ok := in.(*ssa.Store)
				if !ok {
					continue
				}
				fa2, ok := st.Addr.(*ssa.FieldAddr)
				if !ok || fa2.Field != fa.Field {
					continue
				}
				pt2, ok := fa2.X.Type().Underlying().(*types.Pointer)
				if !ok || !types.Identical(pt2.Elem(), pt.Elem()) {
					continue
				}
				n++
				if _, isMake := st.Val.(*ssa.MakeMap); !isMake {
					return false
				}
			}
		}
	}
	return n > 0
}
