package main

// Finite evaluation of pure predicates. A byte classification such as `c < 0 || c == '\n'` may be moved into a small
// function of the repository (`func eol(c int) bool`). Such a function is a closed term over its integer arguments if its
// body consists of constants, arithmetic, comparisons, conversions, branches and calls of functions of the same kind (or
// of the library's pure character predicates); it touches no memory. It is then folded here for one concrete argument
// value, exactly like the compiler's constant folding would after inlining. Anything else (loads, stores, allocation,
// dynamic calls, loops beyond the step bound) makes the function "not pure" and the caller falls back to "unknown".

import (
	"go/constant"
	"go/token"
	"go/types"
	"strings"
	"unicode"

	"golang.org/x/tools/go/ssa"
)

type pval struct {
	isBool bool
	b      bool
	i      int64
	tbl    *ssa.Global // the address of an effectively constant package-level array (a table handed to a helper)
}

const pureStepBound = 4000

// evalPure evaluates fn(args) if fn is a pure integer/bool function in the sense above.
func evalPure(fn *ssa.Function, args []pval, depth int) (pval, bool) {
	if fn == nil || len(fn.Blocks) == 0 || depth > 4 || len(args) != len(fn.Params) || fn.Signature.Results().Len() != 1 {
		return pval{}, false
	}
	env := map[ssa.Value]pval{}
	elems := map[ssa.Value]pval{} // address of a constant-table element -> its value
	for i, p := range fn.Params {
		env[p] = args[i]
	}
	var get func(v ssa.Value) (pval, bool)
	get = func(v ssa.Value) (pval, bool) {
		if k, ok := v.(*ssa.Const); ok {
			if k.Value == nil {
				return pval{}, false
			}
			switch k.Value.Kind() {
			case constant.Bool:
				return pval{isBool: true, b: constant.BoolVal(k.Value)}, true
			case constant.Int:
				n, ok := constant.Int64Val(k.Value)
				return pval{i: n}, ok
			}
			return pval{}, false
		}
		if g, ok := v.(*ssa.Global); ok {
			return pval{tbl: g}, true
		}
		r, ok := env[v]
		return r, ok
	}
	blk := fn.Blocks[0]
	var prev *ssa.BasicBlock
	steps := 0
	for {
		var next *ssa.BasicBlock
		for _, in := range blk.Instrs {
			steps++
			if steps > pureStepBound {
				return pval{}, false
			}
			switch x := in.(type) {
			case *ssa.DebugRef:
			case *ssa.Phi:
				idx := -1
				for i, p := range blk.Preds {
					if p == prev {
						idx = i
					}
				}
				if idx < 0 {
					return pval{}, false
				}
				v, ok := get(x.Edges[idx])
				if !ok {
					return pval{}, false
				}
				env[x] = v
			case *ssa.BinOp:
				a, ok1 := get(x.X)
				b, ok2 := get(x.Y)
				if !ok1 || !ok2 {
					return pval{}, false
				}
				r, ok := foldBinOp(x.Op, a, b, x.X.Type())
				if !ok {
					return pval{}, false
				}
				env[x] = r
			case *ssa.IndexAddr:
				// &table[i] for an effectively constant package-level array (Prog.ConstTable): remember the element
				g, isG := x.X.(*ssa.Global)
				if !isG {
					// the table was handed in as a pointer parameter
					if tv, ok := get(x.X); ok && tv.tbl != nil {
						g, isG = tv.tbl, true
					}
				}
				if !isG || foldProg == nil {
					return pval{}, false
				}
				i, ok := get(x.Index)
				if !ok || i.isBool {
					return pval{}, false
				}
				el, ok := tableElem(g, i.i)
				if !ok {
					return pval{}, false
				}
				elems[x] = el
			case *ssa.UnOp:
				a, ok := get(x.X)
				if !ok && x.Op != token.MUL {
					return pval{}, false
				}
				switch x.Op {
				case token.MUL:
					// load of an element of a constant table (tables map below)
					el, ok := elems[x.X]
					if !ok {
						return pval{}, false
					}
					env[x] = el
				case token.NOT:
					env[x] = pval{isBool: true, b: !a.b}
				case token.SUB:
					env[x] = pval{i: truncInt(-a.i, x.Type())}
				case token.XOR:
					env[x] = pval{i: truncInt(^a.i, x.Type())}
				default:
					return pval{}, false // a load
				}
			case *ssa.Convert:
				a, ok := get(x.X)
				if !ok || a.isBool {
					return pval{}, false
				}
				if b, isB := x.Type().Underlying().(*types.Basic); !isB || b.Info()&types.IsInteger == 0 {
					return pval{}, false
				}
				env[x] = pval{i: truncInt(a.i, x.Type())}
			case *ssa.ChangeType:
				a, ok := get(x.X)
				if !ok {
					return pval{}, false
				}
				env[x] = a
			case *ssa.Call:
				var av []pval
				for _, a := range x.Call.Args {
					v, ok := get(a)
					if !ok {
						// constant string first argument of strings.IndexByte / ContainsRune
						av = nil
						break
					}
					av = append(av, v)
				}
				r, ok := pureCall(&x.Call, av, get, depth)
				if !ok {
					return pval{}, false
				}
				env[x] = r
			case *ssa.If:
				c, ok := get(x.Cond)
				if !ok {
					return pval{}, false
				}
				if c.b {
					next = blk.Succs[0]
				} else {
					next = blk.Succs[1]
				}
			case *ssa.Jump:
				next = blk.Succs[0]
			case *ssa.Return:
				if len(x.Results) != 1 {
					return pval{}, false
				}
				return get(x.Results[0])
			default:
				return pval{}, false
			}
		}
		if next == nil {
			return pval{}, false
		}
		prev, blk = blk, next
	}
}

func truncInt(v int64, t types.Type) int64 {
	b, ok := t.Underlying().(*types.Basic)
	if !ok {
		return v
	}
	switch b.Kind() {
	case types.Int8:
		return int64(int8(v))
	case types.Int16:
		return int64(int16(v))
	case types.Int32:
		return int64(int32(v))
	case types.Uint8:
		return int64(uint8(v))
	case types.Uint16:
		return int64(uint16(v))
	case types.Uint32:
		return int64(uint32(v))
	}
	return v
}

func isUnsigned(t types.Type) bool {
	b, ok := t.Underlying().(*types.Basic)
	return ok && b.Info()&types.IsUnsigned != 0
}

func foldBinOp(op token.Token, a, b pval, t types.Type) (pval, bool) {
	if a.isBool != b.isBool {
		return pval{}, false
	}
	if !a.isBool && isUnsigned(t) {
		// unsigned operands (uint(c-'a') < 26): order and division on the unsigned value
		ua, ub := uint64(a.i), uint64(b.i)
		switch op {
		case token.LSS:
			return pval{isBool: true, b: ua < ub}, true
		case token.LEQ:
			return pval{isBool: true, b: ua <= ub}, true
		case token.GTR:
			return pval{isBool: true, b: ua > ub}, true
		case token.GEQ:
			return pval{isBool: true, b: ua >= ub}, true
		case token.QUO:
			if ub == 0 {
				return pval{}, false
			}
			return pval{i: truncInt(int64(ua/ub), t)}, true
		case token.REM:
			if ub == 0 {
				return pval{}, false
			}
			return pval{i: truncInt(int64(ua%ub), t)}, true
		case token.SHR:
			if ub > 63 {
				return pval{}, false
			}
			return pval{i: truncInt(int64(ua>>ub), t)}, true
		}
	}
	if a.isBool {
		switch op {
		case token.EQL:
			return pval{isBool: true, b: a.b == b.b}, true
		case token.NEQ:
			return pval{isBool: true, b: a.b != b.b}, true
		case token.AND:
			return pval{isBool: true, b: a.b && b.b}, true
		case token.OR:
			return pval{isBool: true, b: a.b || b.b}, true
		}
		return pval{}, false
	}
	bl := func(v bool) (pval, bool) { return pval{isBool: true, b: v}, true }
	in := func(v int64) (pval, bool) { return pval{i: truncInt(v, t)}, true }
	switch op {
	case token.EQL:
		return bl(a.i == b.i)
	case token.NEQ:
		return bl(a.i != b.i)
	case token.LSS:
		return bl(a.i < b.i)
	case token.LEQ:
		return bl(a.i <= b.i)
	case token.GTR:
		return bl(a.i > b.i)
	case token.GEQ:
		return bl(a.i >= b.i)
	case token.ADD:
		return in(a.i + b.i)
	case token.SUB:
		return in(a.i - b.i)
	case token.MUL:
		return in(a.i * b.i)
	case token.AND:
		return in(a.i & b.i)
	case token.OR:
		return in(a.i | b.i)
	case token.XOR:
		return in(a.i ^ b.i)
	case token.AND_NOT:
		return in(a.i &^ b.i)
	case token.SHL:
		if b.i < 0 || b.i > 62 {
			return pval{}, false
		}
		return in(a.i << uint(b.i))
	case token.SHR:
		if b.i < 0 || b.i > 62 {
			return pval{}, false
		}
		return in(a.i >> uint(b.i))
	case token.QUO:
		if b.i == 0 {
			return pval{}, false
		}
		return in(a.i / b.i)
	case token.REM:
		if b.i == 0 {
			return pval{}, false
		}
		return in(a.i % b.i)
	}
	return pval{}, false
}

// libPredicates: the library's pure character predicates (evaluating these is evaluating the library, not the repo).
var libPredicates = map[string]func(rune) bool{
	"unicode.IsSpace":  unicode.IsSpace,
	"unicode.IsLetter": unicode.IsLetter,
	"unicode.IsDigit":  unicode.IsDigit,
	"unicode.IsUpper":  unicode.IsUpper,
	"unicode.IsLower":  unicode.IsLower,
	"unicode.IsPunct":  unicode.IsPunct,
}

func pureCall(c *ssa.CallCommon, av []pval, get func(ssa.Value) (pval, bool), depth int) (pval, bool) {
	name := calleeName(c)
	if f, ok := libPredicates[name]; ok && len(av) == 1 && !av[0].isBool {
		return pval{isBool: true, b: f(rune(av[0].i))}, true
	}
	// strings.IndexByte(const, c) / strings.ContainsRune(const, r) / strings.IndexRune(const, r)
	if (name == "strings.IndexByte" || name == "strings.ContainsRune" || name == "strings.IndexRune") && len(c.Args) == 2 {
		k, ok := c.Args[0].(*ssa.Const)
		v, ok2 := get(c.Args[1])
		if ok && ok2 && k.Value != nil && k.Value.Kind() == constant.String && !v.isBool {
			s := constant.StringVal(k.Value)
			switch name {
			case "strings.IndexByte":
				if v.i < 0 || v.i > 255 {
					return pval{}, false
				}
				return pval{i: int64(strings.IndexByte(s, byte(v.i)))}, true
			case "strings.ContainsRune":
				return pval{isBool: true, b: strings.ContainsRune(s, rune(v.i))}, true
			default:
				return pval{i: int64(strings.IndexRune(s, rune(v.i)))}, true
			}
		}
		return pval{}, false
	}
	if av == nil && len(c.Args) > 0 {
		return pval{}, false
	}
	t := c.StaticCallee()
	if t == nil || c.IsInvoke() {
		return pval{}, false
	}
	return evalPure(t, av, depth+1)
}

// tableElem: element i of the constant table g; false if g is not a constant table or i is out of range (a panic).
func tableElem(g *ssa.Global, i int64) (pval, bool) {
	tbl, ok := foldProg.ConstTable(g)
	if !ok {
		return pval{}, false
	}
	arr := g.Type().(*types.Pointer).Elem().Underlying().(*types.Array)
	if i < 0 || i >= arr.Len() {
		return pval{}, false
	}
	k := tbl[i]
	eb, _ := arr.Elem().Underlying().(*types.Basic)
	if eb == nil {
		return pval{}, false
	}
	if eb.Info()&types.IsBoolean != 0 {
		return pval{isBool: true, b: k != nil && k.Value != nil && constant.BoolVal(k.Value)}, true
	}
	if eb.Info()&types.IsInteger != 0 {
		if k == nil || k.Value == nil {
			return pval{i: 0}, true
		}
		n, ok := constant.Int64Val(k.Value)
		return pval{i: n}, ok
	}
	return pval{}, false
}
