package main

import (
	"fmt"
	"go/constant"
	"go/token"
	"go/types"
	"os"
	"sort"
	"strings"

	"golang.org/x/tools/go/ssa"
)

func init() {
	register(&propDef{
		id: "C05", level: "other", perCfg: false,
		explain: "Necessary structural conditions of C05, decided for all paths of package idl (roles found by shape on top of the cursor analysis E9; readers are analysed in their inlined views, so cursor methods that are not readers themselves - a comment loop, a helper returning (doc, name) - are part of their callers; byte predicates moved into pure helper functions are folded per value). K1 keyword/bracket -> kind table: every construction of a type node stores the kind constant that the edge it lies on denotes - keyword bool/int/float/string/object -> TypeBool/TypeInt/TypeFloat/TypeString/TypeObject (the constant's name is the keyword, capitalised), '?' -> TypeMaybe, '[string]' -> TypeMap, '[]' -> TypeArray, a type-name token -> TypeAlias with Alias = that token, '(' -> TypeStruct; all ten arms must exist. K2 nesting: the ElementType stored in a wrapper node is the result of the recursive type-reader call made after the prefix was consumed on that path; a field's Name and Type are the results of the field-name reader and the type reader of the same iteration; fields are appended at the end. K3 member arms agree (sibling cross-check): each keyword arm of the member loop appends the object its reader returned to the list whose element type is that object's type and to the combined member list, both at the end; the keywords are type/method/error and select readers returning *Alias/*Method/*Error. K4 documentation: in every member reader and for the interface, Doc receives the pending-comment text read after the layout skip that follows the keyword and before the name is read; the skipper clears the pending comment exactly on a newline outside a comment, joins comment lines with a newline and records input[start:pos] of the comment. K5 layout: the bytes skipped between tokens are exactly space, tab, CR, LF; a comment is introduced exactly by '#', its text ends exactly at newline/end of input (charset extraction by finite evaluation over the 257 read results). K6 verbatim: Description receives the entry point's parameter unchanged, Name the interface-name reader's result. K8 token charsets: field names [a-z][A-Za-z0-9_]*, type/method/error names [A-Z][A-Za-z0-9]*, keywords [a-z]*. K10 readers decide on the input alone: no reader branches on a counter or flag kept in the cursor besides the position (a nesting bound, a leftover mode flag). K11 what follows a line-only layout skip (a skipper whose loop does not cross tab, CR, LF and comments) is optional: from such a skip no failure return of the function is reachable except through the full skipper, the success edge of a reader, or a test that the position has changed - a mandatory token behind it would be accepted in one layout only. K12 no rejection for a name that is not in the tree yet: a search of a list or table of the tree under construction (slice/map members of the idl types, local tables filled with names from the input) whose unsuccessful outcome can only end in an error makes acceptance depend on declaration order (forward and mutual references); the duplicate test is the opposite direction (found -> error) and is discharged. K4 also: the join of comment lines writes the newline exactly when text is pending. K9 (= C06.Q8). K13 line ends are consumed only by the layout skipper (breadth-first search over the reader views with alias and constant folding): a token reader that swallows '\n' hides the comment reset from the documentation rule. K14 a type reader that fails on its first byte restores it (judged over the >=128 byte values of the default arm), so the optional error type and the caller's diagnosis see the same cursor. K15 a full layout skip precedes every token of a member (last-event may-analysis on each reader view), so layout between tokens never changes the tree.",
		notDec:  "Full language inclusion (grammar is a subset of what is accepted); independence from layout at places where the parser simply does not call the skipper (e.g. `( )`, `[] int`, a tab before an error's type) - that needs the external grammar as an oracle for where whitespace is allowed, which is not in the code.",
		trusted: []string{"bytes.Buffer accumulates what is written to it in order"},
		run:     runC05,
	})
}

func runC05(r *Run, p *Prog) {
	// K9: struct / enum discrimination of a parenthesised list
	siblingRules(r, p, "C06", []string{"Q8"}, "K9")
	m, why := buildIDLModel(p)
	if m == nil {
		r.Unresolved("K1", why)
		return
	}
	T, a := m.T, m.a
	if m.skipper == nil || m.memberLoop == nil || m.entry == nil {
		r.Unresolved("K3", "layout skipper / member loop / entry point")
		return
	}
	// ---- K1 + K2
	r.Guard("K1", func() {
		seen := map[string]bool{}
		keywordKinds := map[string]string{"TypeBool": "bool", "TypeInt": "int", "TypeFloat": "float", "TypeString": "string", "TypeObject": "object"}
		for _, tn := range m.typeNodes() {
			fn := shortName(tn.Fn)
			if len(tn.Kinds) == 0 {
				r.Ob("K1", fn, "type node construction stores a kind", tn.Alloc.Pos(), false, "a Type value is created without a constant kind")
				continue
			}
			for _, ka := range tn.Kinds {
				name := m.kindName[ka.K]
				seen[name] = true
				switch {
				case keywordKinds[name] != "":
					kw := keywordKinds[name]
					rd, ok := m.tokenEq(ka.Facts, kw)
					okCS := false
					if ok {
						okCS = m.tokens[rd].First.equal(rangeSet('a', 'z'))
					}
					r.Ob("K1", fn, "keyword `"+kw+"` denotes "+name, tn.Alloc.Pos(), ok && okCS && len(tn.Elem) == 0 && len(tn.Alias) == 0,
						fmt.Sprintf("a node of kind %s is built on an edge that does not carry keyword == %q (keyword token reader found: %v)", name, kw, ok))
				case name == "TypeMaybe":
					_, ok := m.nextEq(ka.Facts, '?')
					r.Ob("K1", fn, "'?' denotes TypeMaybe", tn.Alloc.Pos(), ok, "an optional node is built without having read '?'")
					r.Ob("K2", fn, "the optional wraps the type read after '?'", tn.Alloc.Pos(), m.elemIsRecursiveCallAfter(tn, '?'), "ElementType is not the result of the type reader called after the prefix")
				case name == "TypeMap" || name == "TypeArray":
					want := ifs(name == "TypeMap", "string", "")
					_, ok1 := m.tokenEq(ka.Facts, want)
					_, ok2 := m.nextEq(ka.Facts, '[')
					r.Ob("K1", fn, "`["+want+"]` denotes "+name, tn.Alloc.Pos(), ok1 && ok2, fmt.Sprintf("key keyword == %q known: %v; '[' known: %v", want, ok1, ok2))
					r.Ob("K2", fn, "the collection's element is the type read after ']'", tn.Alloc.Pos(), m.elemIsRecursiveCallAfter(tn, ']'), "ElementType is not the result of the type reader called after the closing bracket")
				case name == "TypeAlias":
					ok := false
					detail := "Alias member not set from a token reader"
					if len(tn.Alias) == 1 {
						if c, isC := tn.Alias[0].(*ssa.Call); isC {
							if tc := m.tokens[c.Call.StaticCallee()]; tc != nil {
								ne := hasFact(ka.Facts, "NE", T.T(c), `const:""`)
								up := tc.First.equal(rangeSet('A', 'Z'))
								ok = ne && up
								detail = fmt.Sprintf("name token non-empty known: %v; token starts with an upper-case letter: %v", ne, up)
							}
						}
					}
					r.Ob("K1", fn, "a type-name token denotes TypeAlias with Alias = that token", tn.Alloc.Pos(), ok, detail)
				case name == "TypeStruct":
					_, ok := m.nextEq(ka.Facts, '(')
					r.Ob("K1", fn, "'(' denotes a struct (or enum) node", tn.Alloc.Pos(), ok, "a struct node is built without having read '('")
				default:
					r.Ob("K1", fn, "type node of kind "+name, tn.Alloc.Pos(), false, "unexpected kind constant at a construction site")
				}
			}
		}
		for _, k := range []string{"TypeBool", "TypeInt", "TypeFloat", "TypeString", "TypeObject", "TypeMaybe", "TypeMap", "TypeArray", "TypeAlias", "TypeStruct"} {
			if !seen[k] {
				r.Ob("K1", "-", "a construction site for "+k+" exists", m.typeT.Obj().Pos(), false, "no path of the type readers builds a "+k+" node: that type constructor can never be parsed")
			}
		}
		// the type reader's result on its success paths is the node built on that path (no stale/other node)
		for f := range m.typeReaders {
			if isBuiltDuplicate(f) {
				continue
			}
			for _, rv := range returnedValues(f, 0) {
				vals := []ssa.Value{rv.Val}
				if ph, ok := rv.Val.(*ssa.Phi); ok {
					vals = ph.Edges
				}
				for _, v := range vals {
					if T.T(v) == "nil" {
						continue
					}
					_, isAlloc := v.(*ssa.Alloc)
					c, isCall := v.(*ssa.Call)
					okk := isAlloc || (isCall && m.typeReaders[c.Call.StaticCallee()])
					r.Ob("K2", shortName(f), "the type reader returns the node built on that path ("+strip(T.T(v))+")", rv.Ret.Pos(), okk, "a type reader returns something other than a freshly built node or another type reader's result")
				}
			}
		}
	})
	// ---- K2 fields
	r.Guard("K2f", func() {
		for _, tn := range m.typeNodes() {
			isStruct := false
			for _, ka := range tn.Kinds {
				if m.kindName[ka.K] == "TypeStruct" {
					isStruct = true
				}
			}
			if !isStruct {
				continue
			}
			f := tn.Fn
			ms := NewMemState(T, BuildCallGraph(p), f, map[*ssa.Function]map[string]bool{})
			n := 0
			for _, b := range f.Blocks {
				for _, in := range b.Instrs {
					st, ok := in.(*ssa.Store)
					if !ok {
						continue
					}
					c, ok := st.Val.(*ssa.Call)
					if !ok {
						continue
					}
					bi, ok := c.Call.Value.(*ssa.Builtin)
					if !ok || bi.Name() != "append" || !strings.HasSuffix(strip(T.T(st.Addr)), ".Fields") {
						continue
					}
					n++
					okBase := strip(T.T(c.Call.Args[0])) == strings.TrimPrefix(strip(T.T(st.Addr)), "&")
					r.Ob("K2", shortName(f), "fields are appended at the end of the node's own list", st.Pos(), okBase, "append base is "+strip(T.T(c.Call.Args[0])))
					// the appended element: a TypeField whose Name / Type come from this iteration's readers
					el := appendedValues(c.Call.Args[1])
					okEl := false
					detail := "appended element not recognised"
					if len(el) == 1 {
						if ld, isLd := el[0].(*ssa.UnOp); isLd {
							if fa, isA := ld.X.(*ssa.Alloc); isA {
								fs := fieldStores(fa)
								nm, ty := fs["Name"], fs["Type"]
								okName := len(nm) == 1
								if okName {
									cc, isC := nm[0].(*ssa.Call)
									okName = isC && m.tokens[cc.Call.StaticCallee()] != nil && m.tokens[cc.Call.StaticCallee()].First.equal(rangeSet('a', 'z'))
								}
								okType := len(ty) <= 1
								for _, tv := range ty {
									cc, isC := tv.(*ssa.Call)
									okType = isC && m.typeReaders[cc.Call.StaticCallee()]
								}
								// the element is re-initialised every iteration (no Type carried over from the previous field)
								reinit := blockInLoop(fa.Block()) // a local allocated in the loop body is a fresh zero value per iteration
								for _, ref := range *fa.Referrers() {
									if s2, isS := ref.(*ssa.Store); isS && s2.Addr == ssa.Value(fa) {
										if k, isK := s2.Val.(*ssa.Const); isK && k.Value == nil && blockInLoop(s2.Block()) {
											reinit = true
										}
									}
								}
								okEl = okName && okType && reinit
								detail = fmt.Sprintf("Name from the field-name reader: %v; Type from the type reader (or unset for enum entries): %v; element reset per iteration: %v", okName, okType, reinit)
							}
						}
					}
					r.Ob("K2", shortName(f), "the appended field carries this iteration's name and type", st.Pos(), okEl, detail)
				}
			}
			if n == 0 {
				r.Ob("K2", shortName(f), "the struct reader appends fields", f.Pos(), false, "no append to the node's field list")
			}
			_ = ms
		}
	})
	// ---- K3
	r.Guard("K3", func() {
		ml := m.memberLoop
		wantKw := map[string]string{"type": "Alias", "method": "Method", "error": "Error"}
		arms := 0
		for _, b := range ml.Blocks {
			for _, s := range b.Succs {
				for _, f := range T.edgeFactsOn(b, s) {
					_, lit, ok := strConstEq(f)
					if !ok || !blockInLoop(b) || !m.keywordTest(f) {
						continue // (not a comparison of a keyword token: `name == ""` of a member reader written in the loop)
					}
					arms++
					tname, known := wantKw[lit]
					r.Ob("K3", shortName(ml), "member keyword `"+lit+"` is one of type/method/error", p.InstrPos(b.Instrs[len(b.Instrs)-1]), known, "unknown member keyword")
					if !known {
						continue
					}
					// the reader called on this arm returns *<tname>
					var obj ssa.Value
					for _, in := range armInstrs(ml, s) {
						if c, ok := in.(*ssa.Call); ok && a.isCursorMethod(c.Call.StaticCallee()) {
							res := c.Call.StaticCallee().Signature.Results()
							if res.Len() == 2 {
								if pt, ok := res.At(0).Type().(*types.Pointer); ok && isNamed(pt.Elem(), pkgIDL, tname) {
									obj = extractOf(c, 0)
								}
							}
						}
					}
					if obj == nil {
						// the member reader is written in (or is a piece of) the loop: the node is built on this arm
						for _, in := range armInstrs(ml, s) {
							if al, ok := in.(*ssa.Alloc); ok && isNamed(al.Type(), pkgIDL, tname) {
								if obj != nil {
									obj = nil // two nodes on one arm: not the shape this rule speaks about
									break
								}
								obj = al
							}
						}
					}
					r.Ob("K3", shortName(ml), "keyword `"+lit+"` is read by the reader returning *"+tname, p.InstrPos(b.Instrs[len(b.Instrs)-1]), obj != nil, "the arm does not call a reader for "+tname+" (nor builds exactly one "+tname+" node itself)")
					if obj == nil {
						continue
					}
					// appends on this arm
					own, combined := 0, 0
					for _, in := range armInstrs(ml, s) {
						st, ok := in.(*ssa.Store)
						if !ok {
							continue
						}
						c, ok := st.Val.(*ssa.Call)
						if !ok {
							continue
						}
						if bi, ok := c.Call.Value.(*ssa.Builtin); !ok || bi.Name() != "append" {
							continue
						}
						base := strip(T.T(c.Call.Args[0]))
						dst := strings.TrimPrefix(strip(T.T(st.Addr)), "&")
						el := appendedValues(c.Call.Args[1])
						sameList := base == dst
						if len(el) != 1 || !sameList {
							r.Ob("K3", shortName(ml), "member of `"+lit+"` appended at the end of a list ("+dst+")", st.Pos(), false, fmt.Sprintf("append base %s, destination %s, %d elements", base, dst, len(el)))
							continue
						}
						v := el[0]
						if mi, ok := v.(*ssa.MakeInterface); ok {
							v = mi.X
						}
						isObj := v == obj
						// which list: element type decides
						lt, _ := st.Val.Type().Underlying().(*types.Slice)
						switch {
						case lt != nil && isObj && types.Identical(lt.Elem(), obj.Type()):
							own++
						case lt != nil && isObj && types.IsInterface(lt.Elem()):
							combined++
						default:
							r.Ob("K3", shortName(ml), "member of `"+lit+"` appended to "+dst, st.Pos(), false, "the appended value is not the object this arm's reader returned, or the list's element type does not match it")
						}
					}
					r.Ob("K3", shortName(ml), "member of `"+lit+"` is appended once to its own list and once to the combined member list", p.InstrPos(b.Instrs[len(b.Instrs)-1]), own == 1 && combined == 1,
						fmt.Sprintf("own-list appends: %d, combined-list appends: %d", own, combined))
				}
			}
		}
		r.Ob("K3", shortName(ml), "the member loop has the three member kinds", ml.Pos(), arms == 3, fmt.Sprintf("%d keyword arms", arms))
	})
	// ---- K4
	r.Guard("K4", func() {
		n := 0
		for _, f := range a.methods {
			for _, b := range f.Blocks {
				for _, in := range b.Instrs {
					st, ok := in.(*ssa.Store)
					if !ok || !strings.HasSuffix(strip(T.T(st.Addr)), ".Doc") {
						continue
					}
					n++
					c, isC := st.Val.(*ssa.Call)
					okSrc := isC && m.accMethod(c) == "String"
					// order: skipper call -> String() -> name reader, with no other skipper call between
					okOrder := false
					if isC {
						var prevSkip, nextTok bool
						blk := c.Block()
						idx := instrIndex(c)
						for i := idx - 1; i >= 0; i-- {
							if cc, ok := blk.Instrs[i].(*ssa.Call); ok && a.isCursorMethod(cc.Call.StaticCallee()) {
								prevSkip = cc.Call.StaticCallee() == origFn(m.skipper)
								break
							}
						}
						for i := idx + 1; i < len(blk.Instrs); i++ {
							if cc, ok := blk.Instrs[i].(*ssa.Call); ok && a.isCursorMethod(cc.Call.StaticCallee()) {
								nextTok = m.tokens[cc.Call.StaticCallee()] != nil || len(callsNamed(cc.Call.StaticCallee(), false, "regexp.Regexp.FindString")) > 0
								break
							}
						}
						okOrder = prevSkip && nextTok
					}
					r.Ob("K4", shortName(f), "Doc = pending comment, taken after the layout skip and before the name is read", st.Pos(), okSrc && okOrder,
						fmt.Sprintf("source is the pending-comment buffer: %v; taken between the skip and the name token: %v", okSrc, okOrder))
				}
			}
		}
		if n < 4 {
			r.Ob("K4", "-", "interface, type, method and error documentation is captured", m.memberLoop.Pos(), false, fmt.Sprintf("%d Doc assignments found, 4 expected", n))
		}
		// skipper: reset on newline outside a comment; join with '\n'; write the comment slice
		sk := m.skipper
		nReset, nWrite, nJoin := 0, 0, 0
		for _, b := range sk.Blocks {
			for _, in := range b.Instrs {
				c, ok := in.(*ssa.Call)
				if !ok {
					continue
				}
				switch m.accMethod(c) {
				case "Reset":
					nReset++
					_, okNL := m.nextEq(T.FactsAt(b), '\n')
					sites := a.readSites(sk)
					first := false
					if t, has := m.nextEq(T.FactsAt(b), '\n'); has && len(sites) > 0 {
						first = t == T.T(sites[0])
					}
					r.Ob("K4", shortName(sk), "the pending comment is dropped exactly on a newline read as layout", c.Pos(), okNL && first, "the comment accumulator is reset on an edge other than `layout byte == newline`: a comment block directly above a member is lost (or a stale one kept)")
				case "WriteString":
					nWrite++
					sl, isSl := c.Call.Args[1].(*ssa.Slice)
					okSl := isSl && strings.HasSuffix(strip(T.T(sl.X)), "."+m.inputField()) && sl.Low != nil && sl.High != nil
					r.Ob("K4", shortName(sk), "the comment text recorded is input[start:position]", c.Pos(), okSl, "what is appended to the pending comment is not a slice of the input")
				case "WriteByte":
					nJoin++
					k, isK := c.Call.Args[1].(*ssa.Const)
					okJ := isK && k.Int64() == '\n'
					okG := false
					for _, f := range T.FactsAt(b) {
						if (f.Op == "LT" && f.A == "const:0" || f.Op == "NE" && (f.A == "const:0" || f.B == "const:0")) && (strings.Contains(f.A+f.B, "bytes.Buffer.Len(") || strings.Contains(f.A+f.B, "strings.Builder.Len(")) {
							okG = true
						}
					}
					r.Ob("K4", shortName(sk), "consecutive comment lines are joined by a newline", c.Pos(), okJ && okG, "")
				}
			}
		}
		if nReset != 1 || nWrite != 1 {
			r.Ob("K4", shortName(sk), "the skipper resets the pending comment once and records comment text once", sk.Pos(), false, fmt.Sprintf("resets: %d, writes: %d", nReset, nWrite))
		}
		if nJoin == 0 {
			// (unless the lines are joined some other way: the text recorded includes the line end, or a separator string)
			r.Ob("K4", shortName(sk), "consecutive comment lines are joined by a newline", sk.Pos(), false, "nothing separates the lines of a comment block: a documentation block of several lines becomes one run-together line")
		}
	})
	// ---- K5
	r.Guard("K5", func() { commentRules(r, m, "K5") })
	// ---- K6
	r.Guard("K6", func() {
		e := m.entry
		nd := 0
		for _, b := range e.Blocks {
			for _, in := range b.Instrs {
				if st, ok := in.(*ssa.Store); ok && strings.HasSuffix(strip(T.T(st.Addr)), ".Description") {
					nd++
					r.Ob("K6", shortName(e), "Description is the text given to the parser, unchanged", st.Pos(), strip(T.T(st.Val)) == "param:"+e.Params[0].Name(), "Description = "+strip(T.T(st.Val)))
				}
				if st, ok := in.(*ssa.Store); ok && strings.HasSuffix(strip(T.T(st.Addr)), "."+m.inputField()) {
					r.Ob("K6", shortName(e), "the parser reads the text given to it, unchanged", st.Pos(), strip(T.T(st.Val)) == "param:"+e.Params[0].Name(), "input = "+strip(T.T(st.Val)))
				}
			}
		}
		if nd == 0 {
			r.Ob("K6", shortName(e), "Description is set", e.Pos(), false, "the description text is not retained")
		}
		for _, b := range m.memberLoop.Blocks {
			for _, in := range b.Instrs {
				if st, ok := in.(*ssa.Store); ok && strings.HasSuffix(strip(T.T(st.Addr)), ".Name") {
					if al, isA := st.Addr.(*ssa.FieldAddr); isA && isNamed(al.X.Type(), pkgIDL, "IDL") {
						c, isC := st.Val.(*ssa.Call)
						okk := isC && a.isCursorMethod(c.Call.StaticCallee()) && len(callsNamed(c.Call.StaticCallee(), false, "regexp.Regexp.FindString")) > 0
						r.Ob("K6", shortName(m.memberLoop), "the interface name is the interface-name reader's result", st.Pos(), okk, "")
					}
				}
			}
		}
	})
	// ---- K8 token charsets
	// ---- K10: what a reader accepts depends on the input alone: no reader branches on a counter or flag kept in the
	// cursor besides the position (a nesting limit, a mode flag left over from an earlier member)
	r.Guard("K10", func() {
		st, _ := a.cursorT.Underlying().(*types.Struct)
		for _, f := range a.methods {
			for _, b := range f.Blocks {
				iff, ok := b.Instrs[len(b.Instrs)-1].(*ssa.If)
				if !ok {
					continue
				}
				seen := map[ssa.Value]bool{}
				var walk func(v ssa.Value, d int) *ssa.FieldAddr
				walk = func(v ssa.Value, d int) *ssa.FieldAddr {
					if v == nil || seen[v] || d > 5 {
						return nil
					}
					seen[v] = true
					switch x := v.(type) {
					case *ssa.BinOp:
						if fa := walk(x.X, d+1); fa != nil {
							return fa
						}
						return walk(x.Y, d+1)
					case *ssa.Convert:
						return walk(x.X, d+1)
					case *ssa.Call:
						// (a value computed from the state: `strings.TrimSpace(input[lineStart:pos]) != ""`)
						for _, arg := range x.Call.Args {
							if fa := walk(arg, d+1); fa != nil {
								return fa
							}
						}
					case *ssa.Slice:
						for _, o := range []ssa.Value{x.Low, x.High} {
							if fa := walk(o, d+1); fa != nil {
								return fa
							}
						}
					case *ssa.Phi:
						for _, e := range x.Edges {
							if fa := walk(e, d+1); fa != nil {
								return fa
							}
						}
					case *ssa.UnOp:
						if x.Op != token.MUL {
							return walk(x.X, d+1)
						}
						fa, isFA := x.X.(*ssa.FieldAddr)
						if !isFA || !a.isCursorT(fa.X.Type()) {
							return nil
						}
						pt, _ := fa.X.Type().Underlying().(*types.Pointer)
						if pt == nil || !types.Identical(pt.Elem(), a.cursorT) || st == nil || fa.Field == a.posIdx || fa.Field == a.inIdx {
							return nil
						}
						if bt, isB := st.Field(fa.Field).Type().Underlying().(*types.Basic); isB && bt.Info()&(types.IsInteger|types.IsBoolean) != 0 {
							return fa
						}
					}
					return nil
				}
				if fa := walk(iff.Cond, 0); fa != nil {
					r.Ob("K10", shortName(f), "readers decide on the input alone (no branch on parser state `"+st.Field(fa.Field).Name()+"`)", p.InstrPos(iff), false,
						"a reader branches on the cursor member `"+st.Field(fa.Field).Name()+"`, which is neither the input nor the position: whether a piece of text is accepted depends on what was read before it (a nesting bound, a leftover flag), so some grammar-conformant descriptions are rejected")
				}
			}
		}
		r.Ob("K10", "-", "readers were examined for state-dependent decisions", a.cursorT.Obj().Pos(), len(a.methods) > 0, "no readers")
	})
	r.Guard("K11", func() {
		// a skip that does not cross line ends, tabs and comments (the line-only skipper) may precede only something
		// optional: when what follows it is tested and its absence is a failure of the reader - no token reader or
		// full layout skip in between - the text is accepted only in one layout
		isLine := map[*ssa.Function]bool{}
		for _, ls := range m.lineSkipper {
			isLine[origFn(ls)] = true
		}
		for _, g := range p.FuncsOf(pkgIDL) {
			// (a skipper folded into its callers by the reader model is not in that list)
			rs := g.Signature.Results()
			if !a.isCursorMethod(g) || len(g.Blocks) == 0 || m.tokens[g] != nil || origFn(g) == origFn(m.skipper) || rs.Len() > 1 {
				continue
			}
			if rs.Len() == 1 {
				if bt, ok := rs.At(0).Type().Underlying().(*types.Basic); !ok || bt.Kind() != types.Bool {
					continue
				}
			}
			if sites := a.readSites(g); len(sites) > 0 {
				if self := a.analyseRead(sites[0]).selfLoopSet(); !self.empty() && !self.has('\n') {
					isLine[g] = true
				}
			}
		}
		if os.Getenv("VLDEBUG") == "k11" {
			fmt.Fprintf(os.Stderr, "K11: lineSkippers %v skipper %v\n", m.lineSkipper, m.skipper)
		}
		n := 0
		// (decided on the functions as written: the pattern is local to the function that makes the skip)
		for _, f := range p.FuncsOf(pkgIDL) {
			if isLine[origFn(f)] || len(f.Blocks) == 0 || f.Signature.Results().Len() == 0 {
				continue
			}
			res := f.Signature.Results()
			failure := func(in ssa.Instruction) bool {
				ret, ok := in.(*ssa.Return)
				if !ok || len(ret.Results) == 0 {
					return false
				}
				last := ret.Results[len(ret.Results)-1]
				k, isK := last.(*ssa.Const)
				if isErrorType(res.At(res.Len() - 1).Type()) {
					return !(isK && k.IsNil())
				}
				if !isK {
					return false
				}
				if k.IsNil() {
					return true
				}
				if k.Value != nil && k.Value.Kind() == constant.Bool {
					return !constant.BoolVal(k.Value)
				}
				return false
			}
			for _, b := range f.Blocks {
				for i, in := range b.Instrs {
					c, ok := in.(*ssa.Call)
					if !ok || c.Call.StaticCallee() == nil || !isLine[origFn(c.Call.StaticCallee())] {
						continue
					}
					n++
					// directly after the full skipper: nothing left to skip
					afterFull := false
					for j := i - 1; j >= 0; j-- {
						if pc, isCall := b.Instrs[j].(*ssa.Call); isCall {
							afterFull = pc.Call.StaticCallee() != nil && origFn(pc.Call.StaticCallee()) == origFn(m.skipper)
							break
						}
					}
					if afterFull {
						continue
					}
					// the search ends at the full skipper; behind a reader it goes on only where that reader found
					// nothing (its success consumed the element), and not through a test of the position (the
					// reference idiom `t == nil && p.position != start`: malformed rather than absent)
					posName := ""
					if cst, ok := a.cursorT.Underlying().(*types.Struct); ok && a.posIdx >= 0 {
						posName = "." + cst.Field(a.posIdx).Name()
					}
					reach, w := reachInstr(f, in, failure, func(x ssa.Instruction) bool {
						xc, isCall := x.(*ssa.Call)
						if !isCall || xc.Call.StaticCallee() == nil {
							return false
						}
						return origFn(xc.Call.StaticCallee()) == origFn(m.skipper)
					}, func(from, to *ssa.BasicBlock) bool {
						for _, fc := range T.edgeFactsOn(from, to) {
							fa, fb := strip(fc.A), strip(fc.B)
							if posName != "" && (fc.Op == "NE" || fc.Op == "LT") && (strings.Contains(fa, posName) || strings.Contains(fb, posName)) {
								return true // the position has changed: something was consumed
							}
							if fc.Op == "NE" && (fb == "nil" || fb == `const:""`) && strings.HasPrefix(fa, "call:") || fc.Op == "NE" && (fa == "nil" || fa == `const:""`) && strings.HasPrefix(fb, "call:") {
								return true
							}
							if fc.Op == "EQ" && fb == "nil" && strings.HasPrefix(fa, "ext(call:") && strings.HasSuffix(fa, ",1)") {
								return true // err == nil of a node reader
							}
						}
						return false
					})
					r.Ob("K11", shortName(f), "what follows a line-only layout skip is optional", c.Pos(), !reach,
						"after a skip that stops at a tab, a line end or a comment the reader fails when the expected text does not follow at once: a mandatory token is accepted only when it stands on the same line, separated by spaces - the result depends on layout", witnessPos(p, w)...)
				}
			}
		}
		r.Stat("line_only_skips", n)
	})
	r.Guard("K13", func() {
		// line ends are consumed by the layout skipper only (which is what clears the pending comment, K4): in no other
		// function does a read that yields '\n' stay consumed on a path that goes on parsing or returns success - a
		// reader that eats the newline itself (`if p.next() == '\n' { return e, nil }`) lets the documentation block of
		// one member leak into the next
		isSkip := map[*ssa.Function]bool{origFn(m.skipper): true}
		for _, ls := range m.lineSkipper {
			isSkip[origFn(ls)] = true
		}
		n := 0
		// (in the readers' views: helpers that are not readers themselves - `expect(c byte) bool`, a comment loop of the
		// skipper - are part of the reader that calls them, with their arguments known)
		for _, f := range a.methods {
			if len(f.Blocks) == 0 || isSkip[origFn(f)] || f == a.next || f == a.back || origFn(f) == origFn(a.next) || a.inlinedHelpers[f] || a.inlinedHelpers[origFn(f)] {
				continue
			}
			if a.skipUntil != nil && f == a.skipUntil {
				continue
			}
			res := f.Signature.Results()
			failure := func(ret *ssa.Return) bool {
				if len(ret.Results) == 0 {
					return false
				}
				last := ret.Results[len(ret.Results)-1]
				k, isK := last.(*ssa.Const)
				if isErrorType(res.At(res.Len() - 1).Type()) {
					return !(isK && k.IsNil())
				}
				if !isK {
					return false
				}
				if k.IsNil() {
					return true
				}
				if k.Value != nil && k.Value.Kind() == constant.Bool {
					return !constant.BoolVal(k.Value)
				}
				if k.Value != nil && k.Value.Kind() == constant.String {
					return constant.StringVal(k.Value) == ""
				}
				return false
			}
			for _, site := range a.readSites(f) {
				type pos struct {
					b     *ssa.BasicBlock
					i, d  int
					alias string
				}
				type item struct {
					p  pos
					vs map[ssa.Value]bool
					ks map[ssa.Value]*ssa.Const // merged values whose incoming edge on this path carries a constant
				}
				key := func(vs map[ssa.Value]bool) string {
					var ks []string
					for v := range vs {
						ks = append(ks, v.Name())
					}
					sort.Strings(ks)
					return strings.Join(ks, ",")
				}
				start := map[ssa.Value]bool{site: true}
				work := []item{{pos{site.Block(), instrIndex(site) + 1, 1, key(start)}, start, map[ssa.Value]*ssa.Const{}}}
				seen := map[string]bool{}
				var bad ssa.Instruction
				var curKs map[ssa.Value]*ssa.Const
				follow := func(from, to *ssa.BasicBlock, d int, vs map[ssa.Value]bool) item {
					nk := map[ssa.Value]*ssa.Const{}
					for k, v := range curKs {
						nk[k] = v
					}
					nv := map[ssa.Value]bool{}
					for v := range vs {
						if ph, isPhi := v.(*ssa.Phi); isPhi && ph.Block() == to {
							continue
						}
						nv[v] = true
					}
					pi := -1
					for k, pb := range to.Preds {
						if pb == from {
							pi = k
						}
					}
					for _, in := range to.Instrs {
						ph, isPhi := in.(*ssa.Phi)
						if !isPhi {
							break
						}
						if pi >= 0 && vs[ph.Edges[pi]] {
							nv[ph] = true
						}
						if pi >= 0 {
							if k, isK := ph.Edges[pi].(*ssa.Const); isK {
								nk[ph] = k
							} else if k, known := curKs[ph.Edges[pi]]; known {
								nk[ph] = k
							} else if pv, ok := foldValue(ph.Edges[pi], vs, '\n', 0); ok && pv.isBool {
								nk[ph] = ssa.NewConst(constant.MakeBool(pv.b), types.Typ[types.Bool])
							} else {
								delete(nk, ph)
							}
						}
					}
					return item{pos{to, 0, d, key(nv)}, nv, nk}
				}
				for len(work) > 0 && bad == nil {
					it := work[0]
					work = work[1:]
					pp := it.p
					curKs = it.ks
					if pp.i == 0 {
						k := fmt.Sprintf("%d|%d|%s|%d", pp.b.Index, pp.d, pp.alias, len(it.ks))
						if seen[k] {
							continue
						}
						seen[k] = true
					}
					d := pp.d
					ended := false
					for i := pp.i; i < len(pp.b.Instrs) && !ended && bad == nil; i++ {
						switch x := pp.b.Instrs[i].(type) {
						case *ssa.Call:
							callee := x.Call.StaticCallee()
							switch {
							case callee == nil:
							case callee == a.back || origFn(callee) == origFn(a.back):
								d--
								if d == 0 {
									ended = true // the newline is back in the input
								}
							case callee == a.next || origFn(callee) == origFn(a.next):
								if d < 4 {
									d++
								}
							case a.isCursorMethod(callee):
								bad = x // parsing goes on with the newline consumed
							}
						case *ssa.Store:
							// the position is assigned or stepped back by hand: give up on this path (O1 judges such stores)
							if isRecvField(x.Addr, f, a.posIdx, a.cursorT) {
								ended = true
							}
						case *ssa.Return:
							fail := failure(x)
							if !fail && len(x.Results) > 0 {
								// the value returned on this path: a merged constant, or computed from the byte read
								last := x.Results[len(x.Results)-1]
								if k, known := it.ks[last]; known && k.Value != nil && k.Value.Kind() == constant.Bool {
									fail = !constant.BoolVal(k.Value)
								} else if pv, ok := foldValue(last, it.vs, '\n', 0); ok && pv.isBool {
									fail = !pv.b
								}
							}
							if !fail {
								bad = x
							}
							ended = true
						case *ssa.If:
							switch evalCondAliases(x.Cond, it.vs, '\n') {
							case 1:
								work = append(work, follow(pp.b, pp.b.Succs[0], d, it.vs))
							case 0:
								work = append(work, follow(pp.b, pp.b.Succs[1], d, it.vs))
							default:
								work = append(work, follow(pp.b, pp.b.Succs[0], d, it.vs), follow(pp.b, pp.b.Succs[1], d, it.vs))
							}
							ended = true
						case *ssa.Jump:
							work = append(work, follow(pp.b, pp.b.Succs[0], d, it.vs))
							ended = true
						case *ssa.Panic:
							ended = true
						}
					}
				}
				n++
				var w []token.Pos
				if bad != nil {
					w = append(w, bad.Pos())
				}
				_ = w
				detail := ""
				if bad != nil {
					detail = "when this read yields '\\n' the byte stays consumed and " + ifs(isReturn(bad), "the reader returns success", "parsing goes on ("+p.Fset.Position(bad.Pos()).String()+")") + ": the line end never reaches the layout skipper, so the pending documentation block is not cleared and is attached to the next member"
				}
				r.Ob("K13", shortName(f), fmt.Sprintf("read #%d does not swallow a line end", a.ord(site)), site.Pos(), bad == nil, detail)
			}
		}
		r.Stat("K13_read_sites", n)
		r.Floor("K13", 5)
	})
	r.Guard("K14", func() {
		// a type reader that finds nothing of a type at the cursor leaves the cursor where it was: at its first read, a
		// byte that leads straight to the failure return is stepped back. (The optional type of an error is detected by
		// "nothing consumed"; a reader that eats the byte it could not use turns `error Name` at the end of a line into
		// "invalid error type".)
		n := 0
		for _, f := range p.FuncsOf(pkgIDL) {
			if len(f.Blocks) == 0 || !a.isCursorMethod(f) || f.Signature.Results().Len() != 1 {
				continue
			}
			if pt, ok := f.Signature.Results().At(0).Type().(*types.Pointer); !ok || !types.Identical(pt.Elem(), m.typeT) {
				continue
			}
			sites := a.readSites(f)
			if len(sites) == 0 {
				continue
			}
			s0 := sites[0]
			// the first read on every path: its block dominates every other read
			first := true
			for _, s := range sites[1:] {
				if !(s0.Block() == s.Block() || s0.Block().Dominates(s.Block())) {
					first = false
				}
			}
			// ... and the first thing the function does with the cursor
			if s0.Block() != f.Blocks[0] {
				first = false
			}
			for _, in := range f.Blocks[0].Instrs {
				if in == ssa.Instruction(s0) {
					break
				}
				if c, ok := in.(*ssa.Call); ok && c.Call.StaticCallee() != nil && a.isCursorMethod(c.Call.StaticCallee()) {
					first = false
				}
			}
			if !first {
				continue
			}
			n++
			out := a.analyseRead(s0)
			var bad []string
			for c := -1; c <= 255; c++ {
				if !out.Consumed.has(c) || out.Pushed.has(c) {
					continue
				}
				for _, ev := range out.Next[c] {
					if ret, isRet := ev.(*ssa.Return); isRet && len(ret.Results) == 1 {
						if k, isK := ret.Results[0].(*ssa.Const); isK && k.IsNil() {
							if c < 0 {
								bad = append(bad, "end of input")
							} else {
								bad = append(bad, fmt.Sprintf("%q", rune(c)))
							}
						}
					}
				}
			}
			// (a particular byte that is consumed before the reader gives up - the '?' of `??` - is a malformed type, not an
			// absent one: only the default behaviour is judged)
			if len(bad) < 128 {
				bad = nil
			}
			if len(bad) > 6 {
				bad = append(bad[:6], "…")
			}
			r.Ob("K14", shortName(f), "a byte that is not the start of what this reader reads is left in the input", s0.Pos(), len(bad) == 0,
				"at its first read the reader consumes "+strings.Join(bad, " ")+" and then reports that there is nothing to read: the caller, which tells `no type here` from `malformed type` by whether anything was consumed, rejects a description that merely has no type at this point")
		}
		r.Stat("K14_type_readers", n)
	})
	r.Guard("K15", func() {
		// layout between the tokens of a member: in the readers that skip layout at all (at least two calls of the full
		// skipper: the member readers, the field list, the member loop) every token read and every single-byte read is
		// directly preceded - on every path - by a layout skip; exempt are the first read of the function and a byte
		// read that directly follows another byte read (a two-byte operator). A call of any other cursor method is
		// opaque (it skips what it needs itself).
		isLine := map[*ssa.Function]bool{}
		for _, ls := range m.lineSkipper {
			isLine[origFn(ls)] = true
		}
		for _, g := range p.FuncsOf(pkgIDL) {
			rs := g.Signature.Results()
			if !a.isCursorMethod(g) || len(g.Blocks) == 0 || m.tokens[g] != nil || origFn(g) == origFn(m.skipper) || rs.Len() > 1 {
				continue
			}
			if rs.Len() == 1 {
				if bt, ok := rs.At(0).Type().Underlying().(*types.Basic); !ok || bt.Kind() != types.Bool {
					continue
				}
			}
			if sites := a.readSites(g); len(sites) > 0 {
				if self := a.analyseRead(sites[0]).selfLoopSet(); !self.empty() && !self.has('\n') {
					isLine[g] = true
				}
			}
		}
		kind := func(in ssa.Instruction) byte {
			c, ok := in.(*ssa.Call)
			if !ok || c.Call.StaticCallee() == nil {
				return 0
			}
			g := origFn(c.Call.StaticCallee())
			switch {
			case g == origFn(m.skipper), isLine[g]:
				return 'S'
			case g == origFn(a.next):
				return 'N'
			case a.back != nil && g == origFn(a.back):
				return 0 // stepping back does not read
			case m.tokens[g] != nil, m.typeReaders[g]:
				return 'R'
			case a.isCursorMethod(g):
				return 'C'
			}
			return 0
		}
		n := 0
		for _, f := range p.FuncsOf(pkgIDL) {
			if len(f.Blocks) == 0 || !a.isCursorMethod(f) || origFn(f) == origFn(m.skipper) || isLine[origFn(f)] {
				continue
			}
			skips := 0
			for _, b := range f.Blocks {
				for _, in := range b.Instrs {
					if c, ok := in.(*ssa.Call); ok && c.Call.StaticCallee() != nil && origFn(c.Call.StaticCallee()) == origFn(m.skipper) {
						skips++
					}
				}
			}
			if skips < 2 {
				continue
			}
			// forward may-analysis of the last cursor event
			in := map[*ssa.BasicBlock]map[byte]bool{f.Blocks[0]: {'0': true}}
			work := []*ssa.BasicBlock{f.Blocks[0]}
			bad := map[ssa.Instruction]string{}
			for len(work) > 0 {
				b := work[0]
				work = work[1:]
				cur := map[byte]bool{}
				for k := range in[b] {
					cur[k] = true
				}
				for _, ins := range b.Instrs {
					k := kind(ins)
					if k == 0 {
						continue
					}
					if k == 'R' || k == 'N' {
						for prev := range cur {
							okPrev := prev == 'S' || prev == '0' || prev == 'C' || (k == 'N' && prev == 'N')
							if !okPrev {
								bad[ins] = ifs(prev == 'R', "a token read", "a byte read")
							}
						}
					}
					cur = map[byte]bool{k: true}
				}
				for _, s := range b.Succs {
					old := in[s]
					changed := old == nil
					nv := map[byte]bool{}
					for k := range old {
						nv[k] = true
					}
					for k := range cur {
						if !nv[k] {
							nv[k] = true
							changed = true
						}
					}
					if changed {
						in[s] = nv
						work = append(work, s)
					}
				}
			}
			n++
			if len(bad) == 0 {
				r.Ob("K15", shortName(f), "layout is skipped in front of every token of this reader", f.Pos(), true, "")
				continue
			}
			var bl []ssa.Instruction
			for ins := range bad {
				bl = append(bl, ins)
			}
			sort.Slice(bl, func(i, j int) bool { return bl[i].Pos() < bl[j].Pos() })
			for i, ins := range bl {
				r.Ob("K15", shortName(f), fmt.Sprintf("layout is skipped in front of every token of this reader (#%d)", i+1), ins.Pos(), false,
					"this read directly follows "+bad[ins]+" on some path, without a layout skip in between, in a reader that skips layout between its other tokens: the description is accepted only when nothing stands between these two tokens")
			}
		}
		r.Stat("K15_readers", n)
		r.Floor("K15", 1)
	})
	r.Guard("K12", func() {
		// no rejection for a name that is not (yet) in the tree: a search of a list or table of the tree under
		// construction whose unsuccessful outcome can only end in an error makes acceptance depend on the order of
		// declarations (forward references, mutually recursive types). The duplicate test is the opposite: found -> error.
		isTree := func(t types.Type) bool {
			pt, ok := t.Underlying().(*types.Pointer)
			if !ok {
				return false
			}
			nt, ok := pt.Elem().(*types.Named)
			if !ok || nt.Obj().Pkg() == nil || nt.Obj().Pkg().Path() != pkgIDL || types.Identical(nt, a.cursorT) {
				return false
			}
			_, isStruct := nt.Underlying().(*types.Struct)
			return isStruct
		}
		var treeColl func(v ssa.Value, d int) string
		treeColl = func(v ssa.Value, d int) string {
			if d > 4 {
				return ""
			}
			switch x := v.(type) {
			case *ssa.UnOp:
				if x.Op != token.MUL {
					return ""
				}
				if fa, ok := x.X.(*ssa.FieldAddr); ok && isTree(fa.X.Type()) {
					switch fa.Type().Underlying().(*types.Pointer).Elem().Underlying().(type) {
					case *types.Slice, *types.Map:
						return fieldName(fa.X, fa.Field)
					}
				}
			case *ssa.Phi:
				for _, e := range x.Edges {
					if s := treeColl(e, d+1); s != "" {
						return s
					}
				}
			case *ssa.MakeMap:
				// a local table filled with names read from the input
				for _, ref := range *x.Referrers() {
					if mu, ok := ref.(*ssa.MapUpdate); ok {
						if _, isK := mu.Key.(*ssa.Const); !isK {
							return "table " + x.Name()
						}
					}
				}
			case *ssa.Slice:
				return treeColl(x.X, d+1)
			}
			return ""
		}
		n := 0
		seenPos := map[token.Pos]bool{}
		for f := range BuildCallGraph(p).Reach([]*ssa.Function{origFn(m.entry)}, false) {
			if fnPkgPath(f) != pkgIDL || f.Parent() != nil || len(f.Blocks) == 0 {
				continue
			}
			res := f.Signature.Results()
			if res.Len() == 0 || !isErrorType(res.At(res.Len()-1).Type()) {
				continue
			}
			v := p.Inlined(f, nil)
			failure := func(in ssa.Instruction) bool {
				ret, ok := in.(*ssa.Return)
				if !ok || len(ret.Results) == 0 {
					return false
				}
				k, isK := ret.Results[len(ret.Results)-1].(*ssa.Const)
				return !(isK && k.IsNil())
			}
			success := func(in ssa.Instruction) bool {
				_, ok := in.(*ssa.Return)
				return ok && !failure(in)
			}
			for _, b := range v.Blocks {
				iff, ok := b.Instrs[len(b.Instrs)-1].(*ssa.If)
				if !ok {
					continue
				}
				var missEdge *ssa.BasicBlock
				what := ""
				cond, neg := iff.Cond, false
				if u, isU := cond.(*ssa.UnOp); isU && u.Op == token.NOT {
					cond, neg = u.X, true
				}
				switch x := cond.(type) {
				case *ssa.BinOp:
					// i < len(list): the false edge is the exhausted search
					if x.Op == token.LSS {
						if c, isCall := x.Y.(*ssa.Call); isCall {
							if bi, isB := c.Call.Value.(*ssa.Builtin); isB && bi.Name() == "len" {
								if what = treeColl(c.Call.Args[0], 0); what != "" {
									missEdge = b.Succs[1]
									if neg {
										missEdge = b.Succs[0]
									}
								}
							}
						}
					}
				case *ssa.Extract:
					if lk, isLk := x.Tuple.(*ssa.Lookup); isLk && lk.CommaOk && x.Index == 1 {
						if what = treeColl(lk.X, 0); what != "" {
							missEdge = b.Succs[1]
							if neg {
								missEdge = b.Succs[0]
							}
						}
					}
				}
				if missEdge == nil {
					continue
				}
				// (an exhausted search that is also the end of the reader's work - a printing or collecting loop -
				// has no failure behind it)
				canFail, w := reachFromBlock(v, missEdge, failure, nil)
				canSucceed, _ := reachFromBlock(v, missEdge, success, nil)
				if seenPos[iff.Pos()] && !(canFail && !canSucceed) {
					continue
				}
				seenPos[iff.Pos()] = true
				n++
				r.Ob("K12", shortName(v), "a name that is not found in "+what+" is not a reason to reject", p.InstrPos(iff), !(canFail && !canSucceed),
					"when the search of "+what+" finds nothing, every path ends in an error: a description is rejected because a name it uses has not been declared before that point - grammar-conformant descriptions with forward or mutual references are refused", witnessPos(p, w)...)
			}
		}
		r.Stat("tree_searches", n)
	})
	r.Guard("K8", func() {
		lower, upper, digit := rangeSet('a', 'z'), rangeSet('A', 'Z'), rangeSet('0', '9')
		union := func(sets ...*byteSet) *byteSet {
			var u byteSet
			for _, s := range sets {
				for i, b := range s {
					if b {
						u[i] = true
					}
				}
			}
			return &u
		}
		kinds := 0
		seenKind := map[string]bool{}
		for f, tc := range m.tokens {
			if isBuiltDuplicate(f) {
				continue
			}
			switch {
			case tc.First.equal(lower) && tc.Rest.equal(lower):
				// (the keyword reader is told from the field-name reader by its byte sets, not by the shape of its loop)
				kinds++
				seenKind["keyword"] = true
				r.Ob("K8", shortName(f), "keyword token is [a-z]*", f.Pos(), tc.Rest.equal(lower), "keyword bytes: "+tc.Rest.String())
			case tc.First.equal(lower):
				kinds++
				seenKind["field"] = true
				r.Ob("K8", shortName(f), "field name token is [a-z][A-Za-z0-9_]*", f.Pos(), tc.Rest.equal(union(lower, upper, digit, setOf('_'))), "following bytes: "+tc.Rest.String())
			case tc.First.equal(upper):
				kinds++
				seenKind["type"] = true
				r.Ob("K8", shortName(f), "type/method/error name token is [A-Z][A-Za-z0-9]*", f.Pos(), tc.Rest.equal(union(lower, upper, digit)), "following bytes: "+tc.Rest.String())
			default:
				r.Ob("K8", shortName(f), "token reader has one of the grammar's three token shapes", f.Pos(), false, "first byte set "+tc.First.String())
			}
		}
		r.Ob("K8", "-", "keyword, field-name and type-name token readers exist", m.typeT.Obj().Pos(), kinds == 3 && len(seenKind) == 3, fmt.Sprintf("%d byte-wise token readers recognised, kinds %v (a keyword reader [a-z]*, a field-name reader and a type-name reader are expected)", kinds, seenKind))
	})
}

// elemIsRecursiveCallAfter: the node's ElementType is the result of a type-reader call that is executed after the read
// that matched `after` on every path to the construction.
func (m *idlModel) elemIsRecursiveCallAfter(tn typeNode, after int) bool {
	if len(tn.Elem) != 1 {
		return false
	}
	c, ok := tn.Elem[0].(*ssa.Call)
	if !ok || !m.typeReaders[c.Call.StaticCallee()] {
		return false
	}
	// the read compared with `after` dominates the call
	fs := m.T.FactsAt(c.Block())
	t, has := m.nextEq(fs, after)
	if !has {
		return false
	}
	for _, s := range m.a.readSites(tn.Fn) {
		if m.T.T(s) == t {
			if reach, _ := reachInstr(tn.Fn, s, func(in ssa.Instruction) bool { return in == ssa.Instruction(c) }, nil, nil); reach {
				// and no other read between the call and the construction that could belong to the element
				return true
			}
		}
	}
	return false
}

// appendedValues: the element values of a variadic slice literal.
func appendedValues(v ssa.Value) []ssa.Value {
	sl, ok := v.(*ssa.Slice)
	if !ok {
		return nil
	}
	arr, ok := sl.X.(*ssa.Alloc)
	if !ok {
		return nil
	}
	var out []ssa.Value
	for _, ref := range *arr.Referrers() {
		if ia, ok := ref.(*ssa.IndexAddr); ok {
			for _, r2 := range *ia.Referrers() {
				if st, ok := r2.(*ssa.Store); ok {
					out = append(out, st.Val)
				}
			}
		}
	}
	return out
}
