package main

import (
	"fmt"
	"go/constant"
	"go/token"
	"go/types"
	"regexp"
	"sort"
	"strings"

	"golang.org/x/tools/go/ssa"
)

func init() {
	register(&propDef{
		id: "C19", level: "other", perCfg: true,
		explain: "Necessary structural conditions of C19, each decided for all paths of the current source. A1 error discipline: no error returned by a repo function is dropped on the bind/listen/connect paths, and in Bind every path to the listen call has established the ':' prefix and crossed protocol == \"unix\" or protocol == \"tcp\" (so never after a parser error). A2 whitelist: in the service's address parser (found by role: the Service method that splits at ':'), every path to a success return crosses `len(SplitN(addr,\":\",2)) == 2`, crosses `proto == \"unix\"` or `proto == \"tcp\"` (and no other constant), and after the unix edge crosses a non-emptiness test of the very value that is finally stored as the address. A3 no unguarded index: every constant-index Index/IndexAddr on the address paths carries a dominating length fact (or is element 0 of a strings.SplitN(_,_,n>=1) result). A4 both sides parse alike: protocol and address terms computed by the parser and by NewConnection are the same functions of the input string (text before the first ':'; rest cut at the first ';') and are exactly the values that reach the listen call in Bind resp. DialContext in NewConnection (any write between parsing and listening shows up there). A5 socket-file lifecycle: os.Remove and SetUnlinkOnClose(true) happen exactly under proto==unix and not-abstract, before resp. after a successful listen, and are present on every such path. A6 re-bindable: a failing listen stores no listener; Bind refuses before looking at the address only because serving is in progress (no other Service state can wedge it). Functions are analysed in their inlined views (DESIGN 9.2): repository helpers are part of the function that calls them, so it does not matter whether a step is written out or factored into a helper. A6 also: a failing Bind does not leave the service marked as serving. A2's emptiness test must be made on the value finally stored: library facts stated by the checker (strings.SplitN with constant n != 0 and strings.Split never return nil) fold the corresponding branches, so the un-cut rest is not a final value of the address. A7 the listener held before is not closed after the new one was created (for a unix path bound again, unlink-on-close of the old listener would remove the socket file the new one has just created).",
		notDec:  "What the operating system accepts as an address; '@' selecting the abstract namespace (Go net contract); that unlink-on-close really removes the file (net.UnixListener contract).",
		trusted: []string{"strings.SplitN(s, sep, n) with n >= 1 returns a non-nil slice with between 1 and n elements", "net.UnixListener.SetUnlinkOnClose(true) makes Close remove the socket file"},
		run:     runC19,
	})
}

var reParam = regexp.MustCompile(`param:[A-Za-z_][A-Za-z0-9_]*`)

// normParam rewrites the name of one parameter to "$in" so that terms of different functions can be compared.
func normParam(s, name string) string {
	return strings.ReplaceAll(s, "param:"+name, "param:$in")
}

func runC19(r *Run, p *Prog) {
	ro := DiscoverRoles(p)
	T, cg := ro.T, ro.CG
	writes := fieldWriteSummaries(p, cg, T)

	// roles
	var parser *ssa.Function // Service method that splits its string parameter at ":"
	splitsAtColon := func(f *ssa.Function) bool {
		for _, cs := range callsNamed(f, false, "strings.SplitN", "strings.Split", "strings.Cut", "strings.Index", "strings.IndexByte") {
			if len(cs.Common.Args) >= 2 {
				if a := T.T(cs.Common.Args[1]); a == `const:":"` || a == "const:58" {
					return true
				}
			}
		}
		return false
	}
	for _, f := range p.FuncsOf(pkgVarlink) {
		// (a method of the Service or of a state struct the Service holds by value: `(*endpoint).parse`)
		if f.Signature.Recv() == nil || !isServiceState(f.Signature.Recv().Type()) {
			continue
		}
		if splitsAtColon(f) {
			parser = f
		}
	}
	if parser == nil {
		// the split is written in a helper shared with the client (`parseAddress(s) (address, bool)`): the parser is
		// the innermost method of the Service (or of a state struct) whose inlined view splits its argument
		cands := map[*ssa.Function]bool{}
		for _, f := range p.FuncsOf(pkgVarlink) {
			if f.Parent() == nil && f.Signature.Recv() != nil && isServiceState(f.Signature.Recv().Type()) && len(f.Blocks) > 0 && splitsAtColon(p.Inlined(f, nil)) {
				cands[f] = true
			}
		}
		for f := range cands {
			inner := true
			for g := range cg.Reach([]*ssa.Function{f}, false) {
				if g != f && cands[g] {
					inner = false
				}
			}
			if inner && (parser == nil || f.Pos() < parser.Pos()) {
				parser = f
			}
		}
	}
	var listenFns []*ssa.Function // functions that create a listener from (network, address)
	for _, f := range p.LibFuncs() {
		for _, cs := range callsNamed(f, false, "net.ListenConfig.Listen", "net.Listen") {
			_ = cs
			listenFns = appendFn(listenFns, f)
		}
	}
	bind := p.Func(pkgVarlink, "Service.Bind")
	newConn := p.Func(pkgVarlink, "NewConnection")
	if parser == nil {
		r.Unresolved("A2", "service-side address parser (a Service method that splits its argument at \":\")")
	}
	if len(listenFns) == 0 {
		r.Unresolved("A1", "listener creation (call of net.ListenConfig.Listen / net.Listen)")
	}
	if bind == nil {
		r.Unresolved("A1", "Service.Bind")
	}
	if newConn == nil {
		r.Unresolved("A4", "NewConnection")
	}
	if parser == nil || bind == nil || newConn == nil || len(listenFns) == 0 {
		return
	}
	// Bind and NewConnection are analysed in their inlined views (inline.go): whether the parsing, the stale-socket
	// handling and the listen call are written in Bind or in helpers makes no difference to the rules below. The
	// parser-specific rules (A2, the parser half of A4) look at the parser's own inlined view.
	vb := p.Inlined(bind, nil)
	cg.AddView(vb)
	parser = p.Inlined(parser, nil) // the validation may live in helpers of the parser (`return s.endpoint.validate()`)
	cg.AddView(parser)
	newConnBuilt := newConn
	newConn = p.Inlined(newConn, nil)
	cg.AddView(newConn)
	bin := ""
	for _, prm := range vb.Params {
		if b, ok := prm.Type().Underlying().(*types.Basic); ok && b.Kind() == types.String {
			bin = prm.Name()
		}
	}
	if bin == "" {
		r.Unresolved("A4", "string parameter of Bind")
		return
	}
	isListenCall := func(in ssa.Instruction) bool {
		c, ok := in.(*ssa.Call)
		if !ok {
			return false
		}
		if n := calleeName(&c.Call); n == "net.ListenConfig.Listen" || n == "net.Listen" {
			return true
		}
		t := staticTarget(&c.Call)
		for _, lf := range listenFns {
			if t == lf {
				return true
			}
		}
		return false
	}
	setups := []*ssa.Function{vb}
	scope := cg.Reach(append([]*ssa.Function{bind, newConnBuilt}, ro.ServingOrig...), false)
	r.Note("roles: parser=%s listen=%v scope=%v; Bind and NewConnection analysed in their inlined views", shortName(parser), fnNames(fnSet(listenFns)), fnNames(scope))

	// ---- A1: error discipline
	r.Guard("A1", func() {
		resetFns := fnSet(BuildServeModel(p, ro).Reset)
		for f := range scope {
			if fnPkgPath(f) != pkgVarlink || resetFns[f] {
				continue // the teardown path deliberately ignores close errors (as the original ignores Close's)
			}
			for _, cs := range callsIn(f, false) {
				call, ok := cs.Instr.(*ssa.Call)
				if !ok {
					continue
				}
				t := staticTarget(cs.Common)
				if t == nil || !p.InRepo(t) {
					continue
				}
				res := t.Signature.Results()
				if res.Len() == 0 || !isErrorType(res.At(res.Len()-1).Type()) {
					continue
				}
				used := alwaysNilError(t) // nothing to examine: every return statement of the callee returns a nil error
				for _, ref := range *call.Referrers() {
					switch x := ref.(type) {
					case *ssa.DebugRef:
					case *ssa.Extract:
						if x.Index == res.Len()-1 && len(*x.Referrers()) > 0 {
							used = true
						}
					default:
						if res.Len() == 1 {
							used = true
						}
					}
				}
				r.Ob("A1", shortName(f), "error result of "+funcFullName(t)+" is examined", call.Pos(), used,
					"the error returned by "+funcFullName(t)+" is discarded: a failure is silently ignored and the caller continues with stale state")
			}
		}
		// the listener is created only for a string the parser accepts: every path of Bind to the listen call has
		// established the ':' prefix and crossed protocol == "unix" or protocol == "tcp"
		vms := NewMemState(T, cg, vb, writes)
		protoAlt := []string{strings.ReplaceAll(`before(param:$in,const:":")`, "$in", bin)}
		n := 0
		for _, b := range vb.Blocks {
			for _, in := range b.Instrs {
				if !isListenCall(in) {
					continue
				}
				n++
				lc := in
				isLC := func(i ssa.Instruction) bool { return i == lc }
				ok, w := mustCross(T, vb, nil, isLC, nil, func(fs []Fact) bool { return hasSepFact(fs, "param:"+bin, ":") })
				r.Ob("A1", shortName(vb), "the listener is created only after the string was found to contain ':'", in.Pos(), ok,
					"the listener is created for a string without '<protocol>:' prefix (or although the address parser reported an error): the service binds to whatever the fields held before", witnessPos(p, w)...)
				reach, w2 := reachInstr(vb, nil, isLC, nil, func(x, y *ssa.BasicBlock) bool {
					for _, f := range T.edgeFactsOn(x, y) {
						if f.Op != "EQ" {
							continue
						}
						for _, k := range []string{`const:"unix"`, `const:"tcp"`} {
							if (f.A == k && isValueOf(vms, vb, f.B, x, protoAlt)) || (f.B == k && isValueOf(vms, vb, f.A, x, protoAlt)) {
								return true
							}
						}
					}
					return false
				})
				r.Ob("A1", shortName(vb), "the listener is created only for protocol unix or tcp", in.Pos(), !reach,
					"the listen call can be reached without the protocol having been found to be unix or tcp (e.g. although the address parser reported an error)", witnessPos(p, w2)...)
			}
		}
		if n == 0 {
			r.Unresolved("A1", "listen call on the bind path")
		}
		r.Floor("A1", 2)
	})

	// ---- A2: whitelist in the parser
	ms := NewMemState(T, cg, parser, writes)
	recv := parser.Params[0].Name()
	in := parser.Params[1].Name()
	locProto, locAddr := "", ""
	var svcFields []string
	var stringFields func(t types.Type, prefix string, depth int)
	stringFields = func(t types.Type, prefix string, depth int) {
		st, ok := t.Underlying().(*types.Struct)
		if !ok || depth > 2 {
			return
		}
		for i := 0; i < st.NumFields(); i++ {
			ft := st.Field(i).Type()
			if b, ok := ft.(*types.Basic); ok && b.Kind() == types.String {
				svcFields = append(svcFields, prefix+st.Field(i).Name())
			} else if isServiceState(types.NewPointer(ft)) && depth == 0 || depth > 0 {
				if nt, ok := ft.(*types.Named); ok && nt.Obj().Pkg() != nil && nt.Obj().Pkg().Path() == pkgVarlink {
					stringFields(ft, prefix+st.Field(i).Name()+".", depth+1) // a nested state struct (`endpoint{protocol, address}`)
				}
			}
		}
	}
	recvT := types.Type(ro.ServiceT)
	if pt, ok := parser.Signature.Recv().Type().(*types.Pointer); ok {
		recvT = pt.Elem()
	}
	stringFields(recvT, "", 0)
	succ := successReturns(T, parser)
	if len(succ) == 0 {
		r.Unresolved("A2", "success return of the address parser")
		return
	}
	// which string fields does the parser leave set on success, and to what
	final := map[string][]string{}
	for _, fld := range svcFields {
		loc := "&param:" + recv + "." + fld
		set := map[string]bool{}
		for _, s := range succ {
			for _, a := range ms.FinalAlts(T, loc, s) {
				set[normParam(a, in)] = true
			}
		}
		var l []string
		for k := range set {
			l = append(l, k)
		}
		sort.Strings(l)
		final[fld] = l
	}
	protoT := `before(param:$in,const:":")`
	restT := `after(param:$in,const:":")`
	cutT := `before(` + restT + `,const:";")`
	for fld, alts := range final {
		if len(alts) == 1 && alts[0] == protoT {
			locProto = "&param:" + recv + "." + fld
		}
		for _, a := range alts {
			if a == cutT {
				locAddr = "&param:" + recv + "." + fld
			}
		}
	}
	r.Guard("A4", func() {
		r.Ob("A4", shortName(parser), "protocol := text before the first ':'", parser.Pos(), locProto != "",
			fmt.Sprintf("no string field of Service holds %s after a successful parse (fields: %v)", protoT, final))
		okAddr := locAddr != ""
		if okAddr {
			for _, a := range final[strings.TrimPrefix(locAddr, "&param:"+recv+".")] {
				if a != cutT && a != restT {
					okAddr = false
				}
			}
		}
		r.Ob("A4", shortName(parser), "address := rest after the first ':' cut at the first ';'", parser.Pos(), okAddr,
			fmt.Sprintf("after a successful parse the address field may hold something other than the text between the first ':' and the first ';' (fields: %v)", final))
		if okAddr {
			isSuccI := func(i ssa.Instruction) bool {
				for _, s := range succ {
					if s == i {
						return true
					}
				}
				return false
			}
			hasRest := false
			for _, a := range final[strings.TrimPrefix(locAddr, "&param:"+recv+".")] {
				if a == restT {
					hasRest = true
				}
			}
			if hasRest {
				j, n, w := uncutJustified(T, ms, parser, locAddr, restT, isSuccI, func(x string) string { return normParam(x, in) })
				r.Ob("A4", shortName(parser), "the un-cut rest is kept only when there is no ';' tail", parser.Pos(), j && n > 0,
					"the address field can keep the text after the first ':' without cutting the ';' tail on a feasible path", witnessPos(p, w)...)
			}
		}
		// client side
		var dial *ssa.Call
		for _, cs := range callsNamed(newConn, false, "net.Dialer.DialContext", "net.Dial", "net.DialTimeout", "net.Dialer.Dial") {
			if c, ok := cs.Instr.(*ssa.Call); ok {
				dial = c
			}
		}
		if dial == nil {
			r.Unresolved("A4", "dial call in NewConnection")
			return
		}
		cms := NewMemState(T, cg, newConn, writes)
		cin := newConn.Params[1].Name()
		args := dial.Call.Args
		cproto, caddr := args[len(args)-2], args[len(args)-1]
		var pa, aa []string
		for _, a := range cms.ValueAlts(cproto, 0) {
			pa = append(pa, normParam(a, cin))
		}
		for _, a := range cms.ValueAlts(caddr, 0) {
			aa = append(aa, normParam(a, cin))
		}
		sort.Strings(aa)
		r.Ob("A4", shortName(newConn), "client protocol term equals the service's", dial.Pos(), len(pa) == 1 && pa[0] == protoT,
			fmt.Sprintf("client dials network %v, the service listens on %s: the same string does not reach the same endpoint", pa, protoT))
		for _, a := range aa {
			if a == restT {
				j, n, w := uncutJustified(T, cms, newConn, "", restT, nil, func(x string) string { return normParam(x, cin) })
				r.Ob("A4", shortName(newConn), "the un-cut rest is dialled only when there is no ';' tail", dial.Pos(), j && n > 0,
					"the client can dial the text after the first ':' without cutting the ';' tail on a feasible path", witnessPos(p, w)...)
			}
		}
		sa := final[strings.TrimPrefix(locAddr, "&param:"+recv+".")]
		// (the un-cut rest as an alternative is judged by its own obligations on each side - it is kept only where
		// there is no ';' - so the comparison is about the remaining alternatives)
		without := func(l []string) string {
			var out []string
			for _, x := range l {
				if x != restT {
					out = append(out, x)
				}
			}
			return strings.Join(out, "|")
		}
		r.Ob("A4", shortName(newConn), "client address term equals the service's", dial.Pos(), okAddr && without(aa) == without(sa) && without(aa) != "",
			fmt.Sprintf("client dials address %v, the service listens on %v: both sides must cut the same ';' tail from the same rest", aa, sa))
		// client: a malformed string (no ':') is an error, not a panic
		ok, w := mustCross(T, newConn, nil, func(i ssa.Instruction) bool { return i == ssa.Instruction(dial) }, nil, func(fs []Fact) bool {
			return hasSepFact(fs, "param:"+cin, ":")
		})
		r.Ob("A4", shortName(newConn), "client dials only after establishing that the string contains ':'", dial.Pos(), ok, "the client can reach the dial without having established that the string has a '<protocol>:' prefix", witnessPos(p, w)...)
		// what reaches the listen call is what the parser accepted: network = text before the first ':', address = the
		// (cut) rest - evaluated in Bind's inlined view, so any write between parsing and listening shows up here
		for _, su := range setups {
			sms := NewMemState(T, cg, su, writes)
			for _, b := range su.Blocks {
				for _, in := range b.Instrs {
					if !isListenCall(in) {
						continue
					}
					a := in.(*ssa.Call).Call.Args
					var gp, ga []string
					for _, x := range sms.ValueAlts(a[len(a)-2], 0) {
						gp = append(gp, normParam(x, bin))
					}
					for _, x := range sms.ValueAlts(a[len(a)-1], 0) {
						ga = append(ga, normParam(x, bin))
					}
					sort.Strings(ga)
					sa := final[strings.TrimPrefix(locAddr, "&param:"+recv+".")]
					r.Ob("A4", shortName(su), "the listener is created for the parsed protocol and address", in.Pos(),
						len(gp) == 1 && gp[0] == protoT && okAddr && strings.Join(ga, "|") == strings.Join(sa, "|"),
						fmt.Sprintf("listen is called with network %v and address %v, expected %s and %v (what the address parser accepted)", gp, ga, protoT, sa))
				}
			}
		}
		r.Floor("A4", 3)
	})

	r.Guard("A2", func() {
		isSucc := func(i ssa.Instruction) bool {
			for _, s := range succ {
				if s == i {
					return true
				}
			}
			return false
		}
		ok, w := mustCross(T, parser, nil, isSucc, nil, func(fs []Fact) bool { return hasSepFact(fs, "param:"+in, ":") })
		r.Ob("A2", shortName(parser), "success only if the string contains ':' (a '<protocol>:' prefix)", parser.Pos(), ok,
			"a string without a '<protocol>:' prefix can be accepted", witnessPos(p, w)...)
		// protocol whitelist: comparisons of the protocol value with string constants
		isProto := func(term string, at *ssa.BasicBlock) bool {
			return isValueOf(ms, parser, term, at, []string{strings.ReplaceAll(protoT, "$in", in)})
		}
		protoEq := func(fs []Fact, from *ssa.BasicBlock, consts ...string) bool {
			for _, f := range fs {
				if f.Op != "EQ" {
					continue
				}
				for _, c := range consts {
					k := fmt.Sprintf("const:%q", c)
					if (f.A == k && isProto(f.B, from)) || (f.B == k && isProto(f.A, from)) {
						return true
					}
				}
			}
			return false
		}
		// every success path crosses proto==unix or proto==tcp
		reach, w2 := reachInstr(parser, nil, isSucc, nil, func(a, b *ssa.BasicBlock) bool {
			return protoEq(T.edgeFactsOn(a, b), a, "unix", "tcp")
		})
		r.Ob("A2", shortName(parser), "success only if protocol is \"unix\" or \"tcp\"", parser.Pos(), !reach,
			"a protocol other than unix or tcp can be accepted: there is a path to the success return that crosses neither protocol==\"unix\" nor protocol==\"tcp\"", witnessPos(p, w2)...)
		// unix => non-empty final address
		addrAlts := []string{}
		for _, a := range final[strings.TrimPrefix(locAddr, "&param:"+recv+".")] {
			addrAlts = append(addrAlts, strings.ReplaceAll(a, "$in", in))
		}
		n := 0
		for _, b := range parser.Blocks {
			for _, s := range b.Succs {
				if !protoEq(T.edgeFactsOn(b, s), b, "unix") {
					continue
				}
				n++
				var first ssa.Instruction = s.Instrs[0]
				target := func(i ssa.Instruction) bool { return isSucc(i) }
				// start from the first instruction of the successor: explore from a pseudo "from" = last instr of b
				reach, w3 := reachFromBlock(parser, s, target, func(x, y *ssa.BasicBlock) bool {
					for _, f := range T.edgeFactsOn(x, y) {
						if nonEmptyFact(f, func(term string) bool { return locAddr != "" && isValueOf(ms, parser, term, x, addrAlts) }) {
							return true
						}
					}
					return false
				})
				_ = first
				r.Ob("A2", shortName(parser), "unix protocol requires a non-empty path (tested on the value finally stored)", p.InstrPos(b.Instrs[len(b.Instrs)-1]), !reach,
					"an empty unix path can be accepted: after protocol==\"unix\" there is a path to the success return that does not test the finally stored address for emptiness", witnessPos(p, w3)...)
			}
		}
		if n == 0 {
			r.Unresolved("A2", "protocol == \"unix\" edge in the address parser")
		}
		r.Floor("A2", 3)
	})

	// ---- A3: index census
	r.Guard("A3", func() {
		n := 0
		for f := range scope {
			if !p.InRepo(f) {
				continue
			}
			for _, b := range f.Blocks {
				for _, instr := range b.Instrs {
					var x, idx ssa.Value
					switch i := instr.(type) {
					case *ssa.IndexAddr:
						x, idx = i.X, i.Index
					case *ssa.Index:
						x, idx = i.X, i.Index
					default:
						continue
					}
					if _, isArr := x.Type().Underlying().(*types.Array); isArr {
						continue
					}
					if pt, ok := x.Type().Underlying().(*types.Pointer); ok {
						if _, isArr := pt.Elem().Underlying().(*types.Array); isArr {
							continue
						}
					}
					n++
					ok, why := indexInRange(T, b, x, idx)
					r.Ob("A3", shortName(f), "index "+strip(T.T(idx))+" of "+strip(T.T(x)), instr.Pos(), ok, why)
				}
			}
		}
		r.Stat("A3_index_sites", n)
		r.Floor("A3", 1)
	})

	// ---- A5: socket file lifecycle
	r.Guard("A5", func() {
		for _, su := range setups {
			sms := NewMemState(T, cg, su, writes)
			pAlts := []string{strings.ReplaceAll(protoT, "$in", bin)}
			var aAlts []string
			for _, a := range final[strings.TrimPrefix(locAddr, "&param:"+recv+".")] {
				aAlts = append(aAlts, strings.ReplaceAll(a, "$in", bin))
			}
			isP := func(term string, at *ssa.BasicBlock) bool {
				return isValueOf(sms, su, term, at, pAlts)
			}
			isA := func(term string, at *ssa.BasicBlock) bool {
				return isValueOf(sms, su, term, at, aAlts)
			}
			unixFact := func(fs []Fact, at *ssa.BasicBlock, pol bool) bool {
				for _, f := range fs {
					want := "EQ"
					if !pol {
						want = "NE"
					}
					if f.Op == want && ((f.A == `const:"unix"` && isP(f.B, at)) || (f.B == `const:"unix"` && isP(f.A, at))) {
						return true
					}
				}
				return false
			}
			abstractFact := func(fs []Fact, at *ssa.BasicBlock, pol bool) bool {
				// the byte-wise spelling of the same test: len(a) > 0 && a[0] == '@'
				for _, f := range fs {
					first := func(t string) bool {
						m := reFirstByte.FindStringSubmatch(strip(t))
						return m != nil && isA(m[1], at)
					}
					length := func(t string) bool {
						return strings.HasPrefix(t, "call:len(") && isA(strings.TrimSuffix(strings.TrimPrefix(t, "call:len("), ")"), at)
					}
					switch {
					case pol && f.Op == "EQ" && (f.B == "const:64" && first(f.A) || f.A == "const:64" && first(f.B)):
						return true
					case !pol && f.Op == "NE" && (f.B == "const:64" && first(f.A) || f.A == "const:64" && first(f.B)):
						return true
					case !pol && f.Op == "EQ" && (f.B == "const:0" && length(f.A) || f.A == "const:0" && length(f.B)):
						return true
					case !pol && f.Op == "LE" && f.B == "const:0" && length(f.A):
						return true
					case !pol && f.Op == "LT" && f.B == "const:1" && length(f.A):
						return true
					}
				}
				for _, f := range fs {
					if f.Op != "EQ" || f.B != ifs(pol, "const:true", "const:false") && f.A != ifs(pol, "const:true", "const:false") {
						continue
					}
					t := f.A
					if strings.HasPrefix(t, "const:") {
						t = f.B
					}
					if m := reHasPrefixAt.FindStringSubmatch(strip(t)); m != nil && isA(m[1], at) {
						return true
					}
				}
				return false
			}
			// "not abstract" is known in block b: as a dominating fact, or in every way of entering b (a guard written
			// as a disjunction, e.g. len(a) == 0 || a[0] != '@')
			notAbstractAt := func(fs []Fact, b *ssa.BasicBlock) bool {
				if abstractFact(fs, b, false) {
					return true
				}
				alts := T.blockAlternatives(b)
				if len(alts) == 0 {
					return false
				}
				for _, alt := range alts {
					if !abstractFact(alt, b, false) {
						return false
					}
				}
				return true
			}
			var listenCall ssa.Instruction
			for _, cs := range callsIn(su, false) {
				if isListenCall(cs.Instr) {
					listenCall = cs.Instr
				}
			}
			if listenCall == nil {
				r.Unresolved("A5", "listen call in "+shortName(su))
				continue
			}
			isRemove := func(i ssa.Instruction) bool {
				c, ok := i.(*ssa.Call)
				return ok && calleeName(&c.Call) == "os.Remove"
			}
			isUnlink := func(i ssa.Instruction) bool {
				c, ok := i.(*ssa.Call)
				if !ok || calleeName(&c.Call) != "net.UnixListener.SetUnlinkOnClose" {
					return false
				}
				k, ok := c.Call.Args[1].(*ssa.Const)
				return ok && k.Value != nil && constant.BoolVal(k.Value)
			}
			// guards: every os.Remove / SetUnlinkOnClose / *net.UnixListener assertion carries unix (and not abstract)
			for _, b := range su.Blocks {
				for _, instr := range b.Instrs {
					fs := T.FactsAt(b)
					switch {
					case isRemove(instr):
						c := instr.(*ssa.Call)
						okArg := isA(T.T(c.Call.Args[0]), b)
						g := unixFact(fs, b, true) && notAbstractAt(fs, b)
						after, _ := reachInstr(su, listenCall, func(i ssa.Instruction) bool { return i == instr }, nil, nil)
						r.Ob("A5", shortName(su), "os.Remove only for a filesystem unix path, before listening", instr.Pos(), g && okArg && !after,
							fmt.Sprintf("stale-socket removal must carry protocol==\"unix\" and !HasPrefix(address,\"@\") and remove exactly the parsed address before the listen call (guarded=%v, argument is the address=%v, reachable after listen=%v): otherwise an arbitrary file named by a tcp/abstract address is deleted", g, okArg, after))
					case isUnlink(instr):
						g := unixFact(fs, b, true) && notAbstractAt(fs, b)
						lerr := ""
						if v, ok := listenCall.(ssa.Value); ok {
							lerr = "ext(" + T.T(v) + ",1)"
						}
						okErr := hasFact(fs, "EQ", lerr, "nil")
						r.Ob("A5", shortName(su), "SetUnlinkOnClose(true) only for a filesystem unix path, after a successful listen", instr.Pos(), g && okErr,
							fmt.Sprintf("guarded=%v, listen error known nil=%v", g, okErr))
					default:
						if ta, ok := instr.(*ssa.TypeAssert); ok && !ta.CommaOk && isNamed(ta.AssertedType, "net", "UnixListener") {
							r.Ob("A5", shortName(su), "assertion to *net.UnixListener carries protocol==\"unix\"", instr.Pos(), unixFact(fs, b, true),
								"a single-result type assertion to *net.UnixListener panics for a tcp listener unless protocol==\"unix\" is known here")
						}
					}
				}
			}
			// presence: on unix && !abstract paths, Remove precedes listen and unlink follows a successful listen
			// an edge is infeasible under the assumption "unix and not abstract" if every way of taking it contradicts it
			forbidOther := func(a, b *ssa.BasicBlock) bool {
				alts := T.edgeAlternatives(a, b)
				if len(alts) == 0 {
					return false
				}
				for _, fs := range alts {
					if !(unixFact(fs, a, false) || abstractFact(fs, a, true)) {
						return false
					}
				}
				return true
			}
			reach, w := reachInstr(su, nil, func(i ssa.Instruction) bool { return i == listenCall }, isRemove, func(a, b *ssa.BasicBlock) bool {
				if forbidOther(a, b) {
					return true
				}
				// activation listener present: address path not taken
				for _, f := range T.edgeFactsOn(a, b) {
					if f.Op == "NE" && (strings.Contains(f.A, "activationListener") || strings.Contains(f.B, "activationListener")) {
						return true
					}
				}
				return false
			})
			r.Ob("A5", shortName(su), "a stale filesystem socket is removed before every listen on a unix path", listenCall.Pos(), !reach,
				"for protocol unix and a non-abstract path there is a way to the listen call that does not remove a stale socket file first: binding fails with 'address already in use' after an unclean exit", witnessPos(p, w)...)
			reach2, w2 := reachInstr(su, listenCall, isNilErrorReturn, isUnlink, func(a, b *ssa.BasicBlock) bool {
				if forbidOther(a, b) {
					return true
				}
				if v, ok := listenCall.(ssa.Value); ok {
					for _, f := range T.edgeFactsOn(a, b) {
						if f.Op == "NE" && (f.A == "ext("+T.T(v)+",1)" || f.B == "ext("+T.T(v)+",1)") {
							return true
						}
					}
				}
				return false
			})
			r.Ob("A5", shortName(su), "unlink-on-close is armed after every successful listen on a filesystem unix path", listenCall.Pos(), !reach2,
				"for protocol unix and a non-abstract path the success return can be reached without SetUnlinkOnClose(true): the socket file is not removed when the service is shut down", witnessPos(p, w2)...)
		}
		r.Floor("A5", 3)
	})

	// ---- A7: once the new listener exists, Bind closes no other listener: closing a unix listener unlinks its path by
	// name, and after a re-bind of the same path that name belongs to the listener just created - the socket file of the
	// service that was bound successfully disappears
	r.Guard("A7", func() {
		n := 0
		for _, b := range vb.Blocks {
			for _, in := range b.Instrs {
				if !isListenCall(in) {
					continue
				}
				n++
				bad, w := reachInstr(vb, in, func(x ssa.Instruction) bool {
					c, ok := x.(*ssa.Call)
					if !ok || !c.Call.IsInvoke() || c.Call.Method.Name() != "Close" || !isNamed(c.Call.Value.Type(), "net", "Listener") {
						return false
					}
					// the listener kept in the Service (the previous one), not the one this call created
					return strings.HasSuffix(strip(T.T(c.Call.Value)), "."+svcF.Listener)
				}, func(x ssa.Instruction) bool {
					// (after the new listener was stored the member is the new one)
					st, ok := x.(*ssa.Store)
					return ok && isStoreToServiceField(x, svcF.Listener) && st != nil
				}, nil)
				r.Ob("A7", shortName(vb), "the listener held before is not closed after the new one was created", in.Pos(), !bad,
					"the previous listener is closed after the listen call: for a unix path that is bound again, unlink-on-close removes the socket file the new listener has just created - Bind succeeds but no client can reach the service", witnessPos(p, w)...)
			}
		}
		r.Floor("A7", 1)
	})

	// ---- A6: re-bindable
	r.Guard("A6", func() {
		_ = fieldIndex
		n := 0
		// stores of a listener on the bind path: in Bind's inlined view, and in scope functions that are not part of it
		inBind := cg.Reach([]*ssa.Function{bind}, false)
		var fas []*ssa.FieldAddr
		for _, stt := range serviceStateTypes {
			if i := fieldIndex(stt, svcF.Listener); i >= 0 {
				for _, fa := range fieldAddrs(p, stt, i) {
					if f := fa.Parent(); scope[f] && !inBind[f] {
						fas = append(fas, fa)
					}
				}
			}
		}
		for _, b := range vb.Blocks {
			for _, in := range b.Instrs {
				if fa, ok := in.(*ssa.FieldAddr); ok && isServiceState(fa.X.Type()) && fieldName(fa.X, fa.Field) == svcF.Listener {
					fas = append(fas, fa)
				}
			}
		}
		for _, fa := range fas {
			f := fa.Parent()
			for _, st := range storesTo(fa) {
				if c, ok := st.Val.(*ssa.Const); ok && c.IsNil() {
					continue
				}
				n++
				// not reachable from any `listen error != nil` edge, and every operand of the stored value is an
				// activation listener or a listen result
				bad := false
				var wit []ssa.Instruction
				for _, cs := range callsIn(f, false) {
					if !isListenCall(cs.Instr) {
						continue
					}
					v := cs.Instr.(ssa.Value)
					errT := "ext(" + T.T(v) + ",1)"
					for _, b := range f.Blocks {
						for _, s := range b.Succs {
							for _, fct := range T.edgeFactsOn(b, s) {
								if fct.Op == "NE" && (fct.A == errT || fct.B == errT) {
									if re, w := reachFromBlock(f, s, func(i ssa.Instruction) bool { return i == ssa.Instruction(st) }, nil); re {
										bad, wit = true, w
									}
								}
							}
						}
					}
				}
				r.Ob("A6", shortName(f), "no listener is stored after a failed listen", st.Pos(), !bad,
					"the listener field is written on a path where listen() reported an error: a failing Bind leaves a bogus listener behind", witnessPos(p, wit)...)
			}
		}
		if n == 0 {
			r.Unresolved("A6", "store of a new listener into Service.listener on the bind path")
		}
		// Bind refuses before parsing only on `running`
		// the point where Bind starts looking at the address: the first split of its string parameter at ':'
		bind := vb
		var pcall ssa.Instruction
		for _, cs := range callsNamed(bind, false, "strings.SplitN", "strings.Split", "strings.Cut", "strings.Index", "strings.IndexByte") {
			if len(cs.Common.Args) >= 2 && strip(T.T(cs.Common.Args[0])) == "param:"+bin && (T.T(cs.Common.Args[1]) == `const:":"` || T.T(cs.Common.Args[1]) == "const:58") {
				if pcall == nil {
					pcall = cs.Instr
				}
			}
		}
		if pcall == nil {
			r.Unresolved("A6", "the split of Bind's address argument at ':'")
			return
		}
		getters := runningGetters(p, ro)
		isRunningTrue := func(fs []Fact) bool {
			for _, f := range fs {
				if f.Op == "EQ" && (f.B == "const:true" && isRunningTerm(f.A, getters) || f.A == "const:true" && isRunningTerm(f.B, getters)) {
					return true
				}
			}
			return false
		}
		recvPfx := "param:" + bind.Params[0].Name() + "."
		otherState := func(fs []Fact) bool {
			for _, f := range fs {
				for _, t := range []string{f.A, f.B} {
					if strings.Contains(t, recvPfx) && !isRunningTerm(t, getters) && !strings.Contains(t, recvPfx+svcF.Mutex) {
						return true
					}
				}
			}
			return false
		}
		forbid := func(a, b *ssa.BasicBlock) bool { return isRunningTrue(T.edgeFactsOn(a, b)) }
		avoid := func(i ssa.Instruction) bool { return i == pcall }
		bad := false
		var wit []ssa.Instruction
		nEdges := 0
		for _, blk := range bind.Blocks {
			for _, sc := range blk.Succs {
				fs := T.edgeFactsOn(blk, sc)
				if len(fs) == 0 {
					continue
				}
				nEdges++
				if !otherState(fs) {
					continue
				}
				last := blk.Instrs[len(blk.Instrs)-1]
				r1, w1 := reachInstr(bind, nil, func(i ssa.Instruction) bool { return i == last }, avoid, forbid)
				if !r1 {
					continue
				}
				r2, w2 := reachFromBlockAvoid(bind, sc, isReturn, avoid, forbid)
				if r2 {
					bad = true
					wit = append(w1, w2...)
				}
			}
		}
		// and Bind itself does not leave the flag set when it fails: a store of `running = true` in Bind is undone
		// on every path to an error return
		for _, blk := range bind.Blocks {
			for _, in := range blk.Instrs {
				st, ok := in.(*ssa.Store)
				if !ok || !isStoreToServiceField(in, svcF.Running) {
					continue
				}
				if k, isK := st.Val.(*ssa.Const); !isK || constTerm(k) != "const:true" {
					continue
				}
				reach, w := reachInstr(bind, st, func(i ssa.Instruction) bool {
					ret, isRet := i.(*ssa.Return)
					return isRet && len(ret.Results) > 0 && !isNilErrorReturn(i)
				}, func(i ssa.Instruction) bool {
					s2, isSt := i.(*ssa.Store)
					if !isSt || !isStoreToServiceField(i, svcF.Running) {
						return false
					}
					k, isK := s2.Val.(*ssa.Const)
					return isK && constTerm(k) == "const:false"
				}, nil)
				r.Ob("A6", shortName(bind), "a failing Bind does not leave the service marked as serving", st.Pos(), !reach,
					"Bind marks the service as running and can return an error without taking the mark back: every later Bind is refused", witnessPos(p, w)...)
			}
		}
		r.Stat("A6_bind_edges_examined", nEdges)
		r.Ob("A6", shortName(bind), "Bind refuses before looking at the address only because serving is in progress", bind.Pos(), !bad,
			"Bind can return before parsing the address on a test of Service state other than `running`: state left behind by an earlier (possibly failed) Bind can wedge the service so that it never binds again", witnessPos(p, wit)...)
		r.Floor("A6", 2)
	})
	_ = token.NoPos
}

var reFirstByte = regexp.MustCompile(`^(?:index|lookup)\((.*),const:0\)$`)

var reHasPrefixAt = regexp.MustCompile(`^call:strings\.HasPrefix\((.*),const:"@"\)$`)

func isErrorType(t types.Type) bool {
	n, ok := t.(*types.Named)
	return ok && n.Obj().Pkg() == nil && n.Obj().Name() == "error"
}

// hasSepFact: fs establishes that string term `in` contains the separator sep, in one of the idioms
// len(SplitN(in,sep,2)) == 2, Index(in,sep) >= 0 / != -1, ok-result of Cut(in,sep).
func hasSepFact(fs []Fact, in, sep string) bool {
	q := fmt.Sprintf("const:%q", sep)
	qb := fmt.Sprintf("const:%d", sep[0])
	split := "call:len(call:strings.SplitN(" + in + "," + q + ",const:2))"
	var idx []string
	for _, fn := range []string{"strings.Index", "strings.IndexByte", "strings.IndexRune"} {
		idx = append(idx, "call:"+fn+"("+in+","+q+")", "call:"+fn+"("+in+","+qb+")")
	}
	isIdx := func(t string) bool {
		for _, i := range idx {
			if t == i {
				return true
			}
		}
		return false
	}
	cut := "ext(call:strings.Cut(" + in + "," + q + "),2)"
	for _, f := range fs {
		a, b := strip(f.A), strip(f.B)
		switch f.Op {
		case "EQ":
			if (a == split && b == "const:2") || (b == split && a == "const:2") || (a == cut && b == "const:true") || (b == cut && a == "const:true") {
				return true
			}
		case "NE":
			if (isIdx(a) && b == "const:-1") || (isIdx(b) && a == "const:-1") {
				return true
			}
		case "LE":
			if a == "const:0" && isIdx(b) {
				return true
			}
			if a == "const:2" && b == split {
				return true
			}
		case "LT":
			if a == "const:-1" && isIdx(b) {
				return true
			}
			if a == "const:1" && b == split {
				return true
			}
		}
	}
	return false
}

// noSepOrDeadFact: the edge is taken only when the string has no ';' tail (Index < 0), or is dead code
// (a strings.SplitN(_,_,2) result compared equal to nil - it never is).
func noSepOrDeadFact(fs []Fact) bool {
	for _, f := range fs {
		a, b := strip(f.A), strip(f.B)
		switch f.Op {
		case "EQ":
			for _, pr := range [][2]string{{a, b}, {b, a}} {
				if pr[1] == "nil" && strings.HasPrefix(pr[0], "call:strings.SplitN(") && strings.HasSuffix(pr[0], `,const:";",const:2)`) {
					return true
				}
				if pr[1] == "const:-1" && strings.HasPrefix(pr[0], "call:strings.Index") && (strings.HasSuffix(pr[0], `,const:";")`) || strings.HasSuffix(pr[0], ",const:59)")) {
					return true
				}
				if pr[1] == "const:false" && strings.HasPrefix(pr[0], "ext(call:strings.Cut(") && strings.HasSuffix(pr[0], `,const:";"),2)`) {
					return true
				}
			}
		case "LT":
			if b == "const:0" && strings.HasPrefix(a, "call:strings.Index") && (strings.HasSuffix(a, `,const:";")`) || strings.HasSuffix(a, ",const:59)")) {
				return true
			}
		}
	}
	return false
}

// uncutJustified: every definition in fn that can leave the un-cut rest (restT) as the final address is taken only
// when there is no ';' tail. Definitions are stores to loc (service side) or phi edges (client side).
func uncutJustified(T *Terms, ms *MemState, fn *ssa.Function, loc, restT string, succ func(ssa.Instruction) bool, norm func(string) string) (bool, int, []ssa.Instruction) {
	n := 0
	is := func(v ssa.Value) bool {
		a := ms.ValueAlts(v, 0)
		return len(a) == 1 && norm(a[0]) == restT
	}
	for _, b := range fn.Blocks {
		for _, in := range b.Instrs {
			switch x := in.(type) {
			case *ssa.Store:
				fa, ok := x.Addr.(*ssa.FieldAddr)
				if !ok || loc == "" {
					continue
				}
				if _, l := fieldKeyOf(T, fa); l != loc || !is(x.Val) {
					continue
				}
				n++
				isOther := func(i ssa.Instruction) bool {
					st, ok := i.(*ssa.Store)
					if !ok || st == x {
						return false
					}
					if fa2, ok := st.Addr.(*ssa.FieldAddr); ok {
						_, l2 := fieldKeyOf(T, fa2)
						return l2 == loc
					}
					return false
				}
				if noSepOrDeadFact(T.FactsAt(x.Block())) {
					continue // stored on a path that has already established that there is no ';'
				}
				if ok, w := mustCross(T, fn, x, succ, isOther, noSepOrDeadFact); !ok {
					return false, n, w
				}
			case *ssa.Phi:
				if b, ok := x.Type().Underlying().(*types.Basic); !ok || b.Kind() != types.String {
					continue
				}
				for i, e := range x.Edges {
					if !is(e) {
						continue
					}
					// a phi that merges the un-cut rest with something else
					if len(ms.ValueAlts(x, 0)) < 2 {
						continue
					}
					n++
					if !noSepOrDeadFact(T.edgeFactsOn(x.Block().Preds[i], x.Block())) {
						// the edge may be unconditional: look at the dominating facts of the predecessor
						if !noSepOrDeadFact(T.FactsAt(x.Block().Preds[i])) {
							return false, n, []ssa.Instruction{x}
						}
					}
				}
			}
		}
	}
	return true, n, nil
}

// hasFactLenEq: fs contains len(term) == n.
func hasFactLenEq(fs []Fact, term string, n int) bool {
	want := fmt.Sprintf("const:%d", n)
	for _, f := range fs {
		if f.Op == "EQ" {
			a, b := strip(f.A), strip(f.B)
			if (a == "call:len("+term+")" && b == want) || (b == "call:len("+term+")" && a == want) {
				return true
			}
		}
	}
	return false
}

// nonEmptyFact: f states that a string satisfying isIt is not empty.
func nonEmptyFact(f Fact, isIt func(term string) bool) bool {
	switch f.Op {
	case "NE":
		if f.A == `const:""` && isIt(f.B) || f.B == `const:""` && isIt(f.A) {
			return true
		}
		for _, pr := range [][2]string{{f.A, f.B}, {f.B, f.A}} {
			if pr[0] == "const:0" && strings.HasPrefix(pr[1], "call:len(") && isIt(strings.TrimSuffix(strings.TrimPrefix(pr[1], "call:len("), ")")) {
				return true
			}
		}
	case "LT":
		if f.A == "const:0" && strings.HasPrefix(f.B, "call:len(") && isIt(strings.TrimSuffix(strings.TrimPrefix(f.B, "call:len("), ")")) {
			return true
		}
	case "LE":
		if f.A == "const:1" && strings.HasPrefix(f.B, "call:len(") && isIt(strings.TrimSuffix(strings.TrimPrefix(f.B, "call:len("), ")")) {
			return true
		}
	}
	return false
}

// isValueOf: the term (as produced by T.T for an operand of a comparison in block `at` of fn) denotes a value
// whose possible definitions are exactly `alts` (resolved through field loads by reaching stores).
func isValueOf(ms *MemState, fn *ssa.Function, term string, at *ssa.BasicBlock, alts []string) bool {
	// find a value of the function with this term (dominators of `at` first, then anywhere: a condition kept in a local
	// bool is evaluated in a block that need not dominate its use)
	var blocks []*ssa.BasicBlock
	for b := at; b != nil; b = b.Idom() {
		blocks = append(blocks, b)
	}
	blocks = append(blocks, fn.Blocks...)
	for _, b := range blocks {
		for _, in := range b.Instrs {
			v, ok := in.(ssa.Value)
			if !ok {
				continue
			}
			if ms.T.T(v) != term {
				continue
			}
			got := ms.ValueAlts(v, 0)
			// a load on one path of a location whose final value has several alternatives holds one of them
			if ld, isLoad := v.(*ssa.UnOp); isLoad && ld.Op == token.MUL && len(got) > 0 && len(got) < len(alts) {
				if _, isField := ld.X.(*ssa.FieldAddr); isField {
					sub := true
					for _, g := range got {
						in := false
						for _, a := range alts {
							if a == g {
								in = true
							}
						}
						if !in {
							sub = false
						}
					}
					if sub {
						return true
					}
				}
			}
			if len(got) == len(alts) {
				same := true
				g := append([]string(nil), got...)
				w := append([]string(nil), alts...)
				sort.Strings(g)
				sort.Strings(w)
				for i := range g {
					if g[i] != w[i] {
						same = false
					}
				}
				if same {
					return true
				}
			}
		}
	}
	// parameters and constants have no defining instruction
	if len(alts) == 1 && strip(term) == alts[0] {
		return true
	}
	return false
}

// runningGetters: repo functions whose every returned value is a load of Service.running.
func runningGetters(p *Prog, ro *Roles) map[string]bool {
	out := map[string]bool{}
	for _, f := range p.FuncsOf(pkgVarlink) {
		if f.Signature.Results().Len() != 1 {
			continue
		}
		rv := returnedValues(f, 0)
		ok := len(rv) > 0
		for _, x := range rv {
			t := strip(ro.T.T(x.Val))
			if strings.HasSuffix(t, "."+svcF.Running) {
				continue
			}
			// the lifecycle kept as an enumeration: the getter answers `state == <serving>`
			if svcF.RunningVal != "" && strings.HasPrefix(t, "(") && (strings.HasSuffix(t, "."+svcF.Running+" == "+svcF.RunningVal+")") || strings.HasPrefix(t, "("+svcF.RunningVal+" == ") && strings.HasSuffix(t, "."+svcF.Running+")")) {
				continue
			}
			ok = false
		}
		if ok {
			out["call:"+funcFullName(f)+"("] = true
		}
	}
	return out
}

func isRunningTerm(t string, getters map[string]bool) bool {
	t = strip(t)
	if strings.HasSuffix(t, "."+svcF.Running) {
		return true
	}
	for g := range getters {
		if strings.HasPrefix(t, g) {
			return true
		}
	}
	return false
}

// reachFromBlockAvoid: reachFromBlock with an avoid predicate on instructions.
func reachFromBlockAvoid(fn *ssa.Function, start *ssa.BasicBlock, target, avoid func(ssa.Instruction) bool, forbid func(a, b *ssa.BasicBlock) bool) (bool, []ssa.Instruction) {
	if len(start.Instrs) == 0 {
		return false, nil
	}
	if target(start.Instrs[0]) {
		return true, []ssa.Instruction{start.Instrs[0]}
	}
	if avoid != nil && avoid(start.Instrs[0]) {
		return false, nil
	}
	return reachInstr(fn, start.Instrs[0], target, avoid, forbid)
}

// reachFromBlock: like reachInstr but starting at the first instruction of block start.
func reachFromBlock(fn *ssa.Function, start *ssa.BasicBlock, target func(ssa.Instruction) bool, forbid func(a, b *ssa.BasicBlock) bool) (bool, []ssa.Instruction) {
	seen := map[*ssa.BasicBlock]bool{}
	type node struct {
		b    *ssa.BasicBlock
		prev *node
	}
	work := []*node{{b: start}}
	for len(work) > 0 {
		n := work[0]
		work = work[1:]
		if seen[n.b] {
			continue
		}
		seen[n.b] = true
		for _, in := range n.b.Instrs {
			if target(in) {
				w := []ssa.Instruction{in}
				for m := n.prev; m != nil; m = m.prev {
					w = append(w, m.b.Instrs[len(m.b.Instrs)-1])
				}
				for l, r := 0, len(w)-1; l < r; l, r = l+1, r-1 {
					w[l], w[r] = w[r], w[l]
				}
				return true, w
			}
		}
		for _, s := range n.b.Succs {
			if forbid != nil && forbid(n.b, s) {
				continue
			}
			work = append(work, &node{b: s, prev: n})
		}
	}
	return false, nil
}

// indexInRange discharges x[idx] from the facts at block b.
func indexInRange(T *Terms, b *ssa.BasicBlock, x, idx ssa.Value) (bool, string) {
	fs := T.FactsAt(b)
	xt := strip(T.T(x))
	if c, ok := idx.(*ssa.Const); ok && c.Value != nil {
		k := int(c.Int64())
		// SplitN lemma
		if call, ok := x.(*ssa.Call); ok && k == 0 {
			name := calleeName(&call.Call)
			if name == "strings.SplitN" {
				if n, ok := call.Call.Args[2].(*ssa.Const); ok && n.Int64() >= 1 {
					return true, "element 0 of strings.SplitN(_,_,n>=1): the result always has at least one element (library contract)"
				}
			}
			if name == "strings.Split" {
				return true, "element 0 of strings.Split: the result always has at least one element (library contract)"
			}
		}
		lo, _ := intervalOf(fs, "call:len("+xt+")")
		if lo > k {
			return true, fmt.Sprintf("len >= %d known on every path", lo)
		}
		if k == 0 {
			for _, f := range fs {
				if nonEmptyFact(f, func(t string) bool { return strip(t) == xt }) {
					return true, "non-empty on every path"
				}
			}
		}
		return false, fmt.Sprintf("constant index %d without a dominating fact that the length exceeds it: this panics for a short value (facts: %v)", k, factStrings(fs))
	}
	// array with a known length: the index interval must lie within it
	at := x.Type().Underlying()
	if pt, ok := at.(*types.Pointer); ok {
		at = pt.Elem().Underlying()
	}
	if arr, ok := at.(*types.Array); ok {
		lo, hi := intervalOf(fs, T.T(idx))
		if l0, ok := inductionLowerBound(idx); ok {
			lo = max(lo, l0)
		}
		if censusRange != nil {
			if l2, h2, ok := censusRange(idx); ok {
				lo, hi = max(lo, l2), min(hi, h2)
			}
		}
		if lo >= 0 && hi < int(arr.Len()) {
			return true, fmt.Sprintf("index within [%d,%d], array length %d", lo, hi, arr.Len())
		}
		return false, fmt.Sprintf("index is only known to lie in [%s,%s] but the array has %d elements: an out-of-range value panics", bnd(lo), bnd(hi), arr.Len())
	}
	// variable index: idx < len(x) known
	it := strip(T.T(idx))
	for _, f := range fs {
		if f.Op == "LT" && strip(f.A) == it && strip(f.B) == "call:len("+xt+")" {
			return true, "index < len known on every path"
		}
	}
	// len(x) - 1 with len(x) > 0 known
	if it == "(call:len("+xt+") - const:1)" {
		lo, _ := intervalOf(fs, "call:len("+xt+")")
		if lo >= 1 {
			return true, "last element of a slice known to be non-empty"
		}
	}
	// n - 1 where n is the stripped name of len(x) captured in a variable: facts on n
	if bo, ok := idx.(*ssa.BinOp); ok && bo.Op == token.SUB {
		if k, ok := bo.Y.(*ssa.Const); ok && k.Int64() == 1 {
			if strip(T.T(bo.X)) == "call:len("+xt+")" {
				lo, _ := intervalOf(fs, T.T(bo.X))
				if lo >= 1 {
					return true, "last element of a slice known to be non-empty"
				}
			}
		}
	}
	// range-over-slice lowering: idx = phi(-1, idx+1)+1 compared with len(x) captured before the loop
	if bo, ok := idx.(*ssa.BinOp); ok && bo.Op == token.ADD {
		for _, f := range fs {
			if f.Op == "LT" && strip(f.A) == it && strings.HasPrefix(strip(f.B), "call:len(") {
				return true, "range loop index < len captured at loop entry"
			}
		}
	}
	return false, "variable index without a dominating bound (facts: " + strings.Join(factStrings(fs), "; ") + ")"
}

func bnd(x int) string {
	if x <= -inf {
		return "-inf"
	}
	if x >= inf {
		return "+inf"
	}
	return fmt.Sprint(x)
}

// inductionLowerBound: v is a constant, or a loop counter phi{c0, v+k} with k > 0 (possibly converted): its lower
// bound is the smallest initial constant.
func inductionLowerBound(v ssa.Value) (int, bool) {
	switch x := v.(type) {
	case *ssa.Const:
		if x.Value != nil {
			return int(x.Int64()), true
		}
	case *ssa.Convert:
		return inductionLowerBound(x.X)
	case *ssa.Phi:
		lo, any := inf, false
		for _, e := range x.Edges {
			if bo, ok := e.(*ssa.BinOp); ok && bo.Op == token.ADD {
				if k, ok := bo.Y.(*ssa.Const); ok && k.Int64() > 0 && (bo.X == ssa.Value(x) || convOf(bo.X) == ssa.Value(x)) {
					continue
				}
			}
			l, ok := inductionLowerBound(e)
			if !ok {
				return 0, false
			}
			lo, any = min(lo, l), true
		}
		return lo, any
	}
	return 0, false
}

func convOf(v ssa.Value) ssa.Value {
	if c, ok := v.(*ssa.Convert); ok {
		return c.X
	}
	return v
}

// alwaysNilError: the last result of every return of f is the constant nil (`return s.listener, nil`).
func alwaysNilError(f *ssa.Function) bool {
	n := 0
	for _, b := range f.Blocks {
		for _, in := range b.Instrs {
			ret, ok := in.(*ssa.Return)
			if !ok || len(ret.Results) == 0 {
				continue
			}
			c, isC := ret.Results[len(ret.Results)-1].(*ssa.Const)
			if !isC || !c.IsNil() {
				return false
			}
			n++
		}
	}
	return n > 0
}
