package main

// Shape model of the context-aware I/O operations in package ctxio (shared by C16.J and C17.D1-D3):
// a method of the connection wrapper that starts a helper goroutine for the blocking I/O and selects
// on ctx.Done() and the helper's result channel.

import (
	"go/token"
	"go/types"

	"golang.org/x/tools/go/ssa"
)

type CtxOp struct {
	Fn       *ssa.Function
	Go       *ssa.Go
	Closure  *ssa.Function
	Chan     *ssa.MakeChan // result channel
	ChanVar  ssa.Value     // the Alloc holding the channel, if spilled
	Select   *ssa.Select
	DoneIdx  int                 // select state receiving from ctx.Done()
	ResIdx   int                 // select state receiving from the result channel
	IOCall   ssa.CallInstruction // the blocking I/O call inside the closure
	IODir    string              // "read" or "write"
	Problems []string
}

// chanOrigin resolves a channel value (possibly loaded from a spill Alloc, possibly a free variable) to its MakeChan.
func chanOrigin(T *Terms, v ssa.Value) *ssa.MakeChan {
	for i := 0; i < 6; i++ {
		switch x := v.(type) {
		case *ssa.MakeChan:
			return x
		case *ssa.UnOp:
			if x.Op != token.MUL {
				return nil
			}
			a := T.resolveFree(x.X)
			if al, ok := a.(*ssa.Alloc); ok {
				if val, ok := singleStore(al); ok {
					v = val
					continue
				}
			}
			return nil
		case *ssa.FreeVar:
			v = T.resolveFree(x)
			if _, still := v.(*ssa.FreeVar); still {
				return nil
			}
		case *ssa.ChangeType:
			v = x.X
		default:
			return nil
		}
	}
	return nil
}

// isCtxDone: v is the result of invoking Done() on a context.Context.
func isCtxDone(v ssa.Value) bool {
	c, ok := v.(*ssa.Call)
	return ok && c.Call.IsInvoke() && c.Call.Method.Name() == "Done" && isNamed(c.Call.Value.Type(), "context", "Context")
}

// DiscoverCtxOps finds the operations by shape: a function of pkg containing a `go` of one of its own closures.
func DiscoverCtxOps(p *Prog, T *Terms, pkg string) []*CtxOp {
	var out []*CtxOp
	// the operations are analysed in their inlined views (inline.go): shared plumbing factored into helpers - also
	// helpers that take the I/O or the join as a function value - is part of each operation. An operation is an
	// outermost function of the package whose view starts a goroutine.
	cgx := BuildCallGraph(p)
	var cands []*ssa.Function
	for _, f := range p.FuncsOf(pkg) {
		if f.Parent() != nil || len(f.Blocks) == 0 {
			continue
		}
		v := p.Inlined(f, nil)
		hasGo := false
		for _, b := range v.Blocks {
			for _, in := range b.Instrs {
				if _, ok := in.(*ssa.Go); ok {
					hasGo = true
				}
			}
		}
		if hasGo {
			cands = append(cands, f)
		}
	}
	var fns []*ssa.Function
	for _, f := range cands {
		outer := true
		for _, g := range cands {
			if g != f && cgx.Reach([]*ssa.Function{g}, false)[f] {
				outer = false
			}
		}
		if outer {
			fns = append(fns, p.Inlined(f, nil))
		}
	}
	for _, f := range fns {
		for _, b := range f.Blocks {
			for _, in := range b.Instrs {
				g, ok := in.(*ssa.Go)
				if !ok {
					continue
				}
				op := &CtxOp{Fn: f, Go: g, DoneIdx: -1, ResIdx: -1}
				out = append(out, op)
				mc, ok := g.Call.Value.(*ssa.MakeClosure)
				if !ok {
					op.Problems = append(op.Problems, "goroutine target is not a closure of the operation")
					continue
				}
				op.Closure = mc.Fn.(*ssa.Function)
				// the blocking I/O may sit in a helper of the package called by the closure
				for _, cb := range op.Closure.Blocks {
					for _, ci := range cb.Instrs {
						c, ok := ci.(*ssa.Call)
						if !ok {
							continue
						}
						t := staticTarget(&c.Call) // a package helper, or a function value handed to a shared helper
						if t == nil || !p.InRepo(t) || t.Blocks == nil {
							continue
						}
						for _, hb := range t.Blocks {
							for _, hi := range hb.Instrs {
								hc, ok := hi.(ssa.CallInstruction)
								if !ok {
									continue
								}
								if sc := hc.Common().StaticCallee(); sc != nil && sc.Signature.Recv() != nil && isNamed(sc.Signature.Recv().Type(), "bufio", "Reader") && bufioConsumers[sc.Name()] {
									op.IOCall, op.IODir = c, "read"
								}
								if hc.Common().IsInvoke() && isNamed(hc.Common().Value.Type(), "net", "Conn") {
									switch hc.Common().Method.Name() {
									case "Read":
										op.IOCall, op.IODir = c, "read"
									case "Write":
										op.IOCall, op.IODir = c, "write"
									}
								}
							}
						}
					}
				}
				// the closure's sends
				for _, cb := range op.Closure.Blocks {
					for _, ci := range cb.Instrs {
						switch x := ci.(type) {
						case *ssa.Send:
							if m := chanOrigin(T, x.Chan); m != nil {
								if op.Chan != nil && op.Chan != m {
									op.Problems = append(op.Problems, "helper sends on more than one channel")
								}
								op.Chan = m
							} else {
								op.Problems = append(op.Problems, "helper sends on a channel not created by the operation")
							}
						case ssa.CallInstruction:
							cc := x.Common()
							// the helper may signal completion by closing a channel (the outcome is then handed over in
							// memory it wrote before the close)
							if bi, isB := cc.Value.(*ssa.Builtin); isB && bi.Name() == "close" && len(cc.Args) == 1 {
								if m := chanOrigin(T, cc.Args[0]); m != nil {
									if op.Chan != nil && op.Chan != m {
										op.Problems = append(op.Problems, "helper signals on more than one channel")
									}
									op.Chan = m
								} else {
									op.Problems = append(op.Problems, "helper closes a channel not created by the operation")
								}
								continue
							}
							name := ""
							var recvT types.Type
							if cc.IsInvoke() {
								name, recvT = cc.Method.Name(), cc.Value.Type()
							} else if sc := cc.StaticCallee(); sc != nil && sc.Signature.Recv() != nil {
								name, recvT = sc.Name(), sc.Signature.Recv().Type()
							}
							if recvT == nil {
								continue
							}
							if isNamed(recvT, "net", "Conn") || isNamed(recvT, "bufio", "Reader") || isNamed(recvT, "bufio", "Writer") || isReaderish(recvT) {
								switch {
								case name == "Write" || name == "WriteString" || name == "Flush":
									op.IOCall, op.IODir = x, "write"
								case name == "Read" || bufioConsumers[name]:
									op.IOCall, op.IODir = x, "read"
								}
							}
						}
					}
				}
				// the select in the parent
				for _, pb := range f.Blocks {
					for _, pi := range pb.Instrs {
						if s, ok := pi.(*ssa.Select); ok {
							if op.Select != nil {
								op.Problems = append(op.Problems, "more than one select in the operation")
							}
							op.Select = s
							for i, st := range s.States {
								if st.Dir != types.RecvOnly {
									continue
								}
								if isCtxDone(st.Chan) {
									op.DoneIdx = i
								} else if m := chanOrigin(T, st.Chan); m != nil && m == op.Chan {
									op.ResIdx = i
								}
							}
						}
					}
				}
			}
		}
	}
	return out
}

// selectIndexEdge: if block b ends in `if extract(sel,0) == k`, returns k and true.
func selectIndexEdge(b *ssa.BasicBlock, sel *ssa.Select) (int, bool) {
	if len(b.Instrs) == 0 {
		return 0, false
	}
	iff, ok := b.Instrs[len(b.Instrs)-1].(*ssa.If)
	if !ok {
		return 0, false
	}
	bo, ok := iff.Cond.(*ssa.BinOp)
	if !ok || bo.Op != token.EQL {
		return 0, false
	}
	ex, ok := bo.X.(*ssa.Extract)
	if !ok || ex.Tuple != ssa.Value(sel) || ex.Index != 0 {
		return 0, false
	}
	c, ok := bo.Y.(*ssa.Const)
	if !ok {
		return 0, false
	}
	return int(c.Int64()), true
}

// isJoinRecv: in is a receive from the operation's result channel.
func (op *CtxOp) isJoinRecv(T *Terms, in ssa.Instruction) bool {
	u, ok := in.(*ssa.UnOp)
	if !ok || u.Op != token.ARROW {
		return false
	}
	return op.Chan != nil && chanOrigin(T, u.X) == op.Chan
}

// deadlineSetterErrEdge: block b ends in `if err != nil` where err is the result of Set{Read,Write,}Deadline.
func deadlineSetterErrEdge(b *ssa.BasicBlock) (ssa.CallInstruction, bool) {
	if len(b.Instrs) == 0 {
		return nil, false
	}
	iff, ok := b.Instrs[len(b.Instrs)-1].(*ssa.If)
	if !ok {
		return nil, false
	}
	bo, ok := iff.Cond.(*ssa.BinOp)
	if !ok || bo.Op != token.NEQ {
		return nil, false
	}
	c, ok := bo.X.(*ssa.Call)
	if !ok {
		return nil, false
	}
	if k, ok := bo.Y.(*ssa.Const); !ok || !k.IsNil() {
		return nil, false
	}
	if deadlineSetterKind(&c.Call) == "" {
		return nil, false
	}
	return c, true
}

// deadlineSetterKind: "read", "write", "both" for Set*Deadline calls on a net.Conn-like value, else "".
func deadlineSetterKind(c *ssa.CallCommon) string {
	name := ""
	if c.IsInvoke() {
		name = c.Method.Name()
	} else if sc := c.StaticCallee(); sc != nil {
		name = sc.Name()
	}
	switch name {
	case "SetReadDeadline":
		return "read"
	case "SetWriteDeadline":
		return "write"
	case "SetDeadline":
		return "both"
	}
	return ""
}

// closes: the helper signals completion by closing the channel instead of sending on it.
func (op *CtxOp) closes() bool {
	if op.Closure == nil {
		return false
	}
	for _, b := range op.Closure.Blocks {
		for _, in := range b.Instrs {
			if c, ok := in.(*ssa.Call); ok {
				if bi, isB := c.Call.Value.(*ssa.Builtin); isB && bi.Name() == "close" {
					return true
				}
			}
		}
	}
	return false
}
