package main

// Shared helpers for the wire-level rules (C01, C02, C03, C04, C10, C11, C12, C13):
// frame construction / decoding shapes, fresh decode targets, guard facts with caller context.

import (
	"fmt"
	"go/constant"
	"go/token"
	"go/types"
	"sort"
	"strings"

	"golang.org/x/tools/go/ssa"
)

// decodeSite is a call json.Unmarshal(data, target).
type decodeSite struct {
	Call   *ssa.Call
	Fn     *ssa.Function
	Data   ssa.Value
	Target ssa.Value // the pointer passed (MakeInterface unwrapped)
	ErrV   ssa.Value // decode through a helper: the helper's error result (nil for a direct json.Unmarshal)
	Inner  *decodeSite
}

// ErrTerm: the term of the decode's error result.
func (d decodeSite) ErrTerm(T *Terms) string {
	if d.ErrV != nil {
		return T.T(d.ErrV)
	}
	return T.T(d.Call)
}

// decodeSitesDeep: the decode sites of fn, including decodes done by a repo helper that fn calls and that returns the
// decoded value: h(data) (*S, error) with exactly one json.Unmarshal(<param>, target) in h and target the value
// returned. The site is then the call of h in fn (Target = its result #0, ErrV = its result #1, Inner = the
// json.Unmarshal in h).
func decodeSitesDeep(p *Prog, fn *ssa.Function) []decodeSite {
	out := decodeSites(fn)
	for _, cs := range callsIn(fn, false) {
		c, ok := cs.Instr.(*ssa.Call)
		h := cs.Common.StaticCallee()
		if !ok || h == nil || !p.InRepo(h) || h == fn || h.Signature.Results().Len() != 2 {
			continue
		}
		inner := decodeSites(h)
		if len(inner) != 1 {
			continue
		}
		in := inner[0]
		// data is (a slice of) a parameter of h
		dv := in.Data
		if sl, ok := dv.(*ssa.Slice); ok {
			dv = sl.X
		}
		idx := -1
		for i, q := range h.Params {
			if ssa.Value(q) == dv {
				idx = i
			}
		}
		if idx < 0 || idx >= len(cs.Common.Args) {
			continue
		}
		// every non-nil result #0 is the decode target
		okRet := true
		n := 0
		for _, rv := range returnedValues(h, 0) {
			if k, ok := rv.Val.(*ssa.Const); ok && k.IsNil() {
				continue
			}
			n++
			if rv.Val != in.Target {
				okRet = false
			}
		}
		if !okRet || n == 0 {
			continue
		}
		var r0, r1 ssa.Value
		for _, ref := range *c.Referrers() {
			if ex, ok := ref.(*ssa.Extract); ok {
				if ex.Index == 0 {
					r0 = ex
				} else {
					r1 = ex
				}
			}
		}
		if r0 == nil || r1 == nil {
			continue
		}
		inn := in
		out = append(out, decodeSite{Call: c, Fn: fn, Data: cs.Common.Args[idx], Target: r0, ErrV: r1, Inner: &inn})
	}
	return out
}

func decodeSites(fn *ssa.Function) []decodeSite {
	var out []decodeSite
	for _, cs := range callsNamed(fn, false, "json.Unmarshal") {
		c, ok := cs.Instr.(*ssa.Call)
		if !ok {
			continue
		}
		t := c.Call.Args[1]
		if mi, ok := t.(*ssa.MakeInterface); ok {
			t = mi.X
		}
		out = append(out, decodeSite{Call: c, Fn: fn, Data: c.Call.Args[0], Target: t})
	}
	return out
}

// freshTarget: the decode target is a zero value created for this decode: an Alloc of the same function (not a
// parameter, captured variable, pooled or cached object), no field of it is stored before the decode, and the
// decode cannot be re-executed without re-executing the Alloc (json.Unmarshal leaves absent members - and, for
// the literal null, everything - untouched, so a reused target leaks the previous message into the next one).
func freshTarget(p *Prog, d decodeSite) (bool, string) {
	if d.Inner != nil {
		return freshTarget(p, *d.Inner)
	}
	a, ok := d.Target.(*ssa.Alloc)
	if !ok {
		// a recycled object is acceptable if it is reset to the zero value on every path to the decode
		if refs := d.Target.Referrers(); refs != nil {
			for _, ref := range *refs {
				st, isSt := ref.(*ssa.Store)
				if !isSt || st.Addr != d.Target {
					continue
				}
				if k, isK := st.Val.(*ssa.Const); isK && k.Value == nil {
					var from ssa.Instruction
					if di, ok := d.Target.(ssa.Instruction); ok {
						from = di
					}
					if okp, _ := everyPathPasses(d.Fn, from, func(i ssa.Instruction) bool { return i == ssa.Instruction(d.Call) }, func(i ssa.Instruction) bool { return i == ssa.Instruction(st) }); okp {
						if again, _ := reachInstr(d.Fn, d.Call, func(i ssa.Instruction) bool { return i == ssa.Instruction(d.Call) }, func(i ssa.Instruction) bool { return i == ssa.Instruction(st) }, nil); !again {
							return true, "recycled target reset to the zero value before every decode"
						}
					}
				}
			}
		}
		return false, fmt.Sprintf("the decode target is %s, not a fresh local value of this activation: members absent from the next frame keep the values of the previous one", strip(NewTerms(p).T(d.Target)))
	}
	if a.Parent() != d.Fn {
		return false, "the decode target is a variable of an enclosing function shared between decodes"
	}
	// stores into the target before the decode
	var pre []string
	var walk func(v ssa.Value)
	walk = func(v ssa.Value) {
		for _, ref := range *v.Referrers() {
			switch x := ref.(type) {
			case *ssa.FieldAddr:
				walk(x)
			case *ssa.Store:
				if x.Addr == v {
					if reach, _ := reachInstr(d.Fn, x, func(i ssa.Instruction) bool { return i == ssa.Instruction(d.Call) }, nil, nil); reach {
						pre = append(pre, p.Pos(x.Pos()))
					}
				}
			}
		}
	}
	walk(a)
	if len(pre) > 0 {
		return false, "the decode target is not a zero value: it is written before the decode at " + strings.Join(pre, ", ") + " (members absent from the frame keep what was stored)"
	}
	// re-execution without re-allocation
	if reach, _ := reachInstr(d.Fn, d.Call, func(i ssa.Instruction) bool { return i == ssa.Instruction(d.Call) }, func(i ssa.Instruction) bool { return i == ssa.Instruction(a) }, nil); reach {
		return false, "the decode can run again on the same target without it being re-created (target allocated outside the loop)"
	}
	return true, "fresh zero value per decode"
}

// isNulFrame: v is append(<marshal bytes>, 0): exactly one appended element, the constant 0.
// Returns the value holding the marshal bytes.
func nulFrameBase(v ssa.Value) (ssa.Value, string) {
	// a named slice type for frames (`type frame []byte`) is the same bytes
	for i := 0; i < 4; i++ {
		if ct, ok := v.(*ssa.ChangeType); ok {
			v = ct.X
			continue
		}
		break
	}
	c, ok := v.(*ssa.Call)
	if !ok {
		return nil, "the written slice is not the result of append(bytes, 0)"
	}
	b, ok := c.Call.Value.(*ssa.Builtin)
	if !ok || b.Name() != "append" || len(c.Call.Args) != 2 {
		return nil, "the written slice is not the result of append(bytes, 0)"
	}
	sl, ok := c.Call.Args[1].(*ssa.Slice)
	if !ok {
		return nil, "append's second operand is not a literal element list"
	}
	arr, ok := sl.X.(*ssa.Alloc)
	if !ok {
		return nil, "append's second operand is not a literal element list"
	}
	at, ok := arr.Type().(*types.Pointer).Elem().Underlying().(*types.Array)
	if !ok || at.Len() != 1 {
		return nil, fmt.Sprintf("append adds %v elements, exactly one NUL expected", at)
	}
	n := 0
	zero := false
	for _, ref := range *arr.Referrers() {
		if ia, ok := ref.(*ssa.IndexAddr); ok {
			for _, r2 := range *ia.Referrers() {
				if st, ok := r2.(*ssa.Store); ok {
					n++
					if k, ok := st.Val.(*ssa.Const); ok && k.Value != nil && k.Int64() == 0 {
						zero = true
					}
				}
			}
		}
	}
	if n != 1 || !zero {
		return nil, "the appended element is not the constant 0"
	}
	return c.Call.Args[0], ""
}

// marshalOrigin: v is (on every alternative) result #0 of json.Marshal(x); returns the Marshal calls.
func marshalOrigin(p *Prog, v ssa.Value, depth int) ([]*ssa.Call, string) {
	if depth > 4 {
		return nil, "too deep"
	}
	if ct, ok := v.(*ssa.ChangeType); ok {
		return marshalOrigin(p, ct.X, depth)
	}
	switch x := v.(type) {
	case *ssa.Extract:
		if c, ok := x.Tuple.(*ssa.Call); ok && x.Index == 0 {
			if calleeName(&c.Call) == "json.Marshal" {
				return []*ssa.Call{c}, ""
			}
			if t := c.Call.StaticCallee(); t != nil && p.InRepo(t) {
				var all []*ssa.Call
				for _, rv := range returnedValues(t, 0) {
					if k, ok := rv.Val.(*ssa.Const); ok && k.IsNil() {
						continue
					}
					cs, why := marshalOrigin(p, rv.Val, depth+1)
					if cs == nil {
						return nil, "helper " + funcFullName(t) + " can return bytes that do not come from json.Marshal (" + why + ")"
					}
					all = append(all, cs...)
				}
				if len(all) > 0 {
					return all, ""
				}
			}
		}
	case *ssa.Phi:
		var all []*ssa.Call
		for _, e := range x.Edges {
			cs, why := marshalOrigin(p, e, depth+1)
			if cs == nil {
				return nil, why
			}
			all = append(all, cs...)
		}
		return all, ""
	case *ssa.UnOp:
		if x.Op == token.MUL {
			if a, ok := x.X.(*ssa.Alloc); ok {
				if val, ok := singleStore(a); ok {
					return marshalOrigin(p, val, depth+1)
				}
			}
		}
	}
	return nil, "bytes are " + strip(NewTerms(p).T(v)) + ", not the result of json.Marshal"
}

// factWithCallers: does pred hold for the facts at instruction `at`, or - if `at`'s function is not exported -
// at every call site of that function (recursively, depth-bounded)? Used for guards that may legitimately live
// in the callers of a write helper.
func factWithCallers(T *Terms, cg *CallGraph, at ssa.Instruction, pred func(fn *ssa.Function, fs []Fact) bool, depth int) (bool, []string) {
	fn := at.Parent()
	if pred(fn, T.FactsAt(at.Block())) {
		return true, nil
	}
	if depth <= 0 {
		return false, []string{"unguarded at " + T.p.Pos(T.p.InstrPos(at)) + " in " + shortName(fn)}
	}
	callers := cg.Callers[fn]
	if len(callers) == 0 || (fn.Object() != nil && fn.Object().Exported() && fn.Parent() == nil) {
		return false, []string{"unguarded at " + T.p.Pos(T.p.InstrPos(at)) + " in " + shortName(fn) + ifs(len(callers) == 0, " (no callers to inherit a guard from)", " (exported: callable directly)")}
	}
	var missing []string
	for _, cs := range callers {
		ok, m := factWithCallers(T, cg, cs.Instr, pred, depth-1)
		if !ok {
			missing = append(missing, m...)
		}
	}
	return len(missing) == 0, missing
}

// callFieldTerm: term of c.In.<flag> / c.<flag> as seen from a function with a *Call / Call parameter.
func callFlagFact(fs []Fact, field string, pol bool) bool {
	want := ifs(pol, "const:true", "const:false")
	for _, f := range fs {
		if f.Op != "EQ" {
			continue
		}
		for _, pr := range [][2]string{{f.A, f.B}, {f.B, f.A}} {
			if pr[1] == want && strings.HasSuffix(strip(pr[0]), field) {
				return true
			}
		}
	}
	return false
}

// sharedPackageState: uses, inside the given functions, of package-level variables of the repo's library packages whose
// type can carry mutable state between calls (channels, maps, slices, pointers, interfaces, sync types, structs holding
// such). Read-only sentinels (error values of other packages, time constants) are not repo variables of package varlink.
func sharedPackageState(p *Prog, fns []*ssa.Function) []struct {
	Fn *ssa.Function
	G  *ssa.Global
	At ssa.Instruction
} {
	var out []struct {
		Fn *ssa.Function
		G  *ssa.Global
		At ssa.Instruction
	}
	mutableType := func(t types.Type) bool {
		var walk func(t types.Type, d int) bool
		walk = func(t types.Type, d int) bool {
			if d > 4 {
				return true
			}
			switch u := t.Underlying().(type) {
			case *types.Chan, *types.Map, *types.Slice, *types.Pointer, *types.Interface, *types.Signature:
				return true
			case *types.Struct:
				if n, ok := t.(*types.Named); ok && n.Obj().Pkg() != nil && (n.Obj().Pkg().Path() == "sync" || n.Obj().Pkg().Path() == "sync/atomic") {
					return true
				}
				for i := 0; i < u.NumFields(); i++ {
					if walk(u.Field(i).Type(), d+1) {
						return true
					}
				}
			case *types.Array:
				return walk(u.Elem(), d+1)
			}
			return false
		}
		return walk(t, 0)
	}
	for _, f := range fns {
		for _, b := range f.Blocks {
			for _, in := range b.Instrs {
				for _, op := range in.Operands(nil) {
					g, ok := (*op).(*ssa.Global)
					if !ok || g.Pkg == nil || g.Pkg.Pkg.Path() != pkgVarlink || strings.HasPrefix(g.Name(), "init$") {
						continue
					}
					// a variable that is only assigned by its initialiser with an immutable value (an error made by
					// errors.New / fmt.Errorf from constants, a compiled regexp, a constant) carries nothing between calls
					if iv := p.ConstGlobal(g); iv != nil {
						if _, isK := iv.(*ssa.Const); isK {
							continue
						}
						if c, isC := iv.(*ssa.Call); isC {
							switch calleeName(&c.Call) {
							case "errors.New", "fmt.Errorf", "regexp.MustCompile", "time.Unix":
								continue
							}
						}
					}
					if pt, ok := g.Type().(*types.Pointer); ok && mutableType(pt.Elem()) {
						out = append(out, struct {
							Fn *ssa.Function
							G  *ssa.Global
							At ssa.Instruction
						}{f, g, in})
					}
				}
			}
		}
	}
	return out
}

// encodeErrorEdge: the edge a->b is the "error" side of a test `err != nil` (or the false side of `err == nil`) whose err
// is the error result of json.Marshal / (*json.Encoder).Encode, or of a repo function that reaches one of those and does
// not reach a connection write (so its error can only be an encoding error). Values are resolved, not names.
func encodeErrorEdge(p *Prog, cg *CallGraph, wfn map[*ssa.Function]bool, a, b *ssa.BasicBlock) bool {
	if len(a.Instrs) == 0 || len(a.Succs) != 2 {
		return false
	}
	ifi, ok := a.Instrs[len(a.Instrs)-1].(*ssa.If)
	if !ok {
		return false
	}
	bo, ok := ifi.Cond.(*ssa.BinOp)
	if !ok || (bo.Op != token.NEQ && bo.Op != token.EQL) {
		return false
	}
	var e ssa.Value
	if k, ok := bo.Y.(*ssa.Const); ok && k.IsNil() {
		e = bo.X
	} else if k, ok := bo.X.(*ssa.Const); ok && k.IsNil() {
		e = bo.Y
	} else {
		return false
	}
	errSide := a.Succs[0]
	if bo.Op == token.EQL {
		errSide = a.Succs[1]
	}
	if errSide != b {
		return false
	}
	return isEncodeError(p, cg, wfn, e, 0)
}

func isEncodeError(p *Prog, cg *CallGraph, wfn map[*ssa.Function]bool, e ssa.Value, depth int) bool {
	if depth > 4 {
		return false
	}
	var call *ssa.Call
	switch x := e.(type) {
	case *ssa.Extract:
		call, _ = x.Tuple.(*ssa.Call)
	case *ssa.Call:
		call = x
	case *ssa.UnOp:
		if x.Op == token.MUL {
			if al, ok := x.X.(*ssa.Alloc); ok {
				if val, ok := singleStore(al); ok {
					return isEncodeError(p, cg, wfn, val, depth+1)
				}
			}
		}
		return false
	case *ssa.Phi:
		for _, ed := range x.Edges {
			if k, ok := ed.(*ssa.Const); ok && k.IsNil() {
				continue
			}
			if !isEncodeError(p, cg, wfn, ed, depth+1) {
				return false
			}
		}
		return true
	}
	if call == nil {
		return false
	}
	isEnc := func(n string) bool {
		return n == "json.Marshal" || n == "json.Encoder.Encode" || n == "json.MarshalIndent"
	}
	if isEnc(calleeName(&call.Call)) {
		return true
	}
	t := call.Call.StaticCallee()
	if t == nil || !p.InRepo(t) {
		return false
	}
	enc := false
	for g := range cg.Reach([]*ssa.Function{t}, false) {
		if wfn[g] {
			return false
		}
		for _, cs := range callsIn(g, false) {
			if isEnc(cs.Name()) {
				enc = true
			}
		}
	}
	return enc
}

// zeroFieldEdgeInContext: the edge a->b of g requires a bool member of a pointer parameter (`p.F` resp. `!p.F`) to be
// true, while at every call of g from a function in `from` the argument is a struct literal of the caller that never
// stores F (so F is false there): the edge cannot be taken in that calling context.
func zeroFieldEdgeInContext(cg *CallGraph, g *ssa.Function, a, b *ssa.BasicBlock, from map[*ssa.Function]bool) bool {
	if len(a.Instrs) == 0 || len(a.Succs) != 2 {
		return false
	}
	ifi, ok := a.Instrs[len(a.Instrs)-1].(*ssa.If)
	if !ok {
		return false
	}
	cond := ifi.Cond
	want := a.Succs[0] == b // the value the condition has on this edge
	for {
		if u, ok := cond.(*ssa.UnOp); ok && u.Op == token.NOT {
			cond, want = u.X, !want
			continue
		}
		break
	}
	if !want {
		return false
	}
	ld, ok := cond.(*ssa.UnOp)
	if !ok || ld.Op != token.MUL {
		return false
	}
	fa, ok := ld.X.(*ssa.FieldAddr)
	if !ok {
		return false
	}
	par, ok := fa.X.(*ssa.Parameter)
	if !ok {
		return false
	}
	// the member is not written in g before the test
	for _, ref := range *par.Referrers() {
		if f2, ok := ref.(*ssa.FieldAddr); ok && f2.Field == fa.Field {
			for _, r2 := range *f2.Referrers() {
				if _, isSt := r2.(*ssa.Store); isSt {
					return false
				}
			}
		}
	}
	idx := -1
	for i, q := range g.Params {
		if q == par {
			idx = i
		}
	}
	if idx < 0 {
		return false
	}
	name := fieldName(fa.X, fa.Field)
	n := 0
	for _, cs := range cg.Callers[g] {
		if !from[cs.Instr.Parent()] {
			continue
		}
		n++
		args := cs.Common.Args
		if len(args) != len(g.Params) {
			return false
		}
		al := unwrapAlloc(args[idx])
		if al == nil || al.Parent() != cs.Instr.Parent() {
			return false
		}
		if len(fieldStores(al)[name]) != 0 {
			return false
		}
		// the literal does not escape before the call other than into this call
		for _, ref := range *al.Referrers() {
			switch x := ref.(type) {
			case *ssa.FieldAddr:
			case ssa.CallInstruction:
				if x != cs.Instr {
					return false
				}
			default:
				return false
			}
		}
	}
	return n > 0
}

// compiledPatterns: the regexp.MustCompile calls whose result f uses: calls in f itself, and the initialisers of
// effectively constant package variables (Prog.ConstGlobal) that f loads.
func compiledPatterns(p *Prog, f *ssa.Function) []CallSite {
	out := callsNamed(f, false, "regexp.MustCompile")
	seen := map[ssa.Instruction]bool{}
	for _, b := range f.Blocks {
		for _, in := range b.Instrs {
			u, ok := in.(*ssa.UnOp)
			if !ok || u.Op != token.MUL {
				continue
			}
			g, ok := u.X.(*ssa.Global)
			if !ok {
				continue
			}
			if c, ok := p.ConstGlobal(g).(*ssa.Call); ok && calleeName(&c.Call) == "regexp.MustCompile" && !seen[c] {
				seen[c] = true
				out = append(out, CallSite{Instr: c, Common: &c.Call, Fn: c.Parent()})
			}
			// a package-level list of compiled patterns
			if sl, ok := p.ConstGlobal(g).(*ssa.Slice); ok {
				if arr, ok := sl.X.(*ssa.Alloc); ok {
					for _, ref := range *arr.Referrers() {
						ia, ok := ref.(*ssa.IndexAddr)
						if !ok {
							continue
						}
						for _, r2 := range *ia.Referrers() {
							if st, ok := r2.(*ssa.Store); ok {
								if c, ok := st.Val.(*ssa.Call); ok && calleeName(&c.Call) == "regexp.MustCompile" && !seen[c] {
									seen[c] = true
									out = append(out, CallSite{Instr: c, Common: &c.Call, Fn: c.Parent()})
								}
							}
						}
					}
				}
			}
		}
	}
	return out
}

// patternTexts: the constant pattern(s) a regexp.MustCompile call may be given: a constant, or an element of a local
// list of constants the call sits in a loop over (`for _, pat := range []string{p1, p2} { regexp.MustCompile(pat) }`).
// ok is false if the argument is neither.
func patternTexts(arg ssa.Value) ([]string, bool) {
	konst := func(v ssa.Value) (string, bool) {
		k, isK := v.(*ssa.Const)
		if !isK || k.Value == nil || k.Value.Kind() != constant.String {
			return "", false
		}
		return constant.StringVal(k.Value), true
	}
	if s, ok := konst(arg); ok {
		return []string{s}, true
	}
	ld, ok := arg.(*ssa.UnOp)
	if !ok || ld.Op != token.MUL {
		return nil, false
	}
	ia, ok := ld.X.(*ssa.IndexAddr)
	if !ok {
		return nil, false
	}
	base := ia.X
	if sl, isSl := base.(*ssa.Slice); isSl {
		base = sl.X
	}
	arr, ok := base.(*ssa.Alloc)
	if !ok {
		return nil, false
	}
	var out []string
	for _, ref := range *arr.Referrers() {
		switch x := ref.(type) {
		case *ssa.IndexAddr:
			for _, r2 := range *x.Referrers() {
				switch y := r2.(type) {
				case *ssa.Store:
					s, isK := konst(y.Val)
					if !isK || y.Addr != ssa.Value(x) {
						return nil, false
					}
					out = append(out, s)
				case *ssa.UnOp:
					if y.Op != token.MUL {
						return nil, false
					}
				default:
					return nil, false
				}
			}
		case *ssa.Slice, *ssa.DebugRef:
		default:
			return nil, false
		}
	}
	sort.Strings(out)
	return out, len(out) > 0
}
