package main

import (
	"fmt"
	"go/types"
	"os"
	"strings"

	"golang.org/x/tools/go/ssa"
)

func init() {
	register(&propDef{
		id: "C01", level: "other", perCfg: false,
		explain: "Necessary structural conditions of C01, decided for all paths (hence for all call sequences, handler scripts and interleavings). R1 single write path: every write to a connection performed by service-side code reachable from the connection loop is one of the reply-path write sites (a Write on the Call's connection); the raw socket is not written elsewhere. R2 oneway suppression: every such write site carries the fact `call.In.Oneway == false`, in its own function or - for unexported helpers - at every call site transitively, so built-in error replies inherit it. R3 continues only with more: every reply value whose Continues member can be true reaches the write helper only on paths that established `In.More == true`; on the refusing edge every return is a non-nil error and no write is reachable. R4 sequential dispatch: in the connection loop (found by role: started with `go` by a serving function, reads frames) the dispatch is a plain synchronous call on this iteration's frame, the error edges of the read and of the dispatch cannot reach another read, every exit closes the connection, and no goroutine is started by the dispatch path. R5 isolation: code reachable from the loop writes no package variable and no Service field except the connection counter; each request is decoded into a fresh zero value of its own activation (json.Unmarshal leaves absent members untouched, so a reused target leaks flags of the previous call); the per-call values are not stored in shared state. R8 (= C04.T7) every function between the dispatcher and the connection loop returns the result of its delivery unchanged, so a handler error ends the connection. R6 (= C17.D1-D3) and R7 (= C10.S6) are re-evaluated here: a reply write that cannot be cancelled or is made under the Service mutex stalls the sequential loop.",
		notDec:  "That encoding/json renders each reply correctly; real interleavings and segmentation (C02); behaviour of user dispatchers.",
		trusted: []string{"encoding/json.Unmarshal leaves members absent from the input untouched (hence the fresh-target rule)"},
		run:     runC01,
	})
}

func runC01(r *Run, p *Prog) {
	// R6: the reply write (and the frame read before it) goes through the context-aware I/O template; a deadline left armed or not re-armed by one operation changes what a later call on the connection emits
	siblingRules(r, p, "C17", []string{"D1", "D2", "D3"}, "R6")
	// R7: dispatch on one connection is independent of other connections only if the Service mutex is never held across a handler or connection I/O
	siblingRules(r, p, "C10", []string{"S6"}, "R7")
	// R8: a handler error ends the connection only if every function between the dispatcher and the connection loop
	// hands the result on unchanged (an error swallowed for a oneway call keeps the connection dispatching)
	siblingRules(r, p, "C04", []string{"T7"}, "R8")
	ro := DiscoverRoles(p)
	T, cg := ro.T, ro.CG
	if len(ro.ConnLoop) == 0 || ro.Handle == nil {
		r.Unresolved("R4", "connection loop (go target of a serving function) / Service.HandleMessage")
		return
	}
	H := cg.Reach(ro.ConnEntry, false)
	wset := map[ssa.Instruction]bool{}
	for _, w := range ro.WSites {
		wset[w.Instr] = true
	}
	wfn := fnSet(ro.WFuncs)
	isWCall := func(in ssa.Instruction) bool {
		ci, ok := in.(ssa.CallInstruction)
		if !ok {
			return false
		}
		t := staticTarget(ci.Common())
		return t != nil && wfn[t]
	}
	// ---- R1
	r.Guard("R1", func() {
		for f := range H {
			if fnPkgPath(f) != pkgVarlink {
				continue
			}
			for _, cs := range callsIn(f, false) {
				name := ""
				var recv ssa.Value
				if cs.Common.IsInvoke() {
					name, recv = cs.Common.Method.Name(), cs.Common.Value
				} else if sc := cs.Common.StaticCallee(); sc != nil && sc.Signature.Recv() != nil && len(cs.Common.Args) > 0 {
					name, recv = sc.Name(), cs.Common.Args[0]
				}
				if recv == nil || !(name == "Write" || name == "WriteString" || name == "ReadFrom") {
					continue
				}
				rt := recv.Type()
				if !(isNamed(rt, pkgVarlink, "ReadWriterContext") || isNamed(rt, pkgCtxio, "Conn") || isNamed(rt, "net", "Conn") || isNamed(rt, "io", "Writer") || isProtoWrite(cs)) {
					continue
				}
				r.Ob("R1", shortName(f), "connection write "+name+" on "+strip(T.T(recv)), cs.Instr.Pos(), wset[cs.Instr],
					"service-side code writes to the connection outside the guarded reply path: bytes are emitted that no handler reply accounts for (or a oneway call is answered)")
			}
		}
		r.Floor("R1", 1)
	})
	// ---- R2
	r.Guard("R2", func() {
		for _, w := range ro.WSites {
			ok, missing := factWithCallers(T, cg, w.Instr, func(fn *ssa.Function, fs []Fact) bool {
				return callFlagFact(fs, ".In.Oneway", false)
			}, 3)
			r.Ob("R2", shortName(w.Fn), "reply write is guarded by In.Oneway == false", w.Instr.Pos(), ok,
				"a reply can be written for a call flagged oneway: the write is not dominated by the oneway test on every way of reaching it", missing...)
		}
		r.Floor("R2", 1)
	})
	// ---- R3
	r.Guard("R3", func() {
		replyT := replyF.Type
		if replyT == nil {
			r.Unresolved("R3", "type serviceReply")
			return
		}
		n := 0
		reachesW := func(t *ssa.Function) bool {
			if t == nil {
				return false
			}
			for g := range cg.Reach([]*ssa.Function{t}, false) {
				if wfn[g] {
					return true
				}
			}
			return false
		}
		for _, f := range p.FuncsOf(pkgVarlink) {
			for _, cs := range callsIn(f, false) {
				if !reachesW(staticTarget(cs.Common)) {
					continue
				}
				// the reply literal created here and handed towards the write helper
				var rep *ssa.Alloc
				for _, a := range cs.Common.Args {
					if al := unwrapAlloc(a); al != nil {
						if pt, ok := al.Type().(*types.Pointer); ok && types.Identical(pt.Elem(), replyT) {
							rep = al
						}
					}
				}
				if rep == nil {
					continue
				}
				n++
				fs := fieldStores(rep)
				cont := fs[replyF.Continues]
				isErr := len(fs[replyF.Error]) > 0
				site := cs.Instr
				atSite := func(i ssa.Instruction) bool { return i == site }
				moreTrue := func(fs []Fact) bool { return callFlagFact(fs, ".In.More", true) }
				switch {
				case len(cont) == 0:
					ok := isErr || callFlagFact(T.FactsAt(site.Block()), ".Continues", false)
					r.Ob("R3", shortName(f), "final reply (continues not set)", site.Pos(), ok,
						"a reply without the continues member is sent on a path where the handler's Continues flag may be set: the client would take a non-final reply for the last one")
				default:
					// flow-sensitive: each store that can set the member is reached only with More established; paths
					// to the send that pass no such store send continues=false and need Continues == false
					var contStores []ssa.Instruction
					for _, ref := range *rep.Referrers() {
						if fa, ok := ref.(*ssa.FieldAddr); ok && fieldName(fa.X, fa.Field) == replyF.Continues {
							for _, r2 := range *fa.Referrers() {
								if st, ok := r2.(*ssa.Store); ok && st.Addr == ssa.Value(fa) {
									contStores = append(contStores, st)
								}
							}
						}
					}
					isContStore := func(i ssa.Instruction) bool {
						for _, st := range contStores {
							if st == i {
								return true
							}
						}
						return false
					}
					for _, sti := range contStores {
						st := sti.(*ssa.Store)
						isConstTrue := false
						if k, ok := st.Val.(*ssa.Const); ok {
							if constTerm(k) == "const:false" {
								continue
							}
							isConstTrue = constTerm(k) == "const:true"
						}
						ok, w := mustCross(T, f, nil, func(i ssa.Instruction) bool { return i == sti }, nil, func(fs []Fact) bool {
							return moreTrue(fs) || (!isConstTrue && callFlagFact(fs, ".Continues", false))
						})
						r.Ob("R3", shortName(f), "a continues reply is sent only for a call that set more", st.Pos(), ok,
							"a reply with continues=true can reach the write helper on a path that never established In.More == true", witnessPos(p, w)...)
					}
					reach, w := reachInstr(f, nil, atSite, isContStore, func(a, b *ssa.BasicBlock) bool {
						return callFlagFact(T.edgeFactsOn(a, b), ".Continues", false)
					})
					r.Ob("R3", shortName(f), "final reply (continues not set)", site.Pos(), isErr || !reach,
						"a reply without the continues member is sent on a path where the handler's Continues flag may be set: the client would take a non-final reply for the last one", witnessPos(p, w)...)
				}
			}
			// refusal edge: Continues == true and More == false
			for _, b := range f.Blocks {
				for _, s := range b.Succs {
					if !callFlagFact(T.edgeFactsOn(b, s), ".In.More", false) || !callFlagFact(T.FactsAt(b), ".Continues", true) {
						continue
					}
					bad, w := reachFromBlock(f, s, func(in ssa.Instruction) bool { return isWCall(in) || wset[in] || isNilErrorReturn(in) }, nil)
					r.Ob("R3", shortName(f), "continues without more is refused: error to the handler, nothing written", p.InstrPos(b.Instrs[len(b.Instrs)-1]), !bad,
						"on the edge Continues && !More a write or a success return is reachable", witnessPos(p, w)...)
				}
			}
		}
		r.Stat("R3_reply_sites", n)
		r.Floor("R3", 2)
	})
	// ---- R4
	r.Guard("R4", func() {
		for _, l := range ro.ConnLoop {
			fn := shortName(l)
			var rb, hm *ssa.Call
			for _, cs := range callsIn(l, false) {
				if isProtoReadBytes(cs) {
					if c, ok := cs.Instr.(*ssa.Call); ok {
						rb = c
					}
				}
				if t := staticTarget(cs.Common); isDispatchTarget(p, ro, t) {
					if c, ok := cs.Instr.(*ssa.Call); ok {
						hm = c
					} else {
						r.Ob("R4", fn, "dispatch is a plain synchronous call", cs.Instr.Pos(), false, "the dispatcher is started with go/defer: the next call on the connection can be dispatched before the previous handler has returned")
					}
				}
			}
			if rb == nil || hm == nil {
				r.Unresolved("R4", fn+": frame read / dispatch call in the connection loop")
				continue
			}
			r.Ob("R4", fn, "dispatch is a plain synchronous call", hm.Pos(), true, "")
			inLoop := blockInLoop(rb.Block()) && blockInLoop(hm.Block())
			r.Ob("R4", fn, "read and dispatch are in one loop, read before dispatch", rb.Pos(), inLoop, "the frame read and the dispatch are not in a common loop")
			// request is this iteration's frame
			reqT := strip(T.T(bytesArg(&hm.Call)))
			rbT := strip(T.T(rb))
			okReq := strings.HasPrefix(reqT, "slice(ext("+rbT+",0),")
			r.Ob("R4", fn, "the dispatched request is a slice of this iteration's frame", hm.Pos(), okReq, "dispatched bytes are "+reqT)
			errEdges := 0
			for _, b := range l.Blocks {
				for _, s := range b.Succs {
					fs := T.edgeFactsOn(b, s)
					isErr := false
					what := ""
					for _, f := range fs {
						if f.Op == "NE" && (f.A == "nil" || f.B == "nil") {
							o := f.A
							if o == "nil" {
								o = f.B
							}
							if o == "ext("+T.T(rb)+",1)" {
								isErr, what = true, "frame read"
							}
							if o == T.T(hm) {
								isErr, what = true, "dispatch"
							}
						}
					}
					if !isErr {
						continue
					}
					errEdges++
					again, w := reachFromBlock(l, s, func(in ssa.Instruction) bool { return in == ssa.Instruction(rb) || in == ssa.Instruction(hm) }, nil)
					r.Ob("R4", fn, "an error of the "+what+" ends the loop (no further read or dispatch)", p.InstrPos(b.Instrs[len(b.Instrs)-1]), !again,
						"after a failed "+what+" the loop can read or dispatch again on this connection: a handler error must end the connection, and a failed read may have consumed part of a frame", witnessPos(p, w)...)
					noClose, w2 := reachFromBlockAvoid(l, s, isReturn, func(in ssa.Instruction) bool {
						c, ok := in.(ssa.CallInstruction)
						if !ok {
							return false
						}
						if c.Common().IsInvoke() && c.Common().Method.Name() == "Close" {
							return true
						}
						sc := c.Common().StaticCallee()
						return sc != nil && sc.Name() == "Close"
					}, nil)
					// a deferred Close also counts
					deferredClose := false
					for _, bb := range l.Blocks {
						for _, in := range bb.Instrs {
							if d, ok := in.(*ssa.Defer); ok {
								if (d.Call.IsInvoke() && d.Call.Method.Name() == "Close") || (d.Call.StaticCallee() != nil && d.Call.StaticCallee().Name() == "Close") {
									if okd, _ := everyPathPasses(l, nil, isReturn, func(i ssa.Instruction) bool { return i == ssa.Instruction(d) }); okd {
										deferredClose = true
									}
								}
							}
						}
					}
					r.Ob("R4", fn, "after a failed "+what+" the connection is closed before the handler returns", p.InstrPos(b.Instrs[len(b.Instrs)-1]), !noClose || deferredClose,
						"the connection loop can return without closing the connection", witnessPos(p, w2)...)
				}
			}
			if errEdges < 2 {
				r.Unresolved("R4", fn+": error edges of the frame read and of the dispatch")
			}
			// no goroutines on the dispatch path (outside ctxio)
			for f := range cg.Reach([]*ssa.Function{l}, false) {
				if fnPkgPath(f) == pkgCtxio {
					continue
				}
				for _, cs := range callsIn(f, false) {
					if _, ok := cs.Instr.(*ssa.Go); ok {
						r.Ob("R4", shortName(f), "no goroutine is started on the dispatch path", cs.Instr.Pos(), false, "a goroutine is started while handling a call: replies of different calls on one connection can interleave or overtake each other")
					}
				}
			}
		}
		r.Floor("R4", 4)
	})
	// ---- R5
	r.Guard("R5", func() {
		var hf []*ssa.Function
		for f := range H {
			if fnPkgPath(f) == pkgVarlink {
				hf = append(hf, f)
			}
		}
		m := BuildServeModel(p, ro)
		for _, a := range fieldAccesses(hf, ro.ServiceT) {
			if !a.Write {
				continue
			}
			if ft := fieldTypeOf(ro.ServiceT, a.Field); ft != nil && isNamed(ft, "sync", "Mutex") {
				continue
			}
			r.Ob("R5", shortName(a.Fn), "handler-side write of Service."+a.Field+" ("+a.What+")", a.Instr.Pos(), a.Field == m.Counter,
				"code running per connection writes shared Service state other than the connection counter: the handling of one call can depend on traffic of other calls or connections")
		}
		for _, f := range hf {
			for _, b := range f.Blocks {
				for _, in := range b.Instrs {
					if st, ok := in.(*ssa.Store); ok {
						if g := globalOf(st.Addr); g != nil {
							r.Ob("R5", shortName(f), "handler-side write of package variable "+g.Name(), st.Pos(), false, "per-connection code writes a package-level variable")
						}
					}
				}
			}
		}
		for _, u := range sharedPackageState(p, hf) {
			r.Ob("R5", shortName(u.Fn), "per-connection code uses package-level state "+u.G.Name(), u.At.Pos(), false,
				"code that runs per connection uses a package-level variable that can carry objects between calls (free list, pool, cache, channel): what one connection encodes or decodes can show up on another")
		}
		// fresh decode target for the request
		n := 0
		for f := range H {
			if fnPkgPath(f) != pkgVarlink {
				continue
			}
			for _, d := range decodeSites(f) {
				// only the decode of the request frame: data rooted in a []byte parameter or a ReadBytes result
				dt := strip(T.T(d.Data))
				if os.Getenv("VLDEBUG") == "r5" {
					fmt.Fprintf(os.Stderr, "R5 decode site in %s: data %s\n", f.Name(), dt)
				}
				if !(strings.HasPrefix(dt, "param:") || strings.HasPrefix(dt, "*(param:") && !strings.Contains(dt, ".") || strings.Contains(dt, "ReadBytes")) {
					continue
				}
				n++
				ok, why := freshTarget(p, d)
				r.Ob("R5", shortName(f), "the request is decoded into a fresh zero value", d.Call.Pos(), ok, why)
				// the decoded value and the Call built from it stay local to the activation
				if a, isA := d.Target.(*ssa.Alloc); isA {
					esc := escapesToShared(a)
					r.Ob("R5", shortName(f), "the decoded call header is not stored in shared state", a.Pos(), esc == "", esc)
				}
			}
		}
		if n == 0 {
			r.Unresolved("R5", "decode of the request frame on the dispatch path")
		}
		r.Floor("R5", 3)
	})
	_ = fmt.Sprint
}

// escapesToShared: the address held by alloc a is stored into a Service field or a package variable.
func escapesToShared(a *ssa.Alloc) string {
	seen := map[ssa.Value]bool{}
	var walk func(v ssa.Value) string
	walk = func(v ssa.Value) string {
		if seen[v] {
			return ""
		}
		seen[v] = true
		for _, ref := range *v.Referrers() {
			switch x := ref.(type) {
			case *ssa.Store:
				if x.Val != v {
					continue
				}
				if g := globalOf(x.Addr); g != nil {
					return "stored into package variable " + g.Name()
				}
				if fa, ok := x.Addr.(*ssa.FieldAddr); ok {
					if isServiceState(fa.X.Type()) {
						return "stored into Service." + fieldName(fa.X, fa.Field)
					}
					// stored into another local struct (the Call): follow that struct
					if base, ok := fa.X.(*ssa.Alloc); ok {
						if s := walk(base); s != "" {
							return s
						}
					}
				}
			case *ssa.MakeInterface:
				if s := walk(x); s != "" {
					return s
				}
			case *ssa.MapUpdate:
				if x.Value == v {
					return "stored into a map"
				}
			case *ssa.Send:
				if x.X == v {
					return "sent on a channel"
				}
			}
		}
		return ""
	}
	return walk(a)
}
