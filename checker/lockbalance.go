package main

// Lock balance (C16.LB, re-used by C10 and C14): a may-held analysis over the inlined views of the entry points of
// package varlink. Every Lock is released on every path to a return (directly or by a deferred Unlock), no mutex is
// locked while it may already be held by the same activation (sync.Mutex is not reentrant), and no Unlock is executed
// on a path on which the mutex is certainly not held. The must-held lock sets of rule LS say which accesses are
// protected; they say nothing about a path that leaves the function with the mutex still held - after which every
// other user of the Service blocks for ever.

import (
	"fmt"
	"sort"
	"strings"

	"golang.org/x/tools/go/ssa"
)

type lbFinding struct {
	Fn   *ssa.Function
	At   ssa.Instruction
	What string
	Path []ssa.Instruction
}

// lockBalance analyses one function (usually an inlined view). Calls that remain (outside the repository, recursion,
// kept by the view policy) are taken to be balanced.
func lockBalance(f *ssa.Function) (nOps int, out []lbFinding) {
	if len(f.Blocks) == 0 {
		return 0, nil
	}
	type st map[string]bool
	clone := func(s st) st {
		n := st{}
		for k := range s {
			n[k] = true
		}
		return n
	}
	key := func(s st) string {
		var ks []string
		for k := range s {
			ks = append(ks, k)
		}
		sort.Strings(ks)
		return strings.Join(ks, ",")
	}
	// deferred unlocks of the function (run at every RunDefers after they were registered: a may-analysis treats a
	// defer as registered once its statement was passed on the path; tracked in the state as "d:"+id)
	in := map[*ssa.BasicBlock]st{f.Blocks[0]: {}}
	work := []*ssa.BasicBlock{f.Blocks[0]}
	reported := map[string]bool{}
	report := func(at ssa.Instruction, what string) {
		k := fmt.Sprintf("%p|%s", at, what)
		if !reported[k] {
			reported[k] = true
			out = append(out, lbFinding{Fn: f, At: at, What: what})
		}
	}
	seenOp := map[ssa.Instruction]bool{}
	for len(work) > 0 {
		b := work[0]
		work = work[1:]
		if b == f.Recover {
			continue
		}
		h := clone(in[b])
		for _, instr := range b.Instrs {
			switch x := instr.(type) {
			case *ssa.Call:
				if id, d := lockOp(&x.Call); d > 0 {
					seenOp[instr] = true
					if h[id] {
						report(instr, "locks "+id+" while this activation may already hold it: sync.Mutex is not reentrant, the goroutine blocks itself for ever")
					}
					h[id] = true
				} else if d < 0 {
					seenOp[instr] = true
					if !h[id] {
						report(instr, "unlocks "+id+" on a path on which it is not held: `sync: unlock of unlocked mutex` is a fatal error")
					}
					delete(h, id)
				}
			case *ssa.Defer:
				if id, d := lockOp(&x.Call); d < 0 {
					seenOp[instr] = true
					h["d:"+id] = true
				} else if d > 0 {
					seenOp[instr] = true
					report(instr, "defers a Lock of "+id)
				}
			case *ssa.RunDefers:
				for k := range h {
					if strings.HasPrefix(k, "d:") {
						id := strings.TrimPrefix(k, "d:")
						delete(h, id)
					}
				}
			case *ssa.Return:
				for k := range h {
					if !strings.HasPrefix(k, "d:") {
						report(instr, "returns with "+k+" still held on some path: every later Lock of it - the accept loop, every connection's dispatch, Shutdown - blocks for ever")
					}
				}
			}
		}
		for _, s := range b.Succs {
			old, ok := in[s]
			if !ok {
				in[s] = clone(h)
				work = append(work, s)
				continue
			}
			nv := clone(old)
			for k := range h {
				nv[k] = true
			}
			if key(nv) != key(old) {
				in[s] = nv
				work = append(work, s)
			}
		}
	}
	return len(seenOp), out
}

// lockBalanceRule: the entry points (exported functions and methods, functions started with `go`) of the given package
// in their inlined views, and the function literals of those views on their own.
func lockBalanceRule(r *Run, p *Prog, rule string, pkgs ...string) {
	cg := BuildCallGraph(p)
	nFns, nOps := 0, 0
	for _, pk := range pkgs {
		entries := map[*ssa.Function]bool{}
		for _, f := range p.FuncsOf(pk) {
			if f.Parent() != nil || len(f.Blocks) == 0 {
				continue
			}
			if f.Object() != nil && f.Object().Exported() {
				entries[f] = true
			}
			for _, cs := range callsIn(f, true) {
				if _, isGo := cs.Instr.(*ssa.Go); isGo {
					if t := staticTarget(cs.Common); t != nil && p.InRepo(t) && t.Parent() == nil {
						entries[t] = true
					}
				}
			}
		}
		var list []*ssa.Function
		for f := range entries {
			list = append(list, f)
		}
		sort.Slice(list, func(i, j int) bool { return list[i].Pos() < list[j].Pos() })
		for _, e := range list {
			v := p.Inlined(e, nil)
			cg.AddView(v)
			fns := []*ssa.Function{v}
			fns = append(fns, v.AnonFuncs...)
			for _, f := range fns {
				ops, finds := lockBalance(f)
				if ops == 0 {
					continue
				}
				nFns++
				nOps += ops
				if len(finds) == 0 {
					r.Ob(rule, shortName(f), "every Lock is released on every path; no second Lock, no stray Unlock", f.Pos(), true, fmt.Sprintf("%d lock operations", ops))
					continue
				}
				for i, fd := range finds {
					r.Ob(rule, shortName(f), fmt.Sprintf("every Lock is released on every path; no second Lock, no stray Unlock (#%d)", i+1), fd.At.Pos(), false, "the function "+fd.What)
				}
			}
		}
	}
	r.Stat(rule+"_functions_with_lock_operations", nFns)
	r.Stat(rule+"_lock_operations", nOps)
	r.Floor(rule, 5)
}
