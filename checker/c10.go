package main

import (
	"fmt"
	"go/token"
	"go/types"
	"strings"

	"golang.org/x/tools/go/ssa"
)

func init() {
	register(&propDef{
		id: "C10", level: "other", perCfg: false,
		explain: "Necessary structural conditions of C10, decided for all paths (hence all byte streams and abort points that reach them). S1 bad frame: on the decode-error edge of the dispatch entry there is no delivery and no reply write, the decode error is returned, and in the connection loop a dispatch error cannot reach another read or dispatch and every exit closes the connection. S2 incomplete frame: the dispatch call in the loop is dominated by `read error == nil` of the same iteration's delimiter read. S3 release on every exit: the handler's first action defers the release (counter decrement under the mutex and wg.Done), the release happens exactly once on every path through the handler (defers included), the per-connection context is derived with WithCancel and its cancel is deferred before the loop. S4 isolation: the request is decoded into a fresh zero value (so the literal null yields an empty call, answered like a call without method) and per-connection code writes no shared state except the counter. S6 no blocking operation (connection I/O, user dispatcher, Accept, WaitGroup.Wait) is performed while the Service mutex is held, so a peer that stops reading cannot stall the accept loop, other connections or Shutdown. S5 panic census: every slice, index, single-result type assertion, division, explicit panic and dereference of an optional wire member in repo code reachable from the connection loop (ctxio included) is discharged by a dominating fact or a named library lemma. S9 raw connection: in the connection handler's view (package ctxio kept as calls) the accepted net.Conn and everything derived from it (conversions, type assertions, spills) is never the receiver of Read/Write/ReadFrom/WriteTo and is never handed to code outside the repository through a parameter whose interface has Read or Write (io.Copy, ioutil.ReadAll, bufio): the only blocking I/O on the connection is the context-aware wrapper's. S1 also: every complete frame reaches the decoder unchanged. S7 (= C02.F2), S8 (= C17.D1-D3). S10 a failed reply write is reported to the caller (the loop ends). S11 (= C16.LB) lock balance: on every path the Service mutex is released as often as it was taken. S12 error discipline of the service side (engine errdisc: success only where the error is known nil, no use of a result whose error may be set, no dropped repo error, no inverted test).",
		notDec:  "Hangs caused by a peer that neither reads nor closes (no write deadline is part of the API); kernel resource release; panics inside encoding/json, bufio, net; user dispatchers.",
		trusted: []string{"bufio.Reader.ReadBytes returns err == nil only with a result ending in the delimiter (non-empty)", "encoding/json.Unmarshal does not panic on any input", "strings.LastIndex result r satisfies -1 <= r <= len(s)-len(sep)"},
		run:     runC10,
	})
}

func runC10(r *Run, p *Prog) {
	// S7: only complete frames are handed to the decoder
	siblingRules(r, p, "C02", []string{"F2"}, "S7")
	// S8: a connection whose peer has gone or stalls ends when its context is cancelled
	siblingRules(r, p, "C17", []string{"D1", "D2", "D3"}, "S8")
	// S11: no path of the service leaves the Service mutex held (or locks it twice): every connection's dispatch, the
	// accept loop and Shutdown need it, so a single leaked lock hangs the whole service
	siblingRules(r, p, "C16", []string{"LB"}, "S11")
	// S12: error discipline of the service side of the package (errdisc.go)
	r.Guard("S12", func() {
		ro := DiscoverRoles(p)
		svc := serviceSideFuncs(p, ro)
		var fns []*ssa.Function
		for _, f := range p.FuncsOf(pkgVarlink) {
			if svc[f] {
				fns = append(fns, f)
			}
		}
		errorDiscipline(r, p, ro.T, "S12", fns)
		r.Floor("S12", 5)
	})
	ro := DiscoverRoles(p)
	T, cg := ro.T, ro.CG
	if len(ro.ConnLoop) == 0 || ro.Handle == nil {
		r.Unresolved("S1", "connection loop / HandleMessage")
		return
	}
	entry := dispatchView(p, ro)
	if entry == nil {
		r.Unresolved("S1", "dispatch entry")
		return
	}
	dm := newDeliveryModel(p, ro, entry)
	pc := dm.counter()
	wset := map[ssa.Instruction]bool{}
	for _, w := range ro.WSites {
		wset[w.Instr] = true
	}
	// ---- S1
	r.Guard("S1", func() {
		ds := decodeSitesDeep(p, entry)
		if len(ds) != 1 {
			r.Unresolved("S1", "single decode of the request")
			return
		}
		// every frame reaches the decoder: nothing but the JSON decoder judges a frame (a pre-check of its first byte
		// would refuse `null`, which must be answered like a call without method)
		{
			okAll, w := everyPathPasses(entry, nil, isReturn, func(in ssa.Instruction) bool {
				return in == ssa.Instruction(ds[0].Call) || ds[0].Inner != nil && in == ssa.Instruction(ds[0].Inner.Call)
			})
			if ds[0].Inner != nil {
				// (the decode sits in a helper: the call of the helper is the decode)
				okAll, w = everyPathPasses(entry, nil, isReturn, func(in ssa.Instruction) bool {
					c, ok := in.(*ssa.Call)
					return ok && (in == ssa.Instruction(ds[0].Call) || staticTarget(&c.Call) == ds[0].Inner.Fn)
				})
			}
			r.Ob("S1", shortName(entry), "every frame is handed to the decoder", entry.Pos(), okAll,
				"the dispatch entry can return without decoding the frame: some frames are judged by something other than the JSON decoder", witnessPos(p, w)...)
		}
		decErr := ds[0].ErrTerm(T)
		n := 0
		for _, b := range entry.Blocks {
			for _, s := range b.Succs {
				if !hasFact(T.edgeFactsOn(b, s), "NE", decErr, "nil") {
					continue
				}
				n++
				lo, hi, _ := pc.FromPos(entry, s, 0, isReturn, nil)
				r.Ob("S1", shortName(entry), "a frame that does not decode is neither dispatched nor answered", p.InstrPos(b.Instrs[len(b.Instrs)-1]), lo == 0 && hi == 0,
					fmt.Sprintf("between %d and %d deliveries on the decode-error edge", lo, hi))
				okRet := true
				for _, rv := range returnedValues(entry, 0) {
					if reach, _ := reachFromBlock(entry, s, func(i ssa.Instruction) bool { return i == ssa.Instruction(rv.Ret) }, nil); reach && T.T(rv.Val) != decErr {
						okRet = false
					}
				}
				r.Ob("S1", shortName(entry), "the decode error is returned to the connection loop", p.InstrPos(b.Instrs[len(b.Instrs)-1]), okRet,
					"on the decode-error edge something other than the decode error is returned: a nil result keeps a connection with an unparsable stream alive")
			}
		}
		if n == 0 {
			r.Ob("S1", shortName(entry), "the decode error is tested", entry.Pos(), false, "no edge on which the decode error is non-nil")
		}
		// HandleMessage (if it delegates) returns the entry's result unchanged
		if entry != ro.Handle {
			for _, cs := range callsIn(ro.Handle, false) {
				if staticTarget(cs.Common) != entry {
					continue
				}
				c := cs.Instr.(*ssa.Call)
				okk := false
				for _, rv := range returnedValues(ro.Handle, 0) {
					if rv.Val == ssa.Value(c) {
						okk = true
					}
				}
				r.Ob("S1", shortName(ro.Handle), "HandleMessage returns the dispatch entry's result", c.Pos(), okk, "")
			}
		}
	})
	// ---- S1 loop side + S2
	for _, l := range ro.ConnLoop {
		fn := shortName(l)
		var rb, hm *ssa.Call
		for _, cs := range callsIn(l, false) {
			if isProtoReadBytes(cs) {
				rb, _ = cs.Instr.(*ssa.Call)
			}
			if isDispatchTarget(p, ro, staticTarget(cs.Common)) {
				hm, _ = cs.Instr.(*ssa.Call)
			}
		}
		if rb == nil || hm == nil {
			r.Unresolved("S2", fn+": frame read and dispatch call")
			continue
		}
		r.Guard("S2", func() {
			r.Ob("S2", fn, "dispatch only under read error == nil of this iteration's read", hm.Pos(), hasFact(T.FactsAt(hm.Block()), "EQ", "ext("+T.T(rb)+",1)", "nil"),
				"the dispatch is not dominated by a successful frame read: an incomplete trailing frame (EOF before the NUL) would be dispatched")
			for _, b := range l.Blocks {
				for _, s := range b.Succs {
					if !hasFact(T.edgeFactsOn(b, s), "NE", T.T(hm), "nil") && !hasFact(T.edgeFactsOn(b, s), "NE", "ext("+T.T(rb)+",1)", "nil") {
						continue
					}
					again, w := reachFromBlock(l, s, func(in ssa.Instruction) bool { return in == ssa.Instruction(rb) || in == ssa.Instruction(hm) }, nil)
					r.Ob("S1", fn, "a read or dispatch error ends the connection (no further read or dispatch)", p.InstrPos(b.Instrs[len(b.Instrs)-1]), !again,
						"after an error the loop continues on the same connection", witnessPos(p, w)...)
				}
			}
		})
		// ---- S3
		r.Guard("S3", func() {
			m := BuildServeModel(p, ro)
			isDec := func(in ssa.Instruction) bool {
				st, ok := in.(*ssa.Store)
				if !ok {
					return false
				}
				f, d := counterDelta(ro, st)
				return f == m.Counter && d == -1
			}
			entry := l
			for _, e := range ro.ConnEntry {
				if cg.Reach([]*ssa.Function{e}, false)[l] {
					entry = e
				}
			}
			efn := shortName(entry)
			lo, hi := NewPathCounter(p, isDec).Summary(entry)
			r.Ob("S3", efn, "the connection is released (counter decremented) exactly once on every path", entry.Pos(), lo == 1 && hi == 1,
				fmt.Sprintf("between %d and %d decrements on the paths through the handler: after the peer disappears on some path the connection stays counted, so the service cannot time out", lo, hi))
			isDone := func(in ssa.Instruction) bool {
				ci, ok := in.(ssa.CallInstruction)
				return ok && calleeName(ci.Common()) == "sync.WaitGroup.Done"
			}
			lo, hi = NewPathCounter(p, isDone).Summary(entry)
			r.Ob("S3", efn, "wg.Done() exactly once on every path", entry.Pos(), lo == 1 && hi == 1, fmt.Sprintf("between %d and %d calls: the serving call cannot drain (shutdown hangs) or panics", lo, hi))
			// the release is deferred before anything that can fail: the first call-like instruction is the defer
			// (other defers may precede it: registering a deferred call cannot fail)
			okFirst := false
		scan:
			for _, in := range entry.Blocks[0].Instrs {
				switch x := in.(type) {
				case *ssa.Defer:
					if t := staticTarget(&x.Call); t != nil {
						a, b := NewPathCounter(p, isDec).Summary(t)
						if a == 1 && b == 1 {
							okFirst = true
							break scan
						}
					}
				case *ssa.Call, *ssa.Go:
					break scan
				}
			}
			r.Ob("S3", efn, "the release is deferred as the handler's first action", entry.Pos(), okFirst,
				"the release is not the first deferred action: a panic or return before it leaves the connection counted for ever")
			// per-connection context cancelled on exit
			okCancel, whyCancel := connCtxCancelOnExit(p, T, cg, l, rb)
			r.Ob("S3", fn, "the per-connection context is derived with cancel and the cancel is deferred before the loop", l.Pos(), okCancel,
				"helper goroutines and timers of the connection can outlive it: "+whyCancel)
			// close on every normal exit
			noClose, w := reachInstr(l, nil, isReturn, func(in ssa.Instruction) bool {
				c, ok := in.(ssa.CallInstruction)
				if !ok {
					return false
				}
				if _, isDefer := in.(*ssa.Defer); isDefer {
					return c.Common().IsInvoke() && c.Common().Method.Name() == "Close" || c.Common().StaticCallee() != nil && c.Common().StaticCallee().Name() == "Close"
				}
				return c.Common().IsInvoke() && c.Common().Method.Name() == "Close" || c.Common().StaticCallee() != nil && c.Common().StaticCallee().Name() == "Close"
			}, nil)
			r.Ob("S3", fn, "the connection is closed on every exit of the handler", l.Pos(), !noClose, "the handler can return without closing the connection: the descriptor leaks and the peer never sees the end", witnessPos(p, w)...)
		})
	}
	// ---- S4
	r.Guard("S4", func() {
		for _, d := range decodeSitesDeep(p, entry) {
			ok, why := freshTarget(p, d)
			r.Ob("S4", shortName(entry), "the request is decoded into a fresh zero value (null => empty call)", d.Call.Pos(), ok, why)
		}
		var hf []*ssa.Function
		for f := range cg.Reach(ro.ConnEntry, false) {
			if fnPkgPath(f) == pkgVarlink {
				hf = append(hf, f)
			}
		}
		for _, u := range sharedPackageState(p, hf) {
			r.Ob("S4", shortName(u.Fn), "per-connection code uses package-level state "+u.G.Name(), u.At.Pos(), false,
				"a misbehaving client can influence other connections through a package-level pool/cache/free list")
		}
		m := BuildServeModel(p, ro)
		for _, a := range fieldAccesses(hf, ro.ServiceT) {
			if a.Write && !isNamed(fieldTypeOf(ro.ServiceT, a.Field), "sync", "Mutex") && a.Field != m.Counter {
				r.Ob("S4", shortName(a.Fn), "per-connection code writes Service."+a.Field, a.Instr.Pos(), false, "a misbehaving client can influence state shared with other connections")
			}
		}
	})
	// ---- S6: no blocking operation while the Service mutex is held (a client that stops reading must not stall
	// the accept loop, other connections or Shutdown, which all take that mutex)
	r.Guard("S6", func() {
		fns := p.FuncsOf(pkgVarlink)
		ls := ComputeLockSets(p, cg, fns)
		if ls == nil {
			r.Unresolved("S6", "lock-set fixpoint")
			return
		}
		// functions that may block on a peer or on other goroutines
		blocking := func(c *ssa.CallCommon) string {
			if c.IsInvoke() {
				switch c.Method.Name() {
				case "VarlinkDispatch":
					return "a user dispatcher"
				case "Write", "Read", "ReadBytes":
					if isNamed(c.Value.Type(), pkgVarlink, "ReadWriterContext") || isNamed(c.Value.Type(), "net", "Conn") {
						return "connection I/O"
					}
				case "Accept":
					if isNamed(c.Value.Type(), "net", "Listener") {
						return "Accept"
					}
				}
				return ""
			}
			switch calleeName(c) {
			case "sync.WaitGroup.Wait":
				return "WaitGroup.Wait"
			case "ctxio.Conn.Write", "ctxio.Conn.Read", "ctxio.Conn.ReadBytes":
				return "connection I/O"
			}
			return ""
		}
		// transitive: repo functions that reach a blocking call
		reaches := map[*ssa.Function]string{}
		for _, f := range fns {
			for g := range cg.Reach([]*ssa.Function{f}, false) {
				for _, cs := range callsIn(g, false) {
					if _, isGo := cs.Instr.(*ssa.Go); isGo {
						continue
					}
					if w := blocking(cs.Common); w != "" && reaches[f] == "" {
						reaches[f] = w + " (in " + shortName(g) + ")"
					}
				}
			}
		}
		n := 0
		for _, f := range fns {
			for _, cs := range callsIn(f, false) {
				if _, isGo := cs.Instr.(*ssa.Go); isGo {
					continue
				}
				held := ls.At[cs.Instr]
				if _, isDefer := cs.Instr.(*ssa.Defer); isDefer {
					continue // evaluated where it runs: its callee's own call sites carry the state
				}
				if len(held) == 0 {
					continue
				}
				if _, d := lockOp(cs.Common); d != 0 {
					continue
				}
				n++
				why := blocking(cs.Common)
				if why == "" {
					if t := staticTarget(cs.Common); t != nil {
						why = reaches[t]
					}
				}
				r.Ob("S6", shortName(f), "call of "+calleeName(cs.Common)+" under the Service mutex does not block on a peer", cs.Instr.Pos(), why == "",
					"the Service mutex is held across "+why+": a client that stops reading (or a slow handler) blocks the accept loop, every other connection's dispatch and Shutdown, which all need this mutex")
			}
		}
		r.Stat("S6_calls_under_lock", n)
		r.Floor("S6", 1)
	})
	// ---- S10
	r.Guard("S10", func() {
		// a reply that could not be written is reported to its caller: on every path on which the protocol write failed
		// the writing function returns a non-nil error (the write error, a sentinel of the io package, a fresh error).
		// A handler that streams replies has no other way to learn that its client is gone; if the failure is
		// swallowed it never returns, the connection is never released and serving never drains.
		n := 0
		for _, w := range ro.WSites {
			c, ok := w.Instr.(*ssa.Call)
			if !ok {
				continue
			}
			f := w.Fn
			errT := "ext(" + T.T(c) + ",1)"
			for _, rv := range returnedValues(f, f.Signature.Results().Len()-1) {
				// (returns after the write)
				if !(c.Block() == rv.Ret.Block() || c.Block().Dominates(rv.Ret.Block())) {
					continue
				}
				n++
				vt := T.T(rv.Val)
				okv := vt == errT || strings.Contains(strip(vt), "global:io.") || strings.HasPrefix(strip(vt), "call:fmt.Errorf(") || strings.HasPrefix(strip(vt), "call:errors.New(")
				if !okv {
					// the error mapped by a helper that returns nil only for nil (`return unexpectedEOF(err)`)
					if mc, isCall := rv.Val.(*ssa.Call); isCall && len(mc.Call.Args) == 1 && strip(T.T(mc.Call.Args[0])) == strip(errT) && errorMapper(p, T, staticTarget(&mc.Call)) {
						okv = true
					}
				}
				if !okv {
					// anything else (nil in particular) only where the write is known to have succeeded
					okv = errKnownNil(p, T, T.FactsAt(rv.Ret.Block()), errT)
				}
				r.Ob("S10", shortName(f), fmt.Sprintf("a failed reply write is reported to the caller (return #%d)", n), rv.Ret.Pos(), okv,
					"on a path where the write of the reply may have failed the function returns "+strip(vt)+": the handler is told the reply was delivered - a handler that streams replies to a client that has gone never ends, and its connection is never released")
			}
		}
		r.Floor("S10", 1)
	})
	// ---- S9
	r.Guard("S9", func() {
		// the accepted connection is read and written only through the context-aware wrapper: a direct Read/Write, or
		// handing the connection to code outside the repository as a reader/writer (io.Copy, ioutil.ReadAll, bufio),
		// blocks for as long as the peer likes - no context, no deadline - so a silent client pins the handler
		n := 0
		for _, e := range ro.ConnEntry {
			v := p.Inlined(e, func(c *ssa.Function) bool { return fnPkgPath(c) == pkgCtxio })
			cg.AddView(v)
			for _, par := range v.Params {
				if !isNamed(par.Type(), "net", "Conn") {
					continue
				}
				seen := map[ssa.Value]bool{}
				var walk func(val ssa.Value)
				walk = func(val ssa.Value) {
					if seen[val] || val.Referrers() == nil {
						return
					}
					seen[val] = true
					for _, ref := range *val.Referrers() {
						switch x := ref.(type) {
						case *ssa.ChangeInterface:
							walk(x)
						case *ssa.MakeInterface:
							walk(x)
						case *ssa.Phi:
							walk(x)
						case *ssa.TypeAssert:
							if x.X != val {
								continue
							}
							if x.CommaOk {
								for _, r2 := range *x.Referrers() {
									if ex, ok := r2.(*ssa.Extract); ok && ex.Index == 0 {
										walk(ex)
									}
								}
							} else {
								walk(x)
							}
						case *ssa.Store:
							// (spilled into a local variable)
							if al, ok := x.Addr.(*ssa.Alloc); ok && x.Val == val {
								for _, r2 := range *al.Referrers() {
									if ld, ok := r2.(*ssa.UnOp); ok && ld.Op == token.MUL {
										walk(ld)
									}
								}
							}
						case ssa.CallInstruction:
							cc := x.Common()
							if cc.IsInvoke() && cc.Value == val {
								switch cc.Method.Name() {
								case "Read", "Write", "ReadFrom", "WriteTo":
									n++
									r.Ob("S9", shortName(v), "the accepted connection is not read or written directly", x.Pos(), false,
										cc.Method.Name()+" is called on the raw connection: it blocks until the peer acts, with no context and no deadline - a client that stays silent keeps the handler, its descriptor and the connection count for ever, and serving never drains")
								}
								continue
							}
							t := staticTarget(cc)
							if t != nil && p.InRepo(t) {
								continue // (the wrapper's constructor; repo callees outside ctxio are part of the view)
							}
							sig, _ := cc.Value.Type().Underlying().(*types.Signature)
							if t != nil {
								sig = t.Signature
							}
							for i, arg := range cc.Args {
								if arg != val || sig == nil {
									continue
								}
								var pt types.Type
								switch {
								case i < sig.Params().Len():
									pt = sig.Params().At(i).Type()
								case sig.Variadic() && sig.Params().Len() > 0:
									pt = sig.Params().At(sig.Params().Len() - 1).Type()
								}
								it, _ := pt.Underlying().(*types.Interface)
								doesIO := false
								if it != nil {
									for k := 0; k < it.NumMethods(); k++ {
										if nm := it.Method(k).Name(); nm == "Read" || nm == "Write" {
											doesIO = true
										}
									}
								}
								if doesIO {
									n++
									r.Ob("S9", shortName(v), "the accepted connection is not handed to foreign code as a reader or writer", x.Pos(), false,
										"the raw connection is passed to "+calleeName(cc)+", which reads or writes it without a context or deadline: a client that stays silent keeps the handler, its descriptor and the connection count for ever, and serving never drains")
								}
							}
						}
					}
				}
				walk(par)
				n++
				r.Ob("S9", shortName(v), "uses of the accepted connection examined", par.Pos(), true, fmt.Sprintf("%d values derived from it", len(seen)))
			}
		}
		r.Floor("S9", 1)
	})
	// ---- S5
	r.Guard("S5", func() {
		fns := cg.Reach(ro.ConnEntry, true)
		n := panicCensus(r, p, T, "S5", fns)
		r.Stat("S5_panic_sites", n)
		r.Floor("S5", 5)
	})
}
