package main

// E4 (reachability avoiding edges / instructions), E6 (path counting), call-graph helpers (E7).

import (
	"go/token"
	"go/types"
	"sort"
	"strings"

	"golang.org/x/tools/go/ssa"
)

// instrIndex returns the index of in inside its block.
func instrIndex(in ssa.Instruction) int {
	for i, x := range in.Block().Instrs {
		if x == in {
			return i
		}
	}
	return -1
}

type ipos struct {
	b *ssa.BasicBlock
	i int
}

// reachInstr explores forward from just after `from` (or from function entry if from==nil, pass fn)
// and reports whether an instruction satisfying target is reachable without executing an instruction
// satisfying avoid and without crossing a forbidden edge. It returns a witness list of instructions.
func reachInstr(fn *ssa.Function, from ssa.Instruction, target, avoid func(ssa.Instruction) bool, forbidEdge func(from, to *ssa.BasicBlock) bool) (bool, []ssa.Instruction) {
	var start ipos
	if from == nil {
		start = ipos{fn.Blocks[0], 0}
	} else {
		start = ipos{from.Block(), instrIndex(from) + 1}
	}
	type node struct {
		p    ipos
		prev *node
		at   ssa.Instruction
	}
	seenBlock := map[*ssa.BasicBlock]bool{}
	work := []*node{{p: start}}
	first := true
	for len(work) > 0 {
		n := work[0]
		work = work[1:]
		if n.p.i == 0 {
			if seenBlock[n.p.b] {
				continue
			}
			seenBlock[n.p.b] = true
		} else if !first {
			continue
		}
		first = false
		blocked := false
		for i := n.p.i; i < len(n.p.b.Instrs); i++ {
			in := n.p.b.Instrs[i]
			if target(in) {
				var w []ssa.Instruction
				w = append(w, in)
				for m := n; m != nil; m = m.prev {
					if m.at != nil {
						w = append(w, m.at)
					}
				}
				for l, r := 0, len(w)-1; l < r; l, r = l+1, r-1 {
					w[l], w[r] = w[r], w[l]
				}
				return true, w
			}
			if avoid != nil && avoid(in) {
				blocked = true
				break
			}
		}
		if blocked {
			continue
		}
		for _, s := range n.p.b.Succs {
			if forbidEdge != nil && forbidEdge(n.p.b, s) {
				continue
			}
			work = append(work, &node{p: ipos{s, 0}, prev: n, at: n.p.b.Instrs[len(n.p.b.Instrs)-1]})
		}
	}
	return false, nil
}

func isReturn(in ssa.Instruction) bool { _, ok := in.(*ssa.Return); return ok }

// everyPathPasses: every path from `from` (exclusive; nil = entry) to an instruction satisfying end
// executes an instruction satisfying must first.
func everyPathPasses(fn *ssa.Function, from ssa.Instruction, end, must func(ssa.Instruction) bool) (bool, []ssa.Instruction) {
	r, w := reachInstr(fn, from, end, must, nil)
	return !r, w
}

// count of matching instructions along all paths entry->return: (min,max) saturating at 2.
func countOnPaths(fn *ssa.Function, from ssa.Instruction, match func(ssa.Instruction) bool) (int, int) {
	const top = 3
	type mm struct{ lo, hi int }
	in := map[*ssa.BasicBlock]mm{}
	var startB *ssa.BasicBlock
	startI := 0
	if from == nil {
		startB = fn.Blocks[0]
	} else {
		startB = from.Block()
		startI = instrIndex(from) + 1
	}
	resLo, resHi := 99, -1
	sat := func(x int) int {
		if x > 2 {
			return 2
		}
		return x
	}
	type item struct {
		b *ssa.BasicBlock
		i int
	}
	// process the partial start block first, then a standard fixpoint
	process := func(b *ssa.BasicBlock, i int, v mm) (mm, bool) {
		for ; i < len(b.Instrs); i++ {
			x := b.Instrs[i]
			if match(x) {
				v.lo, v.hi = sat(v.lo+1), sat(v.hi+1)
			}
			if isReturn(x) {
				resLo = min(resLo, v.lo)
				resHi = max(resHi, v.hi)
				return v, false
			}
			if _, ok := x.(*ssa.Panic); ok {
				return v, false
			}
		}
		return v, true
	}
	work := []*ssa.BasicBlock{}
	push := func(s *ssa.BasicBlock, v mm) {
		old, ok := in[s]
		nv := v
		if ok {
			nv = mm{min(old.lo, v.lo), max(old.hi, v.hi)}
			if nv == old {
				return
			}
		}
		in[s] = nv
		work = append(work, s)
	}
	v, cont := process(startB, startI, mm{0, 0})
	if cont {
		for _, s := range startB.Succs {
			push(s, v)
		}
	}
	for len(work) > 0 {
		b := work[0]
		work = work[1:]
		v, cont := process(b, 0, in[b])
		if cont {
			for _, s := range b.Succs {
				push(s, v)
			}
		}
	}
	_ = top
	if resHi < 0 {
		return 0, 0
	}
	return resLo, resHi
}

// ---------------------------------------------------------------------------
// calls

type CallSite struct {
	Instr  ssa.CallInstruction
	Common *ssa.CallCommon
	Fn     *ssa.Function // enclosing
}

func (c CallSite) Name() string { return calleeName(c.Common) }

// callsIn lists call instructions (Call, Go, Defer) of fn; with deep, also those of its closures.
func callsIn(fn *ssa.Function, deep bool) []CallSite {
	var out []CallSite
	var walk func(f *ssa.Function)
	walk = func(f *ssa.Function) {
		for _, b := range f.Blocks {
			for _, in := range b.Instrs {
				if ci, ok := in.(ssa.CallInstruction); ok {
					out = append(out, CallSite{ci, ci.Common(), f})
				}
			}
		}
		if deep {
			for _, a := range f.AnonFuncs {
				walk(a)
			}
		}
	}
	walk(fn)
	return out
}

func callsNamed(fn *ssa.Function, deep bool, names ...string) []CallSite {
	var out []CallSite
	for _, c := range callsIn(fn, deep) {
		n := c.Name()
		for _, w := range names {
			if n == w {
				out = append(out, c)
			}
		}
	}
	return out
}

// staticTargets: static callee, or the closure being called/deferred/started.
func staticTarget(c *ssa.CallCommon) *ssa.Function {
	if f := c.StaticCallee(); f != nil {
		return f
	}
	if mc, ok := c.Value.(*ssa.MakeClosure); ok {
		return mc.Fn.(*ssa.Function)
	}
	// a captured function value: the closure bound to the free variable where the enclosing closure is made
	v := c.Value
	for i := 0; i < 4; i++ {
		switch x := v.(type) {
		case *ssa.MakeClosure:
			return x.Fn.(*ssa.Function)
		case *ssa.FreeVar:
			b := freeBinding(x)
			if b == nil {
				return nil
			}
			v = b
		case *ssa.UnOp:
			// a variable captured by reference: load of the cell, which is assigned once
			if x.Op != token.MUL {
				return nil
			}
			cell := x.X
			if fv, ok := cell.(*ssa.FreeVar); ok {
				cell = freeBinding(fv)
			}
			al, ok := cell.(*ssa.Alloc)
			if !ok {
				return nil
			}
			val, ok := singleStore(al)
			if !ok {
				return nil
			}
			v = val
		default:
			return nil
		}
	}
	return nil
}

// CallGraph over repo functions with static edges, closure edges and interface-method edges resolved by
// CHA restricted to repo types (sufficient here: the dynamic dispatch that matters is `dispatcher`,
// `ReadWriterContext` and net.Conn implemented by PipeCon).
type CallGraph struct {
	p       *Prog
	Callees map[*ssa.Function][]*ssa.Function
	Callers map[*ssa.Function][]CallSite
	GoTargs map[*ssa.Function][]*ssa.Function
	byName  map[string][]*ssa.Function
}

func BuildCallGraph(p *Prog) *CallGraph {
	g := &CallGraph{p: p, Callees: map[*ssa.Function][]*ssa.Function{}, Callers: map[*ssa.Function][]CallSite{}, GoTargs: map[*ssa.Function][]*ssa.Function{}}
	// repo methods by name for invoke resolution
	byName := map[string][]*ssa.Function{}
	for _, f := range p.Funcs {
		if f.Signature.Recv() != nil {
			byName[f.Name()] = append(byName[f.Name()], f)
		}
	}
	g.byName = byName
	for _, f := range p.Funcs {
		g.addFunc(f, true)
	}
	return g
}

// AddView makes an inlined view (inline.go) a node of the graph: its callees are the calls left in it plus everything its
// original calls (the inlined callees still "run" as part of it). Call sites of views are not recorded as callers.
func (g *CallGraph) AddView(v *ssa.Function) {
	if _, ok := g.Callees[v]; ok || origFn(v) == v {
		return
	}
	g.addFunc(v, false)
	var addAnon func(f *ssa.Function)
	addAnon = func(f *ssa.Function) {
		for _, an := range f.AnonFuncs {
			if _, ok := g.Callees[an]; !ok {
				g.addFunc(an, false)
				if _, ok := g.Callees[an]; !ok {
					g.Callees[an] = nil
				}
				addAnon(an)
			}
		}
	}
	addAnon(v)
	o := origFn(v)
	g.Callees[v] = append(g.Callees[v], g.Callees[o]...)
	g.GoTargs[v] = append(g.GoTargs[v], g.GoTargs[o]...)
}

func (g *CallGraph) addFunc(f *ssa.Function, recordCallers bool) {
	p, byName := g.p, g.byName
	{
		for _, cs := range callsIn(f, false) {
			var targets []*ssa.Function
			if t := staticTarget(cs.Common); t != nil {
				targets = append(targets, t)
			} else if cs.Common.IsInvoke() {
				iface, _ := cs.Common.Value.Type().Underlying().(*types.Interface)
				for _, m := range byName[cs.Common.Method.Name()] {
					rt := m.Signature.Recv().Type()
					if iface != nil && (types.Implements(rt, iface) || types.Implements(types.NewPointer(rt), iface)) {
						targets = append(targets, m)
					}
				}
			}
			for _, t := range targets {
				if !p.InRepo(t) {
					continue
				}
				if _, isGo := cs.Instr.(*ssa.Go); isGo {
					g.GoTargs[f] = append(g.GoTargs[f], t)
				} else {
					g.Callees[f] = append(g.Callees[f], t)
				}
				if recordCallers {
					g.Callers[t] = append(g.Callers[t], cs)
				}
			}
		}
		// a closure created in f and passed elsewhere (not called directly) is conservatively a callee of f
		for _, b := range f.Blocks {
			for _, in := range b.Instrs {
				if mc, ok := in.(*ssa.MakeClosure); ok {
					cf := mc.Fn.(*ssa.Function)
					direct := false
					for _, r := range *mc.Referrers() {
						if ci, ok := r.(ssa.CallInstruction); ok && ci.Common().Value == ssa.Value(mc) {
							direct = true
						}
					}
					if !direct {
						g.Callees[f] = append(g.Callees[f], cf)
					}
				}
			}
		}
	}
}

// Reach: functions reachable from roots through synchronous calls (go targets excluded unless withGo).
func (g *CallGraph) Reach(roots []*ssa.Function, withGo bool) map[*ssa.Function]bool {
	seen := map[*ssa.Function]bool{}
	w := append([]*ssa.Function{}, roots...)
	for len(w) > 0 {
		f := w[len(w)-1]
		w = w[:len(w)-1]
		if f == nil || seen[f] {
			continue
		}
		seen[f] = true
		w = append(w, g.Callees[f]...)
		if withGo {
			w = append(w, g.GoTargs[f]...)
		}
	}
	return seen
}

func fnNames(m map[*ssa.Function]bool) []string {
	var out []string
	for f := range m {
		out = append(out, shortName(f))
	}
	sort.Strings(out)
	return out
}

// structFieldByJSON finds the field of struct type st whose json tag key is `key`
// (or, without a tag, whose name matches case-insensitively, as encoding/json does on decode).
func structFieldByJSON(st *types.Struct, key string) (int, *types.Var) {
	for i := 0; i < st.NumFields(); i++ {
		if jsonKey(st, i) == key {
			return i, st.Field(i)
		}
	}
	return -1, nil
}

func jsonKey(st *types.Struct, i int) string {
	tag := st.Tag(i)
	const k = `json:"`
	if j := strings.Index(tag, k); j >= 0 {
		rest := tag[j+len(k):]
		if e := strings.Index(rest, `"`); e >= 0 {
			name := strings.Split(rest[:e], ",")[0]
			if name != "" {
				return name
			}
		}
	}
	return st.Field(i).Name()
}

func jsonOmitEmpty(st *types.Struct, i int) bool {
	tag := st.Tag(i)
	const k = `json:"`
	if j := strings.Index(tag, k); j >= 0 {
		rest := tag[j+len(k):]
		if e := strings.Index(rest, `"`); e >= 0 {
			return strings.Contains(rest[:e], ",omitempty")
		}
	}
	return false
}

func derefStruct(t types.Type) *types.Struct {
	if pt, ok := t.Underlying().(*types.Pointer); ok {
		t = pt.Elem()
	}
	st, _ := t.Underlying().(*types.Struct)
	return st
}

// fieldStores: for a struct allocation (Alloc of struct, via composite literal), the values stored per field name.
func fieldStores(a ssa.Value) map[string][]ssa.Value {
	out := map[string][]ssa.Value{}
	refs := a.Referrers()
	if refs == nil {
		return out
	}
	// (a store that is overwritten further down the same block, with nothing in between that could read it - a member
	// copied along with the whole value and then set: `info := s.info; info.Interfaces = names` - is not a value the
	// member ever shows)
	byField := map[int][]*ssa.Store{}
	for _, r := range *refs {
		if fa, ok := r.(*ssa.FieldAddr); ok && fa.X == a {
			for _, rr := range *fa.Referrers() {
				if st, ok := rr.(*ssa.Store); ok && st.Addr == ssa.Value(fa) {
					byField[fa.Field] = append(byField[fa.Field], st)
				}
			}
		}
	}
	dead := map[*ssa.Store]bool{}
	for _, sts := range byField {
		for _, s1 := range sts {
			for _, s2 := range sts {
				if s1 == s2 || s1.Block() != s2.Block() {
					continue
				}
				i1, i2 := instrIndex(s1), instrIndex(s2)
				if i1 < 0 || i2 < 0 || i1 >= i2 {
					continue
				}
				clean := true
				for _, in := range s1.Block().Instrs[i1+1 : i2] {
					switch x := in.(type) {
					case ssa.CallInstruction:
						clean = false
					case *ssa.UnOp:
						if x.Op == token.MUL {
							if x.X == a {
								clean = false
							} else if fa, ok := x.X.(*ssa.FieldAddr); ok && fa.X == a {
								clean = false
							}
						}
					}
				}
				if clean {
					dead[s1] = true
				}
			}
		}
	}
	for _, r := range *refs {
		if fa, ok := r.(*ssa.FieldAddr); ok && fa.X == a {
			for _, rr := range *fa.Referrers() {
				if st, ok := rr.(*ssa.Store); ok && st.Addr == ssa.Value(fa) && !dead[st] {
					n := fieldName(fa.X, fa.Field)
					out[n] = append(out[n], st.Val)
				}
				// the members of a struct held by value (`s.registry.names`), under their own names
				if inner, ok := rr.(*ssa.FieldAddr); ok && inner.X == ssa.Value(fa) {
					if _, isStruct := fa.Type().Underlying().(*types.Pointer).Elem().Underlying().(*types.Struct); isStruct {
						for k, vs := range fieldStores(fa) {
							out[k] = append(out[k], vs...)
						}
						break
					}
				}
			}
		}
	}
	return out
}

// unwrapAlloc follows MakeInterface/ChangeType etc. down to the Alloc behind a pointer argument, if any.
func unwrapAlloc(v ssa.Value) *ssa.Alloc {
	for {
		switch x := v.(type) {
		case *ssa.MakeInterface:
			v = x.X
		case *ssa.ChangeType:
			v = x.X
		case *ssa.ChangeInterface:
			v = x.X
		case *ssa.Alloc:
			return x
		case *ssa.UnOp:
			// load of a single-store spill
			if a, ok := x.X.(*ssa.Alloc); ok {
				if val, ok := singleStore(a); ok {
					v = val
					continue
				}
			}
			return nil
		default:
			return nil
		}
	}
}

// ---------------------------------------------------------------------------
// edge-fact path rules (E3 + E4)

// edgeFactsOn: the facts established by taking the CFG edge from->to (from ends in an If).
func (t *Terms) edgeFactsOn(from, to *ssa.BasicBlock) []Fact {
	if len(from.Instrs) == 0 {
		return nil
	}
	iff, ok := from.Instrs[len(from.Instrs)-1].(*ssa.If)
	if !ok || from.Succs[0] == from.Succs[1] {
		return nil
	}
	return t.condFacts(iff.Cond, to == from.Succs[0])
}

// mustCross: every path from `from` (nil = entry) to an instruction satisfying target crosses an edge whose
// facts satisfy pred (or executes an instruction satisfying via). Returns false with a witness path otherwise.
func mustCross(T *Terms, fn *ssa.Function, from ssa.Instruction, target func(ssa.Instruction) bool, via func(ssa.Instruction) bool, pred func([]Fact) bool) (bool, []ssa.Instruction) {
	r, w := reachInstr(fn, from, target, via, func(a, b *ssa.BasicBlock) bool {
		fs := T.edgeFactsOn(a, b)
		return len(fs) > 0 && pred(fs)
	})
	return !r, w
}

// isNilErrorReturn: a return whose last result is the nil error constant (a success return).
func isNilErrorReturn(in ssa.Instruction) bool {
	ret, ok := in.(*ssa.Return)
	if !ok || len(ret.Results) == 0 {
		return false
	}
	c, ok := ret.Results[len(ret.Results)-1].(*ssa.Const)
	return ok && c.IsNil()
}

// returnsSuccess: success returns of fn, also through a named-result spill (`*t1 = nil; rundefers; return *t1`).
func successReturns(T *Terms, fn *ssa.Function) []ssa.Instruction {
	var out []ssa.Instruction
	for _, b := range fn.Blocks {
		for i, in := range b.Instrs {
			ret, ok := in.(*ssa.Return)
			if !ok || len(ret.Results) == 0 {
				continue
			}
			last := ret.Results[len(ret.Results)-1]
			if c, ok := last.(*ssa.Const); ok && c.IsNil() {
				out = append(out, in)
				continue
			}
			// spilled result: find the last store to the same alloc in this block before the return
			if u, ok := last.(*ssa.UnOp); ok {
				if a, ok := u.X.(*ssa.Alloc); ok {
					for j := i - 1; j >= 0; j-- {
						if st, ok := b.Instrs[j].(*ssa.Store); ok && st.Addr == ssa.Value(a) {
							if c, ok := st.Val.(*ssa.Const); ok && c.IsNil() {
								out = append(out, in)
							}
							break
						}
					}
				}
			}
		}
	}
	return out
}

// returnedValues: for every return of fn, the value returned in result slot idx, seen through named-result spills.
type retVal struct {
	Ret *ssa.Return
	Val ssa.Value
}

func returnedValues(fn *ssa.Function, idx int) []retVal {
	var out []retVal
	for _, b := range fn.Blocks {
		if b == fn.Recover {
			continue
		}
		for i, in := range b.Instrs {
			ret, ok := in.(*ssa.Return)
			if !ok || len(ret.Results) <= idx {
				continue
			}
			v := ret.Results[idx]
			if u, ok := v.(*ssa.UnOp); ok {
				if a, ok := u.X.(*ssa.Alloc); ok {
					for j := i - 1; j >= 0; j-- {
						if st, ok := b.Instrs[j].(*ssa.Store); ok && st.Addr == ssa.Value(a) {
							v = st.Val
							break
						}
					}
				}
			}
			out = append(out, retVal{ret, v})
		}
	}
	return out
}
