package main

// Loading of /repo (E1) and the shared program model.

import (
	"fmt"
	"go/ast"
	"go/token"
	"go/types"
	"os"
	"sort"
	"strings"

	"golang.org/x/tools/go/packages"
	"golang.org/x/tools/go/ssa"
	"golang.org/x/tools/go/ssa/ssautil"
)

const (
	pkgVarlink = "github.com/varlink/go/varlink"
	pkgCtxio   = "github.com/varlink/go/varlink/internal/ctxio"
	pkgIDL     = "github.com/varlink/go/varlink/idl"
	pkgGen     = "github.com/varlink/go/cmd/varlink-go-interface-generator"
	pkgTypeGen = "github.com/varlink/go/cmd/varlink-go-type-generator"
)

var loadPatterns = []string{"./varlink/...", "./cmd/varlink-go-interface-generator", "./cmd/varlink-go-type-generator"}

// Config is one build configuration of the repository.
type Config struct {
	GOOS, GOARCH string
}

func (c Config) String() string { return c.GOOS + "/" + c.GOARCH }

// Prog is the type-checked, SSA-built repository under one configuration.
type Prog struct {
	Cfg   Config
	Dir   string
	Fset  *token.FileSet
	Pkgs  map[string]*packages.Package
	SSA   *ssa.Program
	SPkgs map[string]*ssa.Package
	// Funcs are all source functions (incl. methods and closures) of the repo packages.
	Funcs []*ssa.Function
	npkgs int

	constGlobals map[*ssa.Global]ssa.Value
	constTables  map[*ssa.Global]map[int64]*ssa.Const
	notTable     map[*ssa.Global]bool
	roles        *Roles
	normalised   int                      // functions whose higher-order helper sites were inlined in place (normalise.go)
	consumed     map[*ssa.Function]bool   // helpers without remaining call sites after normalisation
	outlined     map[string]*ssa.Function // per package: the step-back primitive given a name by the cursor model
}

// brokenf reports that the check itself cannot run (exit 2): never a silent pass.
func brokenf(format string, args ...interface{}) {
	fmt.Fprintf(os.Stderr, "vlcheck: BROKEN: "+format+"\n", args...)
	os.Exit(2)
}

func Load(dir string, c Config) *Prog {
	env := []string{}
	for _, e := range os.Environ() {
		if strings.HasPrefix(e, "GOFLAGS=") || strings.HasPrefix(e, "GOWORK=") || strings.HasPrefix(e, "GOOS=") ||
			strings.HasPrefix(e, "GOARCH=") || strings.HasPrefix(e, "GOPROXY=") || strings.HasPrefix(e, "GOTOOLCHAIN=") ||
			strings.HasPrefix(e, "GOSUMDB=") || strings.HasPrefix(e, "CGO_ENABLED=") {
			continue
		}
		env = append(env, e)
	}
	env = append(env, "GOFLAGS=-mod=mod", "GOWORK=off", "GOPROXY=off", "GOSUMDB=off", "GOTOOLCHAIN=local",
		"GOOS="+c.GOOS, "GOARCH="+c.GOARCH, "CGO_ENABLED=0")
	cfg := &packages.Config{Mode: packages.LoadAllSyntax, Dir: dir, Env: env, Tests: false}
	pkgs, err := packages.Load(cfg, loadPatterns...)
	if err != nil {
		brokenf("loading %s (%s): %v", dir, c, err)
	}
	if len(pkgs) == 0 {
		brokenf("loading %s (%s): zero packages", dir, c)
	}
	p := &Prog{Cfg: c, Dir: dir, Pkgs: map[string]*packages.Package{}, SPkgs: map[string]*ssa.Package{}}
	nerr := 0
	packages.Visit(pkgs, nil, func(pk *packages.Package) {
		for _, e := range pk.Errors {
			fmt.Fprintf(os.Stderr, "vlcheck: %s: %v\n", pk.PkgPath, e)
			nerr++
		}
	})
	if nerr > 0 {
		brokenf("%d package errors under %s: the tree does not type-check", nerr, c)
	}
	for _, pk := range pkgs {
		p.Pkgs[pk.PkgPath] = pk
		p.Fset = pk.Fset
	}
	for _, need := range []string{pkgVarlink, pkgCtxio, pkgIDL, pkgGen} {
		if p.Pkgs[need] == nil {
			brokenf("package %s not loaded under %s", need, c)
		}
	}
	p.npkgs = len(pkgs)
	prog, _ := ssautil.AllPackages(pkgs, ssa.InstantiateGenerics)
	prog.Build()
	p.SSA = prog
	for path, pk := range p.Pkgs {
		sp := prog.Package(pk.Types)
		if sp == nil {
			brokenf("no SSA package for %s", path)
		}
		p.SPkgs[path] = sp
	}
	p.collectFuncs()
	p.setNonNilHook()
	if n := normaliseHigherOrder(p); n > 0 {
		p.normalised = n
		p.collectFuncs()
	}
	if len(p.Funcs) == 0 {
		brokenf("no functions found")
	}
	return p
}

// collectFuncs lists the source functions of the repo packages (with their closures), in source order.
func (p *Prog) collectFuncs() {
	prog := p.SSA
	p.Funcs = nil
	seen := map[*ssa.Function]bool{}
	var add func(f *ssa.Function)
	add = func(f *ssa.Function) {
		if f == nil || seen[f] || f.Blocks == nil || p.consumed[f] {
			return
		}
		seen[f] = true
		p.Funcs = append(p.Funcs, f)
		for _, a := range f.AnonFuncs {
			add(a)
		}
	}
	for _, sp := range p.SPkgs {
		for _, m := range sp.Members {
			switch m := m.(type) {
			case *ssa.Function:
				add(m)
			case *ssa.Type:
				for _, tt := range []types.Type{m.Type(), types.NewPointer(m.Type())} {
					ms := prog.MethodSets.MethodSet(tt)
					for i := 0; i < ms.Len(); i++ {
						f := prog.MethodValue(ms.At(i))
						if f != nil && f.Pkg == sp && f.Synthetic == "" {
							add(f)
						}
					}
				}
			}
		}
	}
	sort.Slice(p.Funcs, func(i, j int) bool {
		pi, pj := p.Fset.Position(p.Funcs[i].Pos()), p.Fset.Position(p.Funcs[j].Pos())
		if pi.Filename != pj.Filename {
			return pi.Filename < pj.Filename
		}
		if pi.Offset != pj.Offset {
			return pi.Offset < pj.Offset
		}
		return p.Funcs[i].String() < p.Funcs[j].String()
	})
}

// InRepo reports whether f is a source function of one of the loaded repo packages.
func (p *Prog) InRepo(f *ssa.Function) bool {
	if f == nil {
		return false
	}
	for f.Parent() != nil {
		f = f.Parent()
	}
	if f.Pkg == nil {
		// instantiated / synthetic wrappers
		if f.Origin() != nil && f.Origin().Pkg != nil {
			_, ok := p.Pkgs[f.Origin().Pkg.Pkg.Path()]
			return ok
		}
		return false
	}
	_, ok := p.Pkgs[f.Pkg.Pkg.Path()]
	return ok
}

func (p *Prog) FuncsOf(pkgpath string) []*ssa.Function {
	var out []*ssa.Function
	for _, f := range p.Funcs {
		if fnPkgPath(f) == pkgpath {
			out = append(out, f)
		}
	}
	return out
}

// LibFuncs: the functions of package varlink and of its internal helper packages other than ctxio (platform glue a
// refactoring may move out of the package: listen, socket activation, the bridge command).
func (p *Prog) LibFuncs() []*ssa.Function {
	var out []*ssa.Function
	for _, f := range p.Funcs {
		pp := fnPkgPath(f)
		if pp == pkgVarlink || strings.HasPrefix(pp, pkgVarlink+"/internal/") && pp != pkgCtxio {
			out = append(out, f)
		}
	}
	return out
}

func fnPkgPath(f *ssa.Function) string {
	for f.Parent() != nil {
		f = f.Parent()
	}
	if f.Pkg != nil {
		return f.Pkg.Pkg.Path()
	}
	return ""
}

// Func finds a function or method by qualified name: "NewService", "Service.Listen", "Call.Reply".
// Receiver pointer-ness is ignored.
func (p *Prog) Func(pkgpath, name string) *ssa.Function {
	for _, f := range p.Funcs {
		if fnPkgPath(f) == pkgpath && f.Parent() == nil && shortName(f) == name {
			return f
		}
	}
	return nil
}

// shortName is "Recv.Method" or "Func"; closures are "Outer$1".
func shortName(f *ssa.Function) string {
	if f == nil {
		return "<nil>"
	}
	if f.Parent() != nil {
		return shortName(f.Parent()) + strings.TrimPrefix(f.Name(), f.Parent().Name())
	}
	if recv := f.Signature.Recv(); recv != nil {
		t := recv.Type()
		if pt, ok := t.(*types.Pointer); ok {
			t = pt.Elem()
		}
		if n, ok := t.(*types.Named); ok {
			return n.Obj().Name() + "." + f.Name()
		}
	}
	return f.Name()
}

func (p *Prog) Pos(pos token.Pos) string {
	if !pos.IsValid() {
		return "-"
	}
	ps := p.Fset.Position(pos)
	fn := ps.Filename
	if rel := strings.TrimPrefix(fn, p.Dir+"/"); rel != fn {
		fn = rel
	}
	return fmt.Sprintf("%s:%d", fn, ps.Line)
}

// InstrPos gives a usable position for instructions that have none (jumps, ifs of rotated loops, phis).
func (p *Prog) InstrPos(in ssa.Instruction) token.Pos {
	if in == nil {
		return token.NoPos
	}
	if in.Pos().IsValid() {
		return in.Pos()
	}
	if v, ok := in.(ssa.Value); ok && v.Referrers() != nil {
		for _, r := range *v.Referrers() {
			if r.Pos().IsValid() {
				return r.Pos()
			}
		}
	}
	if b := in.Block(); b != nil {
		for _, i := range b.Instrs {
			if i.Pos().IsValid() {
				return i.Pos()
			}
		}
		for _, s := range b.Succs {
			for _, i := range s.Instrs {
				if i.Pos().IsValid() {
					return i.Pos()
				}
			}
		}
	}
	if f := in.Parent(); f != nil {
		return f.Pos()
	}
	return token.NoPos
}

// NamedType looks a named type up in a repo package.
func (p *Prog) NamedType(pkgpath, name string) *types.Named {
	pk := p.Pkgs[pkgpath]
	if pk == nil {
		return nil
	}
	o := pk.Types.Scope().Lookup(name)
	if o == nil {
		return nil
	}
	n, _ := o.Type().(*types.Named)
	return n
}

// FuncDecl finds the syntax of a top-level function.
func (p *Prog) FuncDecl(pkgpath, name string) *ast.FuncDecl {
	pk := p.Pkgs[pkgpath]
	if pk == nil {
		return nil
	}
	for _, f := range pk.Syntax {
		for _, d := range f.Decls {
			if fd, ok := d.(*ast.FuncDecl); ok {
				n := fd.Name.Name
				if fd.Recv != nil && len(fd.Recv.List) == 1 {
					t := fd.Recv.List[0].Type
					if s, ok := t.(*ast.StarExpr); ok {
						t = s.X
					}
					if id, ok := t.(*ast.Ident); ok {
						n = id.Name + "." + n
					}
				}
				if n == name {
					return fd
				}
			}
		}
	}
	return nil
}

// ConstGlobal: if the package variable g of a repository package is effectively constant - every use in the repository
// is a load, except exactly one store in the package initialiser whose value is a constant or a call with constant
// arguments (regexp.MustCompile("..."), time.Unix(1, 0), errors.New("...")) - the stored value; nil otherwise.
func (p *Prog) ConstGlobal(g *ssa.Global) ssa.Value {
	if p.constGlobals == nil {
		p.constGlobals = map[*ssa.Global]ssa.Value{}
		uses := map[*ssa.Global][]ssa.Instruction{}
		var fns []*ssa.Function
		fns = append(fns, p.Funcs...)
		for _, sp := range p.SPkgs {
			if f := sp.Func("init"); f != nil {
				fns = append(fns, f)
			}
		}
		seen := map[*ssa.Function]bool{}
		for _, f := range fns {
			if seen[f] {
				continue
			}
			seen[f] = true
			var rands []*ssa.Value
			for _, b := range f.Blocks {
				for _, in := range b.Instrs {
					rands = in.Operands(rands[:0])
					for _, r := range rands {
						if gg, ok := (*r).(*ssa.Global); ok {
							uses[gg] = append(uses[gg], in)
						}
					}
				}
			}
		}
		for gg, us := range uses {
			if gg.Pkg == nil || p.SPkgs[gg.Pkg.Pkg.Path()] == nil {
				continue
			}
			if o := gg.Object(); o != nil && o.Exported() {
				continue // a client may assign it
			}
			var val ssa.Value
			ok := true
			n := 0
			for _, u := range us {
				switch x := u.(type) {
				case *ssa.UnOp:
					if x.Op != token.MUL {
						ok = false
					}
				case *ssa.Store:
					if x.Addr != ssa.Value(gg) || x.Parent().Name() != "init" || x.Parent().Synthetic == "" {
						ok = false
					}
					n++
					val = x.Val
				default:
					ok = false
				}
			}
			if ok && n == 0 {
				// never assigned: the zero value of its type
				if pt, isP := gg.Type().(*types.Pointer); isP {
					p.constGlobals[gg] = ssa.NewConst(nil, pt.Elem())
				}
				continue
			}
			if !ok || n != 1 || val == nil {
				continue
			}
			pure := false
			switch v := val.(type) {
			case *ssa.Const:
				pure = true
			case *ssa.Call:
				pure = v.Call.StaticCallee() != nil && !p.InRepo(v.Call.StaticCallee())
				for _, a := range v.Call.Args {
					if _, isK := a.(*ssa.Const); !isK {
						pure = false
					}
				}
			case *ssa.Slice:
				// a slice literal of constants or pure library calls that is only read afterwards
				// (`var patterns = []*regexp.Regexp{regexp.MustCompile("..."), ...}`)
				if arr, isAlloc := v.X.(*ssa.Alloc); isAlloc && v.Low == nil && v.High == nil {
					pure = true
					for _, ref := range *arr.Referrers() {
						switch y := ref.(type) {
						case *ssa.IndexAddr:
							for _, r2 := range *y.Referrers() {
								st, isSt := r2.(*ssa.Store)
								if !isSt || st.Addr != ssa.Value(y) {
									pure = false
									continue
								}
								switch e := st.Val.(type) {
								case *ssa.Const:
								case *ssa.Call:
									if e.Call.StaticCallee() == nil || p.InRepo(e.Call.StaticCallee()) {
										pure = false
									}
									for _, a := range e.Call.Args {
										if _, isK := a.(*ssa.Const); !isK {
											pure = false
										}
									}
								default:
									pure = false
								}
							}
						case *ssa.Slice:
							if y != v {
								pure = false
							}
						case *ssa.DebugRef:
						default:
							pure = false
						}
					}
					for _, u := range us {
						ld, isLoad := u.(*ssa.UnOp)
						if !isLoad {
							continue
						}
						for _, ref := range *ld.Referrers() {
							switch y := ref.(type) {
							case *ssa.Range, *ssa.DebugRef:
							case *ssa.Index:
							case *ssa.IndexAddr:
								for _, r2 := range *y.Referrers() {
									if l2, isL := r2.(*ssa.UnOp); !isL || l2.Op != token.MUL {
										pure = false
									}
								}
							case *ssa.Call:
								if b, isB := y.Call.Value.(*ssa.Builtin); !isB || b.Name() != "len" {
									pure = false
								}
							default:
								pure = false
							}
						}
					}
				}
			case *ssa.MakeMap:
				// a map literal of constants that is only read afterwards (`var names = map[Kind]string{...}`)
				pure = true
				for _, ref := range *v.Referrers() {
					switch y := ref.(type) {
					case *ssa.MapUpdate:
						_, k1 := y.Key.(*ssa.Const)
						_, k2 := y.Value.(*ssa.Const)
						if !k2 {
							// a function (a method expression, possibly converted to a named function type): a
							// constant dispatch table
							fv := y.Value
							if ct, isCT := fv.(*ssa.ChangeType); isCT {
								fv = ct.X
							}
							_, k2 = fv.(*ssa.Function)
						}
						if !k1 || !k2 {
							pure = false
						}
					case *ssa.Store:
						if y.Val != ssa.Value(v) || y.Addr != ssa.Value(gg) {
							pure = false
						}
					case *ssa.DebugRef:
					default:
						pure = false
					}
				}
				for _, u := range us {
					ld, isLoad := u.(*ssa.UnOp)
					if !isLoad {
						continue
					}
					for _, ref := range *ld.Referrers() {
						switch y := ref.(type) {
						case *ssa.Lookup, *ssa.Range, *ssa.DebugRef:
						case *ssa.Call:
							if b, isB := y.Call.Value.(*ssa.Builtin); !isB || b.Name() != "len" {
								pure = false
							}
						default:
							pure = false
						}
					}
				}
			}
			if pure {
				p.constGlobals[gg] = val
			}
		}
	}
	return p.constGlobals[g]
}

// readOnlyArrayParam: the pointer-to-array parameter is only indexed for loading (and measured).
func readOnlyArrayParam(prm *ssa.Parameter) bool {
	for _, r := range *prm.Referrers() {
		switch x := r.(type) {
		case *ssa.IndexAddr:
			for _, r2 := range *x.Referrers() {
				if u, ok := r2.(*ssa.UnOp); !ok || u.Op != token.MUL {
					return false
				}
			}
		case *ssa.UnOp:
			if x.Op != token.MUL {
				return false
			}
			for _, r2 := range *x.Referrers() {
				if _, ok := r2.(*ssa.Index); !ok {
					return false
				}
			}
		case *ssa.DebugRef:
		default:
			return false
		}
	}
	return true
}

// ConstTable: if the package variable g of a repository package is an array that is effectively constant - in the
// repository it is only indexed and loaded, except for stores of constants to constant indexes in the package
// initialiser (`var isLower = [256]bool{'a': true, ...}`) - the stored constants by index (absent = zero value).
func (p *Prog) ConstTable(g *ssa.Global) (map[int64]*ssa.Const, bool) {
	if p.constTables == nil {
		p.constTables = map[*ssa.Global]map[int64]*ssa.Const{}
		p.notTable = map[*ssa.Global]bool{}
	}
	if t, ok := p.constTables[g]; ok {
		return t, true
	}
	if p.notTable[g] {
		return nil, false
	}
	fail := func() (map[int64]*ssa.Const, bool) {
		p.notTable[g] = true
		return nil, false
	}
	pt, ok := g.Type().(*types.Pointer)
	if !ok || g.Pkg == nil || p.SPkgs[g.Pkg.Pkg.Path()] == nil {
		return fail()
	}
	if _, isArr := pt.Elem().Underlying().(*types.Array); !isArr {
		return fail()
	}
	if o := g.Object(); o != nil && o.Exported() {
		return fail()
	}
	var fns []*ssa.Function
	fns = append(fns, p.Funcs...)
	for _, sp := range p.SPkgs {
		if f := sp.Func("init"); f != nil {
			fns = append(fns, f)
		}
	}
	tbl := map[int64]*ssa.Const{}
	seen := map[*ssa.Function]bool{}
	for _, f := range fns {
		if seen[f] {
			continue
		}
		seen[f] = true
		isInit := f.Name() == "init" && f.Synthetic != ""
		for _, b := range f.Blocks {
			for _, in := range b.Instrs {
				uses := false
				for _, op := range in.Operands(nil) {
					if *op == ssa.Value(g) {
						uses = true
					}
				}
				if !uses {
					continue
				}
				switch x := in.(type) {
				case *ssa.IndexAddr:
					for _, r := range *x.Referrers() {
						switch y := r.(type) {
						case *ssa.UnOp:
							if y.Op != token.MUL {
								return fail()
							}
						case *ssa.Store:
							k, isK := x.Index.(*ssa.Const)
							v, isV := y.Val.(*ssa.Const)
							if !isInit || y.Addr != ssa.Value(x) || !isK || !isV || k.Value == nil {
								return fail()
							}
							tbl[k.Int64()] = v
						default:
							return fail()
						}
					}
				case *ssa.UnOp:
					if x.Op != token.MUL {
						return fail()
					}
					// the whole array loaded: only to be indexed
					for _, r := range *x.Referrers() {
						if _, ok := r.(*ssa.Index); !ok {
							return fail()
						}
					}
				case *ssa.Store:
					// whole-array initialisation with the zero value
					if !isInit || x.Addr != ssa.Value(g) {
						return fail()
					}
					if k, ok := x.Val.(*ssa.Const); !ok || k.Value != nil {
						return fail()
					}
				case *ssa.Call:
					// the table's address handed to a repository function that only reads through it
					// (`inClass(&lowerBytes, c)`: class[c], len(class))
					t := x.Call.StaticCallee()
					if t == nil || !p.InRepo(t) || len(t.Blocks) == 0 {
						return fail()
					}
					for ai, arg := range x.Call.Args {
						if arg != ssa.Value(g) {
							continue
						}
						if ai >= len(t.Params) || !readOnlyArrayParam(t.Params[ai]) {
							return fail()
						}
					}
				default:
					return fail()
				}
			}
		}
	}
	p.constTables[g] = tbl
	return tbl, true
}
