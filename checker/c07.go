package main

import (
	"fmt"
	"go/ast"
	"go/constant"
	"go/token"
	"go/types"
	"os"
	"regexp"
	"sort"
	"strings"

	"golang.org/x/tools/go/ssa"
)

func init() {
	register(&propDef{
		id: "C07", level: "other", perCfg: false,
		explain: "Necessary structural conditions of C07, decided for all descriptions at once because they are statements about the generator's code. G3 lexical-context safety (E10): an AST walk of the generator in statement order tracks the Go lexer mode of the output (code, line comment, string, raw string) across every constant fragment; joins must agree on the mode; every spliced runtime string is classified by provenance (which member of the parsed tree, through strings.Title/ToLower/Replace) with the byte class the parser can put there (token charsets by finite evaluation of the readers, the interface-name patterns via regexp/syntax, documentation and description: any byte) and must be safe in its context - identifier bytes only in code, a letter first when it starts an identifier, not a Go keyword when it is a whole identifier, no quote/backslash/newline in a string, no backtick or CR in a raw string, no newline in a line comment, tag-safe in a struct tag; replacements must return to the same mode; the walk must end in code mode. G2 conversion-kind agreement: the kinds whose emitted Go type depends on the tagged/untagged flag are derived from the type writer (arms that use the flag, directly or through the recursive call) and every site that chooses between an explicit conversion and a plain assignment must list exactly that set; G2b conversions are emitted parenthesised `(T)(x)` because T may start with '*'. G4 imports are decided from the selector expressions of the parsed output (never by searching text that contains free prose), one decision per package qualifier that occurs in a code-mode constant. G1 nullable tree members (which pointer members of the tree the parser may leave nil is derived from the parser's construction sites) are dereferenced only under a nil test, a kind discrimination, after the generator's own normalisation loop, or under the stated domain assumption (method in/out are structs). G7 the output file is written with one truncating whole-file write of exactly the template function's result. G7 also: the file is named after the package name, whose derivation from the interface name introduces no `_` besides the keyword suffix (no *_test.go, *_GOOS.go, *_GOARCH.go). G8 the parser is handed the input with at most trailing newlines removed and the emitted description is the tree's Description re-encoded for the raw string only. G5 determinism: no map iteration, clock, environment, random source or goroutine in code reachable from the template function. G6 termination: all loops range over slices; the type writer recurses only into ElementType / a field's Type. G3 also: nesting depth - the parenthesis/bracket/brace depth of the emitted code is tracked through every constant fragment, must agree at joins and be zero at the end and at every emitted top-level declaration. G9 composite literals of generated struct types are emitted only under the kind test that makes the type a struct. G10 emitted identifiers: every identifier the template uses inside an emitted function is declared in that function's emitted text on every path (path-sensitive, online in the walk), and every emitted declaration is used (the Go compiler rejects `declared and not used`); undecidable joins are dropped, not reported. G11 list separators are written under one of the two idioms `not the last element` (after the element) or `not the first` (before it). G12 error discipline of the generator (engine errdisc): success is returned only where the error is known nil, a result is not used where its error may be non-nil, errors of repo calls are not dropped, no inverted test, no exit(0) on an error edge.",
		notDec:  "That the emitted token sequence is a well-typed Go program for every description (needs a grammar-level string analysis or execution of the generator - out of family / out of reach); go/format and go/parser behaviour.",
		trusted: []string{"go/parser and go/format accept what the Go lexer/grammar accept", "strings.Title upper-cases the first letter of an ASCII identifier"},
		assume:  []string{"method input and output types are structs (the property's domain)", "type references resolve, field names are distinct and no member is named like one of the generator's fixed identifiers (the property's domain)"},
		run:     runC07,
	})
}

func runC07(r *Run, p *Prog) {
	m, why := buildIDLModel(p)
	if m == nil {
		r.Unresolved("G3", why)
		return
	}
	root := generatorRoot(p)
	w, end, why2 := RunGenWalker(p, m, root)
	curWalker = w
	stmtTextOf = nil
	if w != nil {
		stmtTextOf = func(st ast.Stmt) (string, bool) {
			es, ok := st.(*ast.ExprStmt)
			if !ok {
				return "", false
			}
			t, ok := w.StmtText[es]
			return t, ok
		}
	}
	if w == nil {
		r.Unresolved("G3", why2)
		return
	}
	// ---- G3
	r.Guard("G3", func() {
		r.Stat("constant_fragments", len(w.Frags))
		r.Stat("splices", len(w.Splices))
		for _, sp := range w.Splices {
			ctx := lexModeName[sp.Mode]
			switch {
			case sp.InTag:
				ctx = "struct tag"
			case sp.Mode == lmCode && sp.Whole:
				ctx = "code, whole identifier"
			case sp.Mode == lmCode && sp.Start:
				ctx = "code, start of an identifier"
			case sp.Mode == lmCode:
				ctx = "code, inside an identifier"
			}
			r.Ob("G3", sp.Fn, "splice of "+sp.Dyn.what+" in "+ctx, sp.Pos, sp.OK, sp.Dyn.what+" "+sp.Why+": some accepted description makes the generator emit Go source that does not lex/parse as intended")
		}
		for i, pb := range w.Problems {
			r.Ob("G3", pb.Fn, fmt.Sprintf("template structure problem #%d", i+1), pb.Pos, false, pb.Msg)
		}
		r.Ob("G3", root, "the template ends in code mode", w.funcs[root].Pos(), end.m == lmCode, "the output ends inside a "+lexModeName[end.m])
		r.Ob("G3", root, "the emitted parentheses, brackets and braces are balanced on every path through the template", w.funcs[root].Pos(), end.par == 0 && end.brk == 0 && end.brc == 0,
			"the template ends at "+end.desc()+": some path emits an opening ( [ { without its closing counterpart (or the reverse) - the output does not parse")
		r.Floor("G3", 20)
	})
	// ---- G2
	r.Guard("G2", func() { conversionRules(r, p, w) })
	// ---- G4
	r.Guard("G4", func() { importRules(r, p, w, root) })
	// ---- G5 / G6
	r.Guard("G5", func() {
		ro := DiscoverRoles(p)
		rootFn := p.Func(pkgGen, root)
		if rootFn == nil {
			r.Unresolved("G5", root)
			return
		}
		reach := ro.CG.Reach([]*ssa.Function{rootFn}, true)
		n := 0
		for f := range reach {
			if !p.InRepo(f) {
				continue
			}
			n++
			bad := ""
			for _, b := range f.Blocks {
				for _, in := range b.Instrs {
					switch x := in.(type) {
					case *ssa.Range:
						if _, isMap := x.X.Type().Underlying().(*types.Map); isMap {
							bad = "iterates over a map (iteration order differs between runs)"
						}
					case *ssa.Go:
						bad = "starts a goroutine"
					case *ssa.Select:
						bad = "uses select"
					case *ssa.Call:
						switch name := calleeName(&x.Call); {
						case strings.HasPrefix(name, "time.Now"), strings.HasPrefix(name, "rand."), name == "os.Getenv", name == "os.LookupEnv", name == "os.Environ", name == "os.Getpid", name == "os.Hostname":
							bad = "calls " + name
						}
					}
				}
			}
			r.Ob("G5", shortName(f), "generation depends only on the description", f.Pos(), bad == "", "code reachable from the template function "+bad+": the same input may give different bytes")
		}
		r.Stat("G5_functions", n)
		// G6: loops are range-over-slice or counted; recursion of the type writer descends the tree
		pk := p.Pkgs[pkgGen]
		for _, file := range pk.Syntax {
			for _, d := range file.Decls {
				fd, ok := d.(*ast.FuncDecl)
				if !ok || fd.Body == nil {
					continue
				}
				if _, in := w.funcs[fd.Name.Name]; !in {
					continue
				}
				fn := p.Func(pkgGen, fd.Name.Name)
				if fn == nil || !reach[fn] {
					continue
				}
				ast.Inspect(fd.Body, func(n ast.Node) bool {
					switch x := n.(type) {
					case *ast.RangeStmt:
						t := pk.TypesInfo.TypeOf(x.X)
						_, isSlice := t.Underlying().(*types.Slice)
						r.Ob("G6", fd.Name.Name, "range loop over a slice of the tree", x.Pos(), isSlice, "range over "+t.String())
					case *ast.ForStmt:
						// counted loop: i := 0; i < bound; i++ with bound not modified in the body
						okLoop := x.Init != nil && x.Cond != nil && x.Post != nil
						if okLoop {
							if inc, isInc := x.Post.(*ast.IncDecStmt); !isInc || inc.Tok != token.INC {
								okLoop = false
							}
							if be, isBE := x.Cond.(*ast.BinaryExpr); !isBE || (be.Op != token.LSS && be.Op != token.LEQ) {
								okLoop = false
							}
						}
						r.Ob("G6", fd.Name.Name, "counted for loop", x.Pos(), okLoop, "a for loop that is not a simple counted loop: termination is not evident")
					case *ast.CallExpr:
						if id, ok := x.Fun.(*ast.Ident); ok && id.Name == fd.Name.Name {
							// recursive call: the tree argument is <param>.ElementType or <range var>.Type
							okRec := false
							for _, a := range x.Args {
								if se, ok := a.(*ast.SelectorExpr); ok && (se.Sel.Name == "ElementType" || se.Sel.Name == "Type") {
									okRec = true
								}
							}
							r.Ob("G6", fd.Name.Name, "recursion descends into a sub-tree", x.Pos(), okRec, "recursive call that does not obviously descend the (finite) tree")
						}
					}
					return true
				})
			}
		}
	})
	// ---- G7: the generated bytes are what ends up in the output file: written with a truncating whole-file write
	r.Guard("G7", func() {
		ro := DiscoverRoles(p)
		T := ro.T
		rootFn := p.Func(pkgGen, root)
		var drivers []*ssa.Function
		if rootFn != nil {
			for _, cs := range ro.CG.Callers[rootFn] {
				drivers = appendFn(drivers, cs.Fn)
			}
		}
		if len(drivers) == 0 {
			r.Unresolved("G7", "caller of the template function that writes the output file")
			return
		}
		n := 0
		for _, d := range drivers {
			var tmpl *ssa.Call
			for _, cs := range callsIn(d, false) {
				if staticTarget(cs.Common) == rootFn {
					tmpl, _ = cs.Instr.(*ssa.Call)
				}
			}
			for f := range ro.CG.Reach([]*ssa.Function{d}, false) {
				if !p.InRepo(f) || f == rootFn {
					continue
				}
				for _, cs := range callsIn(f, false) {
					name := calleeName(cs.Common)
					switch name {
					case "ioutil.WriteFile", "os.WriteFile":
						n++
						okData := tmpl != nil && f == d && strip(T.T(cs.Common.Args[1])) == strip("ext("+T.T(tmpl)+",1)")
						r.Ob("G7", shortName(f), "the output file is written whole (truncating) with the generated bytes", cs.Instr.Pos(), okData,
							"the bytes written are "+strip(T.T(cs.Common.Args[1]))+", not the template function's result")
					case "os.OpenFile", "os.Create", "os.File.Write", "os.File.WriteAt", "os.File.WriteString", "os.File.Truncate", "bufio.NewWriter", "io.Copy", "os.Rename":
						n++
						r.Ob("G7", shortName(f), "no piecemeal file writing ("+name+")", cs.Instr.Pos(), false,
							"the output is written with "+name+" instead of one truncating whole-file write: bytes of an older, longer output can survive (or a partial file be left), so the file need not be the Go source that was generated")
					}
				}
			}
		}
		if n == 0 {
			r.Ob("G7", shortName(drivers[0]), "the generator writes its output file", drivers[0].Pos(), false, "no file write found")
		}
		// the file must be one the go tool treats as an ordinary source file of the package: its name is the package
		// name, which contains no '_' other than the final one appended to a keyword - otherwise some interface names
		// give *_test.go (ignored by go build) or *_<GOOS>.go / *_<GOARCH>.go (excluded by an implicit build constraint)
		var pkgSplice *genSplice
		for _, sp := range w.Splices {
			if sp.Mode == lmCode && strings.HasSuffix(sp.Prev, "package ") {
				pkgSplice = sp
				break
			}
		}
		if pkgSplice == nil {
			r.Unresolved("G7", "splice of the package name after `package `")
			return
		}
		// ... and the value returned as the name is that very variable
		sameVar := false
		fd := w.funcs[root]
		spliced := map[types.Object]bool{} // the variables used in the expression written after `package `
		ast.Inspect(fd, func(nd ast.Node) bool {
			if e, ok := nd.(ast.Expr); ok && e.Pos() == pkgSplice.Pos {
				ast.Inspect(e, func(x ast.Node) bool {
					if id, ok := x.(*ast.Ident); ok {
						if o := w.info.Uses[id]; o != nil {
							spliced[o] = true
						}
					}
					return true
				})
				return false
			}
			return true
		})
		ast.Inspect(fd, func(nd ast.Node) bool {
			if _, isLit := nd.(*ast.FuncLit); isLit {
				return false
			}
			if rs, ok := nd.(*ast.ReturnStmt); ok && len(rs.Results) > 0 {
				if id, ok := rs.Results[0].(*ast.Ident); ok && spliced[w.info.Uses[id]] {
					sameVar = true
				}
			}
			return true
		})
		if os.Getenv("VLDEBUG") == "g7" {
			fmt.Fprintf(os.Stderr, "G7 pkg splice at %v what=%s spliced=%d sameVar=%v repl=%q\n", p.Fset.Position(pkgSplice.Pos), pkgSplice.Dyn.what, len(spliced), sameVar, pkgSplice.Dyn.repl)
		}
		d := pkgSplice.Dyn
		// '_' may come from the keyword suffix only (`name + "_"` as the last operation, directly or as one of the values
		// a helper returns): a '_' that a replacement puts inside the name, or that the name's source can contain, is not
		whatNoSuffix := strings.ReplaceAll(d.what, `+"_"`, "")
		under := regexp.MustCompile(`"[^"]*_[^"]*"`).MatchString(whatNoSuffix)
		if !strings.Contains(d.what, `+"_"`) {
			under = under || d.first != nil && d.first['_'] || d.rest != nil && d.rest['_']
		}
		for _, rp := range d.repl {
			if strings.Contains(rp, "_") {
				under = true
			}
		}
		if sameVar {
			r.Ob("G7", root, "the output file name (the package name) contains no '_' besides the keyword suffix", pkgSplice.Pos, !under,
				"the name "+d.what+" can contain '_' inside: for an interface name whose last word is `test`, a GOOS or a GOARCH the file is *_test.go or *_<GOOS/GOARCH>.go, which go build ignores or excludes - the emitted file does not build as a package")
		}
	})
	// ---- G11: separators of emitted lists. In a loop over a list with an index, the statement that writes a bare
	// separator (", " and the like) under a test of the index uses one of the two idioms - not the last element
	// (`i != len(X)-1`, `i < len(X)-1`, `i+1 < len(X)`) with the separator after the element, or not the first
	// (`i > 0`, `i != 0`) with the separator before it. Anything else (`i == len(X)-1`, `i != len(X)+1`) puts the
	// separators in the wrong places: the emitted argument or parameter list does not parse.
	r.Guard("G11", func() {
		info := p.Pkgs[pkgGen].TypesInfo
		n := 0
		norm := func(e ast.Expr) string { return strings.ReplaceAll(types.ExprString(e), " ", "") }
		for _, fd := range w.decls() {
			if fd.Body == nil {
				continue
			}
			ast.Inspect(fd.Body, func(nd ast.Node) bool {
				rs, ok := nd.(*ast.RangeStmt)
				if !ok || rs.Key == nil {
					return true
				}
				ki, ok := rs.Key.(*ast.Ident)
				if !ok || ki.Name == "_" {
					return true
				}
				i := ki.Name
				X := norm(rs.X)
				for pos, st := range rs.Body.List {
					is, ok := st.(*ast.IfStmt)
					if !ok || is.Else != nil || len(is.Body.List) != 1 || is.Init != nil {
						continue
					}
					es, ok := is.Body.List[0].(*ast.ExprStmt)
					if !ok {
						continue
					}
					call, ok := es.X.(*ast.CallExpr)
					if !ok || len(call.Args) == 0 {
						continue
					}
					tv, ok := info.Types[call.Args[len(call.Args)-1]]
					if !ok || tv.Value == nil || tv.Value.Kind() != constant.String {
						continue
					}
					sep := constant.StringVal(tv.Value)
					if sep == "" || strings.ContainsAny(sep, "abcdefghijklmnopqrstuvwxyzABCDEFGHIJKLMNOPQRSTUVWXYZ0123456789_{}()") {
						continue // not a bare separator
					}
					// the test is evaluated as a function of (index, length) over small lists; locals assigned once
					// are replaced by their definition (`last := len(X) - 1`)
					defs := singleDefs(fd, info)
					var eval func(e ast.Expr, iv, nv int64, depth int) (int64, bool, bool) // value, bool value, ok
					eval = func(e ast.Expr, iv, nv int64, depth int) (int64, bool, bool) {
						if depth > 6 {
							return 0, false, false
						}
						switch e := e.(type) {
						case *ast.ParenExpr:
							return eval(e.X, iv, nv, depth)
						case *ast.BasicLit:
							if tv, ok := info.Types[e]; ok && tv.Value != nil && tv.Value.Kind() == constant.Int {
								v, _ := constant.Int64Val(tv.Value)
								return v, false, true
							}
						case *ast.Ident:
							if e.Name == i {
								return iv, false, true
							}
							if tv, ok := info.Types[e]; ok && tv.Value != nil && tv.Value.Kind() == constant.Int {
								v, _ := constant.Int64Val(tv.Value)
								return v, false, true
							}
							if d, ok := defs[info.ObjectOf(e)]; ok {
								return eval(d, iv, nv, depth+1)
							}
						case *ast.CallExpr:
							if id, ok := e.Fun.(*ast.Ident); ok && id.Name == "len" && len(e.Args) == 1 {
								a := e.Args[0]
								if ai, ok := a.(*ast.Ident); ok {
									if d, ok := defs[info.ObjectOf(ai)]; ok {
										a = d
									}
								}
								if norm(a) == X {
									return nv, false, true
								}
							}
						case *ast.UnaryExpr:
							x, xb, ok := eval(e.X, iv, nv, depth)
							if ok && e.Op == token.NOT {
								return 0, !xb, true
							}
							if ok && e.Op == token.SUB {
								return -x, false, true
							}
						case *ast.BinaryExpr:
							x, xb, ok1 := eval(e.X, iv, nv, depth)
							y, yb, ok2 := eval(e.Y, iv, nv, depth)
							if !ok1 || !ok2 {
								return 0, false, false
							}
							switch e.Op {
							case token.ADD:
								return x + y, false, true
							case token.SUB:
								return x - y, false, true
							case token.EQL:
								return 0, x == y, true
							case token.NEQ:
								return 0, x != y, true
							case token.LSS:
								return 0, x < y, true
							case token.LEQ:
								return 0, x <= y, true
							case token.GTR:
								return 0, x > y, true
							case token.GEQ:
								return 0, x >= y, true
							case token.LAND:
								return 0, xb && yb, true
							case token.LOR:
								return 0, xb || yb, true
							}
						}
						return 0, false, false
					}
					notLast, notFirst, decided := true, true, true
					for nv := int64(1); nv <= 4 && decided; nv++ {
						for iv := int64(0); iv < nv; iv++ {
							_, v, ok := eval(is.Cond, iv, nv, 0)
							if !ok {
								decided = false
								break
							}
							if v != (iv != nv-1) {
								notLast = false
							}
							if v != (iv != 0) {
								notFirst = false
							}
						}
					}
					if !decided {
						continue // depends on something else than the index and the length: not this idiom
					}
					n++
					okPos := notLast && pos > 0 || notFirst && pos < len(rs.Body.List)-1 || notFirst && pos == 0
					r.Ob("G11", fd.Name.Name, fmt.Sprintf("separator %q in the loop over %s is written between the elements", sep, types.ExprString(rs.X)), is.Pos(), (notLast || notFirst) && okPos,
						"the separator is written under `"+types.ExprString(is.Cond)+"`, which is neither `not the last element` after the element nor `not the first element` before it: the emitted list has its separators in the wrong places (a trailing or missing comma) and does not parse")
				}
				return true
			})
		}
		r.Stat("G11_separators", n)
	})
	// ---- G12: error discipline of the generator (errdisc.go): a description that does not parse, an output that does
	// not format, a file that cannot be read or written is never carried on with
	r.Guard("G12", func() {
		ro := DiscoverRoles(p)
		errorDiscipline(r, p, ro.T, "G12", p.FuncsOf(pkgGen))
		r.Floor("G12", 3)
	})
	// ---- G10: identifiers of the emitted code (gentokens.go)
	r.Guard("G10", func() { emittedIdentifierRules(r, w, root) })
	// ---- G9: a composite literal of a type declared from the description (`&<ErrorName>{}`) type-checks only if that
	// type is declared as a struct: an enum-typed error is declared `type X string`. The template may emit such a
	// literal only under a test that the described type is a struct.
	r.Guard("G9", func() {
		n := 0
		for _, sp := range w.Splices {
			if sp.Mode != lmCode || !strings.HasPrefix(sp.Next, "{") || !(strings.HasPrefix(sp.Dyn.what, "Error.Name") || strings.HasPrefix(sp.Dyn.what, "Alias.Name")) {
				continue
			}
			n++
			guarded := false
			for _, fd := range w.funcs {
				if sp.Pos < fd.Pos() || sp.Pos > fd.End() {
					continue
				}
				var stack []ast.Node
				ast.Inspect(fd, func(nd ast.Node) bool {
					if nd == nil {
						stack = stack[:len(stack)-1]
						return true
					}
					stack = append(stack, nd)
					if nd.Pos() <= sp.Pos && sp.Pos <= nd.End() {
						switch x := nd.(type) {
						case *ast.IfStmt:
							if x.Body.Pos() <= sp.Pos && sp.Pos <= x.Body.End() {
								if c := types.ExprString(x.Cond); strings.Contains(c, "TypeStruct") && strings.Contains(c, "==") {
									guarded = true
								}
							}
						case *ast.CaseClause:
							for _, e := range x.List {
								if strings.Contains(types.ExprString(e), "TypeStruct") {
									guarded = true
								}
							}
						}
					}
					return true
				})
			}
			r.Ob("G9", sp.Fn, "composite literal of the declared type "+sp.Dyn.what+" is emitted only for struct types", sp.Pos, guarded,
				"`"+sp.Dyn.what+"{...}` is emitted without a test that the described type is a struct: an enum-typed error (or alias) is declared as a string type, and the literal does not type-check - the generated file does not compile")
		}
		r.Stat("G9_composite_literals", n)
		r.Ob("G9", root, "emitted composite literals of declared types were examined", w.funcs[root].Pos(), true, fmt.Sprintf("%d", n))
	})
	// ---- G8: the code reports, up to trailing newlines, the description text it was generated from
	r.Guard("G8", func() {
		ro := DiscoverRoles(p)
		T := ro.T
		rootFn := p.Func(pkgGen, root)
		if rootFn == nil || m.entry == nil {
			r.Unresolved("G8", "template function / parser entry")
			return
		}
		v := p.Inlined(rootFn, func(c *ssa.Function) bool { return fnPkgPath(c) != pkgGen })
		n := 0
		for _, cs := range callsIn(v, false) {
			if staticTarget(cs.Common) != origFn(m.entry) || len(cs.Common.Args) != 1 {
				continue
			}
			n++
			at := strip(T.T(cs.Common.Args[0]))
			ok := false
			for _, par := range v.Params {
				pt := "param:" + par.Name()
				if at == pt || at == `call:strings.TrimRight(`+pt+`,const:"\n")` || at == `call:strings.TrimSuffix(`+pt+`,const:"\n")` {
					ok = true
				}
			}
			r.Ob("G8", shortName(v), "the parser is handed the input text with at most trailing newlines removed", cs.Instr.Pos(), ok,
				"the text parsed (and reported by the generated VarlinkGetDescription) is "+at+": it differs from the input by more than trailing newlines")
		}
		if n == 0 {
			r.Unresolved("G8", "call of the parser entry in the template function")
		}
		// ... and what is emitted as the description is the tree's Description member, re-encoded for the raw string only
		nd := 0
		for _, sp := range w.Splices {
			if !strings.Contains(sp.Dyn.what, "IDL.Description") {
				continue
			}
			nd++
			what := sp.Dyn.what
			for strings.HasPrefix(what, "Replace(") && strings.HasSuffix(what, ")") {
				inner := what[len("Replace(") : len(what)-1]
				i := strings.Index(inner, `,"`)
				if j := strings.LastIndex(inner, `,"`); j > 0 {
					if k := strings.LastIndex(inner[:j], `,"`); k > 0 {
						i = k
					}
				}
				if i < 0 {
					break
				}
				what = inner[:i]
			}
			r.Ob("G8", sp.Fn, "the reported description is the tree's Description (re-encoded for the raw string only)", sp.Pos, what == "IDL.Description",
				"the description is emitted as "+sp.Dyn.what+": a transformation other than the raw-string re-encoding changes the reported text")
		}
		if nd == 0 {
			r.Unresolved("G8", "splice of IDL.Description in the generated VarlinkGetDescription")
		}
	})
	// ---- G1
	r.Guard("G1", func() { nullableRules(r, p, m, root) })
}

// kindsOfCase resolves the constants listed in a case clause to their names.
// kindPredicate: fd is `func(t *idl.Type) bool { switch t.Kind { case K1, K2: return true }; return false }`; returns
// the kinds for which it answers true.
func kindPredicate(info *types.Info, fd *ast.FuncDecl) ([]string, bool) {
	if fd == nil || fd.Body == nil || fd.Type.Params == nil || len(fd.Type.Params.List) != 1 || len(fd.Body.List) == 0 || len(fd.Body.List) > 2 {
		return nil, false
	}
	sw, ok := fd.Body.List[0].(*ast.SwitchStmt)
	if !ok {
		return nil, false
	}
	se, ok := sw.Tag.(*ast.SelectorExpr)
	if !ok || se.Sel.Name != "Kind" {
		return nil, false
	}
	isRet := func(st ast.Stmt, want string) bool {
		r, ok := st.(*ast.ReturnStmt)
		if !ok || len(r.Results) != 1 {
			return false
		}
		id, ok := r.Results[0].(*ast.Ident)
		return ok && id.Name == want
	}
	hasDefaultFalse := false
	var kinds []string
	for _, c := range sw.Body.List {
		cc := c.(*ast.CaseClause)
		if cc.List == nil {
			// `default: return false` instead of a trailing `return false`
			if len(cc.Body) != 1 || !isRet(cc.Body[0], "false") {
				return nil, false
			}
			hasDefaultFalse = true
			continue
		}
		if len(cc.Body) != 1 || !isRet(cc.Body[0], "true") {
			return nil, false
		}
		kinds = append(kinds, kindsOfCase(info, cc)...)
	}
	if len(fd.Body.List) == 2 {
		if !isRet(fd.Body.List[1], "false") {
			return nil, false
		}
	} else if !hasDefaultFalse {
		return nil, false
	}
	sort.Strings(kinds)
	return kinds, len(kinds) > 0
}

// twArm: one way the type writer renders a set of kinds: an arm of its kind switch, or an
// `if v, ok := <constant table>[t.Kind]; ok { ... }` statement (vals then holds the table's value per kind).
type twArm struct {
	kinds []string
	vals  []string
	body  []ast.Stmt
	pos   token.Pos
}

func typeWriterArms(w *genWalker, tw *ast.FuncDecl, sw *ast.SwitchStmt) []twArm {
	info := w.info
	var arms []twArm
	// guard clauses: `if t.Kind == K [|| t.Kind == K2] { ... }` is the arm of K; after `if t.Kind != K { return }` the
	// rest of the function is the arm of K
	kindEq := func(e ast.Expr, op token.Token) []ast.Expr {
		var out []ast.Expr
		var walk func(e ast.Expr) bool
		walk = func(e ast.Expr) bool {
			be, ok := e.(*ast.BinaryExpr)
			if !ok {
				return false
			}
			if be.Op == token.LOR && op == token.EQL {
				return walk(be.X) && walk(be.Y)
			}
			if be.Op != op {
				return false
			}
			if se, ok := be.X.(*ast.SelectorExpr); ok && se.Sel.Name == "Kind" {
				out = append(out, be.Y)
				return true
			}
			return false
		}
		if !walk(e) {
			return nil
		}
		return out
	}
	for i, st := range tw.Body.List {
		ifs, ok := st.(*ast.IfStmt)
		if !ok {
			continue
		}
		if ifs.Init == nil && ifs.Else == nil {
			if ks := kindEq(ifs.Cond, token.EQL); len(ks) > 0 {
				arms = append(arms, twArm{kinds: kindsOfExprs(info, ks), body: ifs.Body.List, pos: ifs.Pos()})
			} else if ks := kindEq(ifs.Cond, token.NEQ); len(ks) == 1 && len(ifs.Body.List) == 1 {
				if ret, isRet := ifs.Body.List[0].(*ast.ReturnStmt); isRet && len(ret.Results) == 0 {
					arms = append(arms, twArm{kinds: kindsOfExprs(info, ks), body: tw.Body.List[i+1:], pos: ifs.Pos()})
					break
				}
			}
			continue
		}
		if ifs.Init == nil {
			continue
		}
		as, ok := ifs.Init.(*ast.AssignStmt)
		if !ok || len(as.Lhs) != 2 || len(as.Rhs) != 1 {
			continue
		}
		okId, isId := as.Lhs[1].(*ast.Ident)
		cond, isCond := ifs.Cond.(*ast.Ident)
		if !isId || !isCond || info.Uses[cond] != info.Defs[okId] {
			continue
		}
		var vals []string
		var keys []ast.Expr
		switch rhs := as.Rhs[0].(type) {
		case *ast.IndexExpr:
			if se, ok := rhs.Index.(*ast.SelectorExpr); !ok || se.Sel.Name != "Kind" {
				continue
			}
			vals, keys, ok = w.constTable(rhs.X)
		case *ast.CallExpr:
			// the table written as a function: name, ok := basicTypeName(t.Kind)
			fid, isId := rhs.Fun.(*ast.Ident)
			if !isId || len(rhs.Args) != 1 {
				continue
			}
			if se, isSel := rhs.Args[0].(*ast.SelectorExpr); !isSel || se.Sel.Name != "Kind" {
				continue
			}
			vals, keys, ok = w.tableFunc(w.funcs[fid.Name])
		default:
			continue
		}
		if !ok {
			continue
		}
		arm := twArm{body: ifs.Body.List, pos: ifs.Pos()}
		for i, k := range keys {
			if k == nil {
				continue
			}
			arm.kinds = append(arm.kinds, kindsOfExprs(info, []ast.Expr{k})...)
			arm.vals = append(arm.vals, vals[i])
		}
		arms = append(arms, arm)
	}
	if sw != nil {
		for _, c := range sw.Body.List {
			cc := c.(*ast.CaseClause)
			arms = append(arms, twArm{kinds: kindsOfCase(info, cc), body: cc.Body, pos: cc.Pos()})
		}
	}
	return arms
}

func kindsOfCase(info *types.Info, cc *ast.CaseClause) []string {
	out := kindsOfExprs(info, cc.List)
	sort.Strings(out)
	return out
}

func kindsOfExprs(info *types.Info, list []ast.Expr) []string {
	var out []string
	for _, e := range list {
		if se, ok := e.(*ast.SelectorExpr); ok {
			out = append(out, se.Sel.Name)
		} else if id, ok := e.(*ast.Ident); ok {
			out = append(out, id.Name)
		} else if tv, ok := info.Types[e]; ok && tv.Value != nil {
			out = append(out, tv.Value.String())
		}
	}
	return out
}

// typeWriterCall: call is a call of the type writer tw, or of a forwarder - a function or method of the generator whose
// body is one call of the type writer (or of another forwarder) that hands its own parameters through, such as
// `func (g *gen) typ(t *idl.Type, tags bool, n int) { writeType(&g.out, t, tags, n) }`. It returns the argument of call
// that ends up as the type writer's parameter prm (nil if it is not one of call's arguments).
func typeWriterCall(w *genWalker, tw *ast.FuncDecl, prm types.Object, call *ast.CallExpr, depth int) (bool, ast.Expr) {
	var fd *ast.FuncDecl
	switch f := call.Fun.(type) {
	case *ast.Ident:
		fd = w.funcs[f.Name]
	case *ast.SelectorExpr:
		fd = w.methodDecl(f)
	}
	if fd == nil || depth > 3 {
		return false, nil
	}
	argOf := func(d *ast.FuncDecl, obj types.Object, c *ast.CallExpr) ast.Expr {
		pi := 0
		for _, fld := range d.Type.Params.List {
			for _, pn := range fld.Names {
				if w.info.Defs[pn] == obj && pi < len(c.Args) {
					return c.Args[pi]
				}
				pi++
			}
		}
		return nil
	}
	if fd == tw {
		if prm == nil {
			return true, nil
		}
		return true, argOf(tw, prm, call)
	}
	// a string-valued forwarder: `func goType(t, tags, n) string { var sb Builder; writeType(&sb, t, tags, n); return sb.String() }`
	if g, inner := w.stringForwarder(fd); g != nil {
		is, innerArg := typeWriterCall(w, tw, prm, inner, depth+1)
		if !is {
			return false, nil
		}
		if id, ok := innerArg.(*ast.Ident); ok {
			return true, argOf(fd, w.info.Uses[id], call)
		}
		return true, innerArg
	}
	if fd.Body == nil || len(fd.Body.List) != 1 {
		return false, nil
	}
	es, ok := fd.Body.List[0].(*ast.ExprStmt)
	if !ok {
		return false, nil
	}
	inner, ok := es.X.(*ast.CallExpr)
	if !ok {
		return false, nil
	}
	is, innerArg := typeWriterCall(w, tw, prm, inner, depth+1)
	if !is {
		return false, nil
	}
	// the inner argument must be one of the forwarder's own parameters
	if id, ok := innerArg.(*ast.Ident); ok {
		return true, argOf(fd, w.info.Uses[id], call)
	}
	return true, innerArg // a constant passed by the forwarder itself
}

// typeWriterCallContext: st writes an expression one of whose operands is a (string-valued) call of the type writer;
// returns the constant text directly before and after that operand.
func typeWriterCallContext(w *genWalker, tw *ast.FuncDecl, st ast.Stmt) (string, string, bool) {
	e := writeArg(st)
	if e == nil {
		return "", "", false
	}
	var ops []ast.Expr
	var flat func(x ast.Expr)
	flat = func(x ast.Expr) {
		switch y := x.(type) {
		case *ast.ParenExpr:
			flat(y.X)
		case *ast.BinaryExpr:
			if y.Op == token.ADD {
				flat(y.X)
				flat(y.Y)
				return
			}
			ops = append(ops, x)
		default:
			ops = append(ops, x)
		}
	}
	flat(e)
	konst := func(x ast.Expr) (string, bool) {
		if tv, ok := w.info.Types[x]; ok && tv.Value != nil && tv.Value.Kind() == constant.String {
			return constant.StringVal(tv.Value), true
		}
		if k, ok := w.synthConst[x]; ok {
			return k, true // constant text of a format string, cut out by the walker
		}
		return "", false
	}
	for i, op := range ops {
		c, ok := op.(*ast.CallExpr)
		if !ok {
			continue
		}
		if is, _ := typeWriterCall(w, tw, nil, c, 0); !is {
			continue
		}
		before, after := "", ""
		for j := i - 1; j >= 0; j-- {
			k, ok := konst(ops[j])
			if !ok {
				break
			}
			before = k + before
		}
		for j := i + 1; j < len(ops); j++ {
			k, ok := konst(ops[j])
			if !ok {
				break
			}
			after += k
		}
		return before, after, true
	}
	return "", "", false
}

// containsTypeWriterCall: the first call of the type writer (direct or through a forwarder) below n.
func containsTypeWriterCall(w *genWalker, tw *ast.FuncDecl, n ast.Node) *ast.CallExpr {
	var found *ast.CallExpr
	ast.Inspect(n, func(x ast.Node) bool {
		if c, ok := x.(*ast.CallExpr); ok && found == nil {
			if is, _ := typeWriterCall(w, tw, nil, c, 0); is {
				found = c
			}
		}
		return found == nil
	})
	return found
}

func containsCallTo(n ast.Node, name string) *ast.CallExpr {
	var found *ast.CallExpr
	ast.Inspect(n, func(x ast.Node) bool {
		if c, ok := x.(*ast.CallExpr); ok {
			if id, ok := c.Fun.(*ast.Ident); ok && id.Name == name {
				found = c
			}
		}
		return found == nil
	})
	return found
}

func usesIdent(info *types.Info, n ast.Node, obj types.Object) bool {
	found := false
	ast.Inspect(n, func(x ast.Node) bool {
		if id, ok := x.(*ast.Ident); ok && info.Uses[id] == obj {
			found = true
		}
		return !found
	})
	return found
}

// typeWriter: the generator function with a *idl.Type parameter and a bool parameter that switches on the kind.
func typeWriter(p *Prog, w *genWalker) (*ast.FuncDecl, types.Object, *ast.SwitchStmt) {
	info := p.Pkgs[pkgGen].TypesInfo
	var fallbackFd *ast.FuncDecl
	var fallbackFlag types.Object
	var fallbackSw *ast.SwitchStmt
	for _, fd := range w.decls() {
		if fd.Type.Params == nil {
			continue
		}
		var flag types.Object
		hasType := false
		for _, fld := range fd.Type.Params.List {
			t := info.TypeOf(fld.Type)
			if pt, ok := t.(*types.Pointer); ok && isNamed(pt.Elem(), pkgIDL, "Type") {
				hasType = true
			}
			if b, ok := t.Underlying().(*types.Basic); ok && b.Kind() == types.Bool && len(fld.Names) == 1 {
				flag = info.Defs[fld.Names[0]]
			}
		}
		if !hasType || flag == nil || fd.Body == nil {
			continue
		}
		for _, s := range fd.Body.List {
			if sw, ok := s.(*ast.SwitchStmt); ok {
				if se, ok := sw.Tag.(*ast.SelectorExpr); ok && se.Sel.Name == "Kind" {
					// (the type writer renders element types by calling itself; a function that merely decides by kind
					// - `convert(expr, t, tagged)` - does not)
					self := false
					ast.Inspect(fd.Body, func(n ast.Node) bool {
						if c, ok := n.(*ast.CallExpr); ok {
							if id, ok := c.Fun.(*ast.Ident); ok && info.Uses[id] == info.Defs[fd.Name] {
								self = true
							}
						}
						return !self
					})
					if self {
						return fd, flag, sw
					}
					if fallbackFd == nil || fd.Pos() < fallbackFd.Pos() {
						fallbackFd, fallbackFlag, fallbackSw = fd, flag, sw
					}
				}
			}
		}
	}
	if fallbackFd != nil {
		return fallbackFd, fallbackFlag, fallbackSw
	}
	// a type writer written without a switch on the kind: lookup tables and guard clauses (`if t.Kind == K { ...; return }`):
	// the function with a *idl.Type and a bool parameter that inspects the kind and calls itself for the element types
	for _, fd := range w.decls() {
		if fd.Type.Params == nil || fd.Body == nil {
			continue
		}
		var flag types.Object
		hasType := false
		for _, fld := range fd.Type.Params.List {
			t := info.TypeOf(fld.Type)
			if pt, ok := t.(*types.Pointer); ok && isNamed(pt.Elem(), pkgIDL, "Type") {
				hasType = true
			}
			if b, ok := t.Underlying().(*types.Basic); ok && b.Kind() == types.Bool && len(fld.Names) == 1 {
				flag = info.Defs[fld.Names[0]]
			}
		}
		if !hasType || flag == nil {
			continue
		}
		kind, self := false, false
		ast.Inspect(fd.Body, func(n ast.Node) bool {
			switch x := n.(type) {
			case *ast.SelectorExpr:
				if x.Sel.Name == "Kind" {
					kind = true
				}
			case *ast.CallExpr:
				if id, ok := x.Fun.(*ast.Ident); ok && info.Uses[id] == info.Defs[fd.Name] {
					self = true
				}
			}
			return true
		})
		if kind && self && len(typeWriterArms(w, fd, nil)) >= 3 {
			return fd, flag, nil
		}
	}
	return nil, nil, nil
}

func conversionRules(r *Run, p *Prog, w *genWalker) {
	info := p.Pkgs[pkgGen].TypesInfo
	tw, flag, sw := typeWriter(p, w)
	if tw == nil {
		r.Unresolved("G2", "type writer (function with a *idl.Type and a bool parameter switching on the kind)")
		return
	}
	// kinds whose emitted text depends on the flag
	dep := map[string]bool{}
	for _, arm := range typeWriterArms(w, tw, sw) {
		uses := false
		for _, s := range arm.body {
			if usesIdent(info, s, flag) {
				uses = true
			}
		}
		if uses {
			for _, k := range arm.kinds {
				dep[k] = true
			}
		}
	}
	var depL []string
	for k := range dep {
		depL = append(depL, k)
	}
	sort.Strings(depL)
	r.Note("kinds whose Go type depends on the tagged/untagged flag (derived from %s): %v", tw.Name.Name, depL)
	r.Ob("G2", tw.Name.Name, "the type writer's flag-dependent kinds can be derived", tw.Pos(), len(depL) > 0, "no arm of the type writer uses the tagged/untagged flag")
	// conversion sites: switches on <x>.Type.Kind outside the type writer whose arms call the type writer
	n := 0
	for name, fd := range w.decls() {
		if fd == tw || fd.Body == nil {
			continue
		}
		ast.Inspect(fd.Body, func(x ast.Node) bool {
			var conv []string
			var convBody []ast.Stmt
			var s2 ast.Node
			switch y := x.(type) {
			case *ast.SwitchStmt:
				se, ok := y.Tag.(*ast.SelectorExpr)
				if !ok || se.Sel.Name != "Kind" {
					return true
				}
				for _, c := range y.Body.List {
					cc := c.(*ast.CaseClause)
					if cc.List == nil {
						continue
					}
					for _, st := range cc.Body {
						if containsTypeWriterCall(w, tw, st) != nil {
							conv = append(conv, kindsOfCase(info, cc)...)
							convBody = cc.Body
						}
					}
				}
				s2 = y
			case *ast.BlockStmt:
				// if !<kind predicate>(x.Type) { plain assignment; continue }  ...conversion...: the conversion is what
				// follows the early exit in the same block
				for i, st := range y.List {
					ifs, ok := st.(*ast.IfStmt)
					if !ok || ifs.Else != nil || len(ifs.Body.List) == 0 {
						continue
					}
					neg, ok := ifs.Cond.(*ast.UnaryExpr)
					if !ok || neg.Op != token.NOT {
						continue
					}
					call, ok := neg.X.(*ast.CallExpr)
					if !ok || len(call.Args) != 1 {
						continue
					}
					id, ok := call.Fun.(*ast.Ident)
					if !ok {
						continue
					}
					kinds, ok := kindPredicate(info, w.funcs[id.Name])
					if !ok {
						continue
					}
					switch last := ifs.Body.List[len(ifs.Body.List)-1].(type) {
					case *ast.BranchStmt:
						if last.Tok != token.CONTINUE {
							continue
						}
					case *ast.ReturnStmt:
					default:
						continue
					}
					rest := y.List[i+1:]
					for _, st2 := range rest {
						if containsTypeWriterCall(w, tw, st2) != nil {
							conv = kinds
							convBody = rest
						}
					}
					s2 = ifs
				}
				if convBody == nil {
					return true
				}
			case *ast.IfStmt:
				// if <kind predicate>(x.Type) { ...conversion... } else { plain assignment }: the predicate is a function
				// of the generator whose body is `switch t.Kind { case K...: return true }; return false`
				call, ok := y.Cond.(*ast.CallExpr)
				if !ok || len(call.Args) != 1 {
					return true
				}
				id, ok := call.Fun.(*ast.Ident)
				if !ok {
					return true
				}
				kinds, ok := kindPredicate(info, w.funcs[id.Name])
				if !ok {
					return true
				}
				for _, st := range y.Body.List {
					if containsTypeWriterCall(w, tw, st) != nil {
						conv = kinds
						convBody = y.Body.List
					}
				}
				s2 = y
			default:
				return true
			}
			if convBody == nil {
				return true
			}
			n++
			conv = uniq(sortedCopy(conv))
			ord := fmt.Sprintf("#%d", n)
			_ = ord
			r.Ob("G2", name, fmt.Sprintf("conversion site at %s lists exactly the flag-dependent kinds", p.Pos(s2.Pos())[strings.LastIndex(p.Pos(s2.Pos()), "/")+1:]), s2.Pos(), strings.Join(conv, ",") == strings.Join(depL, ","),
				fmt.Sprintf("this site converts for kinds %v, but the Go type differs between the tagged and the untagged variant for kinds %v: for the missing kinds a plain assignment between distinct anonymous types is emitted and the file does not compile", conv, depL))
			// G2b parenthesised: text before the type ends with "(" and text after begins with ")("
			var before, after string
			for i, st := range convBody {
				if containsTypeWriterCall(w, tw, st) == nil {
					continue
				}
				if b4, aft, inExpr := typeWriterCallContext(w, tw, st); inExpr {
					// the type is spliced into the written expression itself: `" = (", goType(t), ")(", ...`
					before, after = b4, aft
					continue
				}
				if i > 0 {
					before = lastConstOf(info, convBody[i-1])
				}
				if i+1 < len(convBody) {
					after = firstConstOf(info, convBody[i+1])
				}
			}
			r.Ob("G2", name, fmt.Sprintf("conversion at %s is emitted parenthesised `(T)(x)`", p.Pos(s2.Pos())[strings.LastIndex(p.Pos(s2.Pos()), "/")+1:]), s2.Pos(), strings.HasSuffix(before, "(") && strings.HasPrefix(after, ")("),
				fmt.Sprintf("text before the type ends %q, text after begins %q: T may start with '*', and `*T(x)` parses as `*(T(x))`", tail(before, 6), head(after, 6)))
			return true
		})
	}
	if n == 0 {
		r.Ob("G2", "-", "sites choosing between conversion and plain assignment are switches on the field's kind", tw.Pos(), false,
			"no `switch <field>.Type.Kind` that emits a conversion through the type writer was found: the decision is made in a form this rule does not recognise, so agreement with the type writer cannot be decided")
	}
	r.Stat("G2_conversion_sites", n)
}

func sortedCopy(s []string) []string {
	c := append([]string{}, s...)
	sort.Strings(c)
	return c
}

func head(s string, n int) string {
	if len(s) > n {
		return s[:n]
	}
	return s
}
func tail(s string, n int) string {
	if len(s) > n {
		return s[len(s)-n:]
	}
	return s
}

// lastConstOf / firstConstOf: the last / first constant string piece written by a `b.WriteString(expr)` statement.
func writeArg(st ast.Stmt) ast.Expr {
	// the text of a function that returns its text (a type writer `func goType(t *idl.Type, ...) string`): a returned
	// string other than the contents of the function's own builder
	if ret, ok := st.(*ast.ReturnStmt); ok {
		if w := curWalker; w != nil && len(ret.Results) == 1 && w.isStringExpr(ret.Results[0]) && !w.isLocalBuilderResult(ret.Results[0]) {
			return ret.Results[0]
		}
		return nil
	}
	es, ok := st.(*ast.ExprStmt)
	if !ok {
		return nil
	}
	call, ok := es.X.(*ast.CallExpr)
	if !ok {
		return nil
	}
	if isBufWrite(call) {
		return call.Args[0]
	}
	// an emit helper of the generator that writes its (variadic) string arguments in order
	if w := curWalker; w != nil && !call.Ellipsis.IsValid() {
		// fmt.Fprintf(&buf, "format", args...)
		if se, ok := call.Fun.(*ast.SelectorExpr); ok && se.Sel.Name == "Fprintf" && len(call.Args) >= 2 {
			if id, ok := se.X.(*ast.Ident); ok && id.Name == "fmt" {
				if e, ok := w.formatExpr(call.Args[1], call.Args[2:]); ok {
					return e
				}
				return nil
			}
		}
		var fd *ast.FuncDecl
		switch f := call.Fun.(type) {
		case *ast.Ident:
			fd = w.funcDeclOf(f)
		case *ast.SelectorExpr:
			fd = w.methodDecl(f)
		}
		if fd != nil && variadicEmitter(w.info, fd) {
			return concatArgs(call.Args[len(call.Args)-variadicCount(fd, call):])
		}
		if fd != nil {
			if fi := formatEmitter(w.info, fd); fi >= 0 && fi < len(call.Args) {
				if e, ok := w.formatExpr(call.Args[fi], call.Args[fi+1:]); ok {
					return e
				}
			}
		}
	}
	return nil
}

// curWalker: the walker of the current run (for helpers that take statements apart).
var curWalker *genWalker

// firstWriteArg: what the first writing statement of list writes.
func firstWriteArg(list []ast.Stmt) ast.Expr {
	for _, st := range list {
		if e := writeArg(st); e != nil {
			return e
		}
	}
	return nil
}

func constParts(info *types.Info, e ast.Expr) []string {
	if e == nil {
		return nil
	}
	if tv, ok := info.Types[e]; ok && tv.Value != nil && tv.Value.Kind() == constant.String {
		return []string{constant.StringVal(tv.Value)}
	}
	if w := curWalker; w != nil {
		if k, ok := w.synthConst[e]; ok {
			return []string{k}
		}
	}
	switch x := e.(type) {
	case *ast.ParenExpr:
		return constParts(info, x.X)
	case *ast.BinaryExpr:
		return append(constParts(info, x.X), constParts(info, x.Y)...)
	}
	return []string{"\x00"}
}

// stmtTextOf: the text a statement of the template emits, as recorded by the walker (whatever the statement is: a
// WriteString, a call of a line helper, a Fprintf); "" if unknown.
var stmtTextOf func(st ast.Stmt) (string, bool)

func lastConstOf(info *types.Info, st ast.Stmt) string {
	if stmtTextOf != nil {
		if t, ok := stmtTextOf(st); ok {
			if i := strings.LastIndex(t, "\x00"); i >= 0 {
				return t[i+1:]
			}
			return t
		}
	}
	ps := constParts(info, writeArg(st))
	if len(ps) == 0 || ps[len(ps)-1] == "\x00" {
		return ""
	}
	return ps[len(ps)-1]
}

func firstConstOf(info *types.Info, st ast.Stmt) string {
	if stmtTextOf != nil {
		if t, ok := stmtTextOf(st); ok {
			if i := strings.Index(t, "\x00"); i >= 0 {
				return t[:i]
			}
			return t
		}
	}
	ps := constParts(info, writeArg(st))
	if len(ps) == 0 || ps[0] == "\x00" {
		return ""
	}
	return ps[0]
}

// importRules: G4.
func importRules(r *Run, p *Prog, w *genWalker, root string) {
	info := p.Pkgs[pkgGen].TypesInfo
	fd := w.funcs[root]
	// qualifiers used by code-mode constants
	quals := map[string]token.Pos{}
	for _, fr := range w.Frags {
		l := fr.At
		txt := fr.Text
		for i := 0; i < len(txt); i++ {
			if l.m == lmCode && txt[i] == '.' && i > 0 && isIdentByte(txt[i-1]) {
				j := i
				for j > 0 && isIdentByte(txt[j-1]) {
					j--
				}
				id := txt[j:i]
				// only lower-case package-like qualifiers that are not local identifiers of the template
				if id == strings.ToLower(id) && (j == 0 || !isIdentByte(txt[j-1])) && (j == 0 || txt[j-1] != '.') {
					switch id {
					case "json", "fmt", "context", "varlink", "strings", "errors", "io", "os", "time", "bytes", "sync":
						if _, seen := quals[id]; !seen {
							quals[id] = fr.Pos
						}
					}
				}
			}
			l = l.feed(txt[i])
		}
	}
	// import decisions in the template function
	decided := map[string]string{} // package name -> how
	usedFromParse := false
	// the decisions may sit in the template function or in a helper it calls (every function of the generator is looked at)
	var bodies []ast.Node
	var names []string
	allDecls := w.decls()
	for name := range allDecls {
		names = append(names, name)
	}
	sort.Strings(names)
	for _, name := range names {
		if allDecls[name].Body != nil {
			bodies = append(bodies, allDecls[name].Body)
		}
	}
	inspect := func(n ast.Node) bool {
		switch x := n.(type) {
		case *ast.RangeStmt:
			// table form: for _, e := range []struct{ name, path string }{{"json", "\"encoding/json\""}, ...} {
			//                 if used[e.name] { imports = append(imports, e.path) } }
			cl, ok := x.X.(*ast.CompositeLit)
			if id, isId := x.X.(*ast.Ident); isId && !ok {
				// the table is a package-level variable with a composite-literal initialiser
				if init := w.packageVarInit(info.Uses[id]); init != nil {
					cl, ok = init.(*ast.CompositeLit)
				}
			}
			ev, ok2 := x.Value.(*ast.Ident)
			if !ok || !ok2 || len(x.Body.List) == 0 || len(x.Body.List) > 2 {
				return true
			}
			// `if used[e.name] { append }`, or `if !used[e.name] { continue }; append`
			ifs, ok := x.Body.List[0].(*ast.IfStmt)
			if !ok || ifs.Else != nil {
				return true
			}
			appendIn := ast.Node(ifs.Body)
			negated := false
			if len(x.Body.List) == 2 {
				u, isNot := ifs.Cond.(*ast.UnaryExpr)
				if !isNot || u.Op != token.NOT || len(ifs.Body.List) != 1 {
					return true
				}
				if br, isBr := ifs.Body.List[0].(*ast.BranchStmt); !isBr || br.Tok != token.CONTINUE {
					return true
				}
				negated = true
				appendIn = x.Body.List[1]
			}
			cond := ifs.Cond
			if negated {
				cond = ifs.Cond.(*ast.UnaryExpr).X
			}
			ix, ok := cond.(*ast.IndexExpr)
			if !ok {
				return true
			}
			if _, isMap := info.TypeOf(ix.X).Underlying().(*types.Map); !isMap {
				return true
			}
			keySel, ok := ix.Index.(*ast.SelectorExpr)
			if !ok {
				return true
			}
			if id, ok := keySel.X.(*ast.Ident); !ok || info.Uses[id] != info.Defs[ev] {
				return true
			}
			// the appended member
			var pathSel *ast.SelectorExpr
			ast.Inspect(appendIn, func(y ast.Node) bool {
				if c, ok := y.(*ast.CallExpr); ok {
					if id, ok := c.Fun.(*ast.Ident); ok && id.Name == "append" && len(c.Args) == 2 {
						// the appended value is the row's path member, possibly with the quotes added here
						ast.Inspect(c.Args[1], func(z ast.Node) bool {
							if se, ok := z.(*ast.SelectorExpr); ok {
								if id2, ok := se.X.(*ast.Ident); ok && info.Uses[id2] == info.Defs[ev] {
									pathSel = se
								}
							}
							return true
						})
					}
				}
				return true
			})
			if pathSel == nil {
				return true
			}
			st, ok := info.TypeOf(cl).Underlying().(*types.Slice)
			if !ok {
				return true
			}
			est, ok := st.Elem().Underlying().(*types.Struct)
			if !ok {
				return true
			}
			ki, pi := -1, -1
			for i := 0; i < est.NumFields(); i++ {
				if est.Field(i).Name() == keySel.Sel.Name {
					ki = i
				}
				if est.Field(i).Name() == pathSel.Sel.Name {
					pi = i
				}
			}
			for _, el := range cl.Elts {
				row, ok := el.(*ast.CompositeLit)
				if !ok || ki < 0 || pi < 0 {
					continue
				}
				val := func(i int) string {
					for j, e := range row.Elts {
						var ve ast.Expr
						if kv, ok := e.(*ast.KeyValueExpr); ok {
							if kid, ok := kv.Key.(*ast.Ident); ok && kid.Name == est.Field(i).Name() {
								ve = kv.Value
							}
						} else if j == i {
							ve = e
						}
						if ve != nil {
							if tv, ok := info.Types[ve]; ok && tv.Value != nil && tv.Value.Kind() == constant.String {
								return constant.StringVal(tv.Value)
							}
						}
					}
					return ""
				}
				key, path := val(ki), strings.Trim(val(pi), `"`)
				if key != "" && path != "" && path[strings.LastIndex(path, "/")+1:] == key {
					decided[key] = "selector use in the parsed output"
				}
			}
			return true
		case *ast.CallExpr:
			if se, ok := x.Fun.(*ast.SelectorExpr); ok {
				if id, ok := se.X.(*ast.Ident); ok && id.Name == "parser" && se.Sel.Name == "ParseFile" {
					usedFromParse = true
				}
			}
		case *ast.IfStmt:
			// if used["pkg"] { imports = append(imports, "\"path\"") }   or   if strings.Contains(text, trigger) {...}
			var path string
			ast.Inspect(x.Body, func(y ast.Node) bool {
				if c, ok := y.(*ast.CallExpr); ok {
					if id, ok := c.Fun.(*ast.Ident); ok && id.Name == "append" && len(c.Args) == 2 {
						if tv, ok := info.Types[c.Args[1]]; ok && tv.Value != nil && tv.Value.Kind() == constant.String {
							path = strings.Trim(constant.StringVal(tv.Value), `"`)
						}
					}
				}
				return true
			})
			if path == "" || !strings.Contains(types.ExprString(x.Cond), "") {
				return true
			}
			base := path[strings.LastIndex(path, "/")+1:]
			switch c := x.Cond.(type) {
			case *ast.IndexExpr:
				if tv, ok := info.Types[c.Index]; ok && tv.Value != nil && constant.StringVal(tv.Value) == base {
					if _, isMap := info.TypeOf(c.X).Underlying().(*types.Map); isMap {
						decided[base] = "selector use in the parsed output"
					}
				}
			case *ast.CallExpr:
				if se, ok := c.Fun.(*ast.SelectorExpr); ok && se.Sel.Name == "Contains" {
					decided[base] = "text search: " + types.ExprString(c)
				}
			default:
				decided[base] = "condition " + types.ExprString(x.Cond)
			}
		case *ast.CompositeLit:
			// the unconditional part of the import list
			if at, ok := info.TypeOf(x).Underlying().(*types.Slice); ok && types.Identical(at.Elem(), types.Typ[types.String]) {
				for _, e := range x.Elts {
					if tv, ok := info.Types[e]; ok && tv.Value != nil && tv.Value.Kind() == constant.String {
						path := strings.Trim(constant.StringVal(tv.Value), `"`)
						if strings.Contains(path, "/") || path == strings.ToLower(path) {
							decided[path[strings.LastIndex(path, "/")+1:]] = "always imported"
						}
					}
				}
			}
		}
		return true
	}
	for _, b := range bodies {
		ast.Inspect(b, inspect)
	}
	// an unconditional `imports = append(imports, "\"path\"")` (not inside any if/switch/loop body) is part of the
	// always-imported list, like a member of the initial literal
	for _, b := range bodies {
		conditional := map[*ast.CallExpr]bool{}
		ast.Inspect(b, func(n ast.Node) bool {
			var inner ast.Node
			switch x := n.(type) {
			case *ast.IfStmt:
				inner = x
			case *ast.SwitchStmt:
				inner = x
			case *ast.ForStmt:
				inner = x
			case *ast.RangeStmt:
				inner = x
			case *ast.FuncLit:
				inner = x
			}
			if inner != nil {
				ast.Inspect(inner, func(y ast.Node) bool {
					if c, ok := y.(*ast.CallExpr); ok && y != n {
						conditional[c] = true
					}
					return true
				})
			}
			return true
		})
		ast.Inspect(b, func(n ast.Node) bool {
			c, ok := n.(*ast.CallExpr)
			if !ok || conditional[c] {
				return true
			}
			id, ok := c.Fun.(*ast.Ident)
			if !ok || id.Name != "append" || len(c.Args) < 2 {
				return true
			}
			if at, ok := info.TypeOf(c.Args[0]).Underlying().(*types.Slice); !ok || !types.Identical(at.Elem(), types.Typ[types.String]) {
				return true
			}
			for _, e := range c.Args[1:] {
				if tv, ok := info.Types[e]; ok && tv.Value != nil && tv.Value.Kind() == constant.String {
					path := strings.Trim(constant.StringVal(tv.Value), `"`)
					if strings.Contains(path, "/") {
						if _, have := decided[path[strings.LastIndex(path, "/")+1:]]; !have {
							decided[path[strings.LastIndex(path, "/")+1:]] = "always imported"
						}
					}
				}
			}
			return true
		})
	}
	var qs []string
	for q := range quals {
		qs = append(qs, q)
	}
	sort.Strings(qs)
	for _, q := range qs {
		how, ok := decided[q]
		good := ok && (how == "always imported" && q == "varlink" || how == "selector use in the parsed output" && usedFromParse)
		if how == "always imported" && q != "varlink" {
			how += " (an unconditional import of a package that only some descriptions use is `imported and not used` for the others)"
		}
		if strings.HasPrefix(how, "text search") {
			how += " - the searched text contains documentation and the description, which can spell the trigger without the code using the package (imported and not used), and code can use the package through another member than the trigger (undefined)"
		}
		if !ok {
			how = "no import decision found for this qualifier: the emitted file refers to an unimported package"
		}
		r.Ob("G4", root, "package qualifier `"+q+".` used by the template has an import decision derived from the emitted code", quals[q], good, how)
	}
	if len(qs) == 0 {
		r.Unresolved("G4", "package qualifiers in code-mode constants")
	}
	// the always-imported varlink package is used by every output: a code-mode constant outside any loop/branch mentions it
	r.Ob("G4", root, "imports are decided on the parsed code", fd.Pos(), usedFromParse, "the template function does not parse its own output: import decisions cannot be based on the code that was emitted")
}

// nullableRules: G1.
func nullableRules(r *Run, p *Prog, m *idlModel, root string) {
	T := NewTerms(p)
	// which pointer-to-Type members of the tree may be nil, from the parser: a member is non-nil if every store site
	// carries value != nil (or stores a fresh node)
	type member struct{ S, F string }
	nullable := map[member]string{}
	for _, f := range m.funcs() {
		for _, b := range f.Blocks {
			for _, in := range b.Instrs {
				al, ok := in.(*ssa.Alloc)
				if !ok {
					continue
				}
				st := derefStruct(al.Type())
				named, _ := al.Type().(*types.Pointer).Elem().(*types.Named)
				if st == nil || named == nil || named.Obj().Pkg() == nil || named.Obj().Pkg().Path() != pkgIDL {
					continue
				}
				fs := fieldStores(al)
				for i := 0; i < st.NumFields(); i++ {
					ft, ok := st.Field(i).Type().(*types.Pointer)
					if !ok || !isNamed(ft.Elem(), pkgIDL, "Type") {
						continue
					}
					key := member{named.Obj().Name(), st.Field(i).Name()}
					vals := fs[st.Field(i).Name()]
					if len(vals) == 0 {
						nullable[key] = "not set at a construction site in " + shortName(f)
						continue
					}
					// is the object only handed out (returned as success) with value != nil known?
					for _, v := range vals {
						if _, isAlloc := v.(*ssa.Alloc); isAlloc {
							continue
						}
						okAll := true
						for _, rv := range returnedValues(f, 0) {
							if rv.Val != ssa.Value(al) {
								continue
							}
							fsR := T.FactsAt(rv.Ret.Block())
							if !hasFact(fsR, "NE", T.T(al)+"."+st.Field(i).Name(), "nil") && !hasFact(fsR, "NE", T.T(v), "nil") {
								okAll = false
							}
						}
						// appended/embedded objects (fields): require the store's block to carry value != nil
						returned := false
						for _, rv := range returnedValues(f, 0) {
							if rv.Val == ssa.Value(al) {
								returned = true
							}
						}
						// an object that is recorded in the tree by the function that builds it (a member reader written
						// in the member loop): at every place it is handed on, the member is known to be non-nil
						if _, isPtrNode := al.Type().(*types.Pointer).Elem().Underlying().(*types.Struct); isPtrNode && !returned && al.Heap {
							if pubs := publications(al); len(pubs) > 0 {
								all := true
								for _, pub := range pubs {
									fsP := T.FactsAt(pub.Block())
									if !hasFact(fsP, "NE", T.T(al)+"."+st.Field(i).Name(), "nil") && !hasFact(fsP, "NE", T.T(v), "nil") {
										all = false
									}
								}
								if all {
									continue
								}
							}
						}
						if !returned && !hasFact(T.FactsAt(in.Block()), "NE", T.T(v), "nil") {
							// check at the use (append) site instead: any block dominated by a nil test
							okAll = false
							for _, ref := range *al.Referrers() {
								if ld, isLd := ref.(*ssa.UnOp); isLd {
									if hasFact(T.FactsAt(ld.Block()), "NE", T.T(al)+"."+st.Field(i).Name(), "nil") {
										okAll = true
									}
								}
							}
						}
						if !okAll {
							nullable[key] = "may be stored nil by " + shortName(f)
						}
					}
				}
			}
		}
	}
	// TypeField.Type is unset for enum entries (its store is conditional)
	var nl []string
	for k, why := range nullable {
		nl = append(nl, k.S+"."+k.F+" ("+why+")")
	}
	sort.Strings(nl)
	r.Note("tree members of type *Type that the parser may leave nil: %v", nl)
	// dereference sites in the generator: FieldAddr/Field on a *idl.Type value, and calls passing one to a function that dereferences it
	gen := p.FuncsOf(pkgGen)
	derefParam := map[*ssa.Function]map[int]bool{} // functions dereferencing parameter i unconditionally (on entry block)
	for _, f := range gen {
		for i, prm := range f.Params {
			pt, ok := prm.Type().(*types.Pointer)
			if !ok || !isNamed(pt.Elem(), pkgIDL, "Type") {
				continue
			}
			for _, ref := range *prm.Referrers() {
				if fa, ok := ref.(*ssa.FieldAddr); ok && fa.Block() == f.Blocks[0] {
					if derefParam[f] == nil {
						derefParam[f] = map[int]bool{}
					}
					derefParam[f][i] = true
				}
			}
		}
	}
	kindFact := func(fs []Fact, base string, kinds ...string) bool {
		for _, f := range fs {
			if f.Op != "EQ" {
				continue
			}
			for _, k := range kinds {
				kc := fmt.Sprintf("const:%d", m.kinds[k])
				if (f.A == kc && strip(f.B) == base+".Kind") || (f.B == kc && strip(f.A) == base+".Kind") {
					return true
				}
			}
		}
		return false
	}
	// normalisation loops: a range over X.Errors in which, under member == nil, a fresh node is stored into the member
	normalised := map[member]ssa.Instruction{}
	// the generator is analysed in inlined views (inline.go): starting from the functions nobody in the package calls,
	// plus whatever stays a call in those views (the recursive type writer). A section of the template factored into a
	// helper is then looked at in the context of its caller (e.g. "m.In is a method's input").
	var views []*ssa.Function
	{
		cgG := BuildCallGraph(p)
		seenV := map[*ssa.Function]bool{}
		var work []*ssa.Function
		// the template function (found by role) is a root of its own: in the view of the command-line wrapper around
		// it the error exits (`os.Exit`) are ordinary calls after which control continues, which blurs what the
		// template's own view shows exactly; the wrapper is analysed with the template function kept as a call
		rootF := p.Func(pkgGen, root)
		if rootF != nil {
			work = append(work, rootF)
		}
		for _, f := range gen {
			if f.Parent() == nil && len(f.Blocks) > 0 && len(cgG.Callers[f]) == 0 {
				work = append(work, f)
			}
		}
		for len(work) > 0 {
			f := work[0]
			work = work[1:]
			if seenV[f] {
				continue
			}
			seenV[f] = true
			var keepRoot func(*ssa.Function) bool
			if rootF != nil && f != rootF {
				keepRoot = func(callee *ssa.Function) bool { return callee == rootF }
			}
			v := p.Inlined(f, keepRoot)
			views = append(views, v)
			for _, cs := range callsIn(v, true) {
				if t := cs.Common.StaticCallee(); t != nil && fnPkgPath(t) == pkgGen && t.Parent() == nil && len(t.Blocks) > 0 && !seenV[t] {
					work = append(work, t)
				}
			}
		}
	}
	var rootFn *ssa.Function
	for _, vf := range views {
		for _, b := range vf.Blocks {
			for _, in := range b.Instrs {
				st, ok := in.(*ssa.Store)
				if !ok {
					continue
				}
				fa, ok := st.Addr.(*ssa.FieldAddr)
				if !ok {
					continue
				}
				pt, ok := fa.X.Type().Underlying().(*types.Pointer)
				if !ok {
					continue
				}
				named, ok := pt.Elem().(*types.Named)
				if !ok || named.Obj().Pkg() == nil || named.Obj().Pkg().Path() != pkgIDL {
					continue
				}
				if _, isAlloc := st.Val.(*ssa.Alloc); !isAlloc {
					continue
				}
				key := member{named.Obj().Name(), fieldName(fa.X, fa.Field)}
				if hasFact(T.FactsAt(b), "EQ", strip(T.T(fa))[1:], "nil") || hasFactRe(T.FactsAt(b), `^EQ\(.*\.`+key.F+`,nil\)$|^EQ\(nil,.*\.`+key.F+`\)$`) {
					if blockInLoop(b) {
						normalised[key] = st
						rootFn = vf
					}
				}
			}
		}
	}
	// a helper of the generator that receives (part of) a tree node as a parameter is judged where it is inlined into
	// its callers' views, in the context of the node it is given; its own view has no such context
	inlinedSomewhere := map[*ssa.Function]bool{}
	for _, vf := range views {
		for _, b := range vf.Blocks {
			for _, in := range b.Instrs {
				for _, g := range inlinedFrom(in) {
					inlinedSomewhere[g] = true
				}
			}
		}
	}
	paramRooted := func(f *ssa.Function, t string) bool {
		for _, prm := range f.Params {
			if strings.Contains(t, "param:"+prm.Name()) {
				if _, isBuf := prm.Type().(*types.Pointer); isBuf && !strings.Contains(prm.Type().String(), "idl.") {
					continue
				}
				return true
			}
		}
		return false
	}
	n := 0
	for _, f := range views {
		for _, b := range f.Blocks {
			for _, in := range b.Instrs {
				var v ssa.Value
				what := ""
				switch x := in.(type) {
				case *ssa.FieldAddr:
					if pt, ok := x.X.Type().(*types.Pointer); ok && isNamed(pt.Elem(), pkgIDL, "Type") {
						v, what = x.X, "member access ."+fieldName(x.X, x.Field)
					}
				case *ssa.Call:
					if t := x.Call.StaticCallee(); t != nil && derefParam[t] != nil {
						for i := range derefParam[t] {
							if i < len(x.Call.Args) {
								v, what = x.Call.Args[i], "argument of "+t.Name()+" (which dereferences it)"
							}
						}
					}
				}
				if v == nil {
					continue
				}
				// the value is a member of a tree node: loaded through the node's address, or taken from a copy of
				// the node (a range variable that the view turned into registers)
				var holder ssa.Value // the node (address or value)
				var named *types.Named
				fieldNm := ""
				switch y := v.(type) {
				case *ssa.UnOp:
					fa, ok := y.X.(*ssa.FieldAddr)
					if !ok {
						continue
					}
					pt, ok := fa.X.Type().Underlying().(*types.Pointer)
					if !ok {
						continue
					}
					named, _ = pt.Elem().(*types.Named)
					holder, fieldNm = fa.X, fieldName(fa.X, fa.Field)
				case *ssa.Field:
					named, _ = y.X.Type().(*types.Named)
					holder, fieldNm = y.X, fieldName(y.X, y.Field)
				default:
					continue // parameters, fresh nodes
				}
				if named == nil {
					continue
				}
				fa := struct{ X ssa.Value }{holder}
				key := member{named.Obj().Name(), fieldNm}
				whyNull, isNullable := nullable[key]
				if !isNullable {
					continue
				}
				base := strings.TrimPrefix(strip(T.T(fa.X)), "&")
				if of := origFn(f); of.Object() != nil && !of.Object().Exported() && inlinedSomewhere[of] && paramRooted(f, base) && key == (member{"TypeField", "Type"}) {
					continue
				}
				n++
				fs := T.FactsAt(b)
				vt := T.T(v)
				ok2, how := false, ""
				switch {
				case hasFact(fs, "NE", vt, "nil") || hasFact(fs, "NE", strip(vt), "nil"):
					ok2, how = true, "nil test"
				case key == member{"Type", "ElementType"} && (kindFact(fs, base, "TypeArray", "TypeMap", "TypeMaybe") || tableKindFact(p, m, b, holder, "TypeArray", "TypeMap", "TypeMaybe")):
					ok2, how = true, "kind is array/map/optional (the parser sets the element for exactly these kinds)"
				case key == member{"TypeField", "Type"}:
					// the field comes from a range over Y.Fields: Y.Kind == struct known, or Y is a method's in/out (domain), or Y is a normalised error type
					owner := fieldsOwner(T, fa.X)
					switch {
					case ownerAlternativesTyped(T, m, fieldsOwnerValue(fa.X), kindFact):
						// Y is one of several values (`errType := errorType(e)`): a fresh node without fields, or a
						// node that is a struct on the path it comes from
						ok2, how = true, "every alternative of the enclosing type is a fresh node without fields or a struct"
					case owner != "" && kindFact(fs, owner, "TypeStruct"):
						ok2, how = true, "enclosing kind is struct (typed fields only)"
					case strings.HasSuffix(owner, ".In") || strings.HasSuffix(owner, ".Out"):
						ok2, how = true, "domain assumption: method input/output are structs"
					case strings.HasSuffix(owner, ".Type") && normalised[member{"Error", "Type"}] != nil:
						ok2, how = errorFieldsNormalised(p, T, rootFn)
					default:
						how = "field list of " + owner + " may be an enum's (entries without a type)"
					}
				default:
					if st, has := normalised[key]; has {
						// the deref must come after the normalising store: either in the same iteration after it, or in a later loop
						after, _ := reachInstr(f, st, func(i ssa.Instruction) bool { return i == in }, nil, nil)
						before, _ := reachInstr(f, nil, func(i ssa.Instruction) bool { return i == in }, func(i ssa.Instruction) bool { return i.Block() == st.Block() || i == st }, nil)
						if after && !before {
							ok2, how = true, "after the generator's normalisation loop (a fresh node is stored wherever the member was nil)"
						} else if after && sameSliceLaterLoop(T, f, st, fa.X, in) {
							ok2, how = true, "after the generator's normalisation loop over the same slice (every element the later loop visits was visited, and set where nil, by the earlier complete loop)"
						} else if after {
							// same loop: on the nil edge of a dominating test every path to the use sets a fresh node
							ok2 = st.Block().Dominates(b) || nilTestedThenSet(T, f, strip(vt), in)
							how = "normalised earlier in the same iteration"
						}
					}
					if !ok2 && how == "" {
						how = "no nil test, kind discrimination or normalisation found"
					}
				}
				r.Ob("G1", shortName(f), fmt.Sprintf("%s of nullable %s.%s (%s)", what, key.S, key.F, base), in.Pos(), ok2,
					fmt.Sprintf("%s.%s %s and is dereferenced here without protection (%s): the generator crashes for such a description", key.S, key.F, whyNull, how))
				if ok2 {
					r.Stat("G1_discharged_by_"+strings.Fields(how)[0], 1)
				}
			}
		}
	}
	r.Stat("G1_deref_sites", n)
	r.Floor("G1", 12)
	if n == 0 {
		r.Unresolved("G1", "dereferences of nullable tree members in the generator")
	}
}

// tableKindFact: block b is dominated by the success edge of `_, ok := <constant table>[<node>.Kind]` for the node held
// by holder, and every key of the table is one of the given kinds.
func tableKindFact(p *Prog, m *idlModel, b *ssa.BasicBlock, holder ssa.Value, kinds ...string) bool {
	allowed := map[int64]bool{}
	for _, k := range kinds {
		allowed[int64(m.kinds[k])] = true
	}
	for d := b; d != nil; d = d.Idom() {
		id := d.Idom()
		if id == nil || len(id.Instrs) == 0 || len(id.Succs) != 2 {
			continue
		}
		iff, ok := id.Instrs[len(id.Instrs)-1].(*ssa.If)
		if !ok || id.Succs[0] != d || len(d.Preds) != 1 {
			continue
		}
		ex, ok := iff.Cond.(*ssa.Extract)
		if !ok || ex.Index != 1 {
			continue
		}
		lk, ok := ex.Tuple.(*ssa.Lookup)
		if !ok || !lk.CommaOk {
			continue
		}
		// the key is <holder>.Kind
		kl, ok := lk.Index.(*ssa.UnOp)
		if !ok {
			continue
		}
		kfa, ok := kl.X.(*ssa.FieldAddr)
		if !ok || fieldName(kfa.X, kfa.Field) != "Kind" || kfa.X != holder {
			continue
		}
		// the table: a package-level map that is only initialised
		ml, ok := lk.X.(*ssa.UnOp)
		if !ok {
			continue
		}
		g, ok := ml.X.(*ssa.Global)
		if !ok {
			continue
		}
		mm, ok := p.ConstGlobal(g).(*ssa.MakeMap)
		if !ok {
			continue
		}
		all, n := true, 0
		for _, ref := range *mm.Referrers() {
			if mu, ok := ref.(*ssa.MapUpdate); ok {
				k, isK := mu.Key.(*ssa.Const)
				if !isK || !allowed[k.Int64()] {
					all = false
				}
				n++
			}
		}
		if all && n > 0 {
			return true
		}
	}
	return false
}

// fieldsOwnerValue: for a TypeField value (or its address) obtained by indexing <owner>.Fields, the SSA value of <owner>.
func fieldsOwnerValue(v ssa.Value) ssa.Value {
	for i := 0; i < 6; i++ {
		switch x := v.(type) {
		case *ssa.Alloc:
			val, ok := singleStore(x)
			if !ok {
				return nil
			}
			v = val
		case *ssa.UnOp:
			if fa, ok := x.X.(*ssa.FieldAddr); ok && fieldName(fa.X, fa.Field) == "Fields" {
				return fa.X
			}
			v = x.X
		case *ssa.IndexAddr:
			v = x.X
		case *ssa.Index:
			v = x.X
		default:
			return nil
		}
	}
	return nil
}

// ownerAlternativesTyped: owner is a phi each of whose alternatives is a node built right there without a field list
// (nothing to iterate over) or a value known to be of kind struct on the edge it arrives by.
func ownerAlternativesTyped(T *Terms, m *idlModel, owner ssa.Value, kindFact func([]Fact, string, ...string) bool) bool {
	ph, ok := owner.(*ssa.Phi)
	if !ok || len(ph.Edges) == 0 {
		return false
	}
	for i, e := range ph.Edges {
		if al, isAlloc := e.(*ssa.Alloc); isAlloc {
			if len(fieldStores(al)["Fields"]) == 0 {
				continue
			}
			return false
		}
		pred := ph.Block().Preds[i]
		fs := append(append([]Fact{}, T.FactsAt(pred)...), T.edgeFactsOn(pred, ph.Block())...)
		if !kindFact(fs, strip(T.T(e)), "TypeStruct") {
			return false
		}
	}
	return true
}

// fieldsOwner: for a TypeField value obtained by indexing <owner>.Fields, the term of <owner>.
func fieldsOwner(T *Terms, v ssa.Value) string {
	// a range variable is a local copy of &<owner>.Fields[i]
	if al, ok := v.(*ssa.Alloc); ok {
		if val, ok := singleStore(al); ok {
			if ld, ok := val.(*ssa.UnOp); ok {
				v = ld.X
			}
		}
	}
	if o := fieldsOwnerValue(v); o != nil {
		return strip(T.T(o))
	}
	t := strip(T.T(v))
	// &index(<owner>.Fields, i) / alloc of range var copy
	if i := strings.Index(t, ".Fields"); i >= 0 {
		s := t[:i]
		// the owner starts after the last parenthesis still open at this point
		depth, start := 0, 0
		for j := len(s) - 1; j >= 0; j-- {
			if s[j] == ')' {
				depth++
			} else if s[j] == '(' {
				if depth == 0 {
					start = j + 1
					break
				}
				depth--
			}
		}
		return strings.TrimPrefix(s[start:], "&")
	}
	return ""
}

// errorFieldsNormalised: the normalisation replaces every non-struct error type by a node without fields, so loops over
// an error's fields see typed fields only.
func errorFieldsNormalised(p *Prog, T *Terms, rootFn *ssa.Function) (bool, string) {
	for _, b := range rootFn.Blocks {
		for _, in := range b.Instrs {
			st, ok := in.(*ssa.Store)
			if !ok {
				continue
			}
			fa, ok := st.Addr.(*ssa.FieldAddr)
			if !ok || fieldName(fa.X, fa.Field) != "Type" || !isNamed(fa.X.Type(), pkgIDL, "Error") {
				continue
			}
			al, ok := st.Val.(*ssa.Alloc)
			if !ok {
				continue
			}
			// a replacement under Kind != struct must not carry Fields
			for _, f := range T.FactsAt(b) {
				if f.Op == "NE" && strings.HasSuffix(strip(f.A+f.B), ".Kind") {
					if len(fieldStores(al)["Fields"]) == 0 {
						return true, "non-struct error types are replaced by a node without fields (normalisation), so only struct fields are visited"
					}
					return false, "the replacement for non-struct error types keeps the field list"
				}
			}
		}
	}
	return false, "no normalisation of non-struct error types found"
}

func postDominatedStore(f *ssa.Function, st ssa.Instruction, use ssa.Instruction) bool {
	return false
}

// nilTestedThenSet: some dominator of the use tests the location against nil, and on its nil edge every path to the use
// passes a store of a fresh node to that location.
func nilTestedThenSet(T *Terms, f *ssa.Function, loc string, use ssa.Instruction) bool {
	for d := use.Block(); d != nil; d = d.Idom() {
		if len(d.Succs) != 2 {
			continue
		}
		for _, s := range d.Succs {
			isNilEdge := false
			for _, fc := range T.edgeFactsOn(d, s) {
				if fc.Op == "EQ" && (fc.A == "nil" && strip(fc.B) == loc || fc.B == "nil" && strip(fc.A) == loc) {
					isNilEdge = true
				}
			}
			if !isNilEdge {
				continue
			}
			reach, _ := reachFromBlockAvoid(f, s, func(i ssa.Instruction) bool { return i == use }, func(i ssa.Instruction) bool {
				st, ok := i.(*ssa.Store)
				if !ok {
					return false
				}
				_, fresh := st.Val.(*ssa.Alloc)
				return fresh && strip(T.T(st.Addr)) == "&"+loc
			}, nil)
			if !reach {
				return true
			}
		}
	}
	return false
}

// sliceOfElem: for an element location index(<slice>, i).member, the term of <slice>.
func sliceOfElem(T *Terms, v ssa.Value) string {
	t := strip(T.T(v))
	t = strings.TrimPrefix(t, "&")
	if !strings.HasPrefix(t, "index(") {
		return ""
	}
	depth := 0
	for i := len("index("); i < len(t); i++ {
		switch t[i] {
		case '(':
			depth++
		case ')':
			depth--
		case ',':
			if depth == 0 {
				return t[len("index("):i]
			}
		}
	}
	return ""
}

// loopHeaderOf: the innermost loop header (a block with a back edge) that dominates b and has b in its loop.
func loopHeaderOf(b *ssa.BasicBlock) *ssa.BasicBlock {
	for d := b; d != nil; d = d.Idom() {
		for _, p := range d.Preds {
			if d.Dominates(p) && (p == b || reachableWithout(b, nil)[p]) {
				return d
			}
		}
	}
	return nil
}

// sameSliceLaterLoop: the normalising store `st` sits in a loop over slice S that always runs to completion (its only exit
// is the header), that loop is finished before the loop containing `use` starts, and `use` dereferences an element of S.
func sameSliceLaterLoop(T *Terms, f *ssa.Function, st ssa.Instruction, useHolder ssa.Value, use ssa.Instruction) bool {
	store, ok := st.(*ssa.Store)
	if !ok {
		return false
	}
	sfa, ok := store.Addr.(*ssa.FieldAddr)
	if !ok {
		return false
	}
	s1, s2 := sliceOfElem(T, sfa.X), sliceOfElem(T, useHolder)
	if s1 == "" || s1 != s2 {
		return false
	}
	h1 := loopHeaderOf(store.Block())
	h2 := loopHeaderOf(use.Block())
	if h1 == nil || h2 == nil || h1 == h2 {
		return false
	}
	// first loop complete: no exit except from the header
	inLoop := func(b *ssa.BasicBlock) bool { return h1.Dominates(b) && reachableWithout(b, nil)[h1] }
	for _, b := range f.Blocks {
		if !inLoop(b) || b == h1 {
			continue
		}
		for _, s := range b.Succs {
			if !inLoop(s) {
				return false
			}
		}
	}
	// the second loop starts after the first: h1 dominates h2 and h2 is not inside loop 1
	return h1.Dominates(h2) && !inLoop(h2)
}

// singleDefs: the locals of a function that are assigned exactly once, by `name := expr`, with that expression.
func singleDefs(fd *ast.FuncDecl, info *types.Info) map[types.Object]ast.Expr {
	cnt := map[string]int{}
	def := map[string]ast.Expr{}
	ids := map[string]*ast.Ident{}
	ast.Inspect(fd.Body, func(n ast.Node) bool {
		switch n := n.(type) {
		case *ast.AssignStmt:
			for k, l := range n.Lhs {
				if id, ok := l.(*ast.Ident); ok {
					cnt[id.Name]++
					if n.Tok == token.DEFINE && len(n.Lhs) == len(n.Rhs) {
						def[id.Name] = n.Rhs[k]
						ids[id.Name] = id
					}
				}
			}
		case *ast.IncDecStmt:
			if id, ok := n.X.(*ast.Ident); ok {
				cnt[id.Name] += 2
			}
		case *ast.RangeStmt:
			for _, e := range []ast.Expr{n.Key, n.Value} {
				if id, ok := e.(*ast.Ident); ok {
					cnt[id.Name] += 2
				}
			}
		case *ast.UnaryExpr:
			if id, ok := n.X.(*ast.Ident); ok && n.Op == token.AND {
				cnt[id.Name] += 2
			}
		}
		return true
	})
	out := map[types.Object]ast.Expr{}
	for name, c := range cnt {
		if c == 1 && def[name] != nil {
			out[info.Defs[ids[name]]] = def[name]
		}
	}
	return out
}
