package main

import (
	"fmt"
	"go/token"
	"go/types"
	"regexp"
	"strings"

	"golang.org/x/tools/go/ssa"
)

func init() {
	register(&propDef{
		id: "C13", level: "other", perCfg: false,
		explain: "Necessary structural conditions of C13, decided for all paths. M1 identity flow, positional and composed across functions: NewService parameter i is stored in a Service field written nowhere else; the GetInfo handler (the innermost Service method whose inlined view fills the reply struct - directly or through a reply-builder helper) stores exactly those fields, and a copy of the registration-order list taken under the mutex, into the members whose JSON keys are the output fields of GetInfo in the embedded org.varlink.service description (vendor, product, version, url, interfaces), in that order, and hands that struct to the reply path; the client helpers copy member k (same JSON key, decoded into a fresh zero value) to their k-th pointer parameter under a nil test; the Resolver helper likewise. M2 registration is guarded and complete: in RegisterInterface (inlined view: the tables may live in a state struct of the Service with methods of its own) every update of interfaces / descriptions / names carries `not already registered` and `running == false`, all use the key iface.VarlinkGetName(), the description stored is iface.VarlinkGetDescription(), names is appended at the end, refusing edges return errors without any update, and nothing else writes these fields after construction. M3: NewService registers the built-in interface (name org.varlink.service) on a fresh Service before returning it. M4: GetInterfaceDescription replies with the ok-result of descriptions[name] and with InvalidParameter(\"interface\") on the not-found and empty-name edges; the client sends key `interface` and reads key `description`, agreeing with the built-in handler's structs. M1 also: the client helpers write a reply member whenever the pointer parameter is non-nil (no further condition on the value).",
		notDec:  "Unicode fidelity of the strings (delegated to encoding/json); what user code does with the values.",
		trusted: []string{"encoding/json matches struct members by tag, then case-insensitively by name"},
		run:     runC13,
	})
}

var reMethodOut = regexp.MustCompile(`(?s)method\s+GetInfo\s*\(\s*\)\s*->\s*\((.*?)\)`)
var reFieldName = regexp.MustCompile(`([A-Za-z_][A-Za-z0-9_]*)\s*:`)

func runC13(r *Run, p *Prog) {
	ro := DiscoverRoles(p)
	T, cg := ro.T, ro.CG
	_, desc := builtinDescription(p, T)
	var outFields []string
	if m := reMethodOut.FindStringSubmatch(desc); m != nil {
		for _, f := range reFieldName.FindAllStringSubmatch(m[1], -1) {
			outFields = append(outFields, f[1])
		}
	}
	if len(outFields) != 5 {
		r.Unresolved("M1", fmt.Sprintf("output fields of GetInfo in the embedded description (found %v)", outFields))
		return
	}
	ctor := p.Func(pkgVarlink, "NewService")
	reg := p.Func(pkgVarlink, "Service.RegisterInterface")
	if ctor == nil || reg == nil || ro.ServiceT == nil {
		r.Unresolved("M1", "NewService / RegisterInterface / Service")
		return
	}
	ls := ComputeLockSets(p, cg, p.FuncsOf(pkgVarlink))
	// ---- M1 service side
	r.Guard("M1", func() {
		// NewService: parameter i -> field
		var svc *ssa.Alloc
		for _, b := range ctor.Blocks {
			for _, in := range b.Instrs {
				if a, ok := in.(*ssa.Alloc); ok && isNamed(a.Type(), pkgVarlink, "Service") {
					svc = a
				}
			}
		}
		if svc == nil {
			r.Unresolved("M1", "Service literal in NewService")
			return
		}
		fs := fieldStores(svc)
		fieldOfParam := map[string]string{}
		for fld, vals := range fs {
			for _, v := range vals {
				if prm, ok := v.(*ssa.Parameter); ok {
					fieldOfParam[prm.Name()] = fld
				}
			}
		}
		idFields := []string{}
		for i := 0; i < 4 && i < len(ctor.Params); i++ {
			fld := fieldOfParam[ctor.Params[i].Name()]
			r.Ob("M1", shortName(ctor), fmt.Sprintf("NewService parameter %d (%s) is stored in a Service field", i, ctor.Params[i].Name()), svc.Pos(), fld != "", "the identity string is not kept")
			idFields = append(idFields, fld)
			// written nowhere else
			if fld != "" {
				idx := fieldIndex(ro.ServiceT, fld)
				for _, fa := range fieldAddrs(p, ro.ServiceT, idx) {
					for _, st := range storesTo(fa) {
						r.Ob("M1", shortName(st.Parent()), "identity field "+fld+" written only at construction", st.Pos(), st.Parent() == ctor, "the identity reported by GetInfo can change after creation")
					}
				}
			}
		}
		// the GetInfo handler: the innermost Service method whose inlined view fills a struct with keys = outFields (the
		// struct may be filled by a reply-builder helper taking the values as parameters, or in the handler itself)
		keepAPI := func(c *ssa.Function) bool {
			return c.Signature.Recv() != nil && isNamed(c.Signature.Recv().Type(), pkgVarlink, "Call") && c.Object() != nil && c.Object().Exported()
		}
		type cand struct {
			v   *ssa.Function
			out *ssa.Alloc
		}
		cands := map[*ssa.Function]cand{}
		for _, f := range p.FuncsOf(pkgVarlink) {
			if f.Parent() != nil || f.Signature.Recv() == nil || !isNamed(f.Signature.Recv().Type(), pkgVarlink, "Service") {
				continue
			}
			v := p.Inlined(f, keepAPI)
			for _, b := range v.Blocks {
				for _, in := range b.Instrs {
					a, ok := in.(*ssa.Alloc)
					if !ok {
						continue
					}
					st := derefStruct(a.Type())
					if st == nil || st.NumFields() != 5 {
						continue
					}
					match := true
					for i, k := range outFields {
						if jsonKey(st, i) != k {
							match = false
						}
					}
					if match && len(fieldStores(a)) > 0 {
						cands[f] = cand{v, a}
					}
				}
			}
		}
		var hv *ssa.Function
		var out *ssa.Alloc
		for f, c := range cands {
			inner := true
			for g := range cg.Reach([]*ssa.Function{f}, false) {
				if _, isC := cands[g]; g != f && isC {
					inner = false
				}
			}
			if inner && (hv == nil || c.v.Pos() < hv.Pos()) {
				hv, out = c.v, c.out
			}
		}
		if hv == nil {
			r.Ob("M1", "-", "GetInfo reply struct has members keyed "+strings.Join(outFields, ", ")+" in description order", ctor.Pos(), false, "no Service method fills a reply struct whose JSON keys are the GetInfo output fields of the description, in order")
			return
		}
		ls = ComputeLockSets(p, cg, append(p.FuncsOf(pkgVarlink), hv)) // (with the view just made)
		ofs := fieldStores(out)
		ost := derefStruct(out.Type())
		recvName := hv.Params[0].Name()
		for i := 0; i < 4 && i < len(idFields); i++ {
			vals := ofs[ost.Field(i).Name()]
			ok := len(vals) == 1 && idFields[i] != "" && svcTerm(strip(T.T(vals[0])), recvName, idFields[i])
			r.Ob("M1", shortName(hv), "GetInfo reports `"+outFields[i]+"` from the field NewService stored it in, unchanged", out.Pos(), ok,
				fmt.Sprintf("`%s` is filled from %v, expected param:%s.%s", outFields[i], termsOf(T, vals), recvName, idFields[i]))
		}
		{
			vals := ofs[ost.Field(4).Name()]
			got, locked, okCopy := "nothing", false, false
			if len(vals) == 1 {
				v := vals[0]
				got = strip(T.T(v))
				okCopy = svcTerm(got, recvName, svcF.Names)
				if rest, isApp := strings.CutPrefix(got, "call:append(nil,"); isApp && !okCopy {
					if i := strings.IndexAny(rest, ",)"); i >= 0 {
						okCopy = svcTerm(rest[:i], recvName, svcF.Names)
					}
				}
				if c, ok := v.(*ssa.Call); ok && ls != nil {
					locked = len(ls.At[c]) > 0
				} else if u, ok := v.(*ssa.UnOp); ok && ls != nil {
					locked = len(ls.At[u]) > 0
				}
			}
			r.Ob("M1", shortName(hv), "GetInfo reports `interfaces` from the registration-order list (read under the mutex)", out.Pos(), okCopy && locked,
				fmt.Sprintf("`interfaces` is filled from %s (read under the mutex: %v); expected the Service's names list or a copy of it", got, locked))
		}
		// the reply is what is sent
		sent := false
		for _, cs := range callsIn(hv, false) {
			for _, a := range cs.Common.Args {
				if unwrapAlloc(a) == out {
					if t := staticTarget(cs.Common); t != nil {
						for g := range cg.Reach([]*ssa.Function{t}, false) {
							if fnSet(ro.WFuncs)[g] {
								sent = true
							}
						}
					}
				}
			}
		}
		r.Ob("M1", shortName(hv), "the reply struct is what is sent", out.Pos(), sent, "the filled struct is not handed to the reply path")
	})
	// ---- M1 client side
	r.Guard("M1c", func() {
		for _, name := range []string{"Connection.GetInfo", "Resolver.GetInfo"} {
			f := p.Func(pkgVarlink, name)
			if f == nil {
				r.Unresolved("M1", name)
				continue
			}
			// (with the package's unexported helpers inlined: the stores through the pointer parameters may be
			// written in a helper shared by the client-side GetInfo functions; the exported API stays calls)
			f = p.Inlined(f, func(callee *ssa.Function) bool {
				return fnPkgPath(callee) != pkgVarlink || callee.Object() != nil && callee.Object().Exported()
			})
			// the reply struct: Alloc passed to Call as out parameter
			var rep *ssa.Alloc
			var callInstr ssa.Instruction
			for _, cs := range callsNamed(f, false, "varlink.Connection.Call") {
				a := cs.Common.Args
				rep = unwrapAlloc(a[len(a)-1])
				callInstr = cs.Instr
			}
			if rep == nil {
				r.Unresolved("M1", name+": reply value passed to Call")
				continue
			}
			if len(fieldStores(rep)) > 0 {
				r.Ob("M1", name, "the reply is decoded into a fresh zero value", rep.Pos(), false, "members of the decode target are set before the call: values absent from the reply (omitempty) keep what the caller had")
				continue
			}
			r.Ob("M1", name, "the reply is decoded into a fresh zero value", rep.Pos(), true, "")
			st := derefStruct(rep.Type())
			for k, key := range outFields {
				pi := k + 2 // receiver, ctx, then the pointer parameters
				if pi >= len(f.Params) {
					continue
				}
				prm := f.Params[pi]
				// member index with this key (tag or case-insensitive name)
				mi := -1
				for i := 0; i < st.NumFields(); i++ {
					if strings.EqualFold(jsonKey(st, i), key) {
						mi = i
					}
				}
				ok := false
				detail := "no member with key " + key
				if mi >= 0 {
					detail = "no store *" + prm.Name() + " = reply." + st.Field(mi).Name()
					for _, ref := range *prm.Referrers() {
						s, isStore := ref.(*ssa.Store)
						if !isStore || s.Addr != ssa.Value(prm) {
							continue
						}
						got := strip(T.T(s.Val))
						want := strip(T.T(rep)) + "." + st.Field(mi).Name()
						guarded := hasFact(T.FactsAt(s.Block()), "NE", T.T(prm), "nil")
						ok = got == want && guarded
						// a member of a copy of the whole reply taken after the decode (`info := serviceInfo(rep)`)
						if fv, isField := s.Val.(*ssa.Field); isField && !ok && fv.Field == mi && callInstr != nil {
							x := fv.X
							if ct, isCT := x.(*ssa.ChangeType); isCT {
								x = ct.X
							}
							if ld, isLoad := x.(*ssa.UnOp); isLoad && ld.Op == token.MUL && ld.X == ssa.Value(rep) {
								after := callInstr.Block() == ld.Block() && instrIndex(callInstr) < instrIndex(ld) ||
									callInstr.Block() != ld.Block() && callInstr.Block().Dominates(ld.Block())
								ok = after && guarded
							}
						}
						detail = fmt.Sprintf("*%s = %s (expected %s), nil-guarded: %v", prm.Name(), got, want, guarded)
						// and the value is written whenever the pointer is not nil (no further condition on the value:
						// an empty string in the reply is a value like any other)
						if ok && callInstr != nil {
							sto := s
							skip, w := reachInstr(f, callInstr, func(i ssa.Instruction) bool { return isNilErrorReturn(i) },
								func(i ssa.Instruction) bool { return i == ssa.Instruction(sto) },
								func(x, y *ssa.BasicBlock) bool { return hasFact(T.edgeFactsOn(x, y), "EQ", T.T(prm), "nil") })
							if skip {
								ok = false
								detail = fmt.Sprintf("*%s is not written on every path with a non-nil pointer (a success return is reachable past the store, e.g. via %s): values the service sent are withheld from the caller", prm.Name(), p.Pos(w[len(w)-1].Pos()))
							}
						}
					}
				}
				r.Ob("M1", name, fmt.Sprintf("reply key `%s` is returned through pointer parameter %d (%s)", key, k+1, prm.Name()), f.Pos(), ok, detail)
			}
		}
	})
	// ---- M2
	r.Guard("M2", func() {
		// registration in its inlined view: the tables may be updated by a method of a nested state struct (`s.registry.add`)
		regBuilt := reg
		reg := p.Inlined(regBuilt, nil)
		cg.AddView(reg)
		ls = ComputeLockSets(p, cg, p.FuncsOf(pkgVarlink))
		recv := reg.Params[0].Name()
		ifaceP := reg.Params[1].Name()
		keyT := "call:invoke:VarlinkGetName(param:" + ifaceP + ")"
		descT := "call:invoke:VarlinkGetDescription(param:" + ifaceP + ")"
		m := BuildServeModel(p, ro)
		guards := func(fs []Fact) (bool, bool) {
			notReg, notRun := false, false
			for _, f := range fs {
				if f.Op == "EQ" && (f.A == "const:false" || f.B == "const:false") {
					o := strip(f.A)
					if f.A == "const:false" {
						o = strip(f.B)
					}
					if strings.HasPrefix(o, "ext(lookup(param:"+recv+"."+svcF.Interfaces+","+keyT+"),1)") || isRegisteredTest(o, recv, keyT) {
						notReg = true
					}
				}
			}
			notRun = m.runningFact(fs, false)
			return notReg, notRun
		}
		n := 0
		isUpdate := func(in ssa.Instruction) (string, bool) {
			switch x := in.(type) {
			case *ssa.MapUpdate:
				t := strip(T.T(x.Map))
				for _, f := range []string{svcF.Interfaces, svcF.Descriptions} {
					if t == "param:"+recv+"."+f || svcTerm(t, recv, f) {
						return f, true
					}
				}
			case *ssa.Store:
				if isStoreToServiceField(in, svcF.Names) {
					return svcF.Names, true
				}
			}
			return "", false
		}
		for _, b := range reg.Blocks {
			for _, in := range b.Instrs {
				fld, ok := isUpdate(in)
				if !ok {
					continue
				}
				n++
				notReg, notRun := guards(T.FactsAt(b))
				r.Ob("M2", shortName(reg), "update of "+fld+" only if the name is not registered and the service is not running", in.Pos(), notReg && notRun,
					fmt.Sprintf("not-registered known: %v, not-running known: %v - a refused registration must leave the service unchanged", notReg, notRun))
				// check and update form one critical section: the tested loads happen with the mutex held and it is not
				// released before the update
				atomicOK, why := testsAtomicWithUpdate(p, T, ls, reg, in, recv)
				r.Ob("M2", shortName(reg), "the tests guarding the update of "+fld+" and the update are one critical section", in.Pos(), atomicOK, why)
				switch x := in.(type) {
				case *ssa.MapUpdate:
					okKey := strip(T.T(x.Key)) == keyT
					okVal := true
					if fld == svcF.Descriptions {
						okVal = strip(T.T(x.Value)) == descT
					} else {
						okVal = strip(T.T(x.Value)) == "param:"+ifaceP
					}
					r.Ob("M2", shortName(reg), fld+"[iface.VarlinkGetName()] = the registered "+ifs(fld == svcF.Descriptions, "description text", "dispatcher"), in.Pos(), okKey && okVal,
						fmt.Sprintf("key %s value %s", strip(T.T(x.Key)), strip(T.T(x.Value))))
				case *ssa.Store:
					got := strip(T.T(x.Val))
					want := "call:append(param:" + recv + "." + svcF.Names + ","
					okApp := strings.HasPrefix(got, want)
					if rest, isApp := strings.CutPrefix(got, "call:append("); isApp && !okApp {
						if i := strings.Index(rest, ","); i >= 0 {
							okApp = svcTerm(rest[:i], recv, svcF.Names)
						}
					}
					r.Ob("M2", shortName(reg), "names = append(names, name): registration order, appended at the end", in.Pos(), okApp,
						"names is updated as "+got)
					// the appended element is the name
					if c, ok := x.Val.(*ssa.Call); ok && len(c.Call.Args) == 2 {
						el := appendedElems(T, c.Call.Args[1])
						r.Ob("M2", shortName(reg), "the appended element is iface.VarlinkGetName()", in.Pos(), len(el) == 1 && el[0] == keyT, fmt.Sprintf("appended %v", el))
					}
				}
			}
		}
		if n < 3 {
			r.Ob("M2", shortName(reg), "registration updates interfaces, descriptions and names", reg.Pos(), false, fmt.Sprintf("%d of the three tables are updated", n))
		}
		// refusing edges: error, no update
		for _, b := range reg.Blocks {
			for _, s := range b.Succs {
				fs := T.edgeFactsOn(b, s)
				refuse := m.runningFact(fs, true)
				for _, f := range fs {
					if f.Op == "EQ" && (f.A == "const:true" || f.B == "const:true") && (strings.Contains(f.A+f.B, "lookup(param:"+recv+"."+svcF.Interfaces+",") || isRegisteredTest(strip(f.A), recv, "") || isRegisteredTest(strip(f.B), recv, "")) {
						refuse = true
					}
				}
				if !refuse {
					continue
				}
				bad, w := reachFromBlock(reg, s, func(in ssa.Instruction) bool {
					_, up := isUpdate(in)
					return up || isNilErrorReturn(in)
				}, nil)
				r.Ob("M2", shortName(reg), "a refused registration returns an error and updates nothing", p.InstrPos(b.Instrs[len(b.Instrs)-1]), !bad, "on a refusing edge an update or a success return is reachable", witnessPos(p, w)...)
			}
		}
		// no other writers
		for _, fld := range []string{svcF.Interfaces, svcF.Descriptions, svcF.Names} {
			var fns []*ssa.Function
			covered := onlyCalledFrom(cg, map[*ssa.Function]bool{ctor: true, regBuilt: true, reg: true})
			for _, f := range p.FuncsOf(pkgVarlink) {
				// (helpers called from nowhere but construction and registration are part of them: their updates are
				// judged above, in the view)
				if f != ctor && f != reg && f != regBuilt && !covered[f] {
					fns = append(fns, f)
				}
			}
			for _, a := range fieldAccesses(fns, ro.ServiceT) {
				if a.Field == fld && a.Write {
					r.Ob("M2", shortName(a.Fn), "Service."+fld+" written only by registration and construction", a.Instr.Pos(), false, "another function modifies the registration tables")
				}
			}
		}
	})
	// ---- M3
	r.Guard("M3", func() {
		bname, _ := builtinDescription(p, T)
		r.Ob("M3", shortName(ctor), "NewService registers the built-in interface named org.varlink.service", ctor.Pos(), bname == "org.varlink.service", "built-in interface registers as "+bname)
		var regCall ssa.Instruction
		for _, cs := range callsNamed(ctor, false, "varlink.Service.RegisterInterface") {
			regCall = cs.Instr
		}
		ok := false
		if regCall != nil {
			ok, _ = everyPathPasses(ctor, nil, isReturn, func(in ssa.Instruction) bool { return in == regCall })
		}
		r.Ob("M3", shortName(ctor), "the built-in interface is registered on every path before the Service is returned", ctor.Pos(), ok, "")
		// names starts empty: no store to names in the constructor literal
		var svc *ssa.Alloc
		// (in the constructor's view: the tables may be made by a helper, `registry: newRegistry()`)
		ctorV := p.Inlined(ctor, func(c *ssa.Function) bool { return c == reg })
		for _, b := range ctorV.Blocks {
			for _, in := range b.Instrs {
				if a, ok := in.(*ssa.Alloc); ok && isNamed(a.Type(), pkgVarlink, "Service") {
					svc = a
				}
			}
		}
		if svc != nil {
			fs := fieldStores(svc)
			empty := true
			for _, v := range fs[svcF.Names] {
				if c, isC := v.(*ssa.Const); !isC || !c.IsNil() {
					empty = false
				}
			}
			maps := len(fs[svcF.Interfaces]) == 1 && len(fs[svcF.Descriptions]) == 1
			for _, f := range []string{svcF.Interfaces, svcF.Descriptions} {
				for _, v := range fs[f] {
					if _, ok := v.(*ssa.MakeMap); !ok {
						maps = false
					}
				}
			}
			r.Ob("M3", shortName(ctor), "the Service starts with empty tables (org.varlink.service is first, once)", svc.Pos(), empty && maps, fmt.Sprintf("names preset: %v, maps freshly made: %v", !empty, maps))
		}
	})
	// ---- M4
	r.Guard("M4", func() {
		// the handler: the innermost function returning an error whose inlined view looks the name up in the description
		// table (the lookup itself may be an accessor of the table's owner, `s.registry.description(name)`)
		var h *ssa.Function
		cands := map[*ssa.Function]*ssa.Function{}
		for _, f := range p.FuncsOf(pkgVarlink) {
			res := f.Signature.Results()
			if f == reg || f.Parent() != nil || res.Len() == 0 || !isErrorType(res.At(res.Len()-1).Type()) {
				continue
			}
			// (the replies stay calls)
			v := p.Inlined(f, func(c *ssa.Function) bool {
				return c.Signature.Recv() != nil && isNamed(c.Signature.Recv().Type(), pkgVarlink, "Call") && c.Object() != nil && c.Object().Exported()
			})
			for _, b := range v.Blocks {
				for _, in := range b.Instrs {
					if lk, ok := in.(*ssa.Lookup); ok && strings.HasSuffix(strip(T.T(lk.X)), "."+svcF.Descriptions) {
						cands[f] = v
					}
				}
			}
		}
		for f, v := range cands {
			inner := true
			for g := range cg.Reach([]*ssa.Function{f}, false) {
				if g != f && cands[g] != nil {
					inner = false
				}
			}
			if inner && (h == nil || v.Pos() < h.Pos()) {
				h = v
			}
		}
		if h == nil {
			r.Unresolved("M4", "handler that looks up Service.descriptions")
			return
		}
		// the lookup and its key (the handler's name parameter, or the decoded request member when the handler is
		// written inside the dispatcher); governed are the returns after the lookup and those decided by the key
		var lkI *ssa.Lookup
		for _, b := range h.Blocks {
			for _, in := range b.Instrs {
				if x, ok := in.(*ssa.Lookup); ok && strings.HasSuffix(strip(T.T(x.X)), "."+svcF.Descriptions) {
					lkI = x
				}
			}
		}
		lk := strip(T.T(lkI))
		keyT := strip(T.T(lkI.Index))
		after := map[*ssa.BasicBlock]bool{lkI.Block(): true}
		for work := []*ssa.BasicBlock{lkI.Block()}; len(work) > 0; {
			b := work[len(work)-1]
			work = work[:len(work)-1]
			for _, sc := range b.Succs {
				if !after[sc] {
					after[sc] = true
					work = append(work, sc)
				}
			}
		}
		n := 0
		srvOutView := ""
		for _, rv := range returnedValues(h, 0) {
			c, ok := rv.Val.(*ssa.Call)
			if !ok {
				continue
			}
			fs := T.FactsAt(rv.Ret.Block())
			governed := after[rv.Ret.Block()]
			for _, f := range fs {
				if strings.Contains(strip(f.A), keyT) || strings.Contains(strip(f.B), keyT) {
					governed = true
				}
			}
			if !governed {
				continue // another method of the built-in interface, or a request that could not be decoded
			}
			n++
			found := false
			for _, f := range fs {
				if f.Op == "EQ" && (f.A == "const:true" && strip(f.B) == "ext("+lk+",1)" || f.B == "const:true" && strip(f.A) == "ext("+lk+",1)") {
					found = true
				}
			}
			name := calleeName(&c.Call)
			if found {
				okArg := false
				for _, a := range c.Call.Args {
					if strip(T.T(a)) == "ext("+lk+",0)" {
						okArg = true
					}
					// the reply struct, filled here or by an (inlined) reply builder: its one member is the text
					if al := unwrapAlloc(a); al != nil {
						if st := derefStruct(al.Type()); st != nil && st.NumFields() == 1 {
							if vals := fieldStores(al)[st.Field(0).Name()]; len(vals) == 1 && strip(T.T(vals[0])) == "ext("+lk+",0)" {
								okArg = true
								srvOutView = jsonKey(st, 0)
							}
						}
					}
				}
				r.Ob("M4", shortName(h), "a registered name is answered with descriptions[name] unchanged", rv.Ret.Pos(), okArg && name != "varlink.Call.ReplyInvalidParameter", "reply is "+strip(T.T(c)))
			} else {
				okk := name == "varlink.Call.ReplyInvalidParameter" && len(c.Call.Args) == 3 && T.T(c.Call.Args[2]) == `const:"interface"`
				r.Ob("M4", shortName(h), "any other name is answered InvalidParameter(\"interface\")", rv.Ret.Pos(), okk, "reply is "+strip(T.T(c)))
			}
		}
		if n < 2 {
			r.Unresolved("M4", "found/not-found replies")
		}
		// the description reply builder and the client agree on keys
		cl := p.Func(pkgVarlink, "Connection.GetInterfaceDescription")
		if cl == nil {
			r.Unresolved("M4", "Connection.GetInterfaceDescription")
			return
		}
		var reqKey, repKey string
		for _, cs := range callsNamed(cl, false, "varlink.Connection.Call") {
			a := cs.Common.Args
			if mi, ok := a[3].(*ssa.MakeInterface); ok {
				if st := derefStruct(mi.X.Type()); st != nil && st.NumFields() == 1 {
					reqKey = jsonKey(st, 0)
				}
			}
			if al := unwrapAlloc(a[4]); al != nil {
				if st := derefStruct(al.Type()); st != nil && st.NumFields() == 1 {
					repKey = jsonKey(st, 0)
				}
			}
			r.Ob("M4", shortName(cl), "client calls org.varlink.service.GetInterfaceDescription", cs.Instr.Pos(), T.T(a[2]) == `const:"org.varlink.service.GetInterfaceDescription"`, "method is "+T.T(a[2]))
		}
		// service-side structs
		var srvIn, srvOut string
		if d := builtinDispatcherOf(p, ro); d != nil {
			// the request struct: a one-member struct variable of the built-in dispatcher (or a helper of it) that is
			// handed, as an interface value, to a repository function that decodes into it
			decodes := func(t *ssa.Function) bool {
				if t == nil {
					return false
				}
				for g := range cg.Reach([]*ssa.Function{t}, true) {
					for _, cs := range callsIn(g, false) {
						if calleeName(cs.Common) == "json.Unmarshal" {
							return true
						}
					}
				}
				return false
			}
			for g := range cg.Reach([]*ssa.Function{d}, true) {
				if fnPkgPath(g) != pkgVarlink {
					continue
				}
				for _, b := range g.Blocks {
					for _, in := range b.Instrs {
						a, ok := in.(*ssa.Alloc)
						if !ok {
							continue
						}
						st := derefStruct(a.Type())
						if st == nil || st.NumFields() != 1 {
							continue
						}
						for _, ref := range *a.Referrers() {
							mi, ok := ref.(*ssa.MakeInterface)
							if !ok {
								continue
							}
							for _, r2 := range *mi.Referrers() {
								if c, ok := r2.(*ssa.Call); ok && decodes(staticTarget(&c.Call)) {
									srvIn = jsonKey(st, 0)
								}
							}
						}
					}
				}
			}
		}
		for _, f := range p.FuncsOf(pkgVarlink) {
			if !isNamedRecvOrParam(f, "Call") {
				continue
			}
			for _, b := range f.Blocks {
				for _, in := range b.Instrs {
					if a, ok := in.(*ssa.Alloc); ok {
						if st := derefStruct(a.Type()); st != nil && st.NumFields() == 1 && len(fieldStores(a)) == 1 {
							if vals := fieldStores(a)[st.Field(0).Name()]; len(vals) == 1 {
								if _, isP := vals[0].(*ssa.Parameter); isP && strings.EqualFold(jsonKey(st, 0), "description") {
									srvOut = jsonKey(st, 0)
								}
							}
						}
					}
				}
			}
		}
		if srvOutView != "" {
			srvOut = srvOutView // the key of the struct the handler was seen to reply with
		}
		r.Ob("M4", shortName(cl), "request key agrees between client and built-in handler (`interface`)", cl.Pos(), reqKey == "interface" && srvIn == reqKey, fmt.Sprintf("client sends %q, handler reads %q", reqKey, srvIn))
		r.Ob("M4", shortName(cl), "reply key agrees between built-in handler and client (`description`)", cl.Pos(), repKey == "description" && srvOut == repKey, fmt.Sprintf("handler sends %q, client reads %q", srvOut, repKey))
	})
	_ = types.Typ
}

// appendedElems: the element terms of a variadic slice literal passed to append.
func appendedElems(T *Terms, v ssa.Value) []string {
	sl, ok := v.(*ssa.Slice)
	if !ok {
		return nil
	}
	arr, ok := sl.X.(*ssa.Alloc)
	if !ok {
		return nil
	}
	var out []string
	for _, ref := range *arr.Referrers() {
		if ia, ok := ref.(*ssa.IndexAddr); ok {
			for _, r2 := range *ia.Referrers() {
				if st, ok := r2.(*ssa.Store); ok {
					out = append(out, strip(T.T(st.Val)))
				}
			}
		}
	}
	return out
}

func builtinDispatcherOf(p *Prog, ro *Roles) *ssa.Function {
	entry := dispatchView(p, ro)
	if entry == nil {
		return nil
	}
	for _, cs := range callsIn(entry, false) {
		c, ok := cs.Instr.(*ssa.Call)
		if !ok {
			continue
		}
		t := staticTarget(cs.Common)
		if t == nil || !p.InRepo(t) {
			continue
		}
		for _, f := range ro.T.FactsAt(c.Block()) {
			if f.Op == "EQ" && strings.HasPrefix(f.A, `const:"`) && strings.HasPrefix(strip(f.B), "slice(") {
				return t
			}
		}
	}
	return nil
}

// testsAtomicWithUpdate: the loads of <recv>.running and of the lookup in <recv>.interfaces that guard `update` are
// executed in reg itself with the mutex held, and no Unlock lies on any path from them to the update.
func testsAtomicWithUpdate(p *Prog, T *Terms, ls *LockSets, reg *ssa.Function, update ssa.Instruction, recv string) (bool, string) {
	if ls == nil {
		return false, "no lock-set information"
	}
	if len(ls.At[update]) == 0 {
		return false, "the update is performed without the mutex"
	}
	var tests []ssa.Instruction
	for _, b := range reg.Blocks {
		for _, in := range b.Instrs {
			switch x := in.(type) {
			case *ssa.UnOp:
				if t := strip(T.T(x)); strings.HasPrefix(t, "param:"+recv+".") && strings.HasSuffix(t, "."+svcF.Running) {
					tests = append(tests, in)
				}
			case *ssa.Lookup:
				if t := strip(T.T(x.X)); (t == "param:"+recv+"."+svcF.Interfaces || svcTerm(t, recv, svcF.Interfaces)) && x.CommaOk {
					tests = append(tests, in)
				}
			}
		}
	}
	seenRunning, seenLookup := false, false
	for _, t := range tests {
		if _, isL := t.(*ssa.Lookup); isL {
			seenLookup = true
		} else {
			seenRunning = true
		}
		if len(ls.At[t]) == 0 {
			return false, "a guarding test at " + p.Pos(t.Pos()) + " reads shared state without the mutex"
		}
		released, w := reachInstr(reg, t, func(i ssa.Instruction) bool { return i == update }, nil, nil)
		if !released {
			continue
		}
		// is there a path from the test to the update that passes an Unlock?
		viaUnlock := false
		for _, b := range reg.Blocks {
			for _, in := range b.Instrs {
				c, ok := in.(*ssa.Call)
				if !ok {
					continue
				}
				if _, d := lockOp(&c.Call); d < 0 {
					r1, _ := reachInstr(reg, t, func(i ssa.Instruction) bool { return i == in }, nil, nil)
					r2, _ := reachInstr(reg, in, func(i ssa.Instruction) bool { return i == update }, nil, nil)
					if r1 && r2 {
						viaUnlock = true
					}
				}
			}
		}
		_ = w
		if viaUnlock {
			return false, "the mutex can be released between the test at " + p.Pos(t.Pos()) + " and the update: a serving call can start (or another registration happen) in between"
		}
	}
	if !seenRunning {
		return false, "the running flag is not read in the registration function itself under the mutex (a getter releases the lock before the update): check-then-act"
	}
	if !seenLookup {
		return false, "the duplicate lookup is not performed in the registration function itself"
	}
	return true, "tests and update under one continuous hold of the mutex"
}

// svcTerm: t denotes member fld of the Service parameter recv, directly or inside a state struct it holds by value
// (`param:s.registry.names`).
func svcTerm(t, recv, fld string) bool {
	rest, ok := strings.CutPrefix(t, "param:"+recv+".")
	if !ok || fld == "" {
		return false
	}
	if rest == fld {
		return true
	}
	path, ok := strings.CutSuffix(rest, "."+fld)
	if !ok {
		return false
	}
	for _, seg := range strings.Split(path, ".") {
		if seg == "" || strings.ContainsAny(seg, "(), ") {
			return false
		}
	}
	return true
}

// isRegisteredTest: o is the ok-result of looking the key up in the Service's interface table
// (`ext(lookup(param:s[.path].interfaces,<key>),1)`); an empty key matches any key.
func isRegisteredTest(o, recv, key string) bool {
	rest, ok := strings.CutPrefix(o, "ext(lookup(")
	if !ok {
		return false
	}
	i := strings.Index(rest, ",")
	if i < 0 || !svcTerm(rest[:i], recv, svcF.Interfaces) {
		return false
	}
	if key == "" {
		return strings.HasSuffix(rest, "),1)")
	}
	return strings.HasPrefix(rest[i+1:], key+"),1)")
}

// onlyCalledFrom: the functions all of whose call sites lie in the given functions or in functions that are themselves
// only called from there (helpers private to those functions).
func onlyCalledFrom(cg *CallGraph, roots map[*ssa.Function]bool) map[*ssa.Function]bool {
	out := map[*ssa.Function]bool{}
	for changed := true; changed; {
		changed = false
		for f, callers := range cg.Callers {
			if out[f] || roots[f] || len(callers) == 0 {
				continue
			}
			all := true
			for _, cs := range callers {
				if !roots[cs.Fn] && !out[cs.Fn] {
					all = false
					break
				}
			}
			if all {
				out[f] = true
				changed = true
			}
		}
	}
	return out
}
