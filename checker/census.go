package main

// Panic-site census (C10.S5, C11.N6, C19.A3 style): every instruction of the given functions that can panic is
// an obligation that must be discharged by a dominating fact or a named library lemma.

import (
	"fmt"
	"go/token"
	"go/types"
	"strings"

	"golang.org/x/tools/go/ssa"
)

// wireStructs: struct types that are targets of json.Unmarshal in package varlink (their pointer members may be nil).
func wireStructs(p *Prog) map[*types.Struct]bool {
	out := map[*types.Struct]bool{}
	for _, f := range p.FuncsOf(pkgVarlink) {
		for _, d := range decodeSites(f) {
			if st := derefStruct(d.Target.Type()); st != nil {
				out[st] = true
			}
		}
	}
	return out
}

// optional hooks for a package-specific census (set and reset by the caller)
var censusSkip func(ssa.Instruction) bool
var censusRange func(ssa.Value) (int, int, bool)

// censusNil (set and reset by the caller): also count dereferences of pointers that may be nil - the result of a
// repository function, a merged value, a pointer loaded from memory - as panic sites.
var censusNil bool

// nonNilResultWhenOK: every return of g whose error result is the constant nil has a result #0 that cannot be nil
// (a fresh allocation, the address of something): `(node, nil)` or `(nil, err)`.
func nonNilResultWhenOK(g *ssa.Function) bool {
	if g == nil || len(g.Blocks) == 0 || g.Signature.Results().Len() != 2 {
		return false
	}
	n := 0
	for _, b := range g.Blocks {
		ret, ok := b.Instrs[len(b.Instrs)-1].(*ssa.Return)
		if !ok || len(ret.Results) != 2 {
			continue
		}
		n++
		if k, isK := ret.Results[1].(*ssa.Const); !isK || !k.IsNil() {
			continue // an error return
		}
		if !definitelyNonNil(ret.Results[0], 0) {
			return false
		}
	}
	return n > 0
}

// definitelyNonNil: v is an address or a fresh object whatever the path.
func definitelyNonNil(v ssa.Value, depth int) bool {
	switch x := v.(type) {
	case *ssa.Alloc, *ssa.FieldAddr, *ssa.IndexAddr, *ssa.Global, *ssa.MakeMap, *ssa.MakeSlice, *ssa.MakeChan, *ssa.MakeClosure, *ssa.MakeInterface, *ssa.Function:
		return true
	case *ssa.Phi:
		if depth > 3 {
			return false
		}
		for _, e := range x.Edges {
			if !definitelyNonNil(e, depth+1) {
				return false
			}
		}
		return len(x.Edges) > 0
	case *ssa.ChangeType:
		return definitelyNonNil(x.X, depth+1)
	}
	return false
}

// derefDischarged: the pointer base dereferenced in block b cannot be nil there.
func derefDischarged(T *Terms, b *ssa.BasicBlock, base ssa.Value) (bool, string) {
	if definitelyNonNil(base, 0) {
		return true, "address or fresh object"
	}
	switch x := base.(type) {
	case *ssa.Parameter, *ssa.FreeVar:
		return true, "parameter (callers pass the receiver / an object they own)"
	case *ssa.Const:
		if x.IsNil() {
			return false, "the pointer is the constant nil"
		}
	}
	fs := T.FactsAt(b)
	bt := T.T(base)
	if hasFact(fs, "NE", bt, "nil") {
		return true, "dominating test against nil"
	}
	// (node, nil) or (nil, err): the node of a call whose error is known nil
	if ex, ok := base.(*ssa.Extract); ok && ex.Index == 0 {
		if c, ok := ex.Tuple.(*ssa.Call); ok {
			if g := c.Call.StaticCallee(); g != nil && nonNilResultWhenOK(g) && hasFact(fs, "EQ", "ext("+T.T(c)+",1)", "nil") {
				return true, "result of " + g.Name() + " under err == nil (its success returns carry a fresh object)"
			}
		}
	}
	// a merged value: every alternative must be discharged on its own
	if ph, ok := base.(*ssa.Phi); ok {
		all := len(ph.Edges) > 0
		for _, e := range ph.Edges {
			if k, isK := e.(*ssa.Const); isK && k.IsNil() {
				all = false
			} else if !definitelyNonNil(e, 0) {
				if ok2, _ := derefDischarged(T, b, e); !ok2 {
					all = false
				}
			}
		}
		if all {
			return true, "every merged alternative is non-nil"
		}
	}
	return false, "the pointer " + strip(bt) + " may be nil here (no dominating nil test, not a fresh object)"
}

func panicCensus(r *Run, p *Prog, T *Terms, rule string, fns0 map[*ssa.Function]bool) int {
	n := 0
	wires := wireStructs(p)
	fns := censusViews(p, fns0)
	for f := range fns {
		if !p.InRepo(origFn(f)) || f.Blocks == nil {
			continue
		}
		fn := shortName(f)
		for _, b := range f.Blocks {
			if b == f.Recover {
				continue
			}
			for _, in := range b.Instrs {
				if censusSkip != nil && censusSkip(in) {
					continue
				}
				switch x := in.(type) {
				case *ssa.Slice:
					if x.Low == nil && x.High == nil && x.Max == nil {
						continue
					}
					n++
					ok, why := sliceInRange(T, b, x)
					r.Ob(rule, fn, "slice "+strip(T.T(x)), x.Pos(), ok, why)
				case *ssa.IndexAddr, *ssa.Index:
					var xv, idx ssa.Value
					if ia, ok := x.(*ssa.IndexAddr); ok {
						xv, idx = ia.X, ia.Index
					} else {
						xv, idx = x.(*ssa.Index).X, x.(*ssa.Index).Index
					}
					t := xv.Type().Underlying()
					if pt, ok := t.(*types.Pointer); ok {
						t = pt.Elem().Underlying()
					}
					if at, ok := t.(*types.Array); ok {
						if k, ok := idx.(*ssa.Const); ok && k.Int64() >= 0 && k.Int64() < at.Len() {
							continue
						}
					}
					n++
					ok, why := indexInRange(T, b, xv, idx)
					r.Ob(rule, fn, "index "+strip(T.T(idx))+" of "+strip(T.T(xv)), in.Pos(), ok, why)
				case *ssa.TypeAssert:
					if x.CommaOk {
						continue
					}
					n++
					ok, why := assertDischarged(p, T, x)
					r.Ob(rule, fn, "type assertion "+strip(T.T(x)), x.Pos(), ok, why)
				case *ssa.Panic:
					n++
					if mi, ok := x.X.(*ssa.MakeInterface); ok {
						if k, ok := mi.X.(*ssa.Const); ok && strings.HasPrefix(constTerm(k), `const:"blocking select matched no case`) {
							r.Ob(rule, fn, "select fall-through", p.InstrPos(x), true, "synthetic: a blocking select always takes one of its cases")
							continue
						}
					}
					r.Ob(rule, fn, "explicit panic", p.InstrPos(x), false, "an explicit panic is reachable on this path")
				case *ssa.BinOp:
					if (x.Op == token.QUO || x.Op == token.REM) && isIntType(x.X.Type()) {
						n++
						lo, hi := intervalOf(T.FactsAt(b), T.T(x.Y))
						k, isK := x.Y.(*ssa.Const)
						ok := (isK && k.Int64() != 0) || lo > 0 || hi < 0
						r.Ob(rule, fn, "integer division by "+strip(T.T(x.Y)), x.Pos(), ok, "divisor not known to be non-zero")
					}
				case *ssa.FieldAddr:
					if !censusNil {
						continue
					}
					if definitelyNonNil(x.X, 0) {
						continue
					}
					if _, isPar := x.X.(*ssa.Parameter); isPar {
						continue
					}
					if _, isFV := x.X.(*ssa.FreeVar); isFV {
						continue
					}
					n++
					ok, why := derefDischarged(T, b, x.X)
					r.Ob(rule, fn, "member access ."+fieldName(x.X, x.Field)+" through "+strip(T.T(x.X)), x.Pos(), ok, why)
				case *ssa.UnOp:
					if x.Op != token.MUL {
						continue
					}
					// dereference of a pointer loaded from a member of a decoded wire struct (may be absent => nil)
					ld, ok := x.X.(*ssa.UnOp)
					if !ok || ld.Op != token.MUL {
						continue
					}
					fa, ok := ld.X.(*ssa.FieldAddr)
					if !ok {
						continue
					}
					st := derefStruct(fa.X.Type())
					if st == nil || !wires[st] {
						continue
					}
					if _, isPtr := ld.Type().Underlying().(*types.Pointer); !isPtr {
						continue
					}
					n++
					pt := T.T(ld)
					ok2 := hasFact(T.FactsAt(b), "NE", pt, "nil")
					r.Ob(rule, fn, "dereference of optional wire member "+strip(pt), x.Pos(), ok2,
						"a pointer member of a decoded message is dereferenced without a dominating nil test: a frame that omits the member crashes the process")
				}
			}
		}
	}
	return n
}

func isIntType(t types.Type) bool {
	b, ok := t.Underlying().(*types.Basic)
	return ok && b.Info()&types.IsInteger != 0
}

// sliceInRange discharges x[lo:hi].
func sliceInRange(T *Terms, b *ssa.BasicBlock, x *ssa.Slice) (bool, string) {
	fs := T.FactsAt(b)
	xt := strip(T.T(x.X))
	check := func(v ssa.Value, isHigh bool) (bool, string) {
		if v == nil {
			return true, ""
		}
		vt := strip(T.T(v))
		if k, ok := v.(*ssa.Const); ok && k.Int64() == 0 {
			return true, ""
		}
		// len(X) - 1 on the result of a delimiter read that succeeded (bufio contract: result ends in the delimiter)
		if vt == "(call:len("+xt+") - const:1)" {
			if strings.HasPrefix(xt, "ext(call:") && strings.Contains(xt, "ReadBytes(") && strings.HasSuffix(xt, ",0)") {
				errT := strings.TrimSuffix(xt, ",0)") + ",1)"
				for _, f := range fs {
					if f.Op == "EQ" && (strip(f.A) == errT && f.B == "nil" || strip(f.B) == errT && f.A == "nil") {
						return true, "len-1 of a successful delimiter read (non-empty by the bufio.Reader.ReadBytes contract)"
					}
				}
				return false, "len-1 of a delimiter read whose error is not known to be nil here (an empty result makes the bound -1)"
			}
			lo, _ := intervalOf(fs, "call:len("+xt+")")
			if lo >= 1 {
				return true, "len >= 1 known"
			}
			return false, "len(x)-1 without knowing that x is non-empty"
		}
		// R or R+1 with R = LastIndex/Index(X, sep) of the same string
		for _, fn := range []string{"strings.LastIndex", "strings.Index", "strings.IndexByte"} {
			rT := "call:" + fn + "(" + xt + ","
			if strings.HasPrefix(vt, rT) {
				lo, _ := intervalOf(fs, vt)
				if lo >= 0 {
					return true, "index of a separator inside the same string, known >= 0"
				}
				return false, "separator index may be -1 here"
			}
			if strings.HasPrefix(vt, "("+rT) && strings.HasSuffix(vt, " + const:1)") {
				inner := strings.TrimSuffix(strings.TrimPrefix(vt, "("), " + const:1)")
				lo, _ := intervalOf(fs, inner)
				if lo >= -1 {
					return true, "separator index + 1 (<= len by the strings contract)"
				}
				return true, "separator index + 1 is within [0,len] for every result of " + fn
			}
		}
		// constant bound against a known minimum length
		if k, ok := v.(*ssa.Const); ok {
			lo, _ := intervalOf(fs, "call:len("+xt+")")
			if lo >= int(k.Int64()) {
				return true, "constant bound within known length"
			}
		}
		// i with fact i <= len(x)
		for _, f := range fs {
			if (f.Op == "LE" || f.Op == "LT") && strip(f.A) == vt && strip(f.B) == "call:len("+xt+")" {
				lo, _ := intervalOf(fs, vt)
				if lo >= 0 {
					return true, "bound within [0,len] by dominating comparisons"
				}
			}
		}
		return false, "bound " + vt + " is not known to lie within [0,len(" + xt + ")]"
	}
	if _, isArr := x.X.Type().Underlying().(*types.Pointer); isArr && x.Low == nil && x.High == nil {
		return true, "full slice of an array"
	}
	ok1, w1 := check(x.Low, false)
	ok2, w2 := check(x.High, true)
	if ok1 && ok2 {
		return true, strings.TrimSpace(w1 + " " + w2)
	}
	return false, strings.TrimSpace(ifs(!ok1, w1, "") + " " + ifs(!ok2, w2, ""))
}

// assertDischarged: single-result type assertion x.(T): discharged if a dominating comma-ok assertion or type switch
// established it, or if every value stored into the asserted location (struct member, one call level of context) has
// that dynamic type.
func assertDischarged(p *Prog, T *Terms, x *ssa.TypeAssert) (bool, string) {
	// x.(I) with I the operand's own interface type: how a method value of an interface (`set := conn.SetDeadline`) is
	// evaluated - it fails only for a nil interface, exactly as the method call itself would
	if _, isIface := x.AssertedType.Underlying().(*types.Interface); isIface && types.Identical(x.AssertedType, x.X.Type()) {
		return true, "assertion to the operand's own interface type (evaluation of a method value): fails only where calling the method would"
	}
	// asserted operand is a load of a struct member: look at all stores to that member in the package
	if ld, ok := x.X.(*ssa.UnOp); ok && ld.Op == token.MUL {
		if fa, ok := ld.X.(*ssa.FieldAddr); ok {
			st := derefStruct(fa.X.Type())
			var named *types.Named
			if pt, ok := fa.X.Type().Underlying().(*types.Pointer); ok {
				named, _ = pt.Elem().(*types.Named)
			}
			// context of the repo callers: the asserted member of the receiver/parameter, per call site
			if prm, isParam := fa.X.(*ssa.Parameter); isParam && st != nil {
				f := x.Parent()
				idx := -1
				for i, q := range f.Params {
					if q == prm {
						idx = i
					}
				}
				sites := 0
				okAll := true
				var bad []string
				for _, g := range p.Funcs {
					for _, cs := range callsIn(g, false) {
						if cs.Common.StaticCallee() != origFn(f) || idx >= len(cs.Common.Args) {
							continue
						}
						sites++
						a := unwrapAlloc(cs.Common.Args[idx])
						if a == nil {
							okAll = false
							bad = append(bad, p.Pos(cs.Instr.Pos())+": receiver is not a local literal")
							continue
						}
						vals := fieldStores(a)[st.Field(fa.Field).Name()]
						for _, v := range vals {
							if d := dynType(v); d == nil || !types.Identical(d, x.AssertedType) {
								okAll = false
								bad = append(bad, p.Pos(cs.Instr.Pos())+": member holds "+typeStr(d))
							}
						}
						if len(vals) == 0 {
							okAll = false
							bad = append(bad, p.Pos(cs.Instr.Pos())+": member not set (nil interface)")
						}
					}
				}
				if sites > 0 && okAll {
					return true, fmt.Sprintf("in the context of every repository call site (%d) the member was built from %s; calls by users on other values are outside the analysed program", sites, typeStr(x.AssertedType))
				}
				if sites > 0 {
					return false, "a repository call site passes a value whose member has another dynamic type: " + strings.Join(bad, "; ")
				}
			}
			if st != nil && named != nil {
				var bad []string
				nst := 0
				for _, f := range p.Funcs {
					for _, b := range f.Blocks {
						for _, in := range b.Instrs {
							s, ok := in.(*ssa.Store)
							if !ok {
								continue
							}
							fa2, ok := s.Addr.(*ssa.FieldAddr)
							if !ok || fa2.Field != fa.Field {
								continue
							}
							pt2, ok := fa2.X.Type().Underlying().(*types.Pointer)
							if !ok || !types.Identical(pt2.Elem(), named) {
								continue
							}
							nst++
							dyn := dynType(s.Val)
							if dyn == nil || !types.Identical(dyn, x.AssertedType) {
								bad = append(bad, fmt.Sprintf("%s stores %s", p.Pos(s.Pos()), typeStr(dyn)))
							}
						}
					}
				}
				if nst > 0 && len(bad) == 0 {
					return true, fmt.Sprintf("every store to %s.%s in the repository has dynamic type %s (%d store sites); values built by users of the exported type are outside the analysed program", named.Obj().Name(), st.Field(fa.Field).Name(), typeStr(x.AssertedType), nst)
				}
				return false, "the member can hold a value of another dynamic type: " + strings.Join(bad, "; ")
			}
		}
	}
	if dyn := dynType(x.X); dyn != nil && types.Identical(dyn, x.AssertedType) {
		return true, "operand was made from that type"
	}
	// interface-to-interface assertion on an error returned by the net package (net.Error): library contract
	if isNamed(x.AssertedType, "net", "Error") {
		if strings.Contains(strip(T.T(x.X)), "invoke:Accept(") {
			return true, "errors returned by net.Listener.Accept implement net.Error (net package contract for its own listeners)"
		}
	}
	return false, "nothing establishes the dynamic type of " + strip(T.T(x.X))
}

func dynType(v ssa.Value) types.Type {
	switch x := v.(type) {
	case *ssa.MakeInterface:
		return x.X.Type()
	case *ssa.ChangeInterface:
		return dynType(x.X)
	case *ssa.Phi:
		var t types.Type
		for _, e := range x.Edges {
			d := dynType(e)
			if d == nil || (t != nil && !types.Identical(t, d)) {
				return nil
			}
			t = d
		}
		return t
	}
	if _, isIface := v.Type().Underlying().(*types.Interface); !isIface {
		return v.Type()
	}
	return nil
}

func typeStr(t types.Type) string {
	if t == nil {
		return "an unknown dynamic type"
	}
	return types.TypeString(t, shortQual)
}

// censusViews: the functions the census looks at. A small unexported helper whose every use is a static call from a
// function of the set (`func (f frame) payload() []byte { return f[:len(f)-1] }`) is looked at where it is called: the
// callers are replaced by their inlined views with these helpers inlined (inline.go), and the helper's own body is
// dropped - its sites appear, at their source positions, in every caller, with the caller's facts (e.g. "the read
// succeeded, so the frame is not empty"). Everything else is analysed as built.
func censusViews(p *Prog, fns map[*ssa.Function]bool) map[*ssa.Function]bool {
	cg := BuildCallGraph(p)
	usedAsValue := map[*ssa.Function]bool{}
	for _, f := range p.Funcs {
		for _, b := range f.Blocks {
			for _, in := range b.Instrs {
				var callee ssa.Value
				if ci, ok := in.(ssa.CallInstruction); ok && !ci.Common().IsInvoke() {
					callee = ci.Common().Value
				}
				for _, op := range in.Operands(nil) {
					if g, ok := (*op).(*ssa.Function); ok && *op != callee {
						usedAsValue[g] = true
					}
					if mc, ok := (*op).(*ssa.MakeClosure); ok && *op != callee {
						if g, ok := mc.Fn.(*ssa.Function); ok && g.Synthetic != "" {
							// bound method value: the method is used as a value
							for _, cs := range callsIn(g, false) {
								if t := cs.Common.StaticCallee(); t != nil {
									usedAsValue[t] = true
								}
							}
						}
					}
				}
			}
		}
	}
	helper := map[*ssa.Function]bool{}
	for g := range fns {
		if g.Parent() != nil || g.Object() == nil || g.Object().Exported() || len(g.Blocks) == 0 || usedAsValue[g] || len(g.AnonFuncs) > 0 {
			continue
		}
		sites := cg.Callers[g]
		if len(sites) == 0 {
			continue
		}
		ok := true
		inScope := 0
		for _, cs := range sites {
			root := cs.Fn
			for root.Parent() != nil {
				root = root.Parent()
			}
			if !(fns[cs.Fn] || fns[root]) {
				continue // a caller outside the scope of this census (e.g. client code for a service-side census)
			}
			inScope++
			if cs.Common.StaticCallee() != g {
				ok = false // dynamic dispatch
			}
			if _, isCall := cs.Instr.(*ssa.Call); !isCall {
				ok = false // go / defer
			}
		}
		// small: straight-line or a couple of branches
		ninstr := 0
		for _, b := range g.Blocks {
			ninstr += len(b.Instrs)
		}
		if ok && inScope > 0 && ninstr <= 40 {
			helper[g] = true
		}
	}
	if len(helper) == 0 {
		return fns
	}
	out := map[*ssa.Function]bool{}
	keep := func(callee *ssa.Function) bool { return !helper[callee] }
	for f := range fns {
		if helper[f] {
			continue
		}
		callsHelper := false
		for _, cs := range callsIn(f, false) {
			if helper[cs.Common.StaticCallee()] {
				callsHelper = true
			}
		}
		if !callsHelper {
			out[f] = true
			continue
		}
		v := p.Inlined(f, keep)
		// every call of a helper must be gone, otherwise the helper is analysed on its own as well
		for _, cs := range callsIn(v, false) {
			if t := cs.Common.StaticCallee(); helper[t] {
				out[t] = true
			}
		}
		out[v] = true
	}
	return out
}
