package main

// E2: term normaliser over go/ssa values.

import (
	"fmt"
	"go/constant"
	"go/token"
	"go/types"
	"regexp"
	"sort"
	"strings"

	"golang.org/x/tools/go/ssa"
)

// pure callees: two calls with equal argument terms denote the same value (for the purposes of the rules).
var pureFuncs = map[string]bool{
	"strings.LastIndex": true, "strings.Index": true, "strings.SplitN": true, "strings.Split": true,
	"strings.HasPrefix": true, "strings.HasSuffix": true, "strings.Title": true, "strings.ToLower": true, "strings.ToUpper": true,
	"strings.Replace": true, "strings.TrimRight": true, "strings.TrimSpace": true, "strings.Contains": true, "strings.Join": true,
	"strconv.Atoi": true, "os.Getenv": true, "os.LookupEnv": true, "os.Getpid": true,
	"len": true, "cap": true,
}

type Terms struct {
	p *Prog
	// FieldWrites: per repo function, the struct members ("Type.field") it may store to, transitively. When set,
	// facts about a loaded member are dropped on paths that may store to a member of that name (or call a function
	// that may) between the test and the point of use: a test of s.f says nothing about s.f after s.f was written.
	FieldWrites map[*ssa.Function]map[string]bool
	memo        map[ssa.Value]string
	phiDepth    int
	busy        map[ssa.Value]bool
	depth       int
	// InlineDepth bounds getter inlining.
	InlineDepth int
	storeCount  map[string]int // stores per "pkg:Type.memberIndex" in the built functions (writeOnceMember)
}

func NewTerms(p *Prog) *Terms {
	return &Terms{p: p, memo: map[ssa.Value]string{}, busy: map[ssa.Value]bool{}, InlineDepth: 3}
}

var reSuffix = regexp.MustCompile(`#[A-Za-z0-9_$~]+`)

// strip removes instruction-identity suffixes so that terms can be compared by shape.
func strip(t string) string { return reSuffix.ReplaceAllString(t, "") }

func constTerm(c *ssa.Const) string {
	if c.Value == nil {
		if _, ok := c.Type().Underlying().(*types.Basic); ok {
			return "const:zero"
		}
		return "nil"
	}
	switch c.Value.Kind() {
	case constant.String:
		return fmt.Sprintf("const:%q", constant.StringVal(c.Value))
	case constant.Bool:
		return fmt.Sprintf("const:%v", constant.BoolVal(c.Value))
	}
	return "const:" + c.Value.ExactString()
}

func calleeName(c *ssa.CallCommon) string {
	if c.IsInvoke() {
		return "invoke:" + c.Method.Name()
	}
	switch v := c.Value.(type) {
	case *ssa.Builtin:
		return v.Name()
	case *ssa.Function:
		return funcFullName(v)
	case *ssa.MakeClosure:
		return "closure:" + shortName(v.Fn.(*ssa.Function))
	}
	return "dynamic"
}

// funcFullName: "strings.LastIndex", "(*sync.Mutex).Lock" -> "sync.Mutex.Lock", repo: "varlink.Call.Reply".
func funcFullName(f *ssa.Function) string {
	if f == nil {
		return "<nil>"
	}
	if f.Parent() != nil {
		return funcFullName(f.Parent()) + strings.TrimPrefix(f.Name(), f.Parent().Name())
	}
	pk := ""
	if f.Pkg != nil {
		pk = f.Pkg.Pkg.Name()
	} else if f.Object() != nil && f.Object().Pkg() != nil {
		pk = f.Object().Pkg().Name()
	}
	if recv := f.Signature.Recv(); recv != nil {
		t := recv.Type()
		if pt, ok := t.(*types.Pointer); ok {
			t = pt.Elem()
		}
		if n, ok := t.(*types.Named); ok {
			if n.Obj().Pkg() != nil {
				pk = n.Obj().Pkg().Name()
			}
			return pk + "." + n.Obj().Name() + "." + f.Name()
		}
	}
	return pk + "." + f.Name()
}

func fieldName(x ssa.Value, idx int) string {
	t := x.Type().Underlying()
	if pt, ok := t.(*types.Pointer); ok {
		t = pt.Elem().Underlying()
	}
	if st, ok := t.(*types.Struct); ok && idx < st.NumFields() {
		return st.Field(idx).Name()
	}
	return fmt.Sprintf("f%d", idx)
}

// singleStore returns the only value ever stored to alloc (a "spill"), if that is the case and the
// address does not escape other than by loads, field addressing and closure capture.
func singleStore(a *ssa.Alloc) (ssa.Value, bool) {
	var val ssa.Value
	n := 0
	for _, r := range *a.Referrers() {
		switch x := r.(type) {
		case *ssa.Store:
			if x.Addr == ssa.Value(a) {
				n++
				val = x.Val
			}
		}
	}
	if n == 1 {
		return val, true
	}
	return nil, false
}

// T returns the canonical term of v.
func (t *Terms) T(v ssa.Value) string {
	if v == nil {
		return "nil"
	}
	if s, ok := t.memo[v]; ok {
		return s
	}
	if t.busy[v] {
		return "rec#" + v.Name()
	}
	t.busy[v] = true
	s := t.term(v)
	delete(t.busy, v)
	t.memo[v] = s
	return s
}

func (t *Terms) id(v ssa.Value) string {
	if f := v.Parent(); f != nil {
		return "#" + strings.ReplaceAll(shortName(f), ".", "~") + "~" + v.Name()
	}
	return "#" + v.Name()
}

func (t *Terms) term(v ssa.Value) string {
	switch x := v.(type) {
	case *ssa.Const:
		return constTerm(x)
	case *ssa.Parameter:
		return "param:" + x.Name()
	case *ssa.FreeVar:
		// resolve through the (single) MakeClosure that creates the enclosing function
		if b := freeBinding(x); b != nil {
			return t.T(b)
		}
		return "free:" + x.Name()
	case *ssa.Global:
		return "global:" + x.Pkg.Pkg.Name() + "." + x.Name()
	case *ssa.Function:
		return "func:" + funcFullName(x)
	case *ssa.Builtin:
		return "builtin:" + x.Name()
	case *ssa.Alloc:
		return "alloc:" + x.Comment + t.id(x)
	case *ssa.FieldAddr:
		// a by-value struct parameter/receiver is spilled into a local: name the parameter, not the spill
		if a, ok := t.resolveFree(x.X).(*ssa.Alloc); ok {
			if val, ok := singleStore(a); ok {
				if prm, ok := val.(*ssa.Parameter); ok {
					return "&param:" + prm.Name() + "." + fieldName(x.X, x.Field)
				}
			}
		}
		if inner, ok := x.X.(*ssa.FieldAddr); ok {
			// member of a struct held by value in another struct: s.state.running, not (&s.state).running
			if it := t.T(inner); strings.HasPrefix(it, "&") {
				return it + "." + fieldName(x.X, x.Field)
			}
		}
		return "&" + t.T(x.X) + "." + fieldName(x.X, x.Field)
	case *ssa.Field:
		return t.T(x.X) + "." + fieldName(x.X, x.Field)
	case *ssa.IndexAddr:
		return "&index(" + t.T(x.X) + "," + t.T(x.Index) + ")"
	case *ssa.Index:
		return "index(" + t.T(x.X) + "," + t.T(x.Index) + ")"
	case *ssa.UnOp:
		switch x.Op {
		case token.MUL:
			if a, ok := t.resolveFree(x.X).(*ssa.Alloc); ok {
				if val, ok := singleStore(a); ok {
					return t.T(val)
				}
				return "load(" + t.T(a) + ")" + t.id(x)
			}
			// a member of a local object that is assigned exactly once in the whole program - where the object is
			// built, before this load - denotes the assigned value (`g := &generator{idl: x}` ... `g.idl`)
			if fa, ok := x.X.(*ssa.FieldAddr); ok {
				if val := t.writeOnceMember(fa, x); val != nil {
					return t.T(val)
				}
			}
			if g, ok := x.X.(*ssa.Global); ok {
				// a package variable that is only ever assigned by its initialiser denotes the initialiser's value
				if val := t.p.ConstGlobal(g); val != nil {
					return t.T(val)
				}
			}
			at := t.T(x.X)
			if strings.HasPrefix(at, "&") {
				return at[1:]
			}
			return "*(" + at + ")"
		case token.NOT:
			return "!(" + t.T(x.X) + ")"
		case token.ARROW:
			return "recv(" + t.T(x.X) + ")" + t.id(x)
		default:
			return x.Op.String() + "(" + t.T(x.X) + ")"
		}
	case *ssa.BinOp:
		// (a & K) == K for a single-bit constant K is the same value as (a & K) != 0
		if x.Op == token.EQL {
			for _, pr := range [][2]ssa.Value{{x.X, x.Y}, {x.Y, x.X}} {
				and, ok1 := pr[0].(*ssa.BinOp)
				k, ok2 := pr[1].(*ssa.Const)
				if ok1 && ok2 && and.Op == token.AND && k.Value != nil && k.Value.Kind() == constant.Int {
					if mk, ok := and.Y.(*ssa.Const); ok && mk.Value != nil && constant.Compare(mk.Value, token.EQL, k.Value) {
						if n, ok := constant.Int64Val(k.Value); ok && n > 0 && n&(n-1) == 0 {
							return "(" + t.T(and) + " != const:0)"
						}
					}
				}
			}
		}
		return "(" + t.T(x.X) + " " + x.Op.String() + " " + t.T(x.Y) + ")"
	case *ssa.Call:
		return t.callTerm(x, &x.Call)
	case *ssa.Extract:
		// the value half of os.LookupEnv(k) is os.Getenv(k) (both are "" for an unset variable)
		if c, ok := x.Tuple.(*ssa.Call); ok && x.Index == 0 && calleeName(&c.Call) == "os.LookupEnv" && len(c.Call.Args) == 1 {
			return "call:os.Getenv(" + t.T(c.Call.Args[0]) + ")"
		}
		return "ext(" + t.T(x.Tuple) + "," + fmt.Sprint(x.Index) + ")"
	case *ssa.Slice:
		return "slice(" + t.T(x.X) + "," + t.T(x.Low) + "," + t.T(x.High) + ")"
	case *ssa.Lookup:
		s := "lookup(" + t.T(x.X) + "," + t.T(x.Index) + ")"
		return s
	case *ssa.Phi:
		var es []string
		seen := map[string]bool{}
		for _, e := range x.Edges {
			s := t.T(e)
			if !seen[s] {
				seen[s] = true
				es = append(es, s)
			}
		}
		sort.Strings(es)
		return "phi{" + strings.Join(es, "|") + "}" + t.id(x)
	case *ssa.MakeInterface:
		return t.T(x.X)
	case *ssa.ChangeType:
		return t.T(x.X)
	case *ssa.ChangeInterface:
		return t.T(x.X)
	case *ssa.Convert:
		return t.T(x.X)
	case *ssa.TypeAssert:
		return "assert:" + types.TypeString(x.AssertedType, shortQual) + "(" + t.T(x.X) + ")"
	case *ssa.MakeClosure:
		return "closure:" + shortName(x.Fn.(*ssa.Function))
	case *ssa.MakeMap:
		return "makemap" + t.id(x)
	case *ssa.MakeSlice:
		return "makeslice" + t.id(x)
	case *ssa.MakeChan:
		return "makechan(" + t.T(x.Size) + ")" + t.id(x)
	case *ssa.Select:
		return "select" + t.id(x)
	case *ssa.Range:
		return "range(" + t.T(x.X) + ")"
	case *ssa.Next:
		return "next(" + t.T(x.Iter) + ")" + t.id(x)
	}
	return fmt.Sprintf("%T", v) + t.id(v)
}

func shortQual(p *types.Package) string { return p.Name() }

// resolveFree maps a closure's free variable to the value bound to it at the (single) MakeClosure.
// writeOnceMember: fa addresses member i of a local object (an Alloc of a named struct of the repository) and the only
// store to member i of that type in the repository is one store to this object that dominates the load ld; returns the
// stored value (nil otherwise).
func (t *Terms) writeOnceMember(fa *ssa.FieldAddr, ld *ssa.UnOp) ssa.Value {
	al, ok := fa.X.(*ssa.Alloc)
	viaCapture := false
	if !ok {
		// the object is captured (by value) by the function literal the load is in
		if fv, isFV := fa.X.(*ssa.FreeVar); isFV {
			if a2, isA := t.resolveFree(fv).(*ssa.Alloc); isA {
				al, ok, viaCapture = a2, true, true
			}
		}
	}
	if !ok {
		return nil
	}
	named, ok := al.Type().(*types.Pointer).Elem().(*types.Named)
	if !ok || named.Obj().Pkg() == nil || t.p.Pkgs[named.Obj().Pkg().Path()] == nil {
		return nil
	}
	if _, isStruct := named.Underlying().(*types.Struct); !isStruct {
		return nil
	}
	key := fmt.Sprintf("%s.%d", named.Obj().Name(), fa.Field)
	if t.storeCount == nil {
		// count the stores per (type, member) over the built functions once
		t.storeCount = map[string]int{}
		for _, f := range t.p.Funcs {
			for _, b := range f.Blocks {
				for _, in := range b.Instrs {
					st, ok := in.(*ssa.Store)
					if !ok {
						continue
					}
					fa2, ok := st.Addr.(*ssa.FieldAddr)
					if !ok {
						continue
					}
					pt, ok := fa2.X.Type().Underlying().(*types.Pointer)
					if !ok {
						continue
					}
					if n2, ok := pt.Elem().(*types.Named); ok && n2.Obj().Pkg() != nil {
						t.storeCount[fmt.Sprintf("%s:%s.%d", n2.Obj().Pkg().Path(), n2.Obj().Name(), fa2.Field)]++
					}
				}
			}
		}
	}
	if t.storeCount[named.Obj().Pkg().Path()+":"+key] != 1 {
		return nil
	}
	// the one store, in this function, to this object, dominating the load
	var val ssa.Value
	n := 0
	for _, r := range *al.Referrers() {
		fa2, ok := r.(*ssa.FieldAddr)
		if !ok || fa2.Field != fa.Field {
			continue
		}
		for _, r2 := range *fa2.Referrers() {
			if st, ok := r2.(*ssa.Store); ok && st.Addr == ssa.Value(fa2) {
				n++
				if viaCapture {
					// the literal is created after the store: every MakeClosure binding the object is dominated by it
					okAll := true
					for _, r3 := range *al.Referrers() {
						mc, isMC := r3.(*ssa.MakeClosure)
						if !isMC {
							continue
						}
						if !(st.Block() == mc.Block() && instrIndex(st) < instrIndex(mc) || st.Block() != mc.Block() && st.Block().Dominates(mc.Block())) {
							okAll = false
						}
					}
					if okAll {
						val = st.Val
					}
				} else if st.Block() == ld.Block() {
					if instrIndex(st) < instrIndex(ld) {
						val = st.Val
					}
				} else if st.Block().Dominates(ld.Block()) {
					val = st.Val
				}
			}
		}
	}
	if n != 1 {
		return nil
	}
	return val
}

func (t *Terms) resolveFree(v ssa.Value) ssa.Value {
	for i := 0; i < 4; i++ {
		x, ok := v.(*ssa.FreeVar)
		if !ok {
			return v
		}
		b := freeBinding(x)
		if b == nil {
			return v
		}
		v = b
	}
	return v
}

func freeBinding(x *ssa.FreeVar) ssa.Value {
	fn := x.Parent()
	idx := -1
	for i, fv := range fn.FreeVars {
		if fv == x {
			idx = i
		}
	}
	par := fn.Parent()
	if par == nil || idx < 0 {
		return nil
	}
	var found ssa.Value
	n := 0
	for _, b := range par.Blocks {
		for _, in := range b.Instrs {
			if mc, ok := in.(*ssa.MakeClosure); ok && (mc.Fn == fn || origFn(mc.Fn.(*ssa.Function)) == origFn(fn) && par == fn.Parent()) {
				found = mc.Bindings[idx]
				n++
			}
		}
	}
	if n == 1 {
		return found
	}
	return nil
}

func (t *Terms) callTerm(v ssa.Value, c *ssa.CallCommon) string {
	name := calleeName(c)
	var args []string
	if c.IsInvoke() {
		args = append(args, t.T(c.Value))
	}
	for _, a := range c.Args {
		args = append(args, t.T(a))
	}
	// getter inlining: pure static repo callees whose result is a term over their parameters
	if f := c.StaticCallee(); f != nil && t.p.InRepo(f) && t.depth < t.InlineDepth {
		if r, ok := t.inlineGetter(f, c.Args); ok {
			return r
		}
	}
	// byte/rune forms of the strings search functions denote the same value as the string forms:
	// strings.LastIndexByte(x, '.') == strings.LastIndex(x, "."), IndexByte/IndexRune likewise
	switch name {
	case "strings.LastIndexByte", "strings.IndexByte", "strings.IndexRune":
		if len(c.Args) == 2 {
			if k, ok := c.Args[1].(*ssa.Const); ok && k.Value != nil && k.Value.Kind() == constant.Int {
				if n, ok := constant.Int64Val(k.Value); ok && n > 0 && n < 128 {
					name = map[string]string{"strings.LastIndexByte": "strings.LastIndex", "strings.IndexByte": "strings.Index", "strings.IndexRune": "strings.Index"}[name]
					args[1] = fmt.Sprintf("const:%q", string(rune(n)))
				}
			}
		}
	}
	s := "call:" + name + "(" + strings.Join(args, ",") + ")"
	if pureFuncs[name] {
		return s
	}
	return s + t.id(v)
}

// inlineGetter: f has no calls/stores/allocs and a single return of one value -> substitute parameters.
func (t *Terms) inlineGetter(f *ssa.Function, args []ssa.Value) (string, bool) {
	if len(f.Blocks) != 1 || f.Signature.Results().Len() != 1 {
		return "", false
	}
	n := 0
	var ret *ssa.Return
	for _, in := range f.Blocks[0].Instrs {
		n++
		switch x := in.(type) {
		case *ssa.Call, *ssa.Store, *ssa.Go, *ssa.Defer, *ssa.MapUpdate, *ssa.Send, *ssa.Panic:
			return "", false
		case *ssa.Return:
			ret = x
		}
	}
	if n > 15 || ret == nil {
		return "", false
	}
	t.depth++
	defer func() { t.depth-- }()
	sub := NewTerms(t.p)
	sub.depth = t.depth
	sub.InlineDepth = t.InlineDepth
	for i, p := range f.Params {
		if i < len(args) {
			sub.memo[p] = t.T(args[i])
		}
	}
	return sub.T(ret.Results[0]), true
}

// ---------------------------------------------------------------------------
// Facts (E3)

// Fact is a normalised comparison known to hold: Op in {"EQ","NE","LT","LE"}.
type Fact struct {
	Op   string
	A, B string
}

func (f Fact) String() string { return f.Op + "(" + f.A + "," + f.B + ")" }

func negOp(op token.Token) token.Token {
	switch op {
	case token.EQL:
		return token.NEQ
	case token.NEQ:
		return token.EQL
	case token.LSS:
		return token.GEQ
	case token.GEQ:
		return token.LSS
	case token.GTR:
		return token.LEQ
	case token.LEQ:
		return token.GTR
	}
	return op
}

// condFacts turns "cond has truth value pol" into facts.
func (t *Terms) condFacts(cond ssa.Value, pol bool) []Fact {
	switch x := cond.(type) {
	case *ssa.Phi:
		// a condition kept in a local bool: `v := a && b` lowers to phi[false, b]; v being true means the edge that
		// carries the non-constant operand was taken (and so everything known on that edge), plus that operand is true
		if b, ok := x.Type().Underlying().(*types.Basic); ok && b.Kind() == types.Bool && len(x.Edges) >= 2 && t.phiDepth < 3 {
			var live []int
			for i, e := range x.Edges {
				if k, ok := e.(*ssa.Const); ok && k.Value != nil && k.Value.Kind() == constant.Bool && constant.BoolVal(k.Value) != pol {
					continue // this edge yields the opposite truth value
				}
				live = append(live, i)
			}
			if len(live) == 1 {
				i := live[0]
				pred := x.Block().Preds[i]
				t.phiDepth++
				fs := append([]Fact{}, t.FactsAt(pred)...)
				fs = append(fs, t.edgeFactsOn(pred, x.Block())...)
				if _, isConst := x.Edges[i].(*ssa.Const); !isConst {
					fs = append(fs, t.condFacts(x.Edges[i], pol)...)
				}
				t.phiDepth--
				// keep the plain fact about the phi itself as well
				a, bb := t.T(cond), "const:false"
				if pol {
					bb = "const:true"
				}
				if a > bb {
					a, bb = bb, a
				}
				return append(fs, Fact{"EQ", a, bb})
			}
		}
	case *ssa.UnOp:
		if x.Op == token.NOT {
			return t.condFacts(x.X, !pol)
		}
		if x.Op == token.MUL {
			// a condition kept in a variable or in a member that is assigned once (`m.More` of the call being built):
			// what is known is what the assigned comparison says
			if a, ok := t.resolveFree(x.X).(*ssa.Alloc); ok {
				if val, ok := singleStore(a); ok {
					return t.condFacts(val, pol)
				}
			}
			if fa, ok := x.X.(*ssa.FieldAddr); ok {
				if val := t.writeOnceMember(fa, x); val != nil {
					return t.condFacts(val, pol)
				}
			}
		}
	case *ssa.BinOp:
		op := x.Op
		switch op {
		case token.EQL, token.NEQ, token.LSS, token.LEQ, token.GTR, token.GEQ:
		default:
			goto plain
		}
		if !pol {
			op = negOp(op)
		}
		a, b := t.T(x.X), t.T(x.Y)
		switch op {
		case token.EQL, token.NEQ:
			if a > b {
				a, b = b, a
			}
			if op == token.EQL {
				return []Fact{{"EQ", a, b}}
			}
			return []Fact{{"NE", a, b}}
		case token.LSS:
			return []Fact{{"LT", a, b}}
		case token.LEQ:
			return []Fact{{"LE", a, b}}
		case token.GTR:
			return []Fact{{"LT", b, a}}
		case token.GEQ:
			return []Fact{{"LE", b, a}}
		}
	}
plain:
	a, b := t.T(cond), "const:false"
	if pol {
		b = "const:true"
	}
	if a > b {
		a, b = b, a
	}
	return []Fact{{"EQ", a, b}}
}

// reachableWithout computes the blocks reachable from start without entering block `without`.
func reachableWithout(start, without *ssa.BasicBlock) map[*ssa.BasicBlock]bool {
	seen := map[*ssa.BasicBlock]bool{}
	if start == without {
		return seen
	}
	w := []*ssa.BasicBlock{start}
	seen[start] = true
	for len(w) > 0 {
		b := w[len(w)-1]
		w = w[:len(w)-1]
		for _, s := range b.Succs {
			if s != without && !seen[s] {
				seen[s] = true
				w = append(w, s)
			}
		}
	}
	return seen
}

// FactsAt returns the facts that hold on every path from the function entry to block b:
// for every If-terminated dominator D of b, if b cannot be reached from D's false successor
// without passing D again, D's condition is true at b (and symmetrically).
func (t *Terms) FactsAt(b *ssa.BasicBlock) []Fact {
	var out []Fact
	for d := b.Idom(); d != nil; d = d.Idom() {
		out = append(out, t.edgeFacts(d, b)...)
	}
	return out
}

func (t *Terms) edgeFacts(d, b *ssa.BasicBlock) []Fact {
	iff, ok := d.Instrs[len(d.Instrs)-1].(*ssa.If)
	if !ok || d.Succs[0] == d.Succs[1] {
		return nil
	}
	rT := reachableWithout(d.Succs[0], d)
	rF := reachableWithout(d.Succs[1], d)
	fromT, fromF := rT[b], rF[b]
	var fs []Fact
	var via map[*ssa.BasicBlock]bool
	switch {
	case fromT && !fromF:
		fs, via = t.condFacts(iff.Cond, true), rT
	case fromF && !fromT:
		fs, via = t.condFacts(iff.Cond, false), rF
	default:
		return nil
	}
	if t.FieldWrites == nil || len(fs) == 0 {
		return fs
	}
	// members that may be written on the way from the test to b (blocks reachable from the taken edge that reach b,
	// b itself excluded: facts hold on entry of b), plus the remainder of the test block after the tested loads
	killed := map[string]bool{}
	note := func(in ssa.Instruction) {
		switch x := in.(type) {
		case *ssa.Store:
			if fa, ok := x.Addr.(*ssa.FieldAddr); ok {
				killed[fieldName(fa.X, fa.Field)] = true
			}
		case *ssa.MapUpdate:
			if u, ok := x.Map.(*ssa.UnOp); ok {
				if fa, ok := u.X.(*ssa.FieldAddr); ok {
					killed[fieldName(fa.X, fa.Field)] = true
				}
			}
		case ssa.CallInstruction:
			if _, isGo := in.(*ssa.Go); isGo {
				return
			}
			if tgt := staticTarget(x.Common()); tgt != nil {
				for k := range t.FieldWrites[tgt] {
					if i := strings.LastIndex(k, "."); i >= 0 {
						killed[k[i+1:]] = true
					}
				}
			}
		}
	}
	canReachB := map[*ssa.BasicBlock]bool{}
	for blk := range via {
		if blk == b {
			continue
		}
		if reachableWithout(blk, nil)[b] {
			canReachB[blk] = true
		}
	}
	for blk := range canReachB {
		for _, in := range blk.Instrs {
			note(in)
		}
	}
	if len(killed) == 0 {
		return fs
	}
	var out []Fact
	for _, f := range fs {
		drop := false
		for name := range killed {
			if mentionsMember(f.A, name) || mentionsMember(f.B, name) {
				drop = true
			}
		}
		if !drop {
			out = append(out, f)
		}
	}
	return out
}

// mentionsMember: the term contains a load of a struct member called name (".name" followed by a non-identifier byte).
func mentionsMember(term, name string) bool {
	key := "." + name
	for i := 0; ; {
		j := strings.Index(term[i:], key)
		if j < 0 {
			return false
		}
		end := i + j + len(key)
		if end == len(term) || !(term[end] == '_' || term[end] >= '0' && term[end] <= '9' || term[end] >= 'a' && term[end] <= 'z' || term[end] >= 'A' && term[end] <= 'Z') {
			// not a package qualifier such as "strings.Index(": those are followed by an identifier and '('
			return true
		}
		i = end
	}
}

// FactsAtInstr = FactsAt(block of in).
func (t *Terms) FactsAtInstr(in ssa.Instruction) []Fact { return t.FactsAt(in.Block()) }

// termEq compares a fact's term with a query term. A query that carries instruction identities (#id: results of
// impure calls, phis, allocations) must match exactly - two calls of the same impure function are different values;
// an identity-free query (built from pure terms by a rule) is compared modulo identities.
func termEq(factTerm, query string) bool {
	if strings.Contains(query, "#") {
		return factTerm == query
	}
	return strip(factTerm) == query
}

func hasFact(fs []Fact, op, a, b string) bool {
	for _, f := range fs {
		if f.Op != op {
			continue
		}
		if termEq(f.A, a) && termEq(f.B, b) {
			return true
		}
		if (op == "EQ" || op == "NE") && termEq(f.A, b) && termEq(f.B, a) {
			return true
		}
	}
	return false
}

// hasFactRe: some fact matches the regular expression on its stripped string form.
func hasFactRe(fs []Fact, re string) bool {
	r := regexp.MustCompile(re)
	for _, f := range fs {
		if r.MatchString(strip(f.String())) {
			return true
		}
	}
	return false
}

func factStrings(fs []Fact) []string {
	var out []string
	for _, f := range fs {
		out = append(out, strip(f.String()))
	}
	sort.Strings(out)
	return out
}

// Interval (E5) of an integer term from the facts, against integer constants.
const inf = 1 << 40

func intervalOf(fs []Fact, term string) (lo, hi int) {
	lo, hi = -inf, inf
	ci := func(s string) (int, bool) {
		if !strings.HasPrefix(s, "const:") {
			return 0, false
		}
		var n int
		if _, err := fmt.Sscanf(strings.TrimPrefix(s, "const:"), "%d", &n); err != nil {
			return 0, false
		}
		return n, true
	}
	for _, f := range fs {
		isA, isB := termEq(f.A, term), termEq(f.B, term)
		switch f.Op {
		case "EQ":
			if isA {
				if c, ok := ci(f.B); ok {
					lo, hi = max(lo, c), min(hi, c)
				}
			} else if isB {
				if c, ok := ci(f.A); ok {
					lo, hi = max(lo, c), min(hi, c)
				}
			}
		case "LT":
			if isA {
				if c, ok := ci(f.B); ok {
					hi = min(hi, c-1)
				}
			} else if isB {
				if c, ok := ci(f.A); ok {
					lo = max(lo, c+1)
				}
			}
		case "LE":
			if isA {
				if c, ok := ci(f.B); ok {
					hi = min(hi, c)
				}
			} else if isB {
				if c, ok := ci(f.A); ok {
					lo = max(lo, c)
				}
			}
		}
	}
	// a value excluded at an end of the interval shrinks it (x >= 1, x != 1: x >= 2)
	for changed := true; changed; {
		changed = false
		for _, f := range fs {
			if f.Op != "NE" {
				continue
			}
			c, ok := 0, false
			if termEq(f.A, term) {
				c, ok = ci(f.B)
			} else if termEq(f.B, term) {
				c, ok = ci(f.A)
			}
			if !ok {
				continue
			}
			if c == lo && lo > -inf {
				lo++
				changed = true
			}
			if c == hi && hi < inf {
				hi--
				changed = true
			}
		}
	}
	return
}

// condAlternatives: the ways in which cond can have truth value pol, each as the set of facts that then hold (a small
// disjunctive normal form). A plain comparison has one alternative; a boolean kept in a local (`v := a && b`, a phi)
// has one per incoming edge that can produce pol, with the facts of that edge.
func (t *Terms) condAlternatives(cond ssa.Value, pol bool, depth int) [][]Fact {
	if u, ok := cond.(*ssa.UnOp); ok && u.Op == token.NOT {
		return t.condAlternatives(u.X, !pol, depth)
	}
	if ph, ok := cond.(*ssa.Phi); ok && depth < 3 {
		if b, ok := ph.Type().Underlying().(*types.Basic); ok && b.Kind() == types.Bool {
			var out [][]Fact
			for i, e := range ph.Edges {
				if k, ok := e.(*ssa.Const); ok && k.Value != nil && k.Value.Kind() == constant.Bool {
					if constant.BoolVal(k.Value) != pol {
						continue
					}
					pred := ph.Block().Preds[i]
					fs := append(append([]Fact{}, t.FactsAt(pred)...), t.edgeFactsOn(pred, ph.Block())...)
					out = append(out, fs)
					continue
				}
				pred := ph.Block().Preds[i]
				base := append(append([]Fact{}, t.FactsAt(pred)...), t.edgeFactsOn(pred, ph.Block())...)
				for _, alt := range t.condAlternatives(e, pol, depth+1) {
					out = append(out, append(append([]Fact{}, base...), alt...))
				}
			}
			return out
		}
	}
	return [][]Fact{t.condFacts(cond, pol)}
}

// edgeAlternatives: condAlternatives for the CFG edge from->to.
func (t *Terms) edgeAlternatives(from, to *ssa.BasicBlock) [][]Fact {
	if len(from.Instrs) == 0 {
		return nil
	}
	iff, ok := from.Instrs[len(from.Instrs)-1].(*ssa.If)
	if !ok || from.Succs[0] == from.Succs[1] {
		return nil
	}
	return t.condAlternatives(iff.Cond, to == from.Succs[0], 0)
}

// blockAlternatives: one fact set per way of entering b: for every predecessor p, the facts that hold in p together with
// the facts of the edge p->b. A property that holds in every alternative holds in b (used where the guard of b is a
// disjunction such as `len(a) == 0 || a[0] != '@'`, which leaves no single dominating fact).
func (t *Terms) blockAlternatives(b *ssa.BasicBlock) [][]Fact {
	var out [][]Fact
	for _, p := range b.Preds {
		fs := append([]Fact(nil), t.FactsAt(p)...)
		fs = append(fs, t.edgeFactsOn(p, b)...)
		out = append(out, fs)
	}
	return out
}
