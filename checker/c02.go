package main

import (
	"fmt"
	"go/token"
	"go/types"
	"strings"

	"golang.org/x/tools/go/ssa"
)

func init() {
	register(&propDef{
		id: "C02", level: "other", perCfg: false,
		explain: "Necessary structural conditions of C02, decided for all paths. F1 frame construction at every protocol write of package varlink (service reply path and client Send, found by role and analysed in the inlined view of the innermost function that both encodes and writes): the written slice is append(B, 0) with exactly one appended constant 0 where B is, on every alternative, result #0 of json.Marshal (possibly through a repo helper all of whose returns are); the write is dominated by `marshal error == nil`, is not in a loop and is the only protocol write on any path of its function. F2 frame reading at every delimiter read (service loop, client receive): ReadBytes(ctx, 0) with the same constant as the appended sentinel (F4); the bytes decoded are result[:len(result)-1] of that very read under `read error == nil`; a failed read is never retried on the same connection (a partial frame has been consumed); inside ctxio the delimiter is passed through unchanged to bufio.Reader.ReadBytes and its result is returned unchanged through the result channel (or, when the helper signals completion by closing its channel, through variables or members of the operation written before the close and read on the result branch). F3 one persistent buffered reader per connection: bufio readers are created only in the wrapper's constructor, the wrapper's fields are written only there, wrappers are created outside loops, and Connection.conn is stored only where a Connection is created. F7 (= C18.U3) the buffered reader reads the connection itself for the connection's whole life; F8 (= C12.X2) the standard error replies are rendered by encoding/json from typed values, so they are valid JSON for every name. F6 (= C18.U1/U1b/U1c) the buffered reader hands over exactly the bytes it delivered; F7/F8 re-evaluate C18.U3 and C12.X2.",
		notDec:  "The library contracts themselves: json.Marshal returns one valid JSON value without raw control characters (hence no NUL) and validates json.RawMessage / Marshaler output; bufio.Reader.ReadBytes is independent of segmentation and unbounded in frame size; the OS delivers bytes in order.",
		trusted: []string{"encoding/json.Marshal: output is one syntactically valid JSON value, bytes < 0x20 are escaped, RawMessage and Marshaler output is validated", "bufio.Reader.ReadBytes: returns exactly the bytes up to and including the first delimiter regardless of how they arrived"},
		run:     runC02,
	})
}

func runC02(r *Run, p *Prog) {
	// F6: the carry-over between segments lives in one buffered reader: every read primitive of the connection consumes through it
	siblingRules(r, p, "C18", []string{"U1", "U1b", "U1c"}, "F6")
	// F7: that reader reads the connection itself for the connection's whole life (a wrapper that ends the stream early - a byte budget, a limit - loses every frame behind it)
	siblingRules(r, p, "C18", []string{"U3"}, "F7")
	// F8: the standard error replies are frames too: they are valid JSON for every name a client can send only if their members are rendered by encoding/json from typed values
	siblingRules(r, p, "C12", []string{"X2"}, "F8")
	ro := DiscoverRoles(p)
	T, cg := ro.T, ro.CG
	// ---- F1
	type wsite struct {
		cs   CallSite
		role string
	}
	// Frames are looked at where they are made: in the innermost function of package varlink whose inlined view
	// (inline.go; ctxio stays a call) contains both the encoder call and the protocol write. Whether the encoding, the
	// terminator or the write sit in helpers of that function makes no difference.
	keepCtxio := func(callee *ssa.Function) bool { return fnPkgPath(callee) != pkgVarlink }
	isEncoder := func(cs CallSite) bool {
		n := cs.Name()
		return n == "json.Marshal" || n == "json.Encoder.Encode" || n == "json.MarshalIndent"
	}
	var roots []*ssa.Function
	for _, f := range p.FuncsOf(pkgVarlink) {
		if f.Parent() != nil || len(f.Blocks) == 0 {
			continue
		}
		v := p.Inlined(f, keepCtxio)
		hasW, hasE := false, false
		for _, cs := range callsIn(v, false) {
			if isProtoWrite(cs) {
				hasW = true
			}
			if isEncoder(cs) {
				hasE = true
			}
		}
		if hasW && hasE {
			roots = appendFn(roots, f)
		}
	}
	var writes []wsite
	covered := map[*ssa.Function]bool{}
	for _, f := range roots {
		inner := true
		for _, g := range roots {
			if g != f && cg.Reach([]*ssa.Function{f}, false)[g] {
				inner = false
			}
		}
		if !inner {
			continue
		}
		v := p.Inlined(f, keepCtxio)
		cg.AddView(v)
		for g := range cg.Reach([]*ssa.Function{f}, false) {
			covered[g] = true
		}
		for _, cs := range callsIn(v, false) {
			if !isProtoWrite(cs) {
				continue
			}
			role := "other"
			if cs.Common.IsInvoke() && ro.rootedInCall(cs.Common.Value) {
				role = "service reply"
			} else if isClientConnRecv(recvOf(cs)) {
				role = "client call"
			}
			writes = append(writes, wsite{cs, role})
		}
	}
	// protocol writes of the package outside any such function: no frame construction can be established for them
	for _, f := range p.FuncsOf(pkgVarlink) {
		if covered[f] {
			continue
		}
		for _, cs := range callsIn(f, false) {
			if isProtoWrite(cs) {
				writes = append(writes, wsite{cs, "other"})
			}
		}
	}
	sentinel := "const:0"
	r.Guard("F1", func() {
		for _, w := range writes {
			fn := shortName(w.cs.Fn)
			args := w.cs.Common.Args
			buf := args[len(args)-1]
			base, why := nulFrameBase(buf)
			r.Ob("F1", fn, w.role+": written bytes are append(B, 0) with exactly one NUL", w.cs.Instr.Pos(), base != nil, "frame is not terminated by exactly one NUL byte: "+why)
			if base == nil {
				continue
			}
			ms, why2 := marshalOrigin(p, base, 0)
			r.Ob("F1", fn, w.role+": B is the output of json.Marshal on every alternative", w.cs.Instr.Pos(), ms != nil,
				"the frame body does not (always) come from json.Marshal, whose output is what guarantees one valid JSON value with no NUL inside: "+why2)
			for _, mc := range ms {
				if mc.Parent() != w.cs.Fn {
					continue
				}
				errT := "ext(" + T.T(mc) + ",1)"
				r.Ob("F1", fn, w.role+": the write is dominated by marshal error == nil", w.cs.Instr.Pos(), hasFact(T.FactsAt(w.cs.Instr.Block()), "EQ", errT, "nil"),
					"the write can happen although json.Marshal reported an error")
			}
			r.Ob("F1", fn, w.role+": the write is not inside a loop", w.cs.Instr.Pos(), !blockInLoop(w.cs.Instr.Block()), "a frame is written in a loop (split or repeated writes)")
			_, hi := countOnPaths(w.cs.Fn, nil, func(in ssa.Instruction) bool {
				ci, ok := in.(ssa.CallInstruction)
				return ok && isProtoWrite(CallSite{ci, ci.Common(), w.cs.Fn})
			})
			r.Ob("F1", fn, w.role+": at most one protocol write on any path of the function", w.cs.Instr.Pos(), hi <= 1, fmt.Sprintf("up to %d writes on one path: a message is split over several writes or extra bytes follow it", hi))
		}
		r.Floor("F1", 4)
	})
	// ---- F2
	r.Guard("F2", func() {
		n := 0
		// frame reads are looked at in inlined views (the loop of the connection handler, every other function of the
		// package that reads a frame - the client's receive function - with its varlink helpers inlined): a helper that
		// strips the delimiter (`frame(b).payload()`) or reads one frame for its caller is part of the function shown
		keepF2 := func(callee *ssa.Function) bool {
			return fnPkgPath(callee) != pkgVarlink || isDispatchTarget(p, ro, callee)
		}
		var readFns []*ssa.Function
		covered := map[*ssa.Function]bool{}
		for _, l := range ro.ConnLoop {
			readFns = append(readFns, l)
			for g := range cg.Reach([]*ssa.Function{origFn(l)}, false) {
				if !isDispatchTarget(p, ro, g) {
					covered[g] = true
				}
			}
			covered[origFn(l)] = true
		}
		for _, f0 := range p.FuncsOf(pkgVarlink) {
			if covered[f0] || len(f0.Blocks) == 0 {
				continue
			}
			has := false
			for _, cs := range callsIn(f0, false) {
				if isProtoReadBytes(cs) {
					has = true
				}
			}
			if has {
				v := p.Inlined(f0, keepF2)
				cg.AddView(v)
				readFns = append(readFns, v)
			}
		}
		for _, f := range readFns {
			for _, cs := range callsIn(f, false) {
				if !isProtoReadBytes(cs) {
					continue
				}
				rb, ok := cs.Instr.(*ssa.Call)
				if !ok {
					continue
				}
				n++
				fn := shortName(f)
				args := cs.Common.Args
				delim := T.T(args[len(args)-1])
				r.Ob("F2", fn, "frame read uses the NUL delimiter (same constant as the appended sentinel)", rb.Pos(), delim == sentinel, "delimiter is "+delim+", sentinel is "+sentinel)
				rbT := T.T(rb)
				want := "slice(ext(" + rbT + ",0),nil,(call:len(ext(" + rbT + ",0)) - const:1))"
				// decoded bytes: directly, or handed to HandleMessage whose parameter is decoded unchanged
				found := false
				check := func(data ssa.Value, at ssa.Instruction, what string) {
					found = true
					got := T.T(data)
					r.Ob("F2", fn, what+" result[:len(result)-1] of this read", at.Pos(), got == want, "decoded bytes are "+strip(got)+", expected exactly the frame without its final delimiter: "+strip(want))
					r.Ob("F2", fn, what+" only under read error == nil", at.Pos(), hasFact(T.FactsAt(at.Block()), "EQ", "ext("+rbT+",1)", "nil"),
						"the frame is used although the read may have failed: an incomplete trailing frame would be decoded (and the slice may panic on an empty result)")
				}
				for _, d := range decodeSites(f) {
					if strings.Contains(T.T(d.Data), rbT) {
						check(d.Data, d.Call, "decodes")
					}
				}
				for _, c2 := range callsIn(f, false) {
					if t2 := staticTarget(c2.Common); ro.Handle != nil && isDispatchTarget(p, ro, t2) && bytesArg(c2.Common) != nil {
						check(bytesArg(c2.Common), c2.Instr, "dispatches")
						// the dispatch entry decodes its request parameter unchanged (possibly handed on by HandleMessage)
						for g := range cg.Reach([]*ssa.Function{t2}, false) {
							for _, d := range decodeSites(g) {
								dt := strip(T.T(d.Data))
								if _, isSl := d.Data.Type().Underlying().(*types.Slice); !isSl || !(strings.HasPrefix(dt, "param:") || g == t2) {
									continue
								}
								isParam := false
								for _, prm := range g.Params {
									if dt == "param:"+prm.Name() {
										isParam = true
									}
								}
								if g != dispatchEntry(p, ro) {
									continue
								}
								r.Ob("F2", shortName(g), "the request parameter is decoded unchanged", d.Call.Pos(), isParam,
									"the dispatch entry decodes "+dt+" instead of the request bytes it was given")
							}
						}
					}
				}
				if !found {
					r.Ob("F2", fn, "the frame read is followed by a decode of its result", rb.Pos(), false, "no decode of the bytes read here was found")
				}
				// a failed read is not retried
				for _, b := range f.Blocks {
					for _, s := range b.Succs {
						if hasFact(T.edgeFactsOn(b, s), "NE", "ext("+rbT+",1)", "nil") {
							again, w := reachFromBlock(f, s, func(in ssa.Instruction) bool { return in == ssa.Instruction(rb) }, nil)
							r.Ob("F2", fn, "a failed frame read is not retried on the same reader", p.InstrPos(b.Instrs[len(b.Instrs)-1]), !again,
								"after a failed delimiter read (timeout, cancellation) the loop reads again: bufio.Reader.ReadBytes has already consumed the partial frame, so the stream resumes in the middle of a message", witnessPos(p, w)...)
						}
					}
				}
			}
		}
		if n < 2 {
			r.Unresolved("F2", "frame reads in both directions (service loop and client receive)")
		}
		ctxioFrameReadRules(r, p, T, cg, "F2")
		r.Floor("F2", 6)
	})
	// ---- F3
	r.Guard("F3", func() {
		ctor := fnSet(ro.ConnCtor)
		for _, pk := range []string{pkgCtxio, pkgVarlink} {
			for _, f := range p.FuncsOf(pk) {
				for _, cs := range callsNamed(f, false, "bufio.NewReader", "bufio.NewReaderSize", "bufio.NewReadWriter", "bufio.NewScanner") {
					r.Ob("F3", shortName(f), "buffered reader created only by the wrapper's constructor", cs.Instr.Pos(), ctor[f],
						"a buffered reader is created outside the connection wrapper's constructor: bytes it reads ahead are lost to the persistent reader that carries data over between frames")
				}
			}
		}
		if ro.ConnT != nil {
			for _, idx := range []int{ro.ConnRawIdx, ro.ConnBufIdx} {
				for _, fa := range fieldAddrs(p, ro.ConnT, idx) {
					for _, st := range storesTo(fa) {
						_, isAlloc := fa.X.(*ssa.Alloc)
						r.Ob("F3", shortName(st.Parent()), "wrapper field "+fieldName(fa.X, idx)+" written only at construction", st.Pos(), isAlloc && ctor[st.Parent()], "the reader/connection of an existing wrapper is replaced")
					}
				}
			}
		}
		for _, f := range p.FuncsOf(pkgVarlink) {
			for _, cs := range callsIn(f, false) {
				if t := cs.Common.StaticCallee(); t != nil && ctor[t] {
					r.Ob("F3", shortName(f), "connection wrapper created once per connection (outside any loop)", cs.Instr.Pos(), !blockInLoop(cs.Instr.Block()), "a new wrapper (with an empty buffer) per iteration loses buffered bytes")
				}
			}
		}
		// Connection.conn stored only where a Connection is created
		if ct := p.NamedType(pkgVarlink, "Connection"); ct != nil {
			idx := fieldIndex(ct, "conn")
			for _, fa := range fieldAddrs(p, ct, idx) {
				for _, st := range storesTo(fa) {
					a, isAlloc := fa.X.(*ssa.Alloc)
					okk := isAlloc && a.Parent() == st.Parent()
					r.Ob("F3", shortName(st.Parent()), "Connection.conn set only when the Connection is created", st.Pos(), okk, "an existing Connection gets a new wrapper: the old reader's buffered bytes are lost")
				}
			}
		}
		r.Floor("F3", 3)
	})
	_ = cg
	_ = types.Typ
}

// channelPassThrough: the helper sends S{ext(io,0), ext(io,1)} and the operation returns, on the result path,
// (field0, field1) of the received value.
func channelPassThrough(T *Terms, op *CtxOp) (bool, string) {
	if op.Closure == nil || op.IOCall == nil || op.Select == nil || op.ResIdx < 0 {
		return false, "operation shape not recognised"
	}
	if op.closes() {
		return memoryPassThrough(T, op)
	}
	iov, ok := op.IOCall.(ssa.Value)
	if !ok {
		return false, "I/O call has no value"
	}
	ioT := T.T(iov)
	nres := 1
	if tup, ok := iov.Type().(*types.Tuple); ok {
		nres = tup.Len()
	}
	member := map[int]int{} // I/O result index -> member of the sent struct
	// closure: the sent struct
	for _, b := range op.Closure.Blocks {
		for _, in := range b.Instrs {
			snd, ok := in.(*ssa.Send)
			if !ok {
				continue
			}
			ld, ok := snd.X.(*ssa.UnOp)
			if !ok {
				return false, "sent value is not a struct literal"
			}
			a, ok := ld.X.(*ssa.Alloc)
			if !ok {
				return false, "sent value is not a struct literal"
			}
			fs := fieldStores(a)
			st := a.Type().(*types.Pointer).Elem().Underlying().(*types.Struct)
			// which member carries which result of the I/O call (a result struct shared between operations may have
			// members this operation leaves unset)
			for j := 0; j < st.NumFields(); j++ {
				vals := fs[st.Field(j).Name()]
				if len(vals) == 0 {
					continue
				}
				found := -1
				for i := 0; i < nres; i++ {
					if len(vals) == 1 && T.T(vals[0]) == fmt.Sprintf("ext(%s,%d)", ioT, i) {
						found = i
					}
				}
				if found < 0 {
					return false, fmt.Sprintf("result member %s is not a result of the I/O call", st.Field(j).Name())
				}
				if old, dup := member[found]; dup && old != j {
					return false, fmt.Sprintf("result #%d of the I/O call is sent in two members", found)
				}
				member[found] = j
			}
		}
	}
	for i := 0; i < nres; i++ {
		if _, ok := member[i]; !ok {
			return false, fmt.Sprintf("result #%d of the I/O call is not sent to the operation", i)
		}
	}
	// parent: on the result branch, returns field i of extract(select, 2+ResIdx...) in order
	n := 0
	for _, rv0 := range returnedValues(op.Fn, 0) {
		b := rv0.Ret.Block()
		onRes := false
		for d := b; d != nil; d = d.Idom() {
			if k, ok := selectIndexEdge(d, op.Select); ok && k == op.ResIdx && reachableWithout(d.Succs[0], d)[b] && !reachableWithout(d.Succs[1], d)[b] {
				onRes = true
			}
		}
		if !onRes {
			continue
		}
		n++
		for i, res := range rv0.Ret.Results {
			ok := false
			if ld, isLd := res.(*ssa.UnOp); isLd {
				if fa, isFa := ld.X.(*ssa.FieldAddr); isFa && fa.Field == member[i] {
					if a, isA := fa.X.(*ssa.Alloc); isA {
						if val, one := singleStore(a); one {
							if ex, isEx := val.(*ssa.Extract); isEx && ex.Tuple == ssa.Value(op.Select) && ex.Index == 2+recvOrdinal(op.Select, op.ResIdx) {
								ok = true
							}
						}
					}
				}
			}
			if f, isF := res.(*ssa.Field); isF && f.Field == member[i] {
				if ex, isEx := f.X.(*ssa.Extract); isEx && ex.Tuple == ssa.Value(op.Select) && ex.Index == 2+recvOrdinal(op.Select, op.ResIdx) {
					ok = true
				}
			}
			if !ok {
				return false, fmt.Sprintf("return value #%d on the result path is %s, not the member of the value received from the helper that carries result #%d of the I/O call", i, strip(T.T(res)), i)
			}
		}
	}
	if n == 0 {
		return false, "no return on the result branch of the select"
	}
	return true, "helper result passed through the channel member by member"
}

// recvOrdinal: position of select state idx among the receive states (their values follow index and ok in the tuple).
func recvOrdinal(s *ssa.Select, idx int) int {
	n := 0
	for i, st := range s.States {
		if i == idx {
			return n
		}
		if st.Dir == types.RecvOnly {
			n++
		}
	}
	return n
}

func fieldNameOfResult(op *CtxOp, i int) string {
	if st, ok := op.Chan.Type().Underlying().(*types.Chan).Elem().Underlying().(*types.Struct); ok && i < st.NumFields() {
		return st.Field(i).Name()
	}
	return "?"
}

// ctxioFrameReadRules: inside ctxio the frame-read primitive reads with one direct bufio.Reader.ReadBytes(delim),
// passes the delimiter through and returns the result unchanged through the result channel.
func ctxioFrameReadRules(r *Run, p *Prog, T *Terms, cg *CallGraph, rule string) {
	// inside ctxio: delimiter passed through, result returned unchanged through the channel
	for _, op := range DiscoverCtxOps(p, T, pkgCtxio) {
		// the frame-read primitive: the operation whose first result is a byte slice
		res := op.Fn.Signature.Results()
		if res.Len() == 0 {
			continue
		}
		if sl, ok := res.At(0).Type().Underlying().(*types.Slice); !ok || !types.Identical(sl.Elem(), types.Typ[types.Byte]) {
			continue
		}
		fn := shortName(op.Fn)
		// every consuming call on a bufio.Reader made by the helper (directly or in repo callees)
		var consumers []CallSite
		if op.Closure != nil {
			// the operation itself (a fast path doing I/O outside the helper), the helper, and their repo callees
			for g := range cg.Reach([]*ssa.Function{op.Closure, op.Fn}, false) {
				for _, cs := range callsIn(g, false) {
					sc := cs.Common.StaticCallee()
					if sc != nil && sc.Signature.Recv() != nil && isNamed(sc.Signature.Recv().Type(), "bufio", "Reader") && bufioConsumers[sc.Name()] {
						consumers = append(consumers, cs)
					}
				}
			}
		}
		okCallee := len(consumers) == 1 && funcFullName(consumers[0].Common.StaticCallee()) == "bufio.Reader.ReadBytes" && consumers[0].Fn == op.Closure
		var names []string
		for _, c := range consumers {
			names = append(names, funcFullName(c.Common.StaticCallee())+" in "+shortName(c.Fn))
		}
		r.Ob(rule, fn, "delimiter read is one direct bufio.Reader.ReadBytes call", op.Go.Pos(), okCallee,
			fmt.Sprintf("frames are read with %v: only a single bufio.Reader.ReadBytes returns an owned copy of an arbitrarily long frame (ReadSlice/ReadLine/Peek alias the 4 KiB buffer, and combining reads needs care)", names))
		if !okCallee {
			continue
		}
		{
			a := op.IOCall.Common().Args
			dt := strip(T.T(a[len(a)-1]))
			r.Ob(rule, fn, "delimiter passed through unchanged", op.IOCall.Pos(), dt == "param:"+op.Fn.Params[len(op.Fn.Params)-1].Name(), "delimiter handed to the buffered reader is "+dt)
		}
		// value flow: send struct{ext(io,0), ext(io,1)}; return fields of the received struct in the same order
		ok, why := channelPassThrough(T, op)
		r.Ob(rule, fn, "the bytes read are returned unchanged", op.Fn.Pos(), ok, why)
	}
}

// memoryPassThrough: the helper signals completion by closing its channel and hands the outcome over in memory: it
// stores result i of the I/O call into member m_i of one object of the operation (before the close), and the operation
// returns, on the result branch of the select, the members m_0, m_1, ... of that object in order.
func memoryPassThrough(T *Terms, op *CtxOp) (bool, string) {
	iov, ok := op.IOCall.(ssa.Value)
	if !ok {
		return false, "I/O call has no value"
	}
	nres := 1
	if tup, ok := iov.Type().(*types.Tuple); ok {
		nres = tup.Len()
	}
	// the cells: what the helper's stores are rooted in (captured variables of the operation, or members of one)
	type cell struct {
		root  ssa.Value
		field int
	}
	cellOf := func(addr ssa.Value) (cell, bool) {
		if fa, ok := addr.(*ssa.FieldAddr); ok {
			return cell{T.resolveFree(fa.X), fa.Field}, true
		}
		if root := T.resolveFree(addr); root != nil {
			if al, ok := root.(*ssa.Alloc); ok && al.Parent() == op.Fn {
				return cell{al, -1}, true
			}
		}
		return cell{}, false
	}
	member := map[int]cell{}
	closed := false
	for _, b := range op.Closure.Blocks {
		for _, in := range b.Instrs {
			if c, isCall := in.(*ssa.Call); isCall {
				if bi, isB := c.Call.Value.(*ssa.Builtin); isB && bi.Name() == "close" {
					closed = true
				}
			}
			st, ok := in.(*ssa.Store)
			if !ok {
				continue
			}
			cl, ok := cellOf(st.Addr)
			if !ok {
				return false, "the helper stores to something other than a variable of the operation or a member of one"
			}
			if closed {
				return false, "the helper writes the outcome after signalling completion"
			}
			found := -1
			for i := 0; i < nres; i++ {
				if ex, isEx := st.Val.(*ssa.Extract); isEx && ex.Tuple == iov && ex.Index == i {
					found = i
				}
				if nres == 1 && st.Val == iov {
					found = 0
				}
			}
			if found < 0 {
				return false, fmt.Sprintf("%s written by the helper is not a result of the I/O call", strip(T.T(st.Addr)))
			}
			if old, dup := member[found]; dup && old != cl {
				return false, fmt.Sprintf("result #%d of the I/O call is stored in two places", found)
			}
			member[found] = cl
		}
	}
	for i := 0; i < nres; i++ {
		if _, ok := member[i]; !ok {
			return false, fmt.Sprintf("result #%d of the I/O call is not handed to the operation", i)
		}
		for j := 0; j < i; j++ {
			if member[j] == member[i] {
				return false, fmt.Sprintf("results #%d and #%d of the I/O call are stored in the same place", j, i)
			}
		}
	}
	n := 0
	for _, rv0 := range returnedValues(op.Fn, 0) {
		b := rv0.Ret.Block()
		onRes := false
		for d := b; d != nil; d = d.Idom() {
			if k, ok := selectIndexEdge(d, op.Select); ok && k == op.ResIdx && reachableWithout(d.Succs[0], d)[b] && !reachableWithout(d.Succs[1], d)[b] {
				onRes = true
			}
		}
		if !onRes {
			continue
		}
		n++
		for i, res := range rv0.Ret.Results {
			ok := false
			if ld, isLd := res.(*ssa.UnOp); isLd && ld.Op == token.MUL {
				if cl, isCell := cellOf(ld.X); isCell && cl == member[i] {
					ok = true
				}
			}
			if !ok {
				return false, fmt.Sprintf("return value #%d on the result path is %s, not the variable that carries result #%d of the I/O call", i, strip(T.T(res)), i)
			}
		}
	}
	if n == 0 {
		return false, "no return on the result branch of the select"
	}
	return true, "helper result handed over in memory published by closing the channel, member by member"
}
