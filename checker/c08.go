package main

import (
	"fmt"
	"go/ast"
	"go/constant"
	"go/token"
	"go/types"
	"os"
	"regexp"
	"sort"
	"strings"
)

func init() {
	register(&propDef{
		id: "C08", level: "other", perCfg: false,
		explain: "Only narrow necessary conditions of C08 are visible statically; they are decided on the generator's template by the lexical-context walk (E10) and AST rules. B1 tags carry the IDL names: every splice inside a struct tag is the raw TypeField.Name (not a derived form), between `json:\"` and the closing quote, and `,omitempty` is emitted exactly under `field.Type.Kind == TypeMaybe`. B2 every declaration whose value is (de)serialised is tagged: each `var in`/`var out` declaration and each `type X` declaration obtains its type from the type writer with the tagged flag true. B3 kind -> Go type table of the type writer: bool->bool, int->int64, float->float64, string/enum->string, object->json.RawMessage, array->[]T, map->map[string]T, optional->*T, alias->its name, struct->struct{...}, i.e. the varlink JSON mapping under encoding/json. B4 wire names are composed alike at all sibling sites: every method name inside a string literal is `<interface name>.<method name>` (arguments of Send, Upgrade, ReplyMethodNotImplemented) except the dispatcher's case label, which is the bare method name; every error name inside a string literal is `<interface name>.<error name>` (Error(), Dispatch_Error case, ReplyError). B5 dispatcher skeleton: every emitted `call.GetParameters(&in)` is followed in the same fragment by the error test replying InvalidParameter(\"parameters\"), the default arm replies MethodNotFound(methodname), the dummy implementations reply MethodNotImplemented, and the client stubs pass `flags` through to Send. B6 the standard replies are emitted on the library's varlink.Call (the dispatcher's parameter or the explicit embedded member), never on the generated wrapper type whose Reply<Error> methods can shadow them. B7 the library primitives the stubs delegate flag handling to decode each reply into a fresh value and map continues exactly. B10 the emitted receive functions declare the variable they decode a reply into inside the function literal (one fresh value per reply). B11 (= C12.X1) the library's error reply refuses only names without interface part and the reserved interface, so the generated Reply<Error> helpers reach the client. B12 guard/body agreement: an `if len(x.A.Fields) > 0` of the template whose body is built from the sibling member x.B only (inputs vs outputs) is reported. B13 (= C11.N4) the library's receive reports success for every complete non-error frame (the stubs of methods without outputs pass a nil target). B8 (= C01.R2). B9 emitted error replies pass a parameters value when the error has parameters. B12 also polarity: the guard's sense (`> 0`, `== 0`, negations) agrees with whether the body emits the member's fields. B2 also: explicit conversions name the tagged variant of the type where the value is decoded/encoded (`= (T)(in.X)` forms) and the untagged one where it is handed to user code.",
		notDec:  "Most of the property: which value reaches which parameter, decoding fidelity, the behaviour of the emitted stubs for all descriptions and values. They live in the emitted program; deciding them needs the generator's output for all descriptions (translation validation), which is a different technique.",
		trusted: []string{"encoding/json maps Go types to JSON as documented (int64 <-> number, *T/omitempty <-> optional, map[string]T <-> object, RawMessage <-> any value)"},
		run:     runC08,
	})
}

func runC08(r *Run, p *Prog) {
	// B8: oneway passes through the stubs unchanged only if every reply path of the library, including the standard error replies the generated dispatcher uses, is silent for a oneway call
	siblingRules(r, p, "C01", []string{"R2"}, "B8")
	// B11: the generated Reply<Error> helpers reach the client only if the library's error reply refuses nothing but names without interface part and the reserved interface
	siblingRules(r, p, "C12", []string{"X1"}, "B11")
	// B13: the stubs of methods without outputs call receive(ctx, nil): the library's receive function must report
	// success for every complete non-error frame whatever decoding the parameters into the caller's value does
	siblingRules(r, p, "C11", []string{"N4"}, "B13")
	m, why := buildIDLModel(p)
	if m == nil {
		r.Unresolved("B1", why)
		return
	}
	root := generatorRoot(p)
	w, _, why2 := RunGenWalker(p, m, root)
	curWalker = w
	if w == nil {
		r.Unresolved("B1", why2)
		return
	}
	stmtTextOf = func(st ast.Stmt) (string, bool) {
		es, ok := st.(*ast.ExprStmt)
		if !ok {
			return "", false
		}
		t, ok := w.StmtText[es]
		return t, ok
	}
	info := p.Pkgs[pkgGen].TypesInfo
	tw, flag, sw := typeWriter(p, w)
	if tw == nil {
		r.Unresolved("B3", "type writer")
		return
	}
	// ---- B1
	r.Guard("B1", func() {
		n := 0
		for _, sp := range w.Splices {
			if !sp.InTag {
				continue
			}
			n++
			ok := sp.Dyn.raw && sp.Dyn.what == "TypeField.Name"
			r.Ob("B1", sp.Fn, "JSON tag carries the description's field name unchanged", sp.Pos, ok,
				"the tag key is "+sp.Dyn.what+", not the raw field name of the description: the parameters object on the wire does not have exactly the description's field names")
			r.Ob("B1", sp.Fn, "tag key is written between `json:\"` and the closing quote", sp.Pos, strings.HasSuffix(sp.Prev, "`json:\"") && (sp.Next == "" || !isIdentByte(sp.Next[0])), fmt.Sprintf("context %q … %q", tail(sp.Prev, 10), head(sp.Next, 4)))
		}
		if n == 0 {
			r.Ob("B1", tw.Name.Name, "the type writer emits JSON tags", tw.Pos(), false, "no splice inside a struct tag: generated structs would be encoded under their Go member names")
		}
		// omitempty exactly under Kind == TypeMaybe: in the type writer and the generator functions it calls (the
		// struct case may be a helper), the text "omitempty" occurs once, inside an `if <field>.Type.Kind == TypeMaybe`
		// without else - written there or appended to the tag built in a local
		var bodies []*ast.FuncDecl
		seenFd := map[*ast.FuncDecl]bool{}
		var collect func(fd *ast.FuncDecl)
		collect = func(fd *ast.FuncDecl) {
			if fd == nil || fd.Body == nil || seenFd[fd] {
				return
			}
			seenFd[fd] = true
			bodies = append(bodies, fd)
			ast.Inspect(fd.Body, func(n ast.Node) bool {
				if c, ok := n.(*ast.CallExpr); ok {
					switch f := c.Fun.(type) {
					case *ast.Ident:
						collect(w.funcs[f.Name])
					case *ast.SelectorExpr:
						collect(w.methodDecl(f))
					}
				}
				return true
			})
		}
		collect(tw)
		hasOmit := func(n ast.Node) int {
			c := 0
			ast.Inspect(n, func(x ast.Node) bool {
				if bl, ok := x.(*ast.BasicLit); ok && bl.Kind == token.STRING && strings.Contains(bl.Value, "omitempty") {
					c++
				}
				return true
			})
			return c
		}
		found := false
		cnt := 0
		for _, fd := range bodies {
			cnt += hasOmit(fd.Body)
			ast.Inspect(fd.Body, func(n ast.Node) bool {
				// tagless switch form: `case <field>.Type.Kind == TypeMaybe:` holds the text
				if cc, isCC := n.(*ast.CaseClause); isCC && len(cc.List) == 1 {
					nOmit := 0
					for _, st := range cc.Body {
						nOmit += hasOmit(st)
					}
					if be, ok := cc.List[0].(*ast.BinaryExpr); ok && nOmit > 0 && be.Op.String() == "==" {
						l, rr := types.ExprString(be.X), types.ExprString(be.Y)
						if strings.HasSuffix(l, ".Type.Kind") && strings.HasSuffix(rr, "TypeMaybe") {
							found = true
						}
					}
					return true
				}
				ifs, ok := n.(*ast.IfStmt)
				if !ok || hasOmit(ifs.Body) == 0 {
					return true
				}
				// the innermost if that holds the text
				inner := false
				for _, st := range ifs.Body.List {
					ast.Inspect(st, func(y ast.Node) bool {
						if i2, ok := y.(*ast.IfStmt); ok && hasOmit(i2.Body) > 0 {
							inner = true
						}
						return true
					})
				}
				if inner {
					return true
				}
				okCond := false
				cond := ifs.Cond
				elseOK := ifs.Else == nil
				if land, ok := cond.(*ast.BinaryExpr); ok && land.Op == token.LAND {
					// `if tags && <field>.Type.Kind == TypeMaybe { tag with omitempty } else if tags { plain tag }`
					if id, ok := land.X.(*ast.Ident); ok && info.Uses[id] == flag {
						cond = land.Y
						if ei, ok := ifs.Else.(*ast.IfStmt); ok && hasOmit(ei) == 0 {
							elseOK = true
						}
					}
				}
				if be, ok := cond.(*ast.BinaryExpr); ok && be.Op.String() == "==" {
					l, rr := types.ExprString(be.X), types.ExprString(be.Y)
					if strings.HasSuffix(l, ".Type.Kind") && strings.HasSuffix(rr, "TypeMaybe") && elseOK {
						okCond = true
					}
				}
				if okCond {
					found = true
				} else {
					r.Ob("B1", tw.Name.Name, "`omitempty` is emitted exactly for optional fields", ifs.Pos(), false, "condition is "+types.ExprString(ifs.Cond))
				}
				return true
			})
		}
		r.Ob("B1", tw.Name.Name, "`omitempty` is emitted exactly for optional fields", tw.Pos(), found && cnt == 1, fmt.Sprintf("guarded by `<field>.Type.Kind == TypeMaybe`: %v; omitempty fragments: %d", found, cnt))
	})
	// ---- B2
	r.Guard("B2", func() {
		n := 0
		nConv := 0
		for name, fd := range w.decls() {
			if fd.Body == nil {
				continue
			}
			var walk func(list []ast.Stmt)
			walk = func(list []ast.Stmt) {
				for i, st := range list {
					switch x := st.(type) {
					case *ast.BlockStmt:
						walk(x.List)
					case *ast.IfStmt:
						walk(x.Body.List)
						if e, ok := x.Else.(*ast.BlockStmt); ok {
							walk(e.List)
						}
					case *ast.RangeStmt:
						walk(x.Body.List)
					case *ast.ForStmt:
						walk(x.Body.List)
					case *ast.SwitchStmt:
						for _, c := range x.Body.List {
							walk(c.(*ast.CaseClause).Body)
						}
					case *ast.ExprStmt:
						call, ok := x.X.(*ast.CallExpr)
						if !ok {
							continue
						}
						isTW, flagArg := typeWriterCall(w, tw, flag, call, 0)
						prev, prevAll := "", ""
						if !isTW {
							// the type is spliced into the written expression: `"var ", name, " ", goType(t, true, n)`
							b4, _, inExpr := typeWriterCallContext(w, tw, x)
							if !inExpr {
								continue
							}
							var inner *ast.CallExpr
							ast.Inspect(x, func(y ast.Node) bool {
								if c2, ok := y.(*ast.CallExpr); ok && inner == nil && c2 != call {
									if is, fa := typeWriterCall(w, tw, flag, c2, 0); is {
										inner, flagArg = c2, fa
									}
								}
								return inner == nil
							})
							if inner == nil {
								continue
							}
							call = inner
							prev = b4
							prevAll = strings.Join(constParts(info, writeArg(x)), "")
							if prev == "" {
								// the text before is a splice (a declared name): look at the whole written text
								prev = " "
							}
						} else {
							if i == 0 {
								continue
							}
							prev = lastConstOf(info, list[i-1])
							prevAll = strings.Join(constParts(info, writeArg(list[i-1])), "")
							if es, ok := list[i-1].(*ast.ExprStmt); ok {
								if t, ok := w.StmtText[es]; ok {
									prevAll = t
								}
							}
						}
						// a conversion into a member of the (tagged) in/out value - `in.<Field> = (T)(...)` - names the tagged
						// type; a conversion of such a member - `(T)(in.<Field>)` - into a parameter or result the untagged one
						{
							line := prevAll
							if k := strings.LastIndex(line, "\n"); k >= 0 {
								line = line[k+1:]
							}
							intoTagged := strings.HasSuffix(strings.TrimRight(line, " "), "= (") && (strings.Contains(line, "in.") || strings.Contains(line, "out.")) && !strings.Contains(line, "(in.") && !strings.Contains(line, "(out.")
							fromTagged := false
							if isTW && i+1 < len(list) {
								nx := ""
								if es, ok := list[i+1].(*ast.ExprStmt); ok {
									nx = w.StmtText[es]
								}
								fromTagged = strings.HasPrefix(nx, ")(in.") || strings.HasPrefix(nx, ")(out.")
							}
							if (intoTagged || fromTagged) && flagArg != nil {
								if tv, ok := info.Types[flagArg]; ok && tv.Value != nil && tv.Value.Kind() == constant.Bool {
									nConv++
									got := constant.BoolVal(tv.Value)
									want := intoTagged
									r.Ob("B2", name, fmt.Sprintf("conversion #%d names the %s variant of the type", nConv, ifs(want, "tagged", "untagged")), call.Pos(), got == want,
										"the explicit conversion is emitted with the "+ifs(got, "tagged", "untagged")+" variant of the type although the value it is assigned to is declared with the other one: struct types that differ in their tags are not assignable - the output does not compile")
								}
							}
						}
						isDecl := strings.HasSuffix(prev, "var in ") || strings.HasSuffix(prev, "var out ") || (strings.HasPrefix(prevAll, "type ") && strings.HasSuffix(prev, " ")) ||
							// a declaration helper: `var <name> <type>` with the name a parameter
							strings.HasSuffix(strings.TrimLeft(prevAll, "\x00\t"), "var \x00 ")
						if !isDecl {
							continue
						}
						n++
						ok2 := false
						if flagArg != nil {
							if tv, ok := info.Types[flagArg]; ok && tv.Value != nil && tv.Value.Kind() == constant.Bool {
								ok2 = constant.BoolVal(tv.Value)
							}
						}
						what := strings.TrimSpace(strings.ReplaceAll(prevAll, "\x00", "<name>"))
						r.Ob("B2", name, fmt.Sprintf("declaration `%s …` (#%d) is generated with JSON tags", what, n), call.Pos(), ok2,
							"a value that is marshalled/unmarshalled is declared with the untagged variant of its type: its members are encoded under their Go names (capitalised), not the description's field names")
					}
				}
			}
			walk(fd.Body.List)
		}
		if n < 2 {
			r.Ob("B2", "-", "(de)serialised declarations are found", tw.Pos(), false, fmt.Sprintf("%d `var in/out` / `type` declarations using the type writer", n))
		}
	})
	// ---- B3
	r.Guard("B3", func() {
		want := map[string]string{"TypeBool": "bool", "TypeInt": "int64", "TypeFloat": "float64", "TypeString": "string", "TypeEnum": "string", "TypeObject": "json.RawMessage",
			"TypeArray": "[]", "TypeMap": "map[string]", "TypeMaybe": "*", "TypeStruct": "struct"}
		seen := map[string]bool{}
		for _, arm := range typeWriterArms(w, tw, sw) {
			kinds := arm.kinds
			ccPos := arm.pos
			if arm.vals != nil {
				// table-driven: the kind's entry is what is written first
				for i, k := range kinds {
					seen[k] = true
					wantS, known := want[k]
					firstW := ""
					if wa := firstWriteArg(arm.body); wa != nil {
						if ps, ok := w.pieces(wa); ok && len(ps) > 0 && ps[0].alts != nil {
							firstW = arm.vals[i]
						}
					}
					r.Ob("B3", tw.Name.Name, k+" is rendered as Go type `"+wantS+"…`", ccPos, known && firstW == wantS, fmt.Sprintf("rendered as %q (table entry): the generated binding would encode this varlink type differently from the varlink JSON mapping", firstW))
				}
				continue
			}
			// first thing written in the arm
			first, firstDyn := "", ""
			depthB3 := 0
			var find func(list []ast.Stmt) bool
			find = func(list []ast.Stmt) bool {
				for _, st := range list {
					if e := writeArg(st); e != nil {
						ps, ok := w.pieces(e)
						if ok && len(ps) > 0 {
							if ps[0].dyn != nil {
								firstDyn = ps[0].dyn.what
							} else {
								first = ps[0].konst
							}
						}
						return true
					}
					if es, ok := st.(*ast.ExprStmt); ok {
						// the arm delegates to a helper of the generator (`writeStructType(b, t.Fields, ...)`)
						if c, ok := es.X.(*ast.CallExpr); ok {
							var hd *ast.FuncDecl
							switch f := c.Fun.(type) {
							case *ast.Ident:
								hd = w.funcs[f.Name]
							case *ast.SelectorExpr:
								hd = w.methodDecl(f)
							}
							if hd != nil && hd != tw && hd.Body != nil && depthB3 < 3 {
								depthB3++
								got := find(hd.Body.List)
								depthB3--
								if got {
									return true
								}
							}
						}
					}
					if ifs, ok := st.(*ast.IfStmt); ok {
						// both branches must start alike: take the else branch (non-empty struct) and the then branch
						a := find(ifs.Body.List)
						f1 := first
						if e, ok := ifs.Else.(*ast.BlockStmt); ok {
							find(e.List)
							if !strings.HasPrefix(first, "struct") || !strings.HasPrefix(f1, "struct") {
								first = f1 + "|" + first
							} else {
								first = "struct"
							}
						}
						return a
					}
				}
				return false
			}
			find(arm.body)
			for _, k := range kinds {
				seen[k] = true
				if k == "TypeAlias" {
					r.Ob("B3", tw.Name.Name, "TypeAlias is rendered as the referenced type's name", ccPos, firstDyn == "Type.Alias", "alias rendered as "+firstDyn+first)
					continue
				}
				wantS, known := want[k]
				ok := known && (first == wantS || (wantS == "struct" && strings.HasPrefix(first, "struct")))
				r.Ob("B3", tw.Name.Name, k+" is rendered as Go type `"+wantS+"…`", ccPos, ok, fmt.Sprintf("rendered as %q: the generated binding would encode this varlink type differently from the varlink JSON mapping", first))
			}
		}
		for k := range want {
			if !seen[k] {
				r.Ob("B3", tw.Name.Name, k+" has an arm in the type writer", tw.Pos(), false, "kind not handled: nothing is emitted for it")
			}
		}
		if !seen["TypeAlias"] {
			r.Ob("B3", tw.Name.Name, "TypeAlias has an arm in the type writer", tw.Pos(), false, "")
		}
	})
	// ---- B4
	r.Guard("B4", func() {
		nm, ne := 0, 0
		for i, sp := range w.Splices {
			if sp.Mode != lmStr && sp.Mode != lmRaw {
				continue
			}
			isM := sp.Dyn.what == "Method.Name"
			isE := sp.Dyn.what == "Error.Name"
			if !isM && !isE {
				continue
			}
			composed := sp.Prev == "." && i > 0 && w.Splices[i-1].Dyn.what == "IDL.Name" && w.Splices[i-1].Pos == sp.Pos
			if isM {
				nm++
				if strings.HasSuffix(sp.Prev, "case \"") {
					r.Ob("B4", sp.Fn, "the dispatcher's case label is the bare method name", sp.Pos, strings.HasPrefix(sp.Next, "\":"), fmt.Sprintf("label context %q … %q", tail(sp.Prev, 8), head(sp.Next, 4)))
					continue
				}
				r.Ob("B4", sp.Fn, fmt.Sprintf("method wire name (string splice #%d) is <interface>.<Method>", nm), sp.Pos, composed,
					"a method name is put into a string literal without the interface prefix: the call goes to a method string the service does not route")
			} else {
				ne++
				r.Ob("B4", sp.Fn, fmt.Sprintf("error wire name (string splice #%d) is <interface>.<Error>", ne), sp.Pos, composed,
					"an error name is put into a string literal without the interface prefix: sender and receiver of the error disagree on its name")
			}
		}
		if nm < 4 || ne < 3 {
			r.Ob("B4", "-", "wire-name sites found (methods: Send, Upgrade, not-implemented, case label; errors: Error(), Dispatch_Error, Reply)", tw.Pos(), false, fmt.Sprintf("%d method-name and %d error-name string splices", nm, ne))
		}
		// interface name reported at run time is the IDL name, verbatim
		okName := false
		for _, sp := range w.Splices {
			if sp.Mode == lmRaw && sp.Dyn.what == "IDL.Name" && strings.HasSuffix(sp.Prev, "return `") {
				okName = true
			}
		}
		r.Ob("B4", root, "VarlinkGetName returns the interface name verbatim", w.funcs[root].Pos(), okName, "")
	})
	// ---- B5
	r.Guard("B5", func() {
		if os.Getenv("VLDEBUG") == "segs" {
			for _, fr := range w.Segs {
				fmt.Fprintf(os.Stderr, "SEG %s: %q\n", fr.Fn, fr.Text)
			}
		}
		ng := 0
		for _, fr := range w.Segs {
			if i := strings.Index(fr.Text, "GetParameters(&in)"); i >= 0 {
				ng++
				rest := fr.Text[i:]
				j := strings.Index(rest, "if err != nil")
				k := strings.Index(rest, `ReplyInvalidParameter(ctx, "parameters")`)
				r.Ob("B5", fr.Fn, fmt.Sprintf("emitted parameter decoding #%d is followed by the error test replying InvalidParameter(\"parameters\")", ng), fr.Pos, strings.Contains(fr.Text[:i+1], "err := call.") && j >= 0 && k > j,
					"a generated dispatcher arm decodes the parameters without testing the result: undecodable parameters reach the implementation instead of being answered InvalidParameter")
			}
		}
		if ng == 0 {
			r.Ob("B5", root, "the dispatcher decodes parameters with call.GetParameters(&in)", w.funcs[root].Pos(), false, "no such fragment in the template")
		}
		has := func(sub ...string) bool {
			for _, fr := range w.Segs {
				all := true
				pos := 0
				for _, s := range sub {
					i := strings.Index(fr.Text[pos:], s)
					if i < 0 {
						all = false
						break
					}
					pos += i
				}
				if all {
					return true
				}
			}
			return false
		}
		r.Ob("B5", root, "unknown methods are answered MethodNotFound(methodname)", w.funcs[root].Pos(), has("default:", "return call.ReplyMethodNotFound(ctx, methodname)"), "")
		r.Ob("B5", root, "methods the implementation does not override answer MethodNotImplemented", w.funcs[root].Pos(), has("ReplyMethodNotImplemented(ctx, \""), "")
		// every emitted `c.Send(ctx, "...` is completed by `, flags)` in the same stretch of text
		sendOK, nsend := true, 0
		for _, fr := range w.Segs {
			rest := fr.Text
			for {
				i := strings.Index(rest, "c.Send(ctx, \"")
				if i < 0 {
					break
				}
				nsend++
				rest = rest[i+1:]
				nl := strings.Index(rest, "\n")
				line := rest
				if nl >= 0 {
					line = rest[:nl]
				}
				if !strings.HasSuffix(strings.TrimSpace(line), ", flags)") {
					sendOK = false
				}
			}
		}
		r.Ob("B5", root, "the Send stub passes the caller's flags through", w.funcs[root].Pos(), sendOK && nsend > 0, fmt.Sprintf("%d emitted c.Send calls, all ending in `, flags)`: %v", nsend, sendOK))
		r.Ob("B5", root, "the dispatcher switches on the method name it is given", w.funcs[root].Pos(), has("switch methodname {"), "")
	})
	// ---- B6: the standard replies are invoked on the library's varlink.Call, never on the generated wrapper type (whose
	// generated Reply<Error> methods shadow the library's when the description declares an error of that name)
	r.Guard("B6", func() {
		re := regexp.MustCompile(`([A-Za-z_][A-Za-z0-9_.]*)\.Reply(MethodNotFound|MethodNotImplemented|InvalidParameter|InterfaceNotFound)\(`)
		sigOK, redefined := false, false
		n := 0
		for _, fr := range w.Segs {
			if strings.Contains(fr.Text, "VarlinkDispatch(ctx context.Context, call varlink.Call, methodname string)") {
				sigOK = true
			}
			for _, bad := range []string{"call :=", "call =", "var call "} {
				if strings.Contains(fr.Text, bad) {
					redefined = true
				}
			}
			for _, m := range re.FindAllStringSubmatch(fr.Text, -1) {
				n++
				recv := m[1]
				ok := strings.HasSuffix(recv, ".Call") || recv == "call"
				r.Ob("B6", fr.Fn, fmt.Sprintf("emitted %s.Reply%s is invoked on the library's varlink.Call", recv, m[2]), fr.Pos, ok,
					"the standard reply is invoked on `"+recv+"`, a value of the generated wrapper type: a description that declares `error "+m[2]+"` generates a method of the same name that shadows the library's, so the peer gets the interface's own error instead of org.varlink.service."+m[2])
			}
		}
		r.Ob("B6", root, "`call` in the emitted dispatcher is its varlink.Call parameter", w.funcs[root].Pos(), sigOK && !redefined,
			fmt.Sprintf("dispatcher signature declares `call varlink.Call`: %v; `call` redefined in the emitted code: %v", sigOK, redefined))
		if n < 3 {
			r.Ob("B6", root, "the template emits the three standard replies", w.funcs[root].Pos(), false, fmt.Sprintf("%d found", n))
		}
	})
	// ---- B9: the two generated sides of an error agree: the emitted client-side mapping gives up the typed error when
	// the error frame carries no parameters, so the emitted error-reply helper must always send a parameters value
	r.Guard("B9", func() {
		guard := regexp.MustCompile(`(\w+) := e\.Parameters\.\(\*json\.RawMessage\)[\s\S]*?if (\w+) == nil \{\s*return e\s*\}`)
		call := regexp.MustCompile(`\.ReplyError\(([^()]*)\)`)
		needs := false
		for _, fr := range w.Segs {
			if m := guard.FindStringSubmatch(fr.Text); m != nil && m[1] == m[2] {
				needs = true
			}
		}
		n := 0
		for _, fr := range w.Segs {
			for _, m := range call.FindAllStringSubmatch(fr.Text, -1) {
				args := strings.Split(m[1], ",")
				last := strings.TrimSpace(args[len(args)-1])
				n++
				r.Ob("B9", fr.Fn, "emitted error reply passes a parameters value (`"+strings.ReplaceAll(strings.TrimSpace(m[0]), "\x00", "…")+"`)", fr.Pos, !(needs && last == "nil"),
					"the emitted helper sends the error without parameters, but the emitted client-side mapping returns the generic *varlink.Error when an error frame carries none: the typed error of a field-less error never reaches the caller")
			}
		}
		r.Stat("B9_client_mapping_requires_parameters", map[bool]int{false: 0, true: 1}[needs])
		r.Floor("B9", 1)
	})
	// ---- B10: the emitted receive functions decode every reply into a value of their own: the declaration of the
	// variable handed to receive(ctx, &v) lies inside the emitted function literal (after its `return func(`), so a
	// `more` call's replies do not share state (encoding/json decodes into the existing value)
	r.Guard("B10", func() {
		re := regexp.MustCompile(`receive\(ctx, &(\w+)\)`)
		lastClosure := -1
		lastDecl := map[string]int{}
		n := 0
		for i, fr := range w.Frags {
			if strings.Contains(fr.Text, "return func(") {
				lastClosure = i
			}
			for _, m := range regexp.MustCompile(`var (\w+) `).FindAllStringSubmatch(fr.Text, -1) {
				// (a declaration and the closure head in one fragment: order within the text)
				if lastClosure == i && strings.Index(fr.Text, "var "+m[1]+" ") < strings.Index(fr.Text, "return func(") {
					lastDecl[m[1]] = i - 1
				} else {
					lastDecl[m[1]] = i
				}
			}
			for _, m := range re.FindAllStringSubmatch(fr.Text, -1) {
				n++
				d, declared := lastDecl[m[1]]
				ok := declared && lastClosure >= 0 && d >= lastClosure
				r.Ob("B10", fr.Fn, fmt.Sprintf("emitted receive function #%d decodes into a variable declared inside it (`&%s`)", n, m[1]), fr.Pos, ok,
					"the variable the emitted receive function decodes into is declared outside the function literal: consecutive replies of a `more` call are decoded into the same value, and members absent from a later reply keep what an earlier one set")
			}
		}
		if n == 0 {
			r.Unresolved("B10", "emitted `receive(ctx, &<var>)` in the client stubs")
		}
	})
	// ---- B12: guard and body speak about the same parameter list: an `if len(x.A.Fields) > 0` of the template whose body
	// serialises the sibling member x.B (same type, same struct) and never x.A builds the in-struct when there are
	// outputs, or the out-struct when there are inputs (copy-and-paste between the look-alike sections of Send/Upgrade)
	r.Guard("B12", func() {
		n := 0
		ord := map[string]int{}
		var fds []*ast.FuncDecl
		for _, fd := range w.funcs {
			fds = append(fds, fd)
		}
		sort.Slice(fds, func(i, j int) bool { return fds[i].Pos() < fds[j].Pos() })
		for _, fd := range fds {
			ast.Inspect(fd, func(nd ast.Node) bool {
				is, ok := nd.(*ast.IfStmt)
				if !ok {
					return true
				}
				condE, negated := is.Cond, false
				for {
					if pe, isP := condE.(*ast.ParenExpr); isP {
						condE = pe.X
						continue
					}
					if ue, isU := condE.(*ast.UnaryExpr); isU && ue.Op == token.NOT {
						condE, negated = ue.X, !negated
						continue
					}
					break
				}
				be, ok := condE.(*ast.BinaryExpr)
				if !ok {
					return true
				}
				call, ok := be.X.(*ast.CallExpr)
				if !ok || len(call.Args) != 1 {
					return true
				}
				if id, isId := call.Fun.(*ast.Ident); !isId || id.Name != "len" {
					return true
				}
				fsel, ok := call.Args[0].(*ast.SelectorExpr) // x.A.Fields
				if !ok {
					return true
				}
				asel, ok := fsel.X.(*ast.SelectorExpr) // x.A
				if !ok {
					return true
				}
				base := types.ExprString(asel.X)
				tv, ok := info.Types[asel.X]
				if !ok {
					return true
				}
				st := derefStruct(tv.Type)
				if st == nil {
					return true
				}
				// the sibling members: other members of x's struct with the type of x.A
				at := info.Types[asel].Type
				siblings := map[string]bool{}
				for i := 0; i < st.NumFields(); i++ {
					if f := st.Field(i); f.Name() != asel.Sel.Name && at != nil && types.Identical(f.Type(), at) {
						siblings[f.Name()] = true
					}
				}
				// polarity: the guarded block is the one for a non-empty list (it ranges over it, declares the struct for
				// it); a flipped or negated comparison builds it exactly when the list is empty
				positive, constant := false, false
				if lit, isLit := be.Y.(*ast.BasicLit); isLit {
					switch {
					case (be.Op == token.GTR || be.Op == token.NEQ) && lit.Value == "0", be.Op == token.GEQ && lit.Value == "1":
						positive = true
					case be.Op == token.GEQ && lit.Value == "0", be.Op == token.LSS && lit.Value == "0":
						constant = true
					}
				}
				rangesOwn := false
				ast.Inspect(is.Body, func(x ast.Node) bool {
					if rs, ok := x.(*ast.RangeStmt); ok && types.ExprString(rs.X) == types.ExprString(fsel) {
						rangesOwn = true
					}
					return true
				})
				usesOwn, usesSibling := false, ""
				ast.Inspect(is.Body, func(x ast.Node) bool {
					if se, ok := x.(*ast.SelectorExpr); ok && types.ExprString(se.X) == base {
						if se.Sel.Name == asel.Sel.Name {
							usesOwn = true
						} else if siblings[se.Sel.Name] {
							usesSibling = se.Sel.Name
						}
					}
					return true
				})
				n++
				if negated {
					positive = !positive && !constant
				}
				usesOwnEarly := false
				ast.Inspect(is.Body, func(x ast.Node) bool {
					if se, ok := x.(*ast.SelectorExpr); ok && types.ExprString(se.X) == base && se.Sel.Name == asel.Sel.Name {
						usesOwnEarly = true
					}
					return true
				})
				if rangesOwn || usesOwnEarly || constant {
					r.Ob("B12", fd.Name.Name, fmt.Sprintf("the block that ranges over %s.%s.Fields is built for a non-empty list (#%d)", base, asel.Sel.Name, ord[fd.Name.Name+"/"+asel.Sel.Name]+1), is.Pos(), positive && !constant,
						"the comparison `"+types.ExprString(is.Cond)+"` guarding the block that serialises the list is not `len(...) > 0`: the struct is built for methods without such parameters and nil is passed for methods that have them (or the test is constant)")
				}
				ord[fd.Name.Name+"/"+asel.Sel.Name]++
				if len(siblings) == 0 {
					return true
				}
				r.Ob("B12", fd.Name.Name, fmt.Sprintf("the block guarded by len(%s.%s.Fields) (#%d) encodes that parameter list", base, asel.Sel.Name, ord[fd.Name.Name+"/"+asel.Sel.Name]), is.Pos(), usesOwn || usesSibling == "",
					"the guard tests "+base+"."+asel.Sel.Name+" but the guarded text is built from "+base+"."+usesSibling+" only: for a method with one list empty and the other not, the stub drops the caller's arguments (or declares values it has no fields for)")
				return true
			})
		}
		r.Stat("B12_guards", n)
		// (no floor: a template that asks `hasInputs(m)` has no guard of this form; the rule is a contradiction rule)
		r.Ob("B12", root, "guards on parameter lists were examined", w.funcs[root].Pos(), true, fmt.Sprintf("%d", n))
	})
	// ---- B7: the library primitives the stubs delegate flag handling to (re-evaluated from C03/C11): a fresh reply value
	// per receive and the continues mapping
	r.Guard("B7", func() {
		ro := DiscoverRoles(p)
		T := ro.T
		cm := buildClientModel(p, ro)
		if cm.Decode == nil {
			r.Unresolved("B7", "client receive function")
			return
		}
		ok, why := freshTarget(p, *cm.Decode)
		r.Ob("B7", shortName(cm.Recv), "receive decodes each reply into a fresh zero value (flags of an earlier reply cannot survive)", cm.Decode.Call.Pos(), ok, why)
		st := derefStruct(cm.Decode.Target.Type())
		_, cf := structFieldByJSON(st, "continues")
		fc := flagConsts(p)
		if cf != nil {
			mT := strip(T.T(cm.Decode.Target)) + "." + cf.Name()
			for _, rv := range returnedValues(cm.Recv, 1) {
				if T.T(rv.Val) != "nil" {
					continue
				}
				fs := T.FactsAt(rv.Ret.Block())
				isT, isF := hasFact(fs, "EQ", mT, "const:true"), hasFact(fs, "EQ", mT, "const:false")
				want := "const:0"
				if isT {
					want = fmt.Sprintf("const:%d", fc["Continues"])
				}
				r.Ob("B7", shortName(cm.Recv), "receive reports Continues exactly when the frame says so", rv.Ret.Pos(), (isT || isF) && strip(T.T(rv.Ret.Results[0])) == want,
					fmt.Sprintf("a success return yields flags %s where the frame's continues member is %s: a generated client method with a more-sequence ends early or never ends", strip(T.T(rv.Ret.Results[0])), map[bool]string{true: "known (" + want + " expected)", false: "not tested on this path"}[isT || isF]))
			}
		}
	})
}
