package main

import (
	"fmt"
	"go/types"
	"strings"

	"golang.org/x/tools/go/ssa"
)

func init() {
	register(&propDef{
		id: "C18", level: "other", perCfg: true,
		explain: "Necessary structural conditions of C18, decided for all paths of the current source: (U1) inside ctxio the wrapped net.Conn has exactly one consumer, the bufio.Reader built in the constructor - every read primitive of ctxio.Conn reads through that reader field and nothing ever calls Read on the raw connection; (U2) Connection.Upgrade returns the same connection object the request was sent on, and the service's connection loop hands HandleMessage the very object it reads frames from, which is stored unchanged in Call.Conn; (U3) one persistent reader per connection: the reader/conn fields are written only in the constructor, with reader = bufio.NewReader(same conn), and every place that creates a wrapper does so outside any loop. Rule instances are found by role (field types, callee identities), not by name. U1b/U1c every read goes through the one buffered reader and a Discard equals the delivered count. U4 (= C17.D1-D3), U5 (= C02.F2) the frame handed up is the delivered one.",
		notDec:  "bufio.Reader.Read semantics (returns buffered bytes first - library contract); real segmentation; behaviour of custom ReadWriterContext implementations supplied by users.",
		trusted: []string{"bufio.Reader: Read and ReadBytes consume the same buffered stream exactly once and in order"},
		run:     runC18,
	})
}

// readerMethodsThatRead: methods of *bufio.Reader that consume input.
var bufioConsumers = map[string]bool{"Read": true, "ReadByte": true, "ReadBytes": true, "ReadLine": true, "ReadRune": true, "ReadSlice": true, "ReadString": true, "WriteTo": true, "Discard": true, "Peek": true}

func runC18(r *Run, p *Prog) {
	// U4: an abandoned read must be joined before the operation returns, or its helper consumes the next bytes of the stream
	siblingRules(r, p, "C17", []string{"D1", "D2", "D3"}, "U4")
	// U5: every byte the buffered reader consumed is handed to the caller, also together with an error (the tail of a
	// stream that ends without delimiter): the delimiter read returns what it read unchanged
	siblingRules(r, p, "C02", []string{"F2"}, "U5")
	ro := DiscoverRoles(p)
	T := ro.T
	if ro.ConnT == nil {
		r.Unresolved("U1", "ctxio connection wrapper (struct with a net.Conn and a *bufio.Reader field)")
		return
	}
	recvIsConn := func(f *ssa.Function) bool {
		root := f
		for root.Parent() != nil {
			root = root.Parent()
		}
		return root.Signature.Recv() != nil && isNamed(root.Signature.Recv().Type(), pkgCtxio, ro.ConnT.Obj().Name())
	}
	// U1a: no consumer of the raw connection. Candidates: every invoke on a net.Conn-typed (or io.Reader-typed) value in ctxio.
	r.Guard("U1", func() {
		cands := 0
		for _, f := range p.FuncsOf(pkgCtxio) {
			for _, cs := range callsIn(f, false) {
				c := cs.Common
				if !c.IsInvoke() {
					// passing the raw conn to something that may read from it (io.Copy, io.ReadFull, bufio.NewReader outside ctor ...)
					for _, a := range c.Args {
						if strings.HasSuffix(strip(T.T(a)), "."+ro.ConnRawName) && isReaderish(a.Type()) {
							cal := calleeName(c)
							ok := false
							for _, ct := range ro.ConnCtor {
								if ct == f {
									ok = true
								}
							}
							cands++
							r.Ob("U1", shortName(f), "raw connection passed to "+cal, cs.Instr.Pos(), ok,
								"the wrapped net.Conn is handed to "+cal+" outside the constructor: a second consumer of the socket bypasses the buffered reader")
						}
					}
					continue
				}
				if !isNamed(c.Value.Type(), "net", "Conn") && !isReaderish(c.Value.Type()) {
					continue
				}
				cands++
				m := c.Method.Name()
				if m == "Read" || bufioConsumers[m] && m != "Peek" {
					r.Ob("U1", shortName(f), "invoke "+m+" on raw "+strip(T.T(c.Value)), cs.Instr.Pos(), false,
						"a read on the wrapped net.Conn bypasses the buffered reader: bytes already buffered behind a frame are skipped (lost to this read, delivered out of order later)")
				} else {
					r.Ob("U1", shortName(f), "invoke "+m+" on raw "+strip(T.T(c.Value)), cs.Instr.Pos(), true, "not a consuming operation")
				}
			}
		}
		r.Stat("U1_candidates_invokes_on_raw_conn", cands)
		if cands == 0 {
			r.Unresolved("U1", "no operation on the wrapped net.Conn found at all (rule would be vacuous)")
		}
	})
	// U1b: every read primitive of the wrapper consumes through the reader field of its own receiver.
	r.Guard("U1b", func() {
		n := 0
		for _, f := range p.FuncsOf(pkgCtxio) {
			if !recvIsConn(f) {
				continue
			}
			for _, cs := range callsIn(f, false) {
				sc := cs.Common.StaticCallee()
				if sc == nil || sc.Signature.Recv() == nil || !isNamed(sc.Signature.Recv().Type(), "bufio", "Reader") || !bufioConsumers[sc.Name()] {
					continue
				}
				n++
				recv := strip(T.T(cs.Common.Args[0]))
				want := "param:" + rootRecvName(f) + "." + ro.ConnBufName
				ok := recv == want
				r.Ob("U1b", shortName(f), "bufio."+sc.Name()+" on "+recv, cs.Instr.Pos(), ok,
					fmt.Sprintf("read primitive consumes from %s, expected the receiver's persistent reader %s", recv, want))
				if sc.Name() == "Discard" {
					// consumption without delivery: the discarded count must be the count reported to the caller
					arg := T.T(cs.Common.Args[1])
					match := false
					for _, b := range f.Blocks {
						for _, in := range b.Instrs {
							if ret, ok := in.(*ssa.Return); ok && len(ret.Results) > 0 && T.T(ret.Results[0]) == arg {
								match = true
							}
						}
					}
					r.Ob("U1c", shortName(f), "Discard("+strip(arg)+") equals the delivered count", cs.Instr.Pos(), match,
						"bytes are dropped from the buffered stream without being delivered: the number discarded is not the number returned to the caller")
				}
			}
		}
		// each exported read primitive must contain (in itself or its closures) such a consuming call
		ms := p.SSA.MethodSets.MethodSet(types.NewPointer(ro.ConnT))
		for i := 0; i < ms.Len(); i++ {
			f := p.SSA.MethodValue(ms.At(i))
			if f == nil || f.Blocks == nil || !strings.HasPrefix(f.Name(), "Read") {
				continue
			}
			found := false
			// (in its inlined view: the consuming call may sit in a helper, or in a method that the operation starts
			// with `go`)
			for _, cs := range callsIn(p.Inlined(f, nil), true) {
				sc := cs.Common.StaticCallee()
				if sc != nil && sc.Signature.Recv() != nil && isNamed(sc.Signature.Recv().Type(), "bufio", "Reader") && bufioConsumers[sc.Name()] {
					found = true
				}
			}
			r.Ob("U1b", shortName(f), "read primitive reads through the buffered reader", f.Pos(), found,
				"this read primitive of the connection wrapper does not consume through the bufio.Reader at all")
		}
		r.Floor("U1b", 2)
	})
	// U3: reader/conn fields written only in the constructor; reader = bufio.NewReader(conn stored in the same struct)
	r.Guard("U3", func() {
		for _, idx := range []int{ro.ConnRawIdx, ro.ConnBufIdx} {
			for _, fa := range fieldAddrs(p, ro.ConnT, idx) {
				for _, st := range storesTo(fa) {
					f := st.Parent()
					_, isAlloc := fa.X.(*ssa.Alloc)
					r.Ob("U3", shortName(f), "store to "+ro.ConnT.Obj().Name()+"."+fieldName(fa.X, idx), st.Pos(), isAlloc,
						"the connection/reader of an existing wrapper is replaced after construction: buffered bytes of the old reader are lost")
				}
			}
		}
		for _, ct := range ro.ConnCtor {
			for _, b := range ct.Blocks {
				for _, in := range b.Instrs {
					a, ok := in.(*ssa.Alloc)
					if !ok {
						continue
					}
					if pt, ok := a.Type().(*types.Pointer); !ok || !types.Identical(pt.Elem(), ro.ConnT) {
						continue
					}
					fs := fieldStores(a)
					raw, buf := fs[ro.ConnRawName], fs[ro.ConnBufName]
					ok2 := len(raw) == 1 && len(buf) == 1
					detail := "constructor must store the connection once and a reader once"
					if ok2 {
						bt := strip(T.T(buf[0]))
						rt := strip(T.T(raw[0]))
						ok2 = (bt == "call:bufio.NewReader("+rt+")" || strings.HasPrefix(bt, "call:bufio.NewReaderSize("+rt+","))
						detail = fmt.Sprintf("reader = %s, conn = %s: the persistent reader must wrap exactly the stored connection", bt, rt)
					}
					r.Ob("U3", shortName(ct), "constructor wires reader over the same conn", a.Pos(), ok2, detail)
				}
			}
		}
		// who may call bufio.NewReader* in ctxio / varlink
		for _, pk := range []string{pkgCtxio, pkgVarlink} {
			for _, f := range p.FuncsOf(pk) {
				for _, cs := range callsNamed(f, false, "bufio.NewReader", "bufio.NewReaderSize", "bufio.NewReadWriter", "bufio.NewScanner") {
					isCtor := false
					for _, ct := range ro.ConnCtor {
						if ct == f {
							isCtor = true
						}
					}
					r.Ob("U3", shortName(f), "creates "+cs.Name(), cs.Instr.Pos(), isCtor,
						"a second buffering reader over a connection is created outside the wrapper's constructor: it reads ahead into a private buffer that other read primitives never see")
				}
			}
		}
		r.Floor("U3", 3)
	})
	// U2: wrapper creation sites in package varlink are outside loops; Upgrade returns the sending connection;
	// the loop passes the reading object to HandleMessage; HandleMessage stores it unchanged in Call.Conn.
	r.Guard("U2", func() {
		ctorSet := map[*ssa.Function]bool{}
		for _, c := range ro.ConnCtor {
			ctorSet[c] = true
		}
		for _, f := range p.FuncsOf(pkgVarlink) {
			for _, cs := range callsIn(f, false) {
				if t := cs.Common.StaticCallee(); t != nil && ctorSet[t] {
					inLoop := blockInLoop(cs.Instr.Block())
					r.Ob("U2", shortName(f), "wrapper created by "+funcFullName(t), cs.Instr.Pos(), !inLoop,
						"a connection wrapper (with a fresh, empty read buffer) is created inside a loop: bytes buffered by the previous wrapper are lost")
				}
			}
		}
		// Upgrade
		up := p.Func(pkgVarlink, "Connection.Upgrade")
		if up == nil {
			r.Unresolved("U2", "Connection.Upgrade")
		} else {
			// the connection Send writes on
			send := p.Func(pkgVarlink, "Connection.Send")
			var sendConn string
			if send != nil {
				for _, cs := range callsIn(send, false) {
					if isProtoWrite(cs) {
						sendConn = strip(T.T(recvOf(cs)))
					}
				}
				// (the write may be in a helper of Send: the client model looks at Send's inlined view)
				if cm := buildClientModel(p, ro); sendConn == "" && cm.Send != nil && cm.SendBuilt == send && cm.Write != nil {
					sendConn = strip(T.T(recvOf(CallSite{Instr: cm.Write, Common: &cm.Write.Call, Fn: cm.Send})))
				}
			}
			n := 0
			// the receive function(s) Upgrade hands out: its function literals, or a method of the connection returned as
			// a method value bound to Upgrade's own receiver (`return c.receiveUpgrade, nil`)
			recvFns := append([]*ssa.Function{}, up.AnonFuncs...)
			for _, rv := range returnedValues(up, 0) {
				mc, ok := rv.Val.(*ssa.MakeClosure)
				if !ok {
					continue
				}
				w, _ := mc.Fn.(*ssa.Function)
				if w == nil || !strings.HasPrefix(w.Synthetic, "bound method wrapper for ") || len(mc.Bindings) != 1 || mc.Bindings[0] != ssa.Value(up.Params[0]) {
					continue
				}
				for _, cs := range callsIn(w, false) {
					if m := staticTarget(cs.Common); m != nil && p.InRepo(m) {
						recvFns = append(recvFns, p.Inlined(m, func(c *ssa.Function) bool {
							return fnPkgPath(c) != pkgVarlink || c.Object() != nil && c.Object().Exported()
						}))
					}
				}
			}
			for _, cl := range recvFns {
				for _, b := range cl.Blocks {
					for _, in := range b.Instrs {
						ret, ok := in.(*ssa.Return)
						if !ok {
							continue
						}
						for _, res := range ret.Results {
							if !isNamed(res.Type(), pkgVarlink, "ReadWriterContext") {
								continue
							}
							if c, ok := res.(*ssa.Const); ok && c.IsNil() {
								continue
							}
							n++
							got := strip(T.T(res))
							// the same member of the receiver, whatever the two methods call their receiver
							want := sendConn
							if send != nil && len(send.Params) > 0 {
								pfx := "param:" + send.Params[0].Name() + "."
								if strings.HasPrefix(sendConn, pfx) {
									want = "param:" + rootRecvName(cl) + "." + strings.TrimPrefix(sendConn, pfx)
								}
							}
							r.Ob("U2", shortName(cl), "Upgrade hands out "+got, ret.Pos(), got == want && sendConn != "",
								fmt.Sprintf("the object returned after an upgrade (%s) is not the connection object the request was sent and the reply was read on (%s): bytes buffered behind the reply frame are lost", got, want))
						}
					}
				}
			}
			if n == 0 {
				r.Unresolved("U2", "no non-nil ReadWriterContext returned by Connection.Upgrade's receive function")
			}
		}
		// service side
		for _, l := range ro.ConnLoop {
			var readRecv string
			for _, cs := range callsIn(l, false) {
				if isProtoReadBytes(cs) {
					readRecv = T.T(recvOf(cs))
				}
			}
			for _, cs := range callsIn(l, false) {
				if t := cs.Common.StaticCallee(); t != nil && isDispatchTarget(p, ro, t) {
					var connArg ssa.Value
					for _, a := range cs.Common.Args {
						if isNamed(a.Type(), pkgVarlink, "ReadWriterContext") || isNamed(a.Type(), pkgCtxio, "Conn") {
							connArg = a
						}
					}
					if connArg == nil {
						continue
					}
					got := T.T(connArg)
					r.Ob("U2", shortName(l), "connection handed to HandleMessage", cs.Instr.Pos(), got == readRecv && readRecv != "",
						fmt.Sprintf("HandleMessage receives %s but frames are read from %s: a handler's raw reads would not continue the frame reader's stream", strip(got), strip(readRecv)))
				}
			}
		}
		if ro.Handle == nil || ro.CallT == nil {
			r.Unresolved("U2", "Service.HandleMessage / Call")
		} else {
			idx := fieldIndex(ro.CallT, "Conn")
			n := 0
			chain := ro.CG.Reach([]*ssa.Function{ro.Handle}, false)
			for _, fa := range fieldAddrs(p, ro.CallT, idx) {
				for _, st := range storesTo(fa) {
					f := st.Parent()
					if !chain[f] {
						continue
					}
					n++
					got := strip(T.T(st.Val))
					isParam := false
					for _, prm := range f.Params {
						if got == "param:"+prm.Name() && (isNamed(prm.Type(), pkgVarlink, "ReadWriterContext") || isNamed(prm.Type(), pkgCtxio, "Conn")) {
							isParam = true
						}
					}
					r.Ob("U2", shortName(f), "Call.Conn = "+got, st.Pos(), isParam,
						"the connection stored in the Call is not the connection object the dispatch entry was given")
				}
			}
			if n == 0 {
				r.Unresolved("U2", "store to Call.Conn on the dispatch path")
			}
			// HandleMessage hands its connection parameter on unchanged when it delegates
			if e := dispatchEntry(p, ro); e != nil && e != ro.Handle {
				for _, cs := range callsIn(ro.Handle, false) {
					if cs.Common.StaticCallee() != e {
						continue
					}
					okk := false
					for _, a := range cs.Common.Args {
						if isNamed(a.Type(), pkgVarlink, "ReadWriterContext") && strings.HasPrefix(strip(T.T(a)), "param:") {
							okk = true
						}
					}
					r.Ob("U2", shortName(ro.Handle), "HandleMessage passes its connection on unchanged", cs.Instr.Pos(), okk, "")
				}
			}
		}
		r.Floor("U2", 4)
	})
}

func isReaderish(t types.Type) bool {
	return isNamed(t, "net", "Conn") || isNamed(t, "io", "Reader") || isNamed(t, "io", "ReadCloser") || isNamed(t, "io", "ReadWriter") || isNamed(t, "io", "ReadWriteCloser")
}

func rootRecvName(f *ssa.Function) string {
	for f.Parent() != nil {
		f = f.Parent()
	}
	if f.Signature.Recv() != nil && len(f.Params) > 0 {
		return f.Params[0].Name()
	}
	return "?"
}

// recvOf: receiver value of a method call (invoke or static).
func recvOf(cs CallSite) ssa.Value {
	if cs.Common.IsInvoke() {
		return cs.Common.Value
	}
	if len(cs.Common.Args) > 0 {
		return cs.Common.Args[0]
	}
	return nil
}

// blockInLoop: b lies on a CFG cycle.
func blockInLoop(b *ssa.BasicBlock) bool {
	seen := map[*ssa.BasicBlock]bool{}
	w := append([]*ssa.BasicBlock{}, b.Succs...)
	for len(w) > 0 {
		x := w[len(w)-1]
		w = w[:len(w)-1]
		if x == b {
			return true
		}
		if seen[x] {
			continue
		}
		seen[x] = true
		w = append(w, x.Succs...)
	}
	return false
}
