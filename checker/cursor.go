package main

// E9: abstract interpreter for hand-written scanners over an (input string, position int) cursor.
// Domain, transfer functions and obligations are described in DESIGN.md under C09.
// Ported from the design-phase prototype; obligation keys are rule+function+construct (ordinals, never lines).

import (
	"bytes"
	"fmt"
	"go/constant"
	"go/token"
	"go/types"
	"os"
	"sort"
	"strings"

	"golang.org/x/tools/go/ssa"
)

const INF = 1 << 30

type iv struct{ lo, hi int }

func (a iv) add(b iv) iv {
	r := iv{a.lo + b.lo, a.hi + b.hi}
	if a.lo <= -INF || b.lo <= -INF {
		r.lo = -INF
	}
	if a.hi >= INF || b.hi >= INF {
		r.hi = INF
	}
	return r
}
func hull(a, b iv) iv {
	return iv{min(a.lo, b.lo), max(a.hi, b.hi)}
}

type state struct {
	bottom     bool
	ov         int                  // upper bound of pos-len
	marks      map[string]iv        // key -> pos_now - pos_at_mark ; "entry" is the entry mark
	ints       map[ssa.Value]iv     // value intervals (NEXT results)
	dirty      ssa.Value            // non-nil: unpropagated possible failure of this call
	last       ssa.Value            // last NEXT with no cursor op since (for peek)
	peek       bool                 // byte at cursor known
	mem        map[string]ssa.Value // store->load forwarding, key = addr term
	bumped     map[ssa.Value]bool
	tokpre     map[ssa.Value][]string // token result -> marks existing before call
	atEntry    map[ssa.Value]bool     // snapshot taken while entry mark == [0,0]
	ovAt       map[string]int         // ov at the time a snapshot mark was taken
	dirtyAfter map[string]bool        // snapshot marks taken before the dirty call
}

func newState() *state {
	return &state{marks: map[string]iv{"entry": {0, 0}}, ints: map[ssa.Value]iv{}, mem: map[string]ssa.Value{},
		bumped: map[ssa.Value]bool{}, tokpre: map[ssa.Value][]string{}, atEntry: map[ssa.Value]bool{}, ovAt: map[string]int{}}
}
func (s *state) clone() *state {
	if s.bottom {
		return &state{bottom: true}
	}
	n := &state{ov: s.ov, dirty: s.dirty, last: s.last, peek: s.peek,
		marks: map[string]iv{}, ints: map[ssa.Value]iv{}, mem: map[string]ssa.Value{}, bumped: map[ssa.Value]bool{},
		tokpre: map[ssa.Value][]string{}, atEntry: map[ssa.Value]bool{}, ovAt: map[string]int{}}
	for k, v := range s.ovAt {
		n.ovAt[k] = v
	}
	for k, v := range s.marks {
		n.marks[k] = v
	}
	for k, v := range s.ints {
		n.ints[k] = v
	}
	for k, v := range s.mem {
		n.mem[k] = v
	}
	for k, v := range s.bumped {
		n.bumped[k] = v
	}
	for k, v := range s.tokpre {
		n.tokpre[k] = v
	}
	for k, v := range s.atEntry {
		n.atEntry[k] = v
	}
	return n
}
func (s *state) shift(d iv) {
	if s.ov < INF {
		if d.hi >= INF {
			s.ov = INF
		} else {
			s.ov += d.hi
		}
	}
	for k, v := range s.marks {
		s.marks[k] = v.add(d)
	}
}

// join returns (result, changed)
func join(a, b *state, widen bool) (*state, bool) {
	if a == nil || a.bottom {
		return b.clone(), !(b == nil || b.bottom)
	}
	if b.bottom {
		return a, false
	}
	r := a.clone()
	ch := false
	if b.ov > r.ov {
		r.ov = b.ov
		if widen {
			r.ov = INF
		}
		ch = true
	}
	for k, va := range a.marks {
		vb, ok := b.marks[k]
		if !ok {
			delete(r.marks, k)
			ch = true
			continue
		}
		h := hull(va, vb)
		if h != va {
			if widen {
				if h.lo < va.lo {
					h.lo = -INF
				}
				if h.hi > va.hi {
					h.hi = INF
				}
			}
			r.marks[k] = h
			ch = true
		}
	}
	for k, va := range a.ints {
		vb, ok := b.ints[k]
		if !ok {
			delete(r.ints, k)
			continue
		}
		h := hull(va, vb)
		if h != va {
			r.ints[k] = h
			ch = true
		}
	}
	for k, va := range a.ovAt {
		if vb, ok := b.ovAt[k]; !ok {
			delete(r.ovAt, k)
		} else if vb > va {
			r.ovAt[k] = vb
		}
	}
	for k, va := range a.mem {
		if vb, ok := b.mem[k]; !ok || vb != va {
			delete(r.mem, k)
		}
	}
	if a.dirty == nil && b.dirty != nil {
		r.dirty = b.dirty
		ch = true
	}
	if a.last != b.last {
		r.last = nil
	}
	if a.peek && !b.peek {
		r.peek = false
		ch = true
	}
	for k := range a.bumped {
		if !b.bumped[k] {
			delete(r.bumped, k)
		}
	}
	for k := range a.atEntry {
		if !b.atEntry[k] {
			delete(r.atEntry, k)
		}
	}
	return r, ch
}

type summary struct {
	known         bool
	net           iv   // net advance on success returns
	canFail       bool // has failure returns
	ovFail        int  // max ov at failure returns
	lenIsNet      bool // result string length == net advance
	tokOK, tokBad bool
	failKind      string
}

// cob is one cursor obligation (rule instance).
type cob struct {
	rule, fn, construct, detail string
	pos                         token.Pos
	ok                          bool
}

type analyzer struct {
	p         *Prog
	prog      *ssa.Program
	cursorT   *types.Named
	holders   map[*types.Named]bool // structs of the package holding the cursor by value
	skipUntil *ssa.Function         // synthesised bulk skip (outlineSkipUntil), nil if the package has none
	posIdx    int
	inIdx     int
	next      *ssa.Function
	back      *ssa.Function
	methods   []*ssa.Function
	sums      map[*ssa.Function]*summary
	// cursor methods that are not readers themselves and are analysed as part of their callers (inlined views)
	inlinedHelpers map[*ssa.Function]bool
	peek           *ssa.Function // a non-consuming read primitive (same bounds-checked load as NEXT, no advance), if any
	obs            map[string]*cob
	order          []string
	report         bool
	callw          map[[2]*ssa.Function]int // min net-since-entry at call sites caller->callee
	ords           map[ssa.Instruction]int
	loopOrd        map[*ssa.BasicBlock]int
	nextUses       map[ssa.Instruction]bool // NEXT calls whose result is inspected
}

// rec records the verdict of an obligation; evaluated several times (joins), it is discharged only if every
// evaluation in the final pass is.
func (a *analyzer) rec(rule string, fn *ssa.Function, construct string, instr ssa.Instruction, ok bool, detail string) {
	if !a.report {
		return
	}
	k := rule + "|" + shortName(fn) + "|" + construct
	o, seen := a.obs[k]
	if !seen {
		o = &cob{rule: rule, fn: shortName(fn), construct: construct, ok: true}
		if instr != nil {
			o.pos = a.p.InstrPos(instr)
		} else {
			o.pos = fn.Pos()
		}
		a.obs[k] = o
		a.order = append(a.order, k)
	}
	if !ok {
		o.ok = false
		o.detail = detail
	} else if o.ok && o.detail == "" {
		o.detail = detail
	}
}

// ord: ordinal of instr among the instructions of the same kind (and callee) in its function, in block order.
func (a *analyzer) ord(instr ssa.Instruction) int {
	if n, ok := a.ords[instr]; ok {
		return n
	}
	fn := instr.Parent()
	counts := map[string]int{}
	for _, b := range fn.Blocks {
		for _, in := range b.Instrs {
			k := fmt.Sprintf("%T", in)
			if c, ok := in.(*ssa.Call); ok {
				k += calleeName(&c.Call)
			}
			counts[k]++
			a.ords[in] = counts[k]
		}
	}
	return a.ords[instr]
}

func isRecvField(v ssa.Value, fn *ssa.Function, idx int, cursor *types.Named) bool {
	fa, ok := v.(*ssa.FieldAddr)
	if !ok || fa.Field != idx {
		return false
	}
	pt, ok := fa.X.Type().Underlying().(*types.Pointer)
	if !ok {
		return false
	}
	return types.Identical(pt.Elem(), cursor)
}

func addrKey(v ssa.Value) string {
	switch x := v.(type) {
	case *ssa.FieldAddr:
		return fmt.Sprintf("%s.%d", x.X.Name(), x.Field)
	}
	return ""
}

func (a *analyzer) analyze(fn *ssa.Function) *summary {
	sum := &summary{known: false, net: iv{INF, -INF}}
	if len(fn.Blocks) == 0 {
		return sum
	}
	if os.Getenv("VLDEBUG") == "analyze:"+fn.Name() {
		fn.WriteTo(os.Stderr)
	}
	in := make([]*state, len(fn.Blocks))
	visits := make([]int, len(fn.Blocks))
	in[0] = newState()
	work := []int{0}
	inWork := map[int]bool{0: true}
	// dominance for back edges
	isBack := func(from, to *ssa.BasicBlock) bool { return to.Dominates(from) }
	for len(work) > 0 {
		bi := work[0]
		work = work[1:]
		inWork[bi] = false
		b := fn.Blocks[bi]
		st := in[bi].clone()
		if st.bottom {
			continue
		}
		if os.Getenv("VLDEBUG") == "analyze:"+fn.Name() {
			fmt.Fprintf(os.Stderr, "VISIT block %d ov=%v\n", b.Index, st.ov)
		}
		outs := a.transferBlock(fn, b, st, sum)
		for i, succ := range b.Succs {
			o := outs[i]
			if o == nil || o.bottom {
				continue
			}
			o = o.clone()
			// a phi of read results in the successor takes, on this edge, the interval and the distance-since-read of
			// the value flowing in (`c := next(); for pred(c) { c = next() }`)
			pi := -1
			for k, pb := range succ.Preds {
				if pb == b {
					pi = k
				}
			}
			for _, pin := range succ.Instrs {
				ph, isPhi := pin.(*ssa.Phi)
				if !isPhi {
					break
				}
				delete(o.ints, ssa.Value(ph))
				delete(o.marks, "n:"+ph.Name())
				if pi < 0 {
					continue
				}
				ev := a.res(o, ph.Edges[pi])
				if cur, ok := o.ints[ev]; ok {
					o.ints[ph] = cur
					if m, ok := o.marks["n:"+ev.Name()]; ok {
						o.marks["n:"+ph.Name()] = m
					}
				}
			}
			lk := fmt.Sprintf("loop%d", succ.Index)
			if isBack(b, succ) {
				m, ok := o.marks[lk]
				good := ok && m.lo >= 1
				ln := a.loopNo(succ)
				if !a.loopTouchesCursor(succ) {
					// a loop that performs no cursor operation cannot spin on the input; it must be a counted loop
					a.rec("O3", fn, fmt.Sprintf("loop #%d (no cursor operation) is a counted loop", ln), succ.Instrs[0], countedLoop(succ),
						"a loop without cursor operations is not a simple counted/range loop: its termination is not evident")
					continue
				}
				a.rec("O3", fn, fmt.Sprintf("loop #%d: every iteration advances the cursor", ln), succ.Instrs[0], good,
					fmt.Sprintf("the loop may iterate without consuming a byte (net advance since the loop header %v): the parser can hang", m))
				bounded := o.ov < INF
				a.rec("O2", fn, fmt.Sprintf("loop #%d: cursor stays within a bounded distance of the end of input", ln), succ.Instrs[0], bounded,
					"the cursor may run unboundedly past the end of input: at end of input every read yields the sentinel and the loop need not terminate")
			}
			// entering a loop header: reset its mark
			if isLoopHeader(succ) {
				o.marks[lk] = iv{0, 0}
			}
			visits[succ.Index]++
			nw, ch := join(in[succ.Index], o, visits[succ.Index] > 40)
			if in[succ.Index] == nil || ch {
				in[succ.Index] = nw
				if !inWork[succ.Index] {
					work = append(work, succ.Index)
					inWork[succ.Index] = true
				}
			}
		}
	}
	return sum
}

func isLoopHeader(b *ssa.BasicBlock) bool {
	for _, p := range b.Preds {
		if b.Dominates(p) {
			return true
		}
	}
	return false
}

// resolve a value through store->load forwarding
func (a *analyzer) res(st *state, v ssa.Value) ssa.Value {
	if u, ok := v.(*ssa.UnOp); ok && u.Op == token.MUL {
		if k := addrKey(u.X); k != "" {
			if w, ok := st.mem[k]; ok {
				return w
			}
		}
	}
	return v
}

// outlineStepBack: see RunCursor. Returns nil if the package contains no statement `cursor.position -= 1`.
func (a *analyzer) outlineStepBack(pkgpath string) *ssa.Function {
	p := a.p
	if g, ok := p.outlined[pkgpath]; ok {
		return g // already done for this program (the cursor analysis runs once per rule set that needs it)
	}
	if p.outlined == nil {
		p.outlined = map[string]*ssa.Function{}
	}
	var sites []*ssa.Store
	for _, f := range p.FuncsOf(pkgpath) {
		if f == a.next {
			continue
		}
		for _, b := range f.Blocks {
			for _, in := range b.Instrs {
				st, ok := in.(*ssa.Store)
				if !ok {
					continue
				}
				fa, ok := st.Addr.(*ssa.FieldAddr)
				if !ok || fa.Field != a.posIdx {
					continue
				}
				pt, ok := fa.X.Type().Underlying().(*types.Pointer)
				if !ok || !types.Identical(pt.Elem(), a.cursorT) {
					continue
				}
				bo, ok := st.Val.(*ssa.BinOp)
				if !ok || bo.Op != token.SUB {
					continue
				}
				if c, ok := constInt(bo.Y); !ok || c != 1 {
					continue
				}
				ld, ok := bo.X.(*ssa.UnOp)
				if !ok || ld.Op != token.MUL {
					continue
				}
				lfa, ok := ld.X.(*ssa.FieldAddr)
				if !ok || lfa.Field != a.posIdx || lfa.X != fa.X {
					continue
				}
				// nothing between the load and the store may touch the position (they are adjacent in practice)
				sites = append(sites, st)
			}
		}
	}
	if len(sites) == 0 {
		p.outlined[pkgpath] = nil
		return nil
	}
	g := ssa.SynthFieldStep(p.SPkgs[pkgpath], "stepBack$outlined", types.NewPointer(a.cursorT), a.posIdx, -1)
	for _, st := range sites {
		fa := st.Addr.(*ssa.FieldAddr)
		ssa.ReplaceStoreWithCall(st, g, fa.X)
	}
	p.Funcs = append(p.Funcs, g)
	p.outlined[pkgpath] = g
	return g
}

// outlineSkipUntil: the bulk skip `text := input[pos:]; if i := strings.IndexByte(text, c); i >= 0 { text = text[:i] };
// pos += len(text)` (the rest of a line found with the library's byte search instead of a loop of reads) is given the
// form the rules speak about: a call of a synthesised `skipUntil$outlined(p, c)` that reads up to the first c or the end
// of the input with the two cursor primitives; uses of text after the statement read input[pos0:pos]. Nothing is
// executed; the rewritten statement moves the cursor to the same place and denotes the same bytes.
func (a *analyzer) outlineSkipUntil(pkgpath string) {
	p := a.p
	key := pkgpath + "#skipUntil"
	if _, done := p.outlined[key]; done {
		return
	}
	if p.outlined == nil {
		p.outlined = map[string]*ssa.Function{}
	}
	p.outlined[key] = nil
	type site struct {
		st         *ssa.Store
		recv, c    ssa.Value
		text       ssa.Value
		lenCall    ssa.Instruction
		input, low ssa.Value
	}
	var sites []site
	isLoadOf := func(v ssa.Value, base ssa.Value, field int) bool {
		ld, ok := v.(*ssa.UnOp)
		if !ok || ld.Op != token.MUL {
			return false
		}
		fa, ok := ld.X.(*ssa.FieldAddr)
		return ok && fa.X == base && fa.Field == field && isRecvField(fa, nil, field, a.cursorT)
	}
	for _, f := range p.FuncsOf(pkgpath) {
		if f == a.next || f == a.back {
			continue
		}
		for _, b := range f.Blocks {
			for _, in := range b.Instrs {
				st, ok := in.(*ssa.Store)
				if !ok || !isRecvField(st.Addr, nil, a.posIdx, a.cursorT) {
					continue
				}
				base := st.Addr.(*ssa.FieldAddr).X
				bo, ok := st.Val.(*ssa.BinOp)
				if !ok || bo.Op != token.ADD {
					continue
				}
				var lenC *ssa.Call
				for _, pr := range [][2]ssa.Value{{bo.X, bo.Y}, {bo.Y, bo.X}} {
					if c, isC := pr[1].(*ssa.Call); isC && isLoadOf(pr[0], base, a.posIdx) {
						if bi, isB := c.Call.Value.(*ssa.Builtin); isB && bi.Name() == "len" && len(c.Call.Args) == 1 {
							lenC = c
						}
					}
				}
				if lenC == nil {
					continue
				}
				ph, ok := lenC.Call.Args[0].(*ssa.Phi)
				if !ok || len(ph.Edges) != 2 || ph.Block() != b {
					continue
				}
				// one edge: rest = input[pos:]; the other: rest[:i] with i = IndexByte(rest, c)
				var rest, cut *ssa.Slice
				var restEdge, cutEdge int
				for i, e := range ph.Edges {
					sl, isSl := e.(*ssa.Slice)
					if !isSl {
						continue
					}
					if inner, isInner := sl.X.(*ssa.Slice); isInner && sl.Low == nil && sl.High != nil && sl.Max == nil {
						cut, cutEdge = sl, i
						_ = inner
					} else {
						rest, restEdge = sl, i
					}
				}
				if rest == nil || cut == nil || cut.X != ssa.Value(rest) || rest.High != nil || rest.Max != nil || rest.Low == nil {
					continue
				}
				if !isLoadOf(rest.X, base, a.inIdx) || !isLoadOf(rest.Low, base, a.posIdx) {
					continue
				}
				idx, ok := cut.High.(*ssa.Call)
				if !ok || len(idx.Call.Args) != 2 || idx.Call.Args[0] != ssa.Value(rest) {
					continue
				}
				var cval ssa.Value
				switch calleeName(&idx.Call) {
				case "strings.IndexByte":
					if k, isK := idx.Call.Args[1].(*ssa.Const); isK {
						if n, okN := constInt(k); okN {
							cval = ssa.NewConst(constant.MakeInt64(int64(n)), a.next.Signature.Results().At(0).Type())
						}
					}
				case "strings.Index":
					if k, isK := idx.Call.Args[1].(*ssa.Const); isK && k.Value != nil && k.Value.Kind() == constant.String {
						if sv := constant.StringVal(k.Value); len(sv) == 1 {
							cval = ssa.NewConst(constant.MakeInt64(int64(sv[0])), a.next.Signature.Results().At(0).Type())
						}
					}
				}
				if cval == nil {
					continue
				}
				// the branch: the cut edge is taken exactly when i >= 0
				A := b.Preds[cutEdge]
				D := b.Preds[restEdge]
				if len(A.Preds) != 1 || A.Preds[0] != D || cut.Block() != A || rest.Block() != D || idx.Block() != D {
					continue
				}
				iff, ok := D.Instrs[len(D.Instrs)-1].(*ssa.If)
				if !ok {
					continue
				}
				cmp, ok := iff.Cond.(*ssa.BinOp)
				if !ok || cmp.X != ssa.Value(idx) {
					continue
				}
				k, okK := constInt(cmp.Y)
				if !okK {
					continue
				}
				foundOnTrue := cmp.Op == token.GEQ && k == 0 || cmp.Op == token.GTR && k == -1 || cmp.Op == token.NEQ && k == -1
				foundOnFalse := cmp.Op == token.LSS && k == 0 || cmp.Op == token.LEQ && k == -1 || cmp.Op == token.EQL && k == -1
				if !(foundOnTrue && D.Succs[0] == A && D.Succs[1] == b) && !(foundOnFalse && D.Succs[1] == A && D.Succs[0] == b) {
					continue
				}
				// nothing else moves or reads the cursor between the load of the position and the store
				clean := true
				inRange := false
				for _, blk := range []*ssa.BasicBlock{D, A, b} {
					for _, x := range blk.Instrs {
						if x == ssa.Instruction(rest.Low.(*ssa.UnOp)) {
							inRange = true
						}
						if x == ssa.Instruction(st) {
							inRange = false
						}
						if !inRange {
							continue
						}
						switch y := x.(type) {
						case *ssa.Call:
							if y != idx && y != lenC {
								clean = false
							}
						case *ssa.Store, *ssa.Go, *ssa.Defer, *ssa.MapUpdate, *ssa.Send:
							clean = false
						}
					}
				}
				if !clean {
					continue
				}
				// text is not used before the store except by len
				okUse := true
				for _, ref := range *ph.Referrers() {
					if ref == ssa.Instruction(lenC) {
						continue
					}
					if ref.Block() == b && instrIndex(ref) < instrIndex(st) {
						okUse = false
					}
					if ref.Block() != b && !b.Dominates(ref.Block()) {
						okUse = false
					}
				}
				if !okUse {
					continue
				}
				sites = append(sites, site{st, base, cval, ph, lenC, rest.X, rest.Low})
			}
		}
	}
	if len(sites) == 0 {
		return
	}
	g := ssa.SynthSkipUntil(p.SPkgs[pkgpath], "skipUntil$outlined", types.NewPointer(a.cursorT), a.next, a.back)
	for _, s := range sites {
		ssa.OutlineSkipUntil(s.st, g, s.recv, s.c, s.text, s.lenCall, s.input, s.low, a.posIdx)
	}
	p.Funcs = append(p.Funcs, g)
	p.outlined[key] = g
	a.skipUntil = g
}

// normalisePeeks rewrites, in a reader's view, step-back-then-read-again sequences that come from inlined peek/expect
// helpers into the plain read + conditional step-back form (ssa.CancelInverseCalls); the view must stay well-formed.
func (a *analyzer) normalisePeeks(v *ssa.Function) {
	if origFn(v) == v {
		return // nothing was inlined: the function is as written
	}
	isCursor := a.isCursorT
	touches := func(in ssa.Instruction) bool {
		switch x := in.(type) {
		case *ssa.FieldAddr:
			return isCursor(x.X.Type())
		case *ssa.Field:
			return isCursor(x.X.Type())
		case ssa.CallInstruction:
			c := x.Common()
			if c.IsInvoke() {
				return false
			}
			for _, arg := range c.Args {
				if isCursor(arg.Type()) {
					return true
				}
			}
			if _, isFn := c.Value.(*ssa.Function); !isFn {
				if _, isB := c.Value.(*ssa.Builtin); !isB {
					return true // a function value: unknown effects
				}
			}
		case *ssa.Return, *ssa.Panic:
			return true
		}
		return false
	}
	// a non-consuming peek is a read followed by a step back
	if a.peek != nil {
		for _, b := range v.Blocks {
			for _, in := range append([]ssa.Instruction(nil), b.Instrs...) {
				if c, ok := in.(*ssa.Call); ok && c.Call.StaticCallee() == a.peek {
					ssa.ExpandCall(c, a.next, a.back)
				}
			}
		}
	}
	isDo := func(c *ssa.Call) bool { return c.Call.StaticCallee() == a.next }
	isUndo := func(c *ssa.Call) bool { return c.Call.StaticCallee() == a.back }
	if os.Getenv("VLDEBUG") == v.Name() {
		v.WriteTo(os.Stderr)
	}
	if ssa.CancelInverseCalls(v, isDo, isUndo, touches) {
		if os.Getenv("VLDEBUG") == v.Name() {
			v.WriteTo(os.Stderr)
		}
		var buf bytes.Buffer
		if !ssa.SanityCheckFunction(v, &buf) {
			brokenf("peek normalisation of %s failed the SSA sanity check:\n%s", funcFullName(v), buf.String())
		}
	}
}

func (a *analyzer) isCursorMethod(f *ssa.Function) bool {
	if f == nil || f.Signature.Recv() == nil {
		return false
	}
	pt, ok := f.Signature.Recv().Type().(*types.Pointer)
	return ok && a.isCursorT(pt.Elem())
}

// isCursorT: t is (a pointer to) the cursor type or a struct of the package that holds the cursor by value (`parser`
// embedding the `scanner` that has the input and the position): its methods read through the same cursor.
func (a *analyzer) isCursorT(t types.Type) bool {
	if pt, ok := t.(*types.Pointer); ok {
		t = pt.Elem()
	}
	if a.cursorT == nil {
		return false
	}
	if types.Identical(t, a.cursorT) {
		return true
	}
	for h := range a.holders {
		if types.Identical(t, h) {
			return true
		}
	}
	return false
}

func (a *analyzer) requireClean(st *state, instr ssa.Instruction, fn *ssa.Function, what string) {
	if st.dirty != nil {
		c := st.dirty.(*ssa.Call)
		a.rec("Q2", fn, fmt.Sprintf("failure of %s (call #%d) is tested before the cursor is used again", c.Call.StaticCallee().Name(), a.ord(c)), c, false,
			fmt.Sprintf("%s although %s may have failed and its result was not tested: the failed reader may have consumed text that is then silently dropped, and may have left the cursor past the end of input", what, c.Call.StaticCallee().Name()))
	}
}

func (a *analyzer) transferBlock(fn *ssa.Function, b *ssa.BasicBlock, st *state, sum *summary) []*state {
	for _, instr := range b.Instrs {
		switch x := instr.(type) {
		case *ssa.UnOp:
			if x.Op == token.MUL && isRecvField(x.X, fn, a.posIdx, a.cursorT) {
				st.marks["v:"+x.Name()] = iv{0, 0}
				st.ovAt["v:"+x.Name()] = st.ov
				if e := st.marks["entry"]; e == (iv{0, 0}) {
					st.atEntry[x] = true
				}
			}
		case *ssa.Store:
			if isRecvField(x.Addr, fn, a.posIdx, a.cursorT) {
				// pos = pos + len(FindString(anchored, input[pos:]))
				okLemma := false
				if bo, ok := x.Val.(*ssa.BinOp); ok && bo.Op == token.ADD {
					if ld, ok := bo.X.(*ssa.UnOp); ok && ld.Op == token.MUL && isRecvField(ld.X, fn, a.posIdx, a.cursorT) {
						if c, ok := bo.Y.(*ssa.Call); ok {
							if bi, ok := c.Call.Value.(*ssa.Builtin); ok && bi.Name() == "len" {
								// the matched text: FindString(re, input[pos:]), or a merge of several such matches taken
								// at the same position (name := re1.FindString(...); if name == "" { name = re2.FindString(...) })
								var matches []*ssa.Call
								okShape := true
								var collect func(v ssa.Value, depth int)
								collect = func(v ssa.Value, depth int) {
									switch y := v.(type) {
									case *ssa.Call:
										if y.Call.StaticCallee() != nil && y.Call.StaticCallee().Name() == "FindString" {
											matches = append(matches, y)
											return
										}
										okShape = false
									case *ssa.Phi:
										if depth > 2 {
											okShape = false
											return
										}
										for _, e := range y.Edges {
											collect(e, depth+1)
										}
									default:
										okShape = false
									}
								}
								collect(c.Call.Args[0], 0)
								allAtPos := okShape && len(matches) > 0
								for _, fs := range matches {
									sl, ok := fs.Call.Args[1].(*ssa.Slice)
									if !ok || sl.High != nil || sl.Low == nil {
										allAtPos = false
										break
									}
									// any match is a substring of input[pos:] (anchoring matters for C06.Q10 - no text skipped - not for the bound)
									if m, have := st.marks["v:"+sl.Low.Name()]; !have || m != (iv{0, 0}) {
										allAtPos = false
									}
								}
								if allAtPos && st.ov <= 0 {
									okLemma = true
									ov := st.ov
									st.shift(iv{0, INF})
									st.ov = ov // still <= len by the lemma
								}
							}
						}
					}
				}
				a.rec("O1", fn, fmt.Sprintf("direct store #%d to the cursor position is covered by a lemma", a.ord(x)), x, okLemma,
					"the position is assigned directly and the assignment is not `pos += len(FindString(<regexp>, input[pos:]))` with the cursor within the input: nothing bounds the new position")
				if !okLemma {
					st.ov = INF
				}
				st.last, st.peek = nil, false
			} else if k := addrKey(x.Addr); k != "" {
				st.mem[k] = x.Val
			}
		case *ssa.Slice:
			ld, ok := x.X.(*ssa.UnOp)
			if !ok || ld.Op != token.MUL || !isRecvField(ld.X, fn, a.inIdx, a.cursorT) {
				continue
			}
			a.requireClean(st, instr, fn, "slice of input")
			okAll := true
			why := ""
			var lo, hi iv
			haveLo, haveHi := false, false
			if x.Low != nil {
				lo, haveLo = st.marks["v:"+x.Low.Name()]
				if !haveLo {
					okAll, why = false, "low bound is not a cursor snapshot"
				}
			} else {
				lo, haveLo = iv{INF, INF}, false
			}
			if x.High != nil {
				hi, haveHi = st.marks["v:"+x.High.Name()]
				if !haveHi {
					okAll, why = false, "high bound is not a cursor snapshot"
				}
			}
			if okAll {
				// hi <= len : pos_hi - len <= ov - d_hi.lo
				if haveHi {
					if st.ov >= INF || st.ov-hi.lo > 0 {
						okAll, why = false, fmt.Sprintf("high bound may exceed len(input) by %d", st.ov-hi.lo)
					}
					if haveLo && lo.lo < hi.hi {
						okAll, why = false, "low bound may exceed high bound"
					}
				} else if haveLo {
					if st.ov >= INF || st.ov-lo.lo > 0 {
						okAll, why = false, fmt.Sprintf("low bound may exceed len(input) by %d", st.ov-lo.lo)
					}
				}
				// lo >= 0: snapshot taken in this activation with entry net >= 0
				if e := st.marks["entry"]; e.lo < 0 {
					okAll, why = false, "cursor may be before the entry position"
				}
			}
			a.rec("O1", fn, fmt.Sprintf("input slice #%d is within 0 <= lo <= hi <= len(input)", a.ord(x)), x, okAll, "slice of the input may be out of range: "+why)
			// relational: result == input[entry:now]
			if haveLo && haveHi && st.atEntry[x.Low] && hi == (iv{0, 0}) {
				st.atEntry[x] = true // mark slice value as "token = whole advance"
			}
		case *ssa.Index:
			// input[i] outside the read primitive (go/ssa: indexing a string is an Index): i must be a cursor snapshot
			// strictly below len(input)
			ld, ok := x.X.(*ssa.UnOp)
			if !ok || ld.Op != token.MUL || !isRecvField(ld.X, fn, a.inIdx, a.cursorT) {
				continue
			}
			okIdx, why := true, ""
			m, have := st.marks["v:"+x.Index.Name()]
			switch {
			case !have:
				okIdx, why = false, "the index is not a cursor snapshot"
			case st.ov >= INF || st.ov-m.lo >= 0:
				okIdx, why = false, "the index may be at or beyond len(input) (the cursor may stand at the end of the input, or past it after a read at the end)"
			default:
				if e := st.marks["entry"]; e.lo < 0 {
					okIdx, why = false, "the cursor may be before the entry position"
				}
			}
			a.rec("O1", fn, fmt.Sprintf("input index #%d is within 0 <= i < len(input)", a.ord(x)), x, okIdx, "indexing the input may be out of range: "+why)
		case *ssa.Call:
			callee := x.Call.StaticCallee()
			if callee == a.next {
				a.requireClean(st, instr, fn, "cursor read")
				blind := len(*x.Referrers()) == 0
				if blind {
					a.rec("Q1", fn, fmt.Sprintf("byte consumed by read #%d has been inspected", a.ord(x)), x, st.peek,
						"a byte is consumed without being inspected and without the byte at the cursor being known from a preceding read+backup: text is silently skipped")
				}
				st.shift(iv{1, 1})
				st.marks["n:"+x.Name()] = iv{0, 0}
				st.ints[x] = iv{-1, 255}
				st.last, st.peek = x, false
			} else if callee == a.back {
				st.shift(iv{-1, -1})
				if st.last != nil {
					st.peek = true // byte at cursor is the one inspected by st.last
				}
				st.last = nil
				if e := st.marks["entry"]; e.lo < 0 {
					a.rec("O2", fn, fmt.Sprintf("backup #%d does not move the cursor before the reader's entry position", a.ord(x)), x, false,
						"the cursor may be moved before the position at which this reader was entered (and so before 0)")
				} else {
					a.rec("O2", fn, fmt.Sprintf("backup #%d does not move the cursor before the reader's entry position", a.ord(x)), x, true, "")
				}
			} else if a.isCursorMethod(callee) {
				a.requireClean(st, instr, fn, "call to "+callee.Name())
				cs := a.sums[callee]
				pre := st.ov <= 0
				a.rec("O2", fn, fmt.Sprintf("%s (call #%d) is entered with the cursor within the input", callee.Name(), a.ord(x)), x, pre,
					fmt.Sprintf("%s is entered with the cursor possibly %s past the end of the input: its slices and reads start beyond len(input)", callee.Name(), ovs(st.ov)))
				if e, ok := st.marks["entry"]; ok {
					k := [2]*ssa.Function{fn, callee}
					if w, seen := a.callw[k]; !seen || e.lo < w {
						a.callw[k] = e.lo
					}
				}
				if cs == nil || !cs.known {
					// no returning path known yet: continuation unreachable
					st.bottom = true
					return make([]*state, len(b.Succs))
				}
				var pre_marks []string
				for k := range st.marks {
					pre_marks = append(pre_marks, k)
				}
				st.shift(cs.net)
				st.ov = 0 // success contract (assumed; checked in callee)
				st.marks["c:"+x.Name()] = iv{0, 0}
				st.last, st.peek = nil, false
				if cs.lenIsNet {
					st.tokpre[x] = pre_marks
				}
				if cs.canFail {
					a.rec("Q2", fn, fmt.Sprintf("failure of %s (call #%d) is tested before the cursor is used again", callee.Name(), a.ord(x)), x, true, "")
					st.dirty = x
					if cs.ovFail >= INF {
						st.ov = INF
					} else {
						st.ov = max(0, cs.ovFail) + 0
					}
				}
			}
		case *ssa.Return:
			// forwarding: `return p.reader()` hands the possibly failed reader's result to the caller unchanged - the
			// caller tests it (its own Q2 obligation). This return is then a failure return if the reader failed and a
			// success return, with the reader's success guarantee, if it did not.
			if st.dirty != nil {
				forwarded := false
				for _, r := range x.Results {
					rv := a.res(st, r)
					if rv == st.dirty {
						forwarded = true
					}
					if ex, ok := rv.(*ssa.Extract); ok && ex.Tuple == st.dirty {
						forwarded = true
					}
				}
				if forwarded {
					sum.canFail = true
					sum.ovFail = max(sum.ovFail, st.ov)
					sum.known = true
					if m, ok := st.marks["c:"+st.dirty.Name()]; ok {
						st.ov = min(st.ov, m.hi)
					}
					st.dirty = nil
				}
			}
			// classify
			fail := false
			for _, r := range x.Results {
				r = a.res(st, r)
				if c, ok := r.(*ssa.Const); ok && c.IsNil() {
					if _, isPtr := c.Type().Underlying().(*types.Pointer); isPtr {
						fail = true
					}
				}
				if types.Identical(r.Type(), types.Universe.Lookup("error").Type()) {
					if c, ok := r.(*ssa.Const); !(ok && c.IsNil()) {
						fail = true
					}
				}
			}
			e := st.marks["entry"]
			if fail {
				sum.canFail = true
				sum.ovFail = max(sum.ovFail, st.ov)
				sum.known = true
				if sum.net.lo > sum.net.hi { // keep net for success only
				}
			} else {
				a.requireClean(st, instr, fn, "success return")
				good := st.ov <= 0 && e.lo >= 0
				a.rec("O2", fn, "success returns leave the cursor within the input and not before the entry position", x, good,
					fmt.Sprintf("a success return is reachable with the cursor possibly %s past the end of the input (net advance since entry %v): the caller's next slice is out of range", ovs(st.ov), e))
				sum.known = true
				sum.net = hull(sum.net, e)
				if len(x.Results) == 1 {
					res0 := a.res(st, x.Results[0])
					if sl, ok := res0.(*ssa.Slice); ok && st.atEntry[sl] {
						sum.tokOK = true
					} else if k, ok := res0.(*ssa.Const); ok && k.Value != nil && k.Value.Kind() == constant.String && constant.StringVal(k.Value) == "" && e == (iv{0, 0}) {
						// the empty token with the cursor back at the entry position: length 0 == net advance 0
					} else {
						sum.tokBad = true
					}
					sum.lenIsNet = sum.tokOK && !sum.tokBad
				}
			}
		}
	}
	// successors
	outs := make([]*state, len(b.Succs))
	if len(b.Succs) == 0 {
		return outs
	}
	last := b.Instrs[len(b.Instrs)-1]
	iff, ok := last.(*ssa.If)
	if !ok {
		for i := range outs {
			outs[i] = st
		}
		return outs
	}
	outs[0] = a.refine(fn, st.clone(), iff.Cond, true)
	outs[1] = a.refine(fn, st.clone(), iff.Cond, false)
	return outs
}

func (s *summary) lenIsNetSet() bool { return s.failKind == "notoken" }

func constInt(v ssa.Value) (int, bool) {
	c, ok := v.(*ssa.Const)
	if !ok || c.Value == nil || c.Value.Kind() != constant.Int {
		return 0, false
	}
	i, ok := constant.Int64Val(c.Value)
	return int(i), ok
}

func (a *analyzer) refine(fn *ssa.Function, st *state, cond ssa.Value, truth bool) *state {
	if u, ok := cond.(*ssa.UnOp); ok && u.Op == token.NOT {
		return a.refine(fn, st, u.X, !truth)
	}
	if c, ok := cond.(*ssa.Call); ok && len(c.Call.Args) >= 1 {
		// a pure predicate on a read result (library character class, or a side-effect-free helper of the repository
		// with further constant arguments such as a class mask): the argument that is a read result
		var v, arg ssa.Value
		for _, a0 := range c.Call.Args {
			w := a0
			for i := 0; i < 2; i++ {
				if cv, ok := w.(*ssa.Convert); ok {
					w = cv.X
				}
			}
			w = a.res(st, w)
			if _, isRead := st.ints[w]; isRead {
				v, arg = w, a0
			}
		}
		if v == nil {
			return st
		}
		if cur, isRead := st.ints[v]; isRead {
			// the predicate is folded for every value the read result can still have: the result keeps those for which
			// the predicate has the value of this branch (pure library predicate or pure helper of the repo, purefn.go)
			lo, hi, known := INF, -INF, true
			for k := max(cur.lo, -1); k <= min(cur.hi, 255) && known; k++ {
				switch evalCondAliases(cond, map[ssa.Value]bool{arg: true, v: true}, k) {
				case -1:
					known = false
				case 1:
					if truth {
						lo, hi = min(lo, k), max(hi, k)
					}
				case 0:
					if !truth {
						lo, hi = min(lo, k), max(hi, k)
					}
				}
			}
			if known && cur.lo >= -1 && cur.hi <= 255 {
				if lo > hi {
					st.bottom = true
					return st
				}
				cur = iv{lo, hi}
				st.ints[v] = cur
				if cur.lo >= 0 {
					if m, ok := st.marks["n:"+v.Name()]; ok && m.hi < st.ov {
						st.ov = m.hi
					}
				}
			}
		}
		return st
	}
	bo, ok := cond.(*ssa.BinOp)
	if !ok {
		// bool result of a cursor method etc: no refinement
		return st
	}
	x := a.res(st, bo.X)
	y := a.res(st, bo.Y)
	op := bo.Op
	if !truth {
		switch op {
		case token.EQL:
			op = token.NEQ
		case token.NEQ:
			op = token.EQL
		case token.LSS:
			op = token.GEQ
		case token.GEQ:
			op = token.LSS
		case token.GTR:
			op = token.LEQ
		case token.LEQ:
			op = token.GTR
		}
	}
	// integer refinement of NEXT results
	if cur, ok := st.ints[x]; ok {
		if c, ok := constInt(y); ok {
			switch op {
			case token.EQL:
				cur = iv{max(cur.lo, c), min(cur.hi, c)}
			case token.LSS:
				cur.hi = min(cur.hi, c-1)
			case token.LEQ:
				cur.hi = min(cur.hi, c)
			case token.GTR:
				cur.lo = max(cur.lo, c+1)
			case token.GEQ:
				cur.lo = max(cur.lo, c)
			case token.NEQ:
				if cur.lo == c {
					cur.lo++
				}
				if cur.hi == c {
					cur.hi--
				}
			}
			if cur.lo > cur.hi {
				st.bottom = true
				return st
			}
			st.ints[x] = cur
			if cur.lo >= 0 {
				if m, ok := st.marks["n:"+x.Name()]; ok && m.hi < st.ov {
					st.ov = m.hi
				}
			}
		}
		return st
	}
	// snapshot < len(input): the cursor is at least one byte before the end, less what was consumed since the snapshot
	{
		isLenInput := func(v ssa.Value) bool {
			c, ok := v.(*ssa.Call)
			if !ok || len(c.Call.Args) != 1 {
				return false
			}
			if bi, isB := c.Call.Value.(*ssa.Builtin); !isB || bi.Name() != "len" {
				return false
			}
			ld, ok := c.Call.Args[0].(*ssa.UnOp)
			return ok && ld.Op == token.MUL && isRecvField(ld.X, fn, a.inIdx, a.cursorT)
		}
		var snap ssa.Value
		switch {
		case op == token.LSS && isLenInput(bo.Y):
			snap = x
		case op == token.GTR && isLenInput(bo.X):
			snap = y
		}
		if snap != nil {
			if m, ok := st.marks["v:"+snap.Name()]; ok && m.hi < INF {
				if nb := m.hi - 1; nb < st.ov {
					st.ov = nb
				}
			}
			return st
		}
	}
	// pos_now <= snapshot where the cursor cannot be before the snapshot: the positions are equal (`p.position > start`
	// as the test for "something was consumed")
	if op == token.LEQ || op == token.GEQ {
		mx, okx := st.marks["v:"+x.Name()]
		my, oky := st.marks["v:"+y.Name()]
		if okx && oky {
			// position(x) - position(y) = distance(y) - distance(x)
			if op == token.LEQ && my.lo-mx.hi >= 0 {
				op = token.EQL
			} else if op == token.GEQ && mx.lo-my.hi >= 0 {
				op = token.EQL
			}
		}
	}
	// pos_now == snapshot  (backtracking idiom)
	if op == token.EQL {
		_, okx := st.marks["v:"+x.Name()]
		_, oky := st.marks["v:"+y.Name()]
		if okx && oky {
			mx, my := st.marks["v:"+x.Name()], st.marks["v:"+y.Name()]
			// the younger snapshot has the smaller distance; equal positions => both distances equal the younger one
			young, old := "v:"+x.Name(), "v:"+y.Name()
			if my.hi < mx.hi {
				young, old = old, young
			}
			st.marks[old] = st.marks[young]
			if st.marks[young] == (iv{0, 0}) {
				if o, ok := st.ovAt[old]; ok && o < st.ov {
					st.ov = o
				}
				if st.dirty != nil {
					// cursor proved unchanged since a snapshot: failure was side-effect free w.r.t. the cursor
					if _, before := st.marks["c:"+st.dirty.Name()]; before {
						st.dirty = nil
					}
				}
			}
			return st
		}
	}
	// success / failure of a callee
	isNil := func(v ssa.Value) bool { c, ok := v.(*ssa.Const); return ok && c.IsNil() }
	callOf := func(v ssa.Value) *ssa.Call {
		switch t := v.(type) {
		case *ssa.Call:
			return t
		case *ssa.Extract:
			if c, ok := t.Tuple.(*ssa.Call); ok {
				return c
			}
		}
		return nil
	}
	if isNil(y) {
		c := callOf(x)
		if ph, isPhi := x.(*ssa.Phi); isPhi && st.dirty != nil {
			// a merged result: on the paths where the pending call happened, the merged value is that call's result
			for _, e := range ph.Edges {
				if e == st.dirty {
					c, _ = st.dirty.(*ssa.Call)
				}
			}
		}
		if c != nil && st.dirty == ssa.Value(c) {
			isErr := types.Identical(x.Type(), types.Universe.Lookup("error").Type())
			success := (op == token.NEQ && !isErr) || (op == token.EQL && isErr)
			if success {
				st.dirty = nil
				if m, ok := st.marks["c:"+c.Name()]; ok {
					st.ov = min(st.ov, m.hi)
				}
			}
		}
		return st
	}
	// token relational: v != "" / v == "lit"
	if cs, ok := y.(*ssa.Const); ok && cs.Value != nil && cs.Value.Kind() == constant.String {
		if c, ok := x.(*ssa.Call); ok {
			if pre, ok := st.tokpre[c]; ok && !st.bumped[c] {
				lit := constant.StringVal(cs.Value)
				n := 0
				if op == token.NEQ && lit == "" {
					n = 1
				}
				if op == token.EQL && lit != "" {
					n = len(lit)
				}
				if n > 0 {
					st.bumped[c] = true
					for _, k := range pre {
						if m, ok := st.marks[k]; ok {
							m.lo += n
							if m.hi < m.lo {
								m.hi = m.lo
							}
							st.marks[k] = m
						}
					}
				}
			}
		}
	}
	return st
}

// primitiveShape recognises NEXT (pos+1 on every path, returns phi(-1, int(input[pos]))) and BACK (pos-1).
func primitiveShape(f *ssa.Function, a *analyzer) string {
	if f == nil || len(f.Blocks) == 0 {
		return ""
	}
	delta := 0
	stores := 0
	calls := 0
	for _, b := range f.Blocks {
		for _, in := range b.Instrs {
			switch x := in.(type) {
			case *ssa.Call:
				if _, ok := x.Call.Value.(*ssa.Builtin); !ok {
					calls++
				}
			case *ssa.Store:
				if isRecvField(x.Addr, f, a.posIdx, a.cursorT) {
					stores++
					if bo, ok := x.Val.(*ssa.BinOp); ok {
						if c, ok := constInt(bo.Y); ok && c == 1 {
							if bo.Op == token.ADD {
								delta = 1
							} else if bo.Op == token.SUB {
								delta = -1
							}
						}
					}
				}
			}
		}
	}
	if calls == 0 && stores == 0 && f.Signature.Results().Len() == 1 && f.Signature.Params().Len() == 0 {
		// no effect at all: the bounds-checked load input[position] of NEXT without the advance
		if b, ok := f.Signature.Results().At(0).Type().Underlying().(*types.Basic); ok && b.Info()&types.IsInteger != 0 {
			for _, blk := range f.Blocks {
				for _, in := range blk.Instrs {
					if ix, ok := in.(*ssa.Index); ok {
						ls, ok1 := ix.X.(*ssa.UnOp)
						li, ok2 := ix.Index.(*ssa.UnOp)
						if ok1 && ok2 && isRecvField(ls.X, f, a.inIdx, a.cursorT) && isRecvField(li.X, f, a.posIdx, a.cursorT) {
							return "PEEK"
						}
					}
				}
			}
		}
	}
	if calls != 0 || stores != 1 {
		return ""
	}
	if delta == 1 && f.Signature.Results().Len() == 1 {
		// the store must be in a block that post-dominates entry: here, the return block
		return "NEXT"
	}
	if delta == -1 && f.Signature.Results().Len() == 0 {
		return "BACK"
	}
	return ""
}

func ovs(ov int) string {
	if ov >= INF {
		return "unboundedly"
	}
	return fmt.Sprintf("%d byte(s)", ov)
}

func (a *analyzer) loopNo(h *ssa.BasicBlock) int {
	if n, ok := a.loopOrd[h]; ok {
		return n
	}
	n := 0
	for _, b := range h.Parent().Blocks {
		if isLoopHeader(b) {
			n++
			a.loopOrd[b] = n
		}
	}
	return a.loopOrd[h]
}

// CursorResult is the outcome of the cursor analysis of one package.
type CursorResult struct {
	A       *analyzer
	Obs     []*cob
	Rounds  int
	Stable  bool
	Cycles  []string
	Problem string
}

// RunCursor finds the cursor type of pkgpath by shape (a struct with a string member and an int member used as
// input[position]), recognises NEXT/BACK by shape, computes summaries to a fixpoint and evaluates the obligations.
func RunCursor(p *Prog, pkgpath string) *CursorResult {
	res := &CursorResult{}
	sp := p.SPkgs[pkgpath]
	if sp == nil {
		res.Problem = "package not loaded"
		return res
	}
	a := &analyzer{p: p, prog: p.SSA, sums: map[*ssa.Function]*summary{}, obs: map[string]*cob{}, callw: map[[2]*ssa.Function]int{},
		ords: map[ssa.Instruction]int{}, loopOrd: map[*ssa.BasicBlock]int{}, posIdx: -1, inIdx: -1}
	res.A = a
	foldProg = p
	// cursor type: a named struct with pointer methods, one of which indexes string-member[int-member]
	for _, f := range p.FuncsOf(pkgpath) {
		for _, b := range f.Blocks {
			for _, in := range b.Instrs {
				var xv, iv2 ssa.Value
				switch x := in.(type) {
				case *ssa.Index:
					xv, iv2 = x.X, x.Index
				case *ssa.Lookup:
					xv, iv2 = x.X, x.Index
				default:
					continue
				}
				ls, ok1 := xv.(*ssa.UnOp)
				li, ok2 := iv2.(*ssa.UnOp)
				if !ok1 || !ok2 {
					continue
				}
				fs, ok1 := ls.X.(*ssa.FieldAddr)
				fi, ok2 := li.X.(*ssa.FieldAddr)
				if !ok1 || !ok2 || fs.X != fi.X {
					continue
				}
				pt, ok := fs.X.Type().Underlying().(*types.Pointer)
				if !ok {
					continue
				}
				if n, ok := pt.Elem().(*types.Named); ok {
					a.cursorT, a.inIdx, a.posIdx = n, fs.Field, fi.Field
				}
			}
		}
	}
	if a.cursorT == nil {
		res.Problem = "no cursor type found (a struct whose string member is indexed by its int member)"
		return res
	}
	a.holders = map[*types.Named]bool{}
	if pk := p.Pkgs[pkgpath]; pk != nil && pk.Types != nil {
		sc := pk.Types.Scope()
		for _, nm := range sc.Names() {
			tn, ok := sc.Lookup(nm).(*types.TypeName)
			if !ok {
				continue
			}
			nt, ok := tn.Type().(*types.Named)
			if !ok || nt == a.cursorT {
				continue
			}
			if st, ok := nt.Underlying().(*types.Struct); ok {
				for i := 0; i < st.NumFields(); i++ {
					if types.Identical(st.Field(i).Type(), a.cursorT) {
						a.holders[nt] = true
					}
				}
			}
		}
	}
	var allMethods []*ssa.Function
	seenM := map[*ssa.Function]bool{}
	for _, recvT := range append([]*types.Named{a.cursorT}, namedKeys(a.holders)...) {
		ms := p.SSA.MethodSets.MethodSet(types.NewPointer(recvT))
		for i := 0; i < ms.Len(); i++ {
			f := p.SSA.MethodValue(ms.At(i))
			if f == nil || seenM[f] || recvT != a.cursorT && f.Synthetic != "" {
				continue // (methods promoted from the cursor are wrappers of the ones already listed)
			}
			seenM[f] = true
			allMethods = append(allMethods, f)
		}
	}
	for _, f := range allMethods {
		if p.consumed[f] {
			continue // a higher-order helper whose call sites were all resolved by the normalisation pass
		}
		switch primitiveShape(f, a) {
		case "NEXT":
			a.next = f
		case "BACK":
			a.back = f
		case "PEEK":
			a.peek = f
		default:
			if f != nil && f.Blocks != nil {
				a.methods = append(a.methods, f)
			}
		}
	}
	if a.next != nil && a.back == nil {
		// the step back is written out (`p.position--`) instead of being a method: it is given a name, and every
		// such statement in the package becomes a call of it, so that the rules see the usual primitive
		a.back = a.outlineStepBack(pkgpath)
	}
	if a.next == nil || a.back == nil {
		res.Problem = "cursor primitives (read-and-advance, step back) not recognised by shape"
		return res
	}
	a.outlineSkipUntil(pkgpath)
	if g := p.outlined[pkgpath+"#skipUntil"]; g != nil {
		a.skipUntil = g
	}
	sort.Slice(a.methods, func(i, j int) bool { return a.methods[i].Name() < a.methods[j].Name() })
	// Readers are analysed in their inlined views (inline.go): a cursor method that is not itself a reader in the sense
	// of the rules - it returns nothing, or a tuple other than (value, error) - is a piece of its callers factored out
	// (readComment(), readMemberHead() (doc, name string), ...) and is analysed as part of them. Readers proper (one
	// result, or (node, error)) and the two primitives stay calls and are summarised.
	// call sites per function of the package (a function's calls of itself do not count)
	sites := map[*ssa.Function][]*ssa.Function{}
	for _, g := range p.FuncsOf(pkgpath) {
		for _, cs := range callsIn(g, false) {
			if t := cs.Common.StaticCallee(); t != nil && t != g && fnPkgPath(t) == pkgpath {
				sites[t] = append(sites[t], g)
			}
		}
	}
	nodeResult := func(f *ssa.Function) types.Type {
		res := f.Signature.Results()
		if res.Len() != 1 {
			return nil
		}
		pt, ok := res.At(0).Type().(*types.Pointer)
		if !ok {
			return nil
		}
		if nt, ok := pt.Elem().(*types.Named); ok && nt.Obj().Pkg() != nil && nt.Obj().Pkg().Path() == pkgpath {
			if _, isStruct := nt.Underlying().(*types.Struct); isStruct {
				return pt
			}
		}
		return nil
	}
	// continuation: a function building a tree node that is called at exactly one place, from a function building the
	// same kind of node (`readMaybeType()` = the rest of readType's '?' arm, `builtinType(keyword)`): a form of its
	// caller's grammar element written as a function of its own; analysed as part of the caller, where what was read
	// before the call is known
	continuation := func(f *ssa.Function) bool {
		rt := nodeResult(f)
		if rt == nil || len(sites[f]) != 1 || f.Parent() != nil {
			return false
		}
		crt := nodeResult(sites[f][0])
		return crt != nil && types.Identical(rt, crt)
	}
	// a reader that is called at exactly one place, by another reader, is a piece of that reader written as a function
	// of its own (`readMember(idl)` = the body of the member loop, `readAlias(idl)` = its `type` arm): where a reader is
	// cut into functions is a matter of style, so such pieces are analysed as part of their caller
	// (token readers and skippers - one string or truth value - are grammar elements of their own wherever they are used)
	piece := func(f *ssa.Function) bool {
		if os.Getenv("VLNOPIECES") != "" || f.Parent() != nil || !a.isCursorMethod(f) || len(sites[f]) != 1 || !a.isCursorMethod(sites[f][0]) {
			return false
		}
		res := f.Signature.Results()
		if res.Len() == 1 {
			if _, isBasic := res.At(0).Type().Underlying().(*types.Basic); isBasic {
				return false
			}
		}
		return true
	}
	// a method of the cursor that neither reads nor moves it (`declare(kind, name)` keeping the set of member names)
	// is bookkeeping of its callers
	bookkeeping := func(f *ssa.Function) bool {
		if f.Parent() != nil || !a.isCursorMethod(f) || len(f.Blocks) == 0 {
			return false
		}
		for _, blk := range f.Blocks {
			if blockInLoop(blk) {
				return false
			}
			for _, in := range blk.Instrs {
				switch x := in.(type) {
				case *ssa.Call:
					if t := x.Call.StaticCallee(); t != nil && a.isCursorMethod(t) {
						return false
					}
				case *ssa.FieldAddr:
					if isRecvField(x, nil, a.posIdx, a.cursorT) || isRecvField(x, nil, a.inIdx, a.cursorT) {
						return false
					}
				}
			}
		}
		return true
	}
	regular := func(f *ssa.Function) bool {
		res := f.Signature.Results()
		if continuation(f) || piece(f) || bookkeeping(f) {
			return false
		}
		if res.Len() == 1 {
			// a loop-free method that answers with a number or a truth value (`peek() int`, `expect(c byte) bool`) is a
			// cursor idiom of its callers, not a reader of a grammar element
			if b, ok := res.At(0).Type().Underlying().(*types.Basic); ok && b.Info()&(types.IsBoolean|types.IsInteger|types.IsString) != 0 {
				loop, reads := false, false
				for _, blk := range f.Blocks {
					if blockInLoop(blk) {
						loop = true
					}
					for _, in := range blk.Instrs {
						switch x := in.(type) {
						case *ssa.Slice:
							reads = true // takes text from the input: a token reader
						case *ssa.Call:
							if x.Call.StaticCallee() == a.next {
								reads = true
							}
						}
					}
				}
				isStr := b.Info()&types.IsString != 0
				// (a string-valued method that neither reads nor slices - `advanceDoc()` = skip + pending comment -
				// is likewise a piece of its callers)
				if !loop && (!isStr || !reads) {
					return false
				}
			}
			return true
		}
		return res.Len() == 2 && isErrorType(res.At(1).Type())
	}
	keep := func(callee *ssa.Function) bool {
		if callee == a.next || callee == a.back || callee == a.peek {
			return true
		}
		if callee == a.skipUntil && callee != nil {
			return false // the synthesised loop of reads is part of whoever skips
		}
		if !a.isCursorMethod(callee) {
			// a plain function of the parser package that is handed state of the reader (`define(members, kind,
			// name)` with the duplicate-detection map) is part of the reader; character predicates stay calls (they
			// are evaluated, not analysed)
			if fnPkgPath(callee) == pkgpath && callee.Parent() == nil {
				for _, prm := range callee.Params {
					if _, isMap := prm.Type().Underlying().(*types.Map); isMap {
						return false
					}
				}
				if continuation(callee) {
					return false
				}
				// a loop-free function from a token to constants (`basicTypeKind(keyword) (TypeKind, bool)`): a
				// table written as a switch; read where it is used, the arms are arms of the reader
				if tokenTable(callee) {
					return false
				}
			}
			return true
		}
		return regular(callee)
	}
	var views []*ssa.Function
	a.inlinedHelpers = map[*ssa.Function]bool{}
	for _, f := range p.FuncsOf(pkgpath) {
		if !a.isCursorMethod(f) && f.Parent() == nil && continuation(f) {
			a.inlinedHelpers[f] = true // a plain function that is one form of its caller's grammar element
		}
	}
	for _, f := range a.methods {
		if !regular(f) {
			// still analysed on its own when something keeps calling it (recursion, conditional defers)
			called := false
			for _, g := range a.methods {
				if g != f {
					for _, cs := range callsIn(p.Inlined(g, keep), false) {
						if cs.Common.StaticCallee() == f {
							called = true
						}
					}
				}
			}
			if !called {
				a.inlinedHelpers[f] = true
				continue
			}
		}
		v := p.Inlined(f, keep)
		a.normalisePeeks(v)
		views = append(views, v)
	}
	a.methods = views
	for round := 0; round < 20; round++ {
		changed := false
		for _, f := range a.methods {
			s := a.analyze(f)
			old := a.sums[origFn(f)]
			if old == nil || *old != *s {
				changed = true
			}
			a.sums[f] = s
			a.sums[origFn(f)] = s
		}
		res.Rounds = round + 1
		if !changed {
			res.Stable = true
			break
		}
	}
	a.report = true
	a.callw = map[[2]*ssa.Function]int{}
	for _, f := range a.methods {
		a.analyze(f)
	}
	// recursion: no cycle of calls made with zero net advance since the caller's entry
	zero := map[*ssa.Function][]*ssa.Function{}
	for k, w := range a.callw {
		if w <= 0 {
			zero[k[0]] = append(zero[k[0]], k[1])
		}
	}
	color := map[*ssa.Function]int{}
	var dfs func(f *ssa.Function, path []string)
	dfs = func(f *ssa.Function, path []string) {
		color[f] = 1
		for _, g := range zero[f] {
			if color[g] == 1 {
				res.Cycles = append(res.Cycles, strings.Join(append(path, f.Name(), g.Name()), " -> "))
			} else if color[g] == 0 {
				dfs(g, append(path, f.Name()))
			}
		}
		color[f] = 2
	}
	for _, f := range a.methods {
		if color[f] == 0 {
			dfs(f, nil)
		}
	}
	sort.Strings(res.Cycles)
	for _, k := range a.order {
		res.Obs = append(res.Obs, a.obs[k])
	}
	return res
}

// loopTouchesCursor: some block of the loop headed by h calls the read/step-back primitives or another reader, or
// stores to the position.
func (a *analyzer) loopTouchesCursor(h *ssa.BasicBlock) bool {
	for _, b := range h.Parent().Blocks {
		if !h.Dominates(b) || !(b == h || reachableWithout(b, nil)[h]) {
			continue
		}
		for _, in := range b.Instrs {
			switch x := in.(type) {
			case *ssa.Call:
				c := x.Call.StaticCallee()
				if c == a.next || c == a.back || a.isCursorMethod(c) {
					return true
				}
			case *ssa.Store:
				if isRecvField(x.Addr, nil, a.posIdx, a.cursorT) {
					return true
				}
			}
		}
	}
	return false
}

// countedLoop: the header has an induction phi i = phi(c, i+k) (k > 0) compared against a bound.
func countedLoop(h *ssa.BasicBlock) bool {
	for _, in := range h.Instrs {
		ph, ok := in.(*ssa.Phi)
		if !ok {
			continue
		}
		for _, e := range ph.Edges {
			if bo, ok := e.(*ssa.BinOp); ok && bo.Op == token.ADD && bo.X == ssa.Value(ph) {
				if k, ok := bo.Y.(*ssa.Const); ok && k.Int64() > 0 {
					return true
				}
			}
			// rotated form: i' = i + 1 is computed in the header itself
			if bo, ok := e.(*ssa.BinOp); ok && bo.Op == token.ADD {
				if inner, ok := bo.X.(*ssa.Phi); ok && inner == ph {
					return true
				}
			}
		}
		// rangeindex lowering: the phi feeds t = phi + 1 which is one of its own edges
		for _, ref := range *ph.Referrers() {
			if bo, ok := ref.(*ssa.BinOp); ok && bo.Op == token.ADD {
				for _, e := range ph.Edges {
					if e == ssa.Value(bo) {
						return true
					}
				}
			}
		}
	}
	return false
}

func namedKeys(m map[*types.Named]bool) []*types.Named {
	var out []*types.Named
	for k := range m {
		out = append(out, k)
	}
	sort.Slice(out, func(i, j int) bool { return out[i].Obj().Name() < out[j].Obj().Name() })
	return out
}

// tokenTable: f takes one string and answers with constants only, without loops or calls (a switch over keywords).
func tokenTable(f *ssa.Function) bool {
	if f.Signature.Recv() != nil || len(f.Params) != 1 || len(f.Blocks) == 0 || len(f.Blocks) > 40 {
		return false
	}
	if bt, ok := f.Params[0].Type().Underlying().(*types.Basic); !ok || bt.Kind() != types.String {
		return false
	}
	res := f.Signature.Results()
	if res.Len() == 0 || res.Len() == 1 && types.Identical(res.At(0).Type().Underlying(), types.Typ[types.Bool]) {
		return false // (predicates are evaluated, not read)
	}
	for _, b := range f.Blocks {
		if blockInLoop(b) {
			return false
		}
		for _, in := range b.Instrs {
			switch x := in.(type) {
			case *ssa.Return:
				for _, r := range x.Results {
					if _, isK := r.(*ssa.Const); !isK {
						if _, isPhi := r.(*ssa.Phi); !isPhi {
							return false
						}
					}
				}
			case *ssa.BinOp, *ssa.If, *ssa.Jump, *ssa.Phi, *ssa.DebugRef:
			default:
				return false
			}
		}
	}
	return true
}
