package main

// Error discipline (shared engine; C10.S12 for the service side, C11.N10 for the client side of package varlink).
// For every call whose last result is an error that the function looks at:
//   E1 (no swallowing)  a return that reports success (the constant nil as error) is reached only where that error is
//      known to be nil - a flipped test, a deleted test or `return nil` on the failure branch reports success for an
//      operation that failed;
//   E2 (no use on failure)  the other results of the call are used only where the error is known to be nil (or are
//      handed on together with it: returned, or stored next to it in one value).
// The accepted exceptions are enumerated in errDiscExempt with a reason each; everything else is an obligation.

import (
	"fmt"
	"go/types"
	"os"
	"sort"
	"strings"

	"golang.org/x/tools/go/ssa"
)

// errDiscExempt: (function, callee) pairs whose error result is deliberately not a reason to fail.
var errDiscExempt = map[string]string{
	// the accept loop: an accept error is a timeout (handled by the idle logic), the effect of Shutdown (return nil while
	// not running) or a real error (returned) - decided by C14.L4 / C15.I2, not by this rule
	"Accept": "accept errors are classified by the serving loop (C14.L4, C15.I2)",
}

func errorDiscipline(r *Run, p *Prog, T *Terms, rule string, fns []*ssa.Function) {
	// (the functions as built: the rule is about what one function does with the errors it sees; what a callee does
	// with its own errors - turning a parse failure into "no activation listener" - is judged in the callee)
	sort.SliceStable(fns, func(i, j int) bool { return fns[i].Pos() < fns[j].Pos() })
	nCalls := 0
	for _, f := range fns {
		if len(f.Blocks) == 0 {
			continue
		}
		res := f.Signature.Results()
		fErr := res.Len() > 0 && isErrorType(res.At(res.Len()-1).Type())
		ord := 0
		for _, b := range f.Blocks {
			for _, in := range b.Instrs {
				c, ok := in.(*ssa.Call)
				if !ok {
					continue
				}
				var e ssa.Value
				var others []ssa.Value
				switch t := c.Type().(type) {
				case *types.Tuple:
					if t.Len() == 0 || !isErrorType(t.At(t.Len()-1).Type()) {
						continue
					}
					for _, ref := range *c.Referrers() {
						if ex, ok := ref.(*ssa.Extract); ok {
							if ex.Index == t.Len()-1 {
								e = ex
							} else {
								others = append(others, ex)
							}
						}
					}
				default:
					if !isErrorType(c.Type()) {
						continue
					}
					e = c
				}
				if e == nil || e.Referrers() == nil || len(*e.Referrers()) == 0 {
					// E3: not looked at. Deliberately ignored results of library calls (Close, Remove, the decode of reply
					// parameters into the caller's value) are not this rule's business; the error of a function of the
					// repository - or of a function value it handed out - is: nobody else will see it
					t := staticTarget(&c.Call)
					repoCall := t != nil && p.InRepo(t)
					if !repoCall && !c.Call.IsInvoke() {
						if _, isFn := c.Call.Value.(*ssa.Function); !isFn {
							if _, isB := c.Call.Value.(*ssa.Builtin); !isB {
								// a function value: where does it come from?
								vt := strip(T.T(c.Call.Value))
								repoCall = strings.Contains(vt, "call:varlink.") || strings.Contains(vt, "param:")
							}
						}
					}
					if !repoCall && len(others) > 0 {
						used := false
						for _, v := range others {
							for _, ref := range *v.Referrers() {
								if _, isDbg := ref.(*ssa.DebugRef); !isDbg {
									used = true
								}
							}
						}
						if used {
							nCalls++
							r.Ob(rule, shortName(f), fmt.Sprintf("the error of %s is examined before its result is used", calleeName(&c.Call)), c.Pos(), false,
								"a result of "+calleeName(&c.Call)+" is used although its error is never looked at: after a failure the value is nil/zero")
						}
					}
					anyUsed := false
					for _, v := range others {
						for _, ref := range *v.Referrers() {
							if _, isDbg := ref.(*ssa.DebugRef); !isDbg {
								anyUsed = true
							}
						}
					}
					if repoCall && anyUsed {
						// `l, _ := s.GetListener()`: fine when the value is tested before it is used
						for _, v := range others {
							switch v.Type().Underlying().(type) {
							case *types.Pointer, *types.Interface, *types.Slice, *types.Map, *types.Signature, *types.Chan:
							default:
								continue
							}
							for _, ref := range *v.Referrers() {
								switch ref.(type) {
								case *ssa.DebugRef, *ssa.BinOp, *ssa.Phi:
									continue
								}
								if st, isSt := ref.(*ssa.Store); isSt {
									if _, isVar := st.Addr.(*ssa.Alloc); isVar {
										continue
									}
								}
								nCalls++
								okv := hasFact(T.FactsAt(ref.Block()), "NE", T.T(v), "nil")
								r.Ob(rule, shortName(f), fmt.Sprintf("result of %s is used only after its error (or the result itself) was examined", calleeName(&c.Call)), ref.Pos(), okv,
									"a result of "+calleeName(&c.Call)+" is used although neither its error nor the value was tested: after a failure the value is nil")
							}
						}
					}
					if repoCall && !anyUsed {
						nCalls++
						r.Ob(rule, shortName(f), fmt.Sprintf("the error of %s is looked at", calleeName(&c.Call)), c.Pos(), false,
							"the error result of "+calleeName(&c.Call)+" is dropped: a failed operation of the library itself goes unreported")
					}
					continue
				}
				name := calleeName(&c.Call)
				short := name
				if i := strings.LastIndex(short, "."); i >= 0 {
					short = short[i+1:]
				}
				short = strings.TrimPrefix(short, "invoke:")
				if _, ex := errDiscExempt[short]; ex {
					continue
				}
				// the error must be *tested* somewhere (compared with nil) or returned; an error that is only passed on
				// (stored, sent, wrapped) is judged where it arrives
				nCalls++
				ord++
				eT := T.T(e)
				r.Ob(rule, shortName(f), fmt.Sprintf("the error of %s (call #%d) is examined", name, ord), c.Pos(), true, "")
				// E1
				if fErr {
					for _, rv := range returnedValues(f, res.Len()-1) {
						if !(c.Block() == rv.Ret.Block() && instrIndex(c) < instrIndex(rv.Ret) || c.Block() != rv.Ret.Block() && c.Block().Dominates(rv.Ret.Block())) {
							continue
						}
						k, isK := rv.Val.(*ssa.Const)
						if !isK || !k.IsNil() {
							continue
						}
						okv := errKnownNil(p, T, T.FactsAt(rv.Ret.Block()), eT) || errNilOnEveryPath(p, T, f, c, rv.Ret, eT)
						r.Ob(rule, shortName(f), fmt.Sprintf("success is returned only where the error of %s (call #%d) is known to be nil", name, ord), rv.Ret.Pos(), okv,
							"a `return ..., nil` is reachable although "+name+" may have failed: the failure is reported as success (flipped or missing test, or nil returned on the failure branch)")
					}
				}
				// E4 (inverted test): the error value itself is returned on an edge where it is known to be nil, as the early
				// exit of a test - `if err == nil { return 0, err }` - while the failure falls through
				if fErr {
					for _, rv := range returnedValues(f, res.Len()-1) {
						if rv.Val != e || !hasFact(T.FactsAt(rv.Ret.Block()), "EQ", eT, "nil") {
							continue
						}
						// (the last statement of a function may well `return v, err` after everything was checked: only an
						// exit that has a sibling continuing on the failure edge is judged)
						cont := false
						for _, b2 := range f.Blocks {
							for _, s2 := range b2.Succs {
								if hasFact(T.edgeFactsOn(b2, s2), "NE", eT, "nil") {
									if reach, _ := reachFromBlock(f, s2, func(in ssa.Instruction) bool {
										_, isCall := in.(ssa.CallInstruction)
										return isCall
									}, nil); reach {
										cont = true
									}
								}
							}
						}
						if cont {
							r.Ob(rule, shortName(f), fmt.Sprintf("the error of %s (call #%d) is not returned on the edge where it is nil while the failure goes on", name, ord), rv.Ret.Pos(), false,
								"the test of the error of "+name+" is inverted: the function returns (with a nil error) when the call succeeded and carries on when it failed")
						}
					}
				}
				// E4b: the process is terminated (os.Exit, log.Fatal) on the edge where the error is nil
				for _, b2 := range f.Blocks {
					if !hasFact(T.FactsAt(b2), "EQ", eT, "nil") {
						continue
					}
					for _, in2 := range b2.Instrs {
						ci, ok := in2.(ssa.CallInstruction)
						if !ok {
							continue
						}
						if nm := calleeName(ci.Common()); nm == "os.Exit" || strings.HasPrefix(nm, "log.Fatal") || nm != "os.Exit" && endsProcess(ci, 0) && ci.Common().StaticCallee() != nil && len(ci.Common().StaticCallee().Blocks) > 0 {
							// (exit code 0 after success is an ordinary end)
							if nm == "os.Exit" && len(ci.Common().Args) == 1 {
								if k, isK := ci.Common().Args[0].(*ssa.Const); isK && k.Int64() == 0 {
									continue
								}
							}
							r.Ob(rule, shortName(f), fmt.Sprintf("the error of %s (call #%d): the failure exit is not taken on the edge where the error is nil", name, ord), in2.Pos(), false,
								"the test of the error of "+name+" is inverted: the program exits with a failure status when the call succeeded and carries on when it failed")
						}
					}
				}
				// E2
				for _, v := range others {
					switch v.Type().Underlying().(type) {
					case *types.Pointer, *types.Interface, *types.Slice, *types.Map, *types.Signature, *types.Chan:
					default:
						continue // a number or truth value handed back next to the error is meaningful on its own (n, stop)
					}
					for _, ref := range *v.Referrers() {
						if _, isDbg := ref.(*ssa.DebugRef); isDbg {
							continue
						}
						if ret, isRet := ref.(*ssa.Return); isRet {
							// handed on together with the error
							with := false
							for _, x := range ret.Results {
								if x == e {
									with = true
								}
							}
							if with {
								continue
							}
						}
						if st, isSt := ref.(*ssa.Store); isSt {
							if _, isVar := st.Addr.(*ssa.Alloc); isVar {
								continue // the definition of a (captured) variable: `v, err := f()` spills v at once
							}
							if _, isVar := st.Addr.(*ssa.FreeVar); isVar {
								continue // ... or assigns the variables of the enclosing function (`n, ioErr = conn.Write(buf)`)
							}
							// stored next to the error in one value (`ch <- result{v, err}`)
							if fa, ok := st.Addr.(*ssa.FieldAddr); ok {
								next := false
								for _, r2 := range *e.Referrers() {
									if s2, ok := r2.(*ssa.Store); ok {
										if fa2, ok := s2.Addr.(*ssa.FieldAddr); ok && fa2.X == fa.X {
											next = true
										}
									}
								}
								if next {
									continue
								}
							}
						}
						if _, isPhi := ref.(*ssa.Phi); isPhi {
							continue // merged with other values: judged at the uses of the merge by the property's own rules
						}
						// converted and then handed on together with the error (`return v.(int), err`)
						if cv, isV := ref.(ssa.Value); isV {
							switch ref.(type) {
							case *ssa.TypeAssert, *ssa.ChangeType, *ssa.Convert, *ssa.ChangeInterface, *ssa.MakeInterface:
								only := cv.Referrers() != nil && len(*cv.Referrers()) > 0
								for _, r2 := range *cv.Referrers() {
									ret, isRet := r2.(*ssa.Return)
									with := false
									if isRet {
										for _, x := range ret.Results {
											if x == e {
												with = true
											}
										}
									}
									if !with {
										if _, isDbg := r2.(*ssa.DebugRef); !isDbg {
											only = false
										}
									}
								}
								if only {
									continue
								}
							}
						}
						okv := errKnownNil(p, T, T.FactsAt(ref.Block()), eT) || errNilOnEveryPath(p, T, f, c, ref, eT)
						r.Ob(rule, shortName(f), fmt.Sprintf("result #%d of %s (call #%d) is used only where its error is known to be nil", v.(*ssa.Extract).Index, name, ord), ref.Pos(), okv,
							"a result of "+name+" is used on a path on which the call may have failed (flipped or missing error test): the value is nil/zero or partial there")
					}
				}
			}
		}
	}
	r.Stat(rule+"_calls_with_error_result", nCalls)
}

// serviceSideFuncs: the functions of package varlink that belong to the service: methods of Service (and of the state
// structs it holds by value) and of Call, what they reach inside the package, and their function literals. Everything
// else in the package (Connection, Resolver, the bridge, NewConnection) is the client side.
func serviceSideFuncs(p *Prog, ro *Roles) map[*ssa.Function]bool {
	out := map[*ssa.Function]bool{}
	var roots []*ssa.Function
	for _, f := range p.FuncsOf(pkgVarlink) {
		if f.Parent() != nil {
			continue
		}
		if rc := f.Signature.Recv(); rc != nil && (isServiceState(rc.Type()) || isNamed(rc.Type(), pkgVarlink, "Call")) {
			roots = append(roots, f)
		}
		if f.Name() == "NewService" {
			roots = append(roots, f)
		}
	}
	for g := range ro.CG.Reach(roots, true) {
		if fnPkgPath(g) == pkgVarlink {
			out[g] = true
		}
	}
	for _, f := range p.FuncsOf(pkgVarlink) {
		top := f
		for top.Parent() != nil {
			top = top.Parent()
		}
		if out[top] {
			out[f] = true
		}
	}
	return out
}

// errorMapper: g takes one error and returns one error, and every value it returns is its parameter or a non-nil
// sentinel (a package-level error variable): `func unexpectedEOF(err error) error { if err == io.EOF { return
// io.ErrUnexpectedEOF }; return err }`. Its result is nil exactly when its argument is.
func errorMapper(p *Prog, T *Terms, g *ssa.Function) bool {
	if g == nil || !p.InRepo(g) || len(g.Blocks) == 0 || len(g.Params) != 1 || g.Signature.Results().Len() != 1 {
		return false
	}
	if !isErrorType(g.Params[0].Type()) || !isErrorType(g.Signature.Results().At(0).Type()) {
		return false
	}
	for _, rv := range returnedValues(g, 0) {
		if rv.Val == ssa.Value(g.Params[0]) {
			continue
		}
		if strings.Contains(strip(T.T(rv.Val)), "global:") {
			// only where the argument is not nil
			if hasFact(T.FactsAt(rv.Ret.Block()), "EQ", T.T(g.Params[0]), "nil") {
				return false
			}
			continue
		}
		return false
	}
	return true
}

// errKnownNil: the facts say that the error with term eT is nil - directly, or through an error mapper applied to it.
func errKnownNil(p *Prog, T *Terms, fs []Fact, eT string) bool {
	if hasFact(fs, "EQ", eT, "nil") {
		return true
	}
	for _, f := range fs {
		if os.Getenv("VLDEBUG") == "errnil" {
			fmt.Fprintf(os.Stderr, "errKnownNil eT=%s fact %s %s %s\n", eT, f.Op, f.A, f.B)
		}
		if f.Op != "EQ" {
			continue
		}
		for _, pr := range [][2]string{{f.A, f.B}, {f.B, f.A}} {
			t0, e0 := strip(pr[0]), strip(eT)
			if pr[1] != "nil" || !strings.HasPrefix(t0, "call:") || !strings.HasSuffix(t0, "("+e0+")") {
				continue
			}
			name := strings.TrimSuffix(strings.TrimPrefix(t0, "call:"), "("+e0+")")
			for _, g := range p.Funcs {
				if funcFullName(g) == name && errorMapper(p, T, g) {
					return true
				}
			}
		}
	}
	return false
}

// errNilOnEveryPath: every path from the call to the use crosses an edge on which the error is known to be nil; a path
// that runs into os.Exit, log.Fatal or panic ends there (`if err != nil { fmt.Fprintln(os.Stderr, err); os.Exit(1) }`).
func errNilOnEveryPath(p *Prog, T *Terms, f *ssa.Function, c *ssa.Call, use ssa.Instruction, eT string) bool {
	reach, _ := reachInstr(f, c, func(in ssa.Instruction) bool { return in == use }, func(in ssa.Instruction) bool {
		if _, isPanic := in.(*ssa.Panic); isPanic {
			return true
		}
		ci, ok := in.(ssa.CallInstruction)
		if !ok {
			return false
		}
		return endsProcess(ci, 0)
	}, func(x, y *ssa.BasicBlock) bool { return errKnownNil(p, T, T.edgeFactsOn(x, y), eT) })
	return !reach
}

// endsProcess: the call does not return - os.Exit, log.Fatal*, log.Panic*, runtime.Goexit, or a function of the
// repository every return of which is dominated by such a call or a panic (`func fatalf(...) { ...; os.Exit(1) }`).
func endsProcess(ci ssa.CallInstruction, depth int) bool {
	switch nm := calleeName(ci.Common()); {
	case nm == "os.Exit", strings.HasPrefix(nm, "log.Fatal"), strings.HasPrefix(nm, "log.Panic"), nm == "runtime.Goexit":
		return true
	}
	g := ci.Common().StaticCallee()
	if g == nil || len(g.Blocks) == 0 || depth > 2 {
		return false
	}
	var ends []*ssa.BasicBlock
	for _, b := range g.Blocks {
		for _, in := range b.Instrs {
			switch x := in.(type) {
			case *ssa.Panic:
				ends = append(ends, b)
			case ssa.CallInstruction:
				if _, isDefer := x.(*ssa.Defer); !isDefer && endsProcess(x, depth+1) {
					ends = append(ends, b)
				}
			}
		}
	}
	if len(ends) == 0 {
		return false
	}
	for _, b := range g.Blocks {
		if len(b.Instrs) == 0 {
			continue
		}
		if _, isRet := b.Instrs[len(b.Instrs)-1].(*ssa.Return); !isRet {
			continue
		}
		dominated := false
		for _, e := range ends {
			if e == b || e.Dominates(b) {
				dominated = true
			}
		}
		if !dominated {
			return false
		}
	}
	return true
}
