package main

// Reaching stores for struct fields reached through a pointer parameter/receiver ("s.address"):
// lets a rule ask "which value does this load of s.address see?" inside one function.

import (
	"fmt"
	"go/constant"
	"go/token"
	"go/types"
	"sort"
	"strings"

	"golang.org/x/tools/go/ssa"
)

type memDef struct {
	store *ssa.Store      // a store in this function, or
	call  ssa.Instruction // a call that may write the field, or
	entry bool            // the value on entry
}

type MemState struct {
	T      *Terms
	fn     *ssa.Function
	writes map[*ssa.Function]map[string]bool // transitive "Type.field" write summaries
	reach  map[ssa.Instruction]map[string][]memDef
}

// fieldKey returns ("Type.field", locationTerm) for a FieldAddr on a pointer to a named repo struct.
func fieldKeyOf(T *Terms, fa *ssa.FieldAddr) (string, string) {
	pt, ok := fa.X.Type().Underlying().(*types.Pointer)
	if !ok {
		return "", ""
	}
	n, ok := pt.Elem().(*types.Named)
	if !ok {
		return "", ""
	}
	return n.Obj().Name() + "." + fieldName(fa.X, fa.Field), strip(T.T(fa))
}

// fieldWriteSummaries: per repo function, the set of Type.field it may store to (transitively, sync calls + closures).
func fieldWriteSummaries(p *Prog, cg *CallGraph, T *Terms) map[*ssa.Function]map[string]bool {
	direct := map[*ssa.Function]map[string]bool{}
	for _, f := range p.Funcs {
		m := map[string]bool{}
		for _, b := range f.Blocks {
			for _, in := range b.Instrs {
				switch x := in.(type) {
				case *ssa.Store:
					if fa, ok := x.Addr.(*ssa.FieldAddr); ok {
						if k, _ := fieldKeyOf(T, fa); k != "" {
							m[k] = true
						}
					}
				case *ssa.MapUpdate:
					if u, ok := x.Map.(*ssa.UnOp); ok {
						if fa, ok := u.X.(*ssa.FieldAddr); ok {
							if k, _ := fieldKeyOf(T, fa); k != "" {
								m[k] = true
							}
						}
					}
				}
			}
		}
		direct[f] = m
	}
	out := map[*ssa.Function]map[string]bool{}
	for _, f := range p.Funcs {
		m := map[string]bool{}
		for g := range cg.Reach([]*ssa.Function{f}, false) {
			for k := range direct[g] {
				m[k] = true
			}
		}
		out[f] = m
	}
	return out
}

func NewMemState(T *Terms, cg *CallGraph, fn *ssa.Function, writes map[*ssa.Function]map[string]bool) *MemState {
	ms := &MemState{T: T, fn: fn, writes: writes, reach: map[ssa.Instruction]map[string][]memDef{}}
	type state map[string][]memDef
	clone := func(s state) state {
		o := state{}
		for k, v := range s {
			o[k] = append([]memDef(nil), v...)
		}
		return o
	}
	has := func(l []memDef, d memDef) bool {
		for _, x := range l {
			if x == d {
				return true
			}
		}
		return false
	}
	join := func(a, b state) (state, bool) {
		ch := false
		for k, v := range b {
			for _, d := range v {
				if !has(a[k], d) {
					a[k] = append(a[k], d)
					ch = true
				}
			}
		}
		return a, ch
	}
	// all keys (location terms) used in fn
	keys := map[string]string{} // loc -> Type.field
	for _, b := range fn.Blocks {
		for _, in := range b.Instrs {
			if fa, ok := in.(*ssa.FieldAddr); ok {
				if k, loc := fieldKeyOf(T, fa); k != "" {
					keys[loc] = k
				}
			}
		}
	}
	in := map[*ssa.BasicBlock]state{}
	entry := state{}
	for loc := range keys {
		entry[loc] = []memDef{{entry: true}}
	}
	in[fn.Blocks[0]] = entry
	work := []*ssa.BasicBlock{fn.Blocks[0]}
	for len(work) > 0 {
		b := work[0]
		work = work[1:]
		st := clone(in[b])
		for _, instr := range b.Instrs {
			switch x := instr.(type) {
			case *ssa.UnOp:
				if x.Op == token.MUL {
					if fa, ok := x.X.(*ssa.FieldAddr); ok {
						if _, loc := fieldKeyOf(T, fa); loc != "" {
							if ms.reach[instr] == nil {
								ms.reach[instr] = map[string][]memDef{}
							}
							ms.reach[instr][loc] = append([]memDef(nil), st[loc]...)
						}
					}
				}
			case *ssa.Store:
				if fa, ok := x.Addr.(*ssa.FieldAddr); ok {
					if _, loc := fieldKeyOf(T, fa); loc != "" {
						st[loc] = []memDef{{store: x}}
					}
				}
			case ssa.CallInstruction:
				if _, isGo := instr.(*ssa.Go); isGo {
					continue
				}
				var targets []*ssa.Function
				if t := staticTarget(x.Common()); t != nil {
					targets = append(targets, t)
				}
				for _, t := range targets {
					w := writes[t]
					for loc, k := range keys {
						if w[k] {
							st[loc] = []memDef{{call: instr}}
						}
					}
				}
			}
		}
		for _, s := range b.Succs {
			if old, ok := in[s]; ok {
				if _, ch := join(old, st); ch {
					work = append(work, s)
				}
			} else {
				in[s] = clone(st)
				work = append(work, s)
			}
		}
	}
	return ms
}

// ValueAlts returns the canonical terms of the values a field load may see (resolved recursively through
// further field loads in the same function). "entry:<loc>" stands for the value on function entry,
// "clobber:<callee>" for a value written by a callee.
func (ms *MemState) ValueAlts(v ssa.Value, depth int) []string {
	if depth > 6 {
		return []string{"deep:" + strip(ms.T.T(v))}
	}
	set := map[string]bool{}
	var add func(v ssa.Value)
	add = func(v ssa.Value) {
		switch x := v.(type) {
		case *ssa.Phi:
			for _, e := range x.Edges {
				add(e)
			}
			return
		case *ssa.UnOp:
			if x.Op == token.MUL {
				if fa, ok := x.X.(*ssa.FieldAddr); ok {
					if _, loc := fieldKeyOf(ms.T, fa); loc != "" {
						if defs, ok := ms.reach[x][loc]; ok {
							for _, d := range defs {
								switch {
								case d.entry:
									set["entry:"+loc] = true
								case d.call != nil:
									set["clobber:"+calleeName(d.call.(ssa.CallInstruction).Common())] = true
								default:
									for _, a := range ms.ValueAlts(d.store.Val, depth+1) {
										set[a] = true
									}
								}
							}
							return
						}
					}
				}
			}
		}
		set[ms.deepTerm(v, depth)] = true
	}
	add(v)
	var out []string
	for k := range set {
		out = append(out, k)
	}
	sort.Strings(out)
	return out
}

// deepTerm is T.T(v) with embedded field loads replaced by their resolved values when unique, and with the
// idioms for "text before / after the first separator" normalised to before(x,sep) / after(x,sep):
// SplitN(x,sep,2)[0|1], x[:Index(x,sep)] / x[Index(x,sep)+1:], Cut(x,sep).
func (ms *MemState) deepTerm(v ssa.Value, depth int) string {
	sepOf := func(c *ssa.CallCommon) string {
		if len(c.Args) < 2 {
			return "?"
		}
		if k, ok := c.Args[1].(*ssa.Const); ok && k.Value != nil {
			if k.Value.Kind() == constant.Int {
				return fmt.Sprintf("const:%q", string(rune(k.Int64())))
			}
		}
		return strip(ms.T.T(c.Args[1]))
	}
	isIndexCall := func(v ssa.Value) (*ssa.Call, bool) {
		c, ok := v.(*ssa.Call)
		if !ok {
			return nil, false
		}
		switch calleeName(&c.Call) {
		case "strings.Index", "strings.IndexByte", "strings.IndexRune":
			return c, true
		}
		return nil, false
	}
	switch x := v.(type) {
	case *ssa.Extract:
		if c, ok := x.Tuple.(*ssa.Call); ok && calleeName(&c.Call) == "strings.Cut" && x.Index <= 1 {
			return ifs(x.Index == 0, "before(", "after(") + ms.oneOrSet(c.Call.Args[0], depth+1) + "," + sepOf(&c.Call) + ")"
		}
	case *ssa.Call:
		if name := calleeName(&x.Call); pureFuncs[name] {
			var args []string
			for _, a := range x.Call.Args {
				args = append(args, ms.oneOrSet(a, depth+1))
			}
			return "call:" + name + "(" + strings.Join(args, ",") + ")"
		}
	case *ssa.UnOp:
		if x.Op == token.MUL {
			if ia, ok := x.X.(*ssa.IndexAddr); ok {
				if c, ok := ia.X.(*ssa.Call); ok && calleeName(&c.Call) == "strings.SplitN" {
					if n, ok := c.Call.Args[2].(*ssa.Const); ok && n.Int64() == 2 {
						if k, ok := ia.Index.(*ssa.Const); ok && k.Int64() <= 1 {
							return ifs(k.Int64() == 0, "before(", "after(") + ms.oneOrSet(c.Call.Args[0], depth+1) + "," + sepOf(&c.Call) + ")"
						}
					}
				}
				return "index(" + ms.oneOrSet(ia.X, depth+1) + "," + ms.oneOrSet(ia.Index, depth+1) + ")"
			}
		}
	case *ssa.Slice:
		base := ms.oneOrSet(x.X, depth+1)
		if x.Low == nil && x.High != nil {
			if c, ok := isIndexCall(x.High); ok && ms.oneOrSet(c.Call.Args[0], depth+1) == base {
				return "before(" + base + "," + sepOf(&c.Call) + ")"
			}
		}
		if x.High == nil && x.Low != nil {
			if bo, ok := x.Low.(*ssa.BinOp); ok && bo.Op == token.ADD {
				if k, ok := bo.Y.(*ssa.Const); ok && k.Int64() == 1 {
					if c, ok := isIndexCall(bo.X); ok && ms.oneOrSet(c.Call.Args[0], depth+1) == base {
						return "after(" + base + "," + sepOf(&c.Call) + ")"
					}
				}
			}
		}
		return "slice(" + base + "," + ms.optTerm(x.Low, depth) + "," + ms.optTerm(x.High, depth) + ")"
	case *ssa.Index:
		return "index(" + ms.oneOrSet(x.X, depth+1) + "," + ms.oneOrSet(x.Index, depth+1) + ")"
	case *ssa.BinOp:
		return "(" + ms.oneOrSet(x.X, depth+1) + " " + x.Op.String() + " " + ms.oneOrSet(x.Y, depth+1) + ")"
	}
	return strip(ms.T.T(v))
}

func (ms *MemState) optTerm(v ssa.Value, depth int) string {
	if v == nil {
		return "nil"
	}
	return ms.oneOrSet(v, depth+1)
}

func (ms *MemState) oneOrSet(v ssa.Value, depth int) string {
	a := ms.ValueAlts(v, depth)
	if len(a) == 1 {
		return a[0]
	}
	return "alt{" + strings.Join(a, "|") + "}"
}

// FinalAlts: the possible values of location loc at return instruction ret (reaching stores at that point).
func (ms *MemState) FinalAlts(T *Terms, loc string, at ssa.Instruction) []string {
	// recompute the state at `at` by scanning its block from the nearest load/any instruction: simplest is to
	// run a backwards search for the reaching stores along all paths.
	set := map[string]bool{}
	seen := map[*ssa.BasicBlock]bool{}
	var walk func(b *ssa.BasicBlock, idx int)
	walk = func(b *ssa.BasicBlock, idx int) {
		for i := idx; i >= 0; i-- {
			switch x := b.Instrs[i].(type) {
			case *ssa.Store:
				if fa, ok := x.Addr.(*ssa.FieldAddr); ok {
					if _, l := fieldKeyOf(T, fa); l == loc {
						for _, a := range ms.ValueAlts(x.Val, 0) {
							set[a] = true
						}
						return
					}
				}
			case ssa.CallInstruction:
				if _, isGo := b.Instrs[i].(*ssa.Go); isGo {
					continue
				}
				if t := staticTarget(x.Common()); t != nil {
					for k := range ms.writes[t] {
						if strings.HasSuffix(loc, "."+k[strings.Index(k, ".")+1:]) {
							set["clobber:"+calleeName(x.Common())] = true
							return
						}
					}
				}
			}
		}
		if len(b.Preds) == 0 {
			set["entry:"+loc] = true
			return
		}
		for _, p := range b.Preds {
			if !seen[p] {
				seen[p] = true
				walk(p, len(p.Instrs)-1)
			}
		}
	}
	walk(at.Block(), instrIndex(at)-1)
	var out []string
	for k := range set {
		out = append(out, k)
	}
	sort.Strings(out)
	return out
}
