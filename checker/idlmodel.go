package main

// Model of the IDL parser shared by C05, C06 and C07: roles found by shape on top of the cursor analysis.

import (
	"fmt"
	"go/constant"
	"go/types"
	"os"
	"strings"

	"golang.org/x/tools/go/ssa"
)

type idlModel struct {
	p   *Prog
	res *CursorResult
	a   *analyzer
	T   *Terms

	kinds    map[string]int64 // TypeBool -> 0 ...
	kindName map[int64]string
	typeT    *types.Named // idl.Type

	skipper     *ssa.Function   // multi-line layout skipper (its first read loops on '\n')
	lineSkipper []*ssa.Function // other skippers
	tokens      map[*ssa.Function]*TokenCharset
	typeReaders map[*ssa.Function]bool // cursor methods returning *Type
	memberLoop  *ssa.Function          // the reader with a loop over keyword-selected members
	entry       *ssa.Function          // exported function creating the cursor
	nextPfx     string                 // term prefix of calls of the read primitive
}

func buildIDLModel(p *Prog) (*idlModel, string) {
	res := RunCursor(p, pkgIDL)
	if res.Problem != "" {
		return nil, res.Problem
	}
	m := &idlModel{p: p, res: res, a: res.A, T: NewTerms(p), kinds: map[string]int64{}, kindName: map[int64]string{},
		tokens: map[*ssa.Function]*TokenCharset{}, typeReaders: map[*ssa.Function]bool{}}
	m.T.InlineDepth = 0
	m.typeT = p.NamedType(pkgIDL, "Type")
	if m.typeT == nil {
		return nil, "type idl.Type not found"
	}
	sc := p.Pkgs[pkgIDL].Types.Scope()
	for _, n := range sc.Names() {
		if c, ok := sc.Lookup(n).(*types.Const); ok && strings.HasPrefix(n, "Type") {
			if v, ok := constant.Int64Val(c.Val()); ok {
				m.kinds[n] = v
				m.kindName[v] = n
			}
		}
	}
	m.nextPfx = "call:" + funcFullName(m.a.next) + "("
	for _, f := range m.a.methods {
		res0 := f.Signature.Results()
		if res0.Len() >= 1 {
			if pt, ok := res0.At(0).Type().(*types.Pointer); ok && types.Identical(pt.Elem(), m.typeT) {
				m.typeReaders[f] = true
				m.typeReaders[origFn(f)] = true
			}
		}
		s := m.a.sums[f]
		if os.Getenv("VLDEBUG") != "" && s != nil {
			fmt.Fprintf(os.Stderr, "DEBUG reader %s lenIsNet=%v\n", f.Name(), s.lenIsNet)
		}
		if s != nil && s.lenIsNet {
			if tc, why := m.a.tokenCharset(f); tc != nil {
				m.tokens[f] = tc
				m.tokens[origFn(f)] = tc
			} else {
				if os.Getenv("VLDEBUG") != "" {
					fmt.Fprintf(os.Stderr, "DEBUG tokenCharset %s: %s\n", f.Name(), why)
				}
			}
			continue
		}
		// skippers: first read site loops back to itself for some bytes, no input slice returned
		sites := m.a.readSites(f)
		if len(sites) == 0 || res0.Len() > 1 {
			continue
		}
		if res0.Len() == 1 {
			if b, ok := res0.At(0).Type().Underlying().(*types.Basic); !ok || b.Kind() != types.Bool {
				continue
			}
		}
		self := m.a.analyseRead(sites[0]).selfLoopSet()
		if self.empty() {
			continue
		}
		if self.has('\n') {
			m.skipper = f
		} else {
			m.lineSkipper = append(m.lineSkipper, f)
		}
	}
	// member loop: the reader that compares a token with >= 3 string constants inside a loop
	for _, f := range m.a.methods {
		n := 0
		for _, b := range f.Blocks {
			if !blockInLoop(b) {
				continue
			}
			for _, s := range b.Succs {
				for _, fc := range m.T.edgeFactsOn(b, s) {
					if _, _, ok := strConstEq(fc); ok {
						n++
					}
				}
			}
		}
		if n >= 3 {
			m.memberLoop = f
		}
	}
	for _, f := range p.FuncsOf(pkgIDL) {
		if f.Parent() == nil && f.Signature.Recv() == nil && f.Object() != nil && f.Object().Exported() {
			// (the cursor may be made by a constructor helper: `newParser(input)`; the readers stay calls)
			v := p.Inlined(f, func(c *ssa.Function) bool { return m.a.isCursorMethod(c) })
			for _, b := range v.Blocks {
				for _, in := range b.Instrs {
					if al, ok := in.(*ssa.Alloc); ok {
						if pt, ok := al.Type().(*types.Pointer); ok && m.a.isCursorT(pt.Elem()) {
							m.entry = f
						}
					}
				}
			}
		}
	}
	return m, ""
}

// nextEq: fs contains <some read result> == c; returns the term of that read.
func (m *idlModel) nextEq(fs []Fact, c int) (string, bool) {
	want := "const:" + itoa(c)
	for _, f := range fs {
		if f.Op == "EQ" && f.A == want && strings.HasPrefix(f.B, m.nextPfx) {
			return f.B, true
		}
		if f.Op == "EQ" && f.B == want && strings.HasPrefix(f.A, m.nextPfx) {
			return f.A, true
		}
	}
	return "", false
}

// tokenEq: fs contains <result of a token reader> == "lit"; returns the reader.
func (m *idlModel) tokenEq(fs []Fact, lit string) (*ssa.Function, bool) {
	want := `const:"` + lit + `"`
	for _, f := range fs {
		if f.Op != "EQ" {
			continue
		}
		for _, pr := range [][2]string{{f.A, f.B}, {f.B, f.A}} {
			if pr[0] == want {
				for tf := range m.tokens {
					if isBuiltDuplicate(tf) {
						continue
					}
					if strings.HasPrefix(pr[1], "call:"+funcFullName(tf)+"(") {
						return tf, true
					}
				}
			}
		}
	}
	return nil, false
}

func itoa(n int) string {
	if n < 0 {
		return "-" + itoa(-n)
	}
	if n < 10 {
		return string(rune('0' + n))
	}
	return itoa(n/10) + string(rune('0'+n%10))
}

// typeNode is a construction site of an idl.Type value.
type typeNode struct {
	Alloc *ssa.Alloc
	Fn    *ssa.Function
	// one entry per possible kind constant with the facts that hold when it is chosen
	Kinds []kindAlt
	Elem  []ssa.Value
	Alias []ssa.Value
}

type kindAlt struct {
	K     int64
	Facts []Fact
}

func (m *idlModel) typeNodes() []typeNode {
	var out []typeNode
	for _, f := range m.funcs() {
		for _, b := range f.Blocks {
			for _, in := range b.Instrs {
				al, ok := in.(*ssa.Alloc)
				if !ok {
					continue
				}
				if pt, ok := al.Type().(*types.Pointer); !ok || !types.Identical(pt.Elem(), m.typeT) {
					continue
				}
				fs := fieldStores(al)
				tn := typeNode{Alloc: al, Fn: f, Elem: fs["ElementType"], Alias: fs["Alias"]}
				base := m.T.FactsAt(b)
				// only the first Kind store belongs to the construction (later stores are state changes, e.g. struct -> enum)
				for _, v := range fs["Kind"] {
					switch x := v.(type) {
					case *ssa.Const:
						if reach, _ := reachInstr(f, al, func(i ssa.Instruction) bool {
							st, ok := i.(*ssa.Store)
							return ok && st.Val == v && st.Block() == b
						}, nil, nil); reach {
							tn.Kinds = append(tn.Kinds, kindAlt{x.Int64(), base})
						}
					case *ssa.Extract:
						// the kind looked up in a constant table keyed by a token: `kind, ok := primitiveKinds[keyword]`
						// under ok - one alternative per entry, each with the fact `token == key`
						lk, isLk := x.Tuple.(*ssa.Lookup)
						if !isLk || x.Index != 0 || !lk.CommaOk {
							break
						}
						ld, isLd := lk.X.(*ssa.UnOp)
						if !isLd {
							break
						}
						g, isG := ld.X.(*ssa.Global)
						if !isG {
							break
						}
						mm, isMM := m.p.ConstGlobal(g).(*ssa.MakeMap)
						if !isMM || !hasFact(base, "EQ", "ext("+m.T.T(lk)+",1)", "const:true") {
							break
						}
						keyT := m.T.T(lk.Index)
						for _, ref := range *mm.Referrers() {
							mu, isMU := ref.(*ssa.MapUpdate)
							if !isMU {
								continue
							}
							kk, ok1 := mu.Key.(*ssa.Const)
							vv, ok2 := mu.Value.(*ssa.Const)
							if !ok1 || !ok2 {
								continue
							}
							fcts := append([]Fact{{Op: "EQ", A: keyT, B: constTerm(kk)}}, base...)
							tn.Kinds = append(tn.Kinds, kindAlt{vv.Int64(), fcts})
						}
					case *ssa.Phi:
						for i, e := range x.Edges {
							if k, ok := e.(*ssa.Const); ok {
								pred := x.Block().Preds[i]
								fcts := append(append([]Fact{}, m.T.FactsAt(pred)...), m.T.edgeFactsOn(pred, x.Block())...)
								fcts = append(fcts, base...)
								tn.Kinds = append(tn.Kinds, kindAlt{k.Int64(), fcts})
							}
						}
					}
				}
				out = append(out, tn)
			}
		}
	}
	return out
}

// strConstEq: f is <call result> == "literal"; returns (call term, literal).
func strConstEq(f Fact) (string, string, bool) {
	if f.Op != "EQ" {
		return "", "", false
	}
	for _, pr := range [][2]string{{f.A, f.B}, {f.B, f.A}} {
		if strings.HasPrefix(pr[0], `const:"`) && strings.HasPrefix(pr[1], "call:") {
			var lit string
			if _, err := fmt.Sscanf(pr[0], "const:%q", &lit); err == nil || pr[0] == `const:""` {
				return pr[1], lit, true
			}
		}
	}
	return "", "", false
}

// funcs: the functions of the parser package as the rules analyse them: the readers in their inlined views (cursor.go),
// every other function as built. Cursor methods that are analysed as part of their callers do not appear.
func (m *idlModel) funcs() []*ssa.Function {
	out := append([]*ssa.Function(nil), m.a.methods...)
	for _, f := range m.p.FuncsOf(pkgIDL) {
		if m.a.isCursorMethod(f) || f == m.a.next || f == m.a.back || m.a.inlinedHelpers[f] {
			continue
		}
		out = append(out, f)
	}
	return out
}

// inputField: the name of the cursor's input member (found by shape in cursor.go: the string member indexed by the
// position member).
func (m *idlModel) inputField() string {
	if st, ok := m.a.cursorT.Underlying().(*types.Struct); ok && m.a.inIdx >= 0 && m.a.inIdx < st.NumFields() {
		return st.Field(m.a.inIdx).Name()
	}
	return "input"
}

// accMethod: c is a call of a method of the pending-comment accumulator - a member of the cursor of type bytes.Buffer or
// strings.Builder; returns the method name ("" otherwise). The member is found by type, not by name.
func (m *idlModel) accMethod(c *ssa.Call) string {
	f := c.Call.StaticCallee()
	if f == nil || f.Signature.Recv() == nil || len(c.Call.Args) == 0 {
		return ""
	}
	rt := f.Signature.Recv().Type()
	if !isNamed(rt, "bytes", "Buffer") && !isNamed(rt, "strings", "Builder") {
		return ""
	}
	// receiver: address of a member of the cursor
	v := c.Call.Args[0]
	fa, ok := v.(*ssa.FieldAddr)
	if !ok {
		return ""
	}
	pt, ok := fa.X.Type().Underlying().(*types.Pointer)
	if !ok || !m.a.isCursorT(pt.Elem()) {
		return ""
	}
	return f.Name()
}

// keywordTest: f compares the result of a keyword token reader (a token reader whose tokens start with and consist of
// lower-case letters only... the first-byte set is exactly a-z) with a non-empty literal.
func (m *idlModel) keywordTest(f Fact) bool {
	_, lit, ok := strConstEq(f)
	if !ok || lit == "" {
		return false
	}
	rd, ok := m.tokenEq([]Fact{f}, lit)
	if !ok {
		return false
	}
	tc := m.tokens[rd]
	return tc != nil && tc.First.equal(rangeSet('a', 'z'))
}

// memberNodeOf: the member node (an Alloc of *Alias, *Method or *Error in fn) whose Name member is set to the value
// with term nameT; nil if there is none or more than one.
func (m *idlModel) memberNodeOf(fn *ssa.Function, nameT string) *ssa.Alloc {
	var out *ssa.Alloc
	for _, b := range fn.Blocks {
		for _, in := range b.Instrs {
			al, ok := in.(*ssa.Alloc)
			if !ok {
				continue
			}
			if !isNamed(al.Type(), pkgIDL, "Alias") && !isNamed(al.Type(), pkgIDL, "Method") && !isNamed(al.Type(), pkgIDL, "Error") {
				continue
			}
			vals := fieldStores(al)["Name"]
			if len(vals) == 1 && m.T.T(vals[0]) == nameT {
				if out != nil {
					return nil
				}
				out = al
			}
		}
	}
	return out
}
