package main

// E10: emitted-text lexical-context analyser for the code generator. An AST walk of the generator in statement order
// abstractly tracks the Go lexer mode of the output buffer across every WriteString of constants and classifies every
// spliced runtime string by provenance (which member of the parsed tree) and byte class (from the parser, via E9).

import (
	"fmt"
	"go/ast"
	"go/constant"
	"go/token"
	"go/types"
	"os"
	"regexp/syntax"
	"sort"
	"strconv"
	"strings"

	"golang.org/x/tools/go/ssa"
)

type lexMode int

const (
	lmCode lexMode = iota
	lmLineComment
	lmRaw
	lmStr
	lmRune
)

var lexModeName = []string{"code", "line-comment", "raw-string", "string", "rune"}

type lexState struct {
	m       lexMode
	slash   bool // previous byte in code was '/'
	esc     bool // previous byte in a string/rune was '\'
	inIdent bool // previous byte in code was an identifier byte
	// nesting of the emitted code so far: open parentheses, brackets and braces seen in code mode (relative to the
	// state at which the walk of the current function started)
	par, brk, brc int
	tk            tokState
}

// tokState: the emitted code as a token stream, kept along with the lexical state so that it is path-sensitive like
// the mode: which identifiers are certainly declared in the emitted function the text is in (a must-set: joins
// intersect). gentokens.go reads the uses that were seen outside that set.
type tokState struct {
	word     string // identifier being read ("\x00" marks a splice inside it)
	prev     string // the last complete token
	pend     string // identifiers read since the last other token, comma-separated: a declaration list if `:=` follows
	pendOpen bool   // the last token was the comma of that list
	pendDyn  bool   // the last word was a name that depends on the description (`<dyn> :=` declares an unknown name)
	colon    bool   // the last byte was ':' (a `:=` may follow)
	efn      string // name of the emitted function the text is in ("" outside)
	inFn     bool
	hdr      bool   // in the signature of that function
	decl     string // "," + identifiers declared so far in that function, each followed by ","
	dynDecl  bool   // a declaration with a name that depends on the template's own values was emitted: names are not all known
	maybe    string // ",id@d," : identifiers declared on one way into a join of the template at control depth d and not on the other
}

// genCtlDepth: the nesting of template control statements (if/switch arms, loop bodies) at the text being fed.
var genCtlDepth int

func (t tokState) maybeDepth(id string) (int, bool) {
	i := strings.Index(t.maybe, ","+id+"@")
	if i < 0 {
		return 0, false
	}
	rest := t.maybe[i+len(id)+2:]
	j := strings.Index(rest, ",")
	if j < 0 {
		return 0, false
	}
	d, err := strconv.Atoi(rest[:j])
	return d, err == nil
}

// genUseSink receives every identifier use of the emitted code that is not covered by the declarations seen on the
// path (set by the rule that evaluates them; nil otherwise).
var genUseSink func(fn, ident, decl string)

func (t tokState) has(id string) bool { return strings.Contains(t.decl, ","+id+",") }

func (t tokState) declare(id string) tokState {
	if id == "" || id == "_" || t.has(id) {
		return t
	}
	if t.decl == "" {
		t.decl = ","
	}
	t.decl += id + ","
	return t
}

func (t tokState) flushPend() tokState {
	if t.pend != "" && t.inFn && !t.hdr && !t.dynDecl && genUseSink != nil {
		for _, id := range strings.Split(t.pend, ",") {
			if id == "" || t.has(id) {
				continue
			}
			if os.Getenv("VLDEBUG") == "g10" {
				fmt.Fprintf(os.Stderr, "G10 use %s in %q: decl=%s maybe=%s dynDecl=%v ctl=%d\n", id, t.efn, t.decl, t.maybe, t.dynDecl, genCtlDepth)
			}
			if d, lost := t.maybeDepth(id); lost {
				// declared on one way into an earlier join only: a defect if the use stands at the level of that join
				// (deeper, under a further condition or in a loop, the two conditions may well be the same one)
				if genCtlDepth == d {
					genUseSink(t.efn, id, "branch")
				}
				continue
			}
			genUseSink(t.efn, id, "never")
		}
	}
	t.pend, t.pendOpen = "", false
	return t
}

// endWord: an identifier, keyword or number is complete. depth0: at nesting depth 0 of the file.
func (t tokState) endWord(depth0 bool) tokState {
	w := t.word
	t.word = ""
	if w == "" {
		return t
	}
	if strings.Contains(w, "\x00") {
		// a name that depends on the description: opaque
		if t.prev == "var" && t.inFn {
			t.dynDecl = true
		}
		t = t.flushPend()
		t.prev = "dyn"
		t.pendDyn = true
		return t
	}
	if w[0] >= '0' && w[0] <= '9' {
		t = t.flushPend()
		t.prev = "num"
		return t
	}
	if goKeywordsAndPredeclared[w] {
		t = t.flushPend()
		if w == "func" && depth0 {
			t.inFn, t.hdr, t.efn, t.decl, t.dynDecl, t.maybe = true, true, "", "", false, ""
			if os.Getenv("VLDEBUG") == "g10" {
				fmt.Fprintf(os.Stderr, "G10 enter func\n")
			}
		}
		t.prev = w
		return t
	}
	switch {
	case t.prev == ".":
		// a member or qualified name
	case t.prev == "var" && t.inFn:
		t = t.declare(w)
	case t.hdr:
		t = t.declare(w)
	case t.inFn:
		if t.pend != "" && !t.pendOpen {
			t = t.flushPend()
		}
		if t.pend != "" {
			t.pend += ","
		}
		t.pend += w
		t.pendOpen = false
	}
	t.prev = w
	return t
}

// punct: a byte of code that is not part of a word. before: the nesting before the byte.
func (t tokState) punct(c byte, par, brc int) tokState {
	if c == ' ' || c == '\t' || c == '\n' || c == '\r' {
		return t
	}
	if t.colon {
		t.colon = false
		if c == '=' {
			// `a, b := ...`: the pending identifiers are declared
			if t.inFn && t.prev == "dyn" {
				t.dynDecl = true
			}
			if t.inFn {
				for _, id := range strings.Split(t.pend, ",") {
					t = t.declare(id)
				}
			}
			t.pend, t.pendOpen = "", false
			t.prev = ":="
			return t
		}
		// a plain ':' (label, case, composite literal key): the identifier before a key is not a variable use when it
		// follows `{` or `,` - too fine to tell here: treat keys as uses only if they are not declared anyway
		t.pend, t.pendOpen = "", false
		t.prev = ":"
	}
	switch c {
	case ',':
		if t.pend != "" && !t.pendOpen {
			t.pendOpen = true
			t.prev = ","
			return t
		}
	case ':':
		t.colon = true
		return t
	case '(':
		if t.hdr && t.efn == "" && par == 0 && t.prev != "func" && t.prev != "" {
			t.efn = t.prev
		}
	case '{':
		if t.hdr && par == 0 {
			t.hdr = false
		}
	case '}':
		if os.Getenv("VLDEBUG") == "g10" && t.inFn && brc <= 2 {
			fmt.Fprintf(os.Stderr, "G10 close brace in %q brc=%d par=%d hdr=%v decl=%s\n", t.efn, brc, par, t.hdr, t.decl)
		}
		if t.inFn && !t.hdr && brc == 1 && par == 0 {
			t = t.flushPend()
			t.inFn, t.efn, t.decl = false, "", ""
		}
	}
	t = t.flushPend()
	t.prev = string(c)
	return t
}

// desc: the mode and nesting of a state, for messages.
func (l lexState) desc() string {
	return fmt.Sprintf("%s, nesting ( %d [ %d { %d", lexModeName[l.m], l.par, l.brk, l.brc)
}

func isIdentByte(c byte) bool {
	return c == '_' || c >= '0' && c <= '9' || c >= 'a' && c <= 'z' || c >= 'A' && c <= 'Z'
}

func (l lexState) feed(c byte) lexState {
	switch l.m {
	case lmCode:
		if isIdentByte(c) {
			if l.tk.colon {
				l.tk.colon, l.tk.prev = false, ":" // the ':' of a case, a label or a key: not the start of `:=`
			}
			l.tk.word += string(c)
		} else {
			l.tk = l.tk.endWord(l.brc == 0 && l.par == 0)
			if c != '/' && c != '"' && c != '`' && c != '\'' {
				l.tk = l.tk.punct(c, l.par, l.brc)
			} else if c != '/' {
				l.tk = l.tk.flushPend()
				l.tk.prev = "lit"
			}
		}
		sl := l.slash
		l.slash = false
		l.inIdent = isIdentByte(c)
		switch {
		case c == '/' && sl:
			l.m = lmLineComment
		case c == '/':
			l.slash = true
		case c == '`':
			l.m = lmRaw
		case c == '"':
			l.m = lmStr
		case c == '\'':
			l.m = lmRune
		case c == '(':
			l.par++
		case c == ')':
			l.par--
		case c == '[':
			l.brk++
		case c == ']':
			l.brk--
		case c == '{':
			l.brc++
		case c == '}':
			l.brc--
		}
	case lmLineComment:
		if c == '\n' {
			l.m = lmCode
			l.inIdent = false
		}
	case lmRaw:
		if c == '`' {
			l.m = lmCode
		}
	case lmStr, lmRune:
		if l.esc {
			l.esc = false
		} else if c == '\\' {
			l.esc = true
		} else if (l.m == lmStr && c == '"') || (l.m == lmRune && c == '\'') {
			l.m = lmCode
		}
	}
	return l
}

func (l lexState) feedStr(s string) lexState {
	for i := 0; i < len(s); i++ {
		l = l.feed(s[i])
	}
	return l
}

type genCharset [256]bool

func gcs(ranges string) *genCharset {
	var c genCharset
	for i := 0; i < len(ranges); i++ {
		if i+2 < len(ranges) && ranges[i+1] == '-' {
			for b := int(ranges[i]); b <= int(ranges[i+2]); b++ {
				c[b] = true
			}
			i += 2
		} else {
			c[ranges[i]] = true
		}
	}
	return &c
}

func gcsAny() *genCharset {
	var c genCharset
	for i := range c {
		c[i] = true
	}
	return &c
}

func gcsFrom(b *byteSet) *genCharset {
	var c genCharset
	for i := 0; i < 256; i++ {
		c[i] = b.has(i)
	}
	return &c
}

func (c *genCharset) copy() *genCharset { d := *c; return &d }

// genDyn is a runtime string written to the output: where it comes from and which bytes it can contain.
type genDyn struct {
	what   string
	first  *genCharset
	rest   *genCharset
	repl   []string // constants that may replace removed bytes
	kwSafe bool     // guarded against being a Go keyword
	raw    bool     // the untransformed tree member (for C08.B1)
	repeat string   // strings.Repeat of this constant: zero or more copies
	flaw   string   // a defect of the transformation chain itself (reported where the value is spliced)
	quoted bool     // escaped by strconv.Quote: any byte of the value is written as an escape where needed
}

type genPiece struct {
	konst string
	dyn   *genDyn
	alts  []string  // one of these constants (a value looked up in a constant table)
	group *genGroup // zero or more elements (each one of the alternatives elems) separated by sep
	// emit: the text an emitting function of the generator writes, used as a string (`goType(t)` that runs the type
	// writer on a scratch buffer and returns its contents): the function is walked at this point of the text
	emit     *ast.FuncDecl
	emitCall *ast.CallExpr
	oneOf    [][]genPiece // exactly one of these piece sequences (a local that is assigned on one branch only)
}

type genGroup struct {
	elems [][]genPiece
	sep   string
}

// genSplice is one classified splice.
type genSplice struct {
	Pos   token.Pos
	Fn    string
	Dyn   *genDyn
	Mode  lexMode
	Start bool   // starts an identifier
	Whole bool   // is (possibly) a whole identifier
	InTag bool   // inside a struct tag (raw string within code written by the type writer)
	Prev  string // constant text immediately before (same expression / previous write), for context rules
	Next  string
	OK    bool
	Why   string
}

type genFrag struct {
	Pos  token.Pos
	Fn   string
	Text string
	At   lexState // state before the fragment
}

type genWalker struct {
	p       *Prog
	info    *types.Info
	fset    *token.FileSet
	funcs   map[string]*ast.FuncDecl
	classes map[string]*genDyn
	locals  map[types.Object]ast.Expr
	kwSafe  map[types.Object]bool
	memo    map[string]lexState
	// sliceElems: the element expressions appended to a local []string (for strings.Join of it)
	sliceElems map[types.Object][]ast.Expr
	curFn      string

	Splices []*genSplice
	Frags   []genFrag
	// Segs: the emitted text per straight-line stretch of the template code: constant text in emission order with \x00
	// for every dynamic splice; a new segment starts at every branch, loop and return. Rules about the shape of the
	// generated code look at segments, so that it does not matter how the text is cut into WriteString calls or locals.
	Segs   []genFrag
	curSeg *genFrag
	nFlush int
	// StmtText: the text emitted by a (simple) statement of the template: a WriteString, a call of a line helper, a Fprintf
	StmtText  map[*ast.ExprStmt]string
	Problems  []genProblem
	lastConst string

	changed     bool       // a parameter class was widened during this walk: walk again
	evalDepth   int        // > 0 while a string-valued helper is evaluated for its result (nothing is emitted)
	retExprs    []ast.Expr // results of the return statements seen while evaluating a helper
	retFn       []string
	origIdent   map[*ast.Ident]types.Object
	inlineDepth int
	methods     map[string]*ast.FuncDecl // methods declared in the generator, by name
	synthConst  map[ast.Expr]string      // constant pieces made by the walker itself (fmt.Fprintf formats)
	// function values: a function literal kept in a local (`p := func(format string, args ...interface{}) {...}`,
	// `clientParam := func(name string, t *idl.Type) string {...}`) is a function of the generator like a declared one;
	// function-typed parameters stand for the argument of the call being walked (locals)
	closures map[types.Object]*ast.FuncDecl
	litDecls map[*ast.FuncLit]*ast.FuncDecl
	// valueFns: string-returning functions whose result is spliced into the output and that are too involved to be
	// evaluated to pieces (a recursive type writer returning its text): walked, where the result is written, as
	// emitters whose return values and whose writes to a local builder are the text
	valueFns map[*ast.FuncDecl]bool
	curDecl  *ast.FuncDecl
	synthAlt map[ast.Expr][]ast.Expr // a value that is one of several expressions (a local assigned on one branch only)
	// boundLists: variadic string parameters bound to the argument list of the call being walked (sliceElems holds
	// the elements, in order): a range over such a parameter is walked once per element
	boundLists map[types.Object]bool
	prewalking map[*ast.FuncDecl]bool
	// UndeclUses: per emitted function, the identifiers used on some path of the template on which no declaration of
	// them had been emitted before in that function (tokState; package-level names are filtered by the rule)
	UndeclUses map[string]map[string]bool
	condDecl   map[string][]string   // emitted function | list expression -> identifiers declared only under `len(list) > 0`
	onStack    map[*ast.FuncDecl]int // emitters being walked (recursion)
	altFeed    int                   // > 0 while the alternatives of a branch-assigned value are fed
	loopExits  []loopExit            // per enclosing template loop: the states at its `continue` and `break` statements
	inSwitch   bool                  // inside a switch of the template (a `break` leaves the switch, not the loop)
}

type loopExit struct{ conts, breaks []lexState }

// loop walks the body of a template loop from state lb (l: the state in front of the loop). Every way through the body -
// falling off its end or `continue` - must leave the output as it found it; `break` states meet the state behind the loop.
func (a *genWalker) loop(x ast.Node, body []ast.Stmt, l, lb lexState, rets *[]lexState) lexState {
	a.loopExits = append(a.loopExits, loopExit{})
	saveSw := a.inSwitch
	a.inSwitch = false
	o, dead := a.branch(body, lb, rets)
	a.inSwitch = saveSw
	ex := a.loopExits[len(a.loopExits)-1]
	a.loopExits = a.loopExits[:len(a.loopExits)-1]
	ends := ex.conts
	if !dead {
		ends = append(ends, o)
	}
	j := l
	for _, e := range ends {
		var ok bool
		if j, ok = joinLex(j, e); !ok {
			a.problem(x, fmt.Sprintf("loop body changes the lexical mode or the nesting depth of the output (%s -> %s)", l.desc(), e.desc()))
		}
	}
	for _, e := range ex.breaks {
		var ok bool
		if j, ok = joinLex(j, e); !ok {
			a.problem(x, fmt.Sprintf("a `break` leaves the loop with the output in another lexical mode or at another nesting depth (%s vs %s)", j.desc(), e.desc()))
		}
	}
	return j
}

// lenPositive: cond is `len(X) > 0`, `len(X) != 0` or `len(X) >= 1`; returns X.
func lenPositive(cond ast.Expr) ast.Expr {
	be, ok := cond.(*ast.BinaryExpr)
	if !ok {
		return nil
	}
	call, ok := be.X.(*ast.CallExpr)
	if !ok || len(call.Args) != 1 {
		return nil
	}
	if id, ok := call.Fun.(*ast.Ident); !ok || id.Name != "len" {
		return nil
	}
	lit, ok := be.Y.(*ast.BasicLit)
	if !ok {
		return nil
	}
	switch {
	case (be.Op == token.GTR || be.Op == token.NEQ) && lit.Value == "0", be.Op == token.GEQ && lit.Value == "1":
		return call.Args[0]
	}
	return nil
}

type genProblem struct {
	Pos token.Pos
	Fn  string
	Msg string
}

func (a *genWalker) problem(n ast.Node, msg string) {
	a.Problems = append(a.Problems, genProblem{n.Pos(), a.curFn, msg})
}

// regexCharsets: first-byte set, all-bytes set of the strings matched by a (^-anchored) pattern.
func regexCharsets(pat string) (*genCharset, *genCharset, bool) {
	re, err := syntax.Parse(pat, syntax.Perl)
	if err != nil {
		return nil, nil, false
	}
	var all genCharset
	var walk func(r *syntax.Regexp) (first genCharset, nullable bool, ok bool)
	addRunes := func(set *genCharset, lo, hi rune) bool {
		if hi > 255 {
			return false
		}
		for c := lo; c <= hi; c++ {
			set[c] = true
		}
		return true
	}
	walk = func(r *syntax.Regexp) (genCharset, bool, bool) {
		var f genCharset
		switch r.Op {
		case syntax.OpEmptyMatch, syntax.OpBeginLine, syntax.OpBeginText, syntax.OpEndLine, syntax.OpEndText:
			return f, true, true
		case syntax.OpLiteral:
			for i, c := range r.Rune {
				if !addRunes(&all, c, c) {
					return f, false, false
				}
				if i == 0 {
					f[c] = true
				}
			}
			return f, len(r.Rune) == 0, true
		case syntax.OpCharClass:
			for i := 0; i+1 < len(r.Rune); i += 2 {
				if !addRunes(&all, r.Rune[i], r.Rune[i+1]) || !addRunes(&f, r.Rune[i], r.Rune[i+1]) {
					return f, false, false
				}
			}
			return f, false, true
		case syntax.OpCapture:
			return walk(r.Sub[0])
		case syntax.OpStar, syntax.OpQuest:
			sf, _, ok := walk(r.Sub[0])
			return sf, true, ok
		case syntax.OpPlus:
			return walk(r.Sub[0])
		case syntax.OpRepeat:
			sf, n, ok := walk(r.Sub[0])
			return sf, n || r.Min == 0, ok
		case syntax.OpConcat:
			nullable := true
			for _, s := range r.Sub {
				sf, n, ok := walk(s)
				if !ok {
					return f, false, false
				}
				if nullable {
					for i := range sf {
						f[i] = f[i] || sf[i]
					}
				}
				nullable = nullable && n
			}
			return f, nullable, true
		case syntax.OpAlternate:
			nullable := false
			for _, s := range r.Sub {
				sf, n, ok := walk(s)
				if !ok {
					return f, false, false
				}
				for i := range sf {
					f[i] = f[i] || sf[i]
				}
				nullable = nullable || n
			}
			return f, nullable, true
		}
		return f, false, false
	}
	first, _, ok := walk(re)
	return &first, &all, ok
}

// idlFieldClasses derives, from the parser's store sites, the byte class of every string member of the tree.
func idlFieldClasses(m *idlModel) map[string]*genDyn {
	out := map[string]*genDyn{}
	T := m.T
	for _, f := range m.funcs() {
		for _, b := range f.Blocks {
			for _, in := range b.Instrs {
				st, ok := in.(*ssa.Store)
				if !ok {
					continue
				}
				fa, ok := st.Addr.(*ssa.FieldAddr)
				if !ok {
					continue
				}
				bt, ok := fa.Type().(*types.Pointer).Elem().Underlying().(*types.Basic)
				if !ok || bt.Kind() != types.String {
					continue
				}
				pt, ok := fa.X.Type().Underlying().(*types.Pointer)
				if !ok {
					continue
				}
				named, ok := pt.Elem().(*types.Named)
				if !ok || named.Obj().Pkg() == nil || named.Obj().Pkg().Path() != pkgIDL || named == m.a.cursorT {
					continue
				}
				key := named.Obj().Name() + "." + fieldName(fa.X, fa.Field)
				var d *genDyn
				switch v := st.Val.(type) {
				case *ssa.Call:
					callee := v.Call.StaticCallee()
					if tc := m.tokens[callee]; tc != nil {
						d = &genDyn{what: key, first: gcsFrom(tc.First), rest: gcsFrom(tc.Rest)}
					} else if callee != nil && callee.Name() == "String" && (strings.Contains(calleeName(&v.Call), "bytes.Buffer") || strings.Contains(calleeName(&v.Call), "strings.Builder")) {
						d = &genDyn{what: key, first: gcsAny(), rest: gcsAny()}
					} else if m.a.isCursorMethod(callee) {
						// regexp-based reader: union of its constant patterns
						var first, all genCharset
						okAll := false
						for _, cs := range compiledPatterns(m.a.p, callee) {
							if pats, isK := patternTexts(cs.Common.Args[0]); isK {
								for _, pat := range pats {
									if fs, as, ok := regexCharsets(pat); ok {
										okAll = true
										for i := range first {
											first[i] = first[i] || fs[i]
											all[i] = all[i] || as[i]
										}
									}
								}
							}
						}
						if okAll {
							d = &genDyn{what: key, first: &first, rest: &all}
						}
					}
				case *ssa.Parameter:
					d = &genDyn{what: key, first: gcsAny(), rest: gcsAny()}
				}
				if d == nil {
					d = &genDyn{what: key + " (unclassified: " + strip(T.T(st.Val)) + ")", first: gcsAny(), rest: gcsAny()}
				}
				d.raw = true
				if old, seen := out[key]; seen {
					// several store sites: union
					for i := range old.first {
						old.first[i] = old.first[i] || d.first[i]
						old.rest[i] = old.rest[i] || d.rest[i]
					}
				} else {
					out[key] = d
				}
			}
		}
	}
	return out
}

func (a *genWalker) fieldClass(sel *ast.SelectorExpr) *genDyn {
	obj, ok := a.info.Uses[sel.Sel].(*types.Var)
	if !ok || !obj.IsField() || obj.Pkg() == nil || obj.Pkg().Path() != pkgIDL {
		return nil
	}
	recv := a.info.TypeOf(sel.X)
	if pt, ok := recv.(*types.Pointer); ok {
		recv = pt.Elem()
	}
	n, ok := recv.(*types.Named)
	if !ok {
		return nil
	}
	if d, ok := a.classes[n.Obj().Name()+"."+obj.Name()]; ok {
		c := *d
		c.first, c.rest = d.first.copy(), d.rest.copy()
		return &c
	}
	return nil
}

func (a *genWalker) pieces(e ast.Expr) ([]genPiece, bool) {
	if tv, ok := a.info.Types[e]; ok && tv.Value != nil && tv.Value.Kind() == constant.String {
		return []genPiece{{konst: constant.StringVal(tv.Value)}}, true
	}
	if k, ok := a.synthConst[e]; ok {
		return []genPiece{{konst: k}}, true
	}
	if alts, ok := a.synthAlt[e]; ok {
		p := genPiece{}
		for _, alt := range alts {
			ps, ok := a.pieces(alt)
			if !ok {
				return nil, false
			}
			p.oneOf = append(p.oneOf, ps)
		}
		return []genPiece{p}, true
	}
	switch x := e.(type) {
	case *ast.ParenExpr:
		return a.pieces(x.X)
	case *ast.BinaryExpr:
		if x.Op == token.ADD {
			l, ok1 := a.pieces(x.X)
			r, ok2 := a.pieces(x.Y)
			return append(l, r...), ok1 && ok2
		}
	case *ast.SelectorExpr:
		if d := a.fieldClass(x); d != nil {
			return []genPiece{{dyn: d}}, true
		}
		// a string member of the generator's own state struct (`g.pkg`), set where the struct is built
		if obj, ok := a.info.Uses[x.Sel].(*types.Var); ok && obj.IsField() {
			if def, ok := a.locals[obj]; ok {
				ps, ok := a.pieces(def)
				if ok && a.kwSafe[obj] {
					for i := range ps {
						if ps[i].dyn != nil {
							d := *ps[i].dyn
							d.kwSafe = true
							ps[i].dyn = &d
						}
					}
				}
				return ps, ok
			}
		}
	case *ast.IndexExpr:
		// a value looked up in a package-level table of string constants (`scalarTypes[t.Kind]`)
		if vals, _, ok := a.constTable(x.X); ok {
			return []genPiece{{alts: vals}}, true
		}
	case *ast.SliceExpr:
		// a prefix/suffix of a repeated one-byte constant (`indent[:n]` of strings.Repeat("\t", k)) is again zero or
		// more copies of that byte
		if ps, ok := a.pieces(x.X); ok && len(ps) == 1 && ps[0].dyn != nil && len(ps[0].dyn.repeat) == 1 {
			return ps, true
		}
	case *ast.Ident:
		obj := a.info.Uses[x]
		orig := false
		if o, ok := a.origIdent[x]; ok {
			obj, orig = o, true // the value the variable had before it was reassigned (a parameter)
		}
		if def, ok := a.locals[obj]; ok && !orig {
			ps, ok := a.pieces(def)
			if ok && a.kwSafe[obj] {
				for i := range ps {
					if ps[i].dyn != nil {
						d := *ps[i].dyn
						d.kwSafe = true
						ps[i].dyn = &d
					}
				}
			}
			return ps, ok
		}
		// a string parameter of a helper: classified by what the callers pass (documentation text)
		if v, ok := obj.(*types.Var); ok {
			if d, ok := a.classes["param:"+a.curFn+"."+v.Name()]; ok {
				c := *d
				return []genPiece{{dyn: &c}}, true
			}
		}
	case *ast.CallExpr:
		// fmt.Sprintf("format", args...): the equivalent concatenation
		if se, ok := x.Fun.(*ast.SelectorExpr); ok && se.Sel.Name == "Sprintf" && len(x.Args) >= 1 {
			if id, ok := se.X.(*ast.Ident); ok && id.Name == "fmt" {
				if ce, ok := a.formatExpr(x.Args[0], x.Args[1:]); ok {
					return a.pieces(ce)
				}
				return nil, false
			}
		}
		if _, ok := x.Fun.(*ast.Ident); ok {
			if fdc := a.funcDeclOf(x.Fun); fdc != nil {
				if vals, _, ok := a.tableFunc(fdc); ok {
					return []genPiece{{alts: vals}}, true
				}
				if g, inner := a.stringForwarder(fdc); g != nil {
					return []genPiece{{emit: g, emitCall: inner}}, true
				}
			}
		}
		// a string-valued method of the generator's state (`g.qualified(name)`)
		if se, ok := x.Fun.(*ast.SelectorExpr); ok {
			if fd := a.methodDecl(se); fd != nil && fd.Type.Results != nil && len(fd.Type.Results.List) >= 1 &&
				types.Identical(a.info.TypeOf(fd.Type.Results.List[0].Type), types.Typ[types.String]) {
				return a.evalStringFunc(fd, x)
			}
			// strconv.Quote(x): x as an interpreted string literal - whatever x contains is escaped
			if id, ok := se.X.(*ast.Ident); ok && id.Name == "strconv" && se.Sel.Name == "Quote" && len(x.Args) == 1 {
				ps, ok := a.pieces(x.Args[0])
				if !ok {
					return nil, false
				}
				out := []genPiece{{konst: `"`}}
				for _, p := range ps {
					if p.dyn != nil {
						d := *p.dyn
						d.first, d.rest = d.first.copy(), d.rest.copy()
						for _, c := range []byte{'"', '\\', '\n', '\r', '\t', 0} {
							d.first[c], d.rest[c] = false, false
						}
						for c := 0; c < 32; c++ {
							d.first[c], d.rest[c] = false, false // control characters are written as escapes
						}
						d.first['\\'], d.rest['\\'] = false, false
						d.raw = false
						d.quoted = true // (the description stays that of the value: quoting only escapes)
						out = append(out, genPiece{dyn: &d})
					} else if p.alts == nil && p.group == nil && p.emit == nil {
						out = append(out, genPiece{konst: strings.Trim(strconv.Quote(p.konst), `"`)})
					} else {
						return nil, false
					}
				}
				return append(out, genPiece{konst: `"`}), true
			}
		}
		// strings.Join(list, sep) of a local list that is filled by appends in a loop: zero or more elements
		// separated by the constant
		if se, ok := x.Fun.(*ast.SelectorExpr); ok && se.Sel.Name == "Join" && len(x.Args) == 2 {
			if pid, ok := se.X.(*ast.Ident); ok && pid.Name == "strings" {
				if lid, ok := x.Args[0].(*ast.Ident); ok {
					sep, okS := a.pieces(x.Args[1])
					elems := a.sliceElems[a.info.Uses[lid]]
					if okS && len(sep) == 1 && sep[0].dyn == nil && sep[0].alts == nil && len(elems) > 0 {
						g := &genGroup{sep: sep[0].konst}
						for _, el := range elems {
							ps, ok := a.pieces(el)
							if !ok {
								return nil, false
							}
							g.elems = append(g.elems, ps)
						}
						return []genPiece{{group: g}}, true
					}
				}
			}
		}
		if _, ok := x.Fun.(*ast.Ident); ok {
			if fd := a.funcDeclOf(x.Fun); fd != nil && fd.Body != nil && fd.Type.Results != nil && len(fd.Type.Results.List) >= 1 &&
				types.Identical(a.info.TypeOf(fd.Type.Results.List[0].Type), types.Typ[types.String]) {
				// (the call is kept with what its arguments mean here: it is walked later, where the text is written)
				frozen, _ := a.freeze(x).(*ast.CallExpr)
				if frozen == nil {
					frozen = x
				}
				if a.valueFns[fd] {
					return []genPiece{{emit: fd, emitCall: frozen}}, true
				}
				if ps, ok := a.evalStringFunc(fd, x); ok {
					return ps, true
				}
				// too involved to be evaluated to pieces (several returns of composed text, a builder filled in a
				// loop, recursion): the function is walked where its result is written
				a.valueFns[fd] = true
				return []genPiece{{emit: fd, emitCall: frozen}}, true
			}
		}
		// strings.NewReplacer("a", "b", ...).Replace(x) with single-byte constant patterns: as the Replace calls in turn
		if se, ok := x.Fun.(*ast.SelectorExpr); ok && se.Sel.Name == "Replace" && len(x.Args) == 1 {
			recv := se.X
			if id, isId := recv.(*ast.Ident); isId {
				// a package-level replacer: `var quoter = strings.NewReplacer(...)`
				if init := a.packageVarInit(a.info.Uses[id]); init != nil {
					recv = init
				}
			}
			if inner, ok := recv.(*ast.CallExpr); ok {
				if ise, ok := inner.Fun.(*ast.SelectorExpr); ok && ise.Sel.Name == "NewReplacer" && len(inner.Args)%2 == 0 {
					if id, ok := ise.X.(*ast.Ident); ok && id.Name == "strings" {
						ps, ok := a.pieces(x.Args[0])
						if !ok || len(ps) != 1 || ps[0].dyn == nil {
							return nil, false
						}
						d := *ps[0].dyn
						d.first, d.rest = d.first.copy(), d.rest.copy()
						d.raw = false
						for i := 0; i+1 < len(inner.Args); i += 2 {
							old, ok1 := a.pieces(inner.Args[i])
							nw, ok2 := a.pieces(inner.Args[i+1])
							if !ok1 || !ok2 || len(old) != 1 || old[0].dyn != nil || len(nw) != 1 || nw[0].dyn != nil || len(old[0].konst) != 1 {
								return nil, false
							}
							c := old[0].konst[0]
							for _, earlier := range ps[0].dyn.repl {
								if strings.IndexByte(earlier, c) >= 0 {
									d.flaw = fmt.Sprintf("the replacement of %q is applied after one that inserts %q, which contains that byte: the earlier splice is rewritten and the emitted text no longer denotes the original value", old[0].konst, earlier)
								}
							}
							wasFirst := d.first[c]
							d.first[c], d.rest[c] = false, false
							if nw[0].konst != "" {
								d.repl = append(append([]string{}, d.repl...), nw[0].konst)
							} else if wasFirst {
								for j := range d.first {
									d.first[j] = d.first[j] || d.rest[j]
								}
							}
							d.what = fmt.Sprintf("Replace(%s,%q,%q)", d.what, old[0].konst, nw[0].konst)
						}
						return []genPiece{{dyn: &d}}, true
					}
				}
			}
		}
		if se, ok := x.Fun.(*ast.SelectorExpr); ok {
			if id, ok := se.X.(*ast.Ident); ok && id.Name == "strings" {
				switch se.Sel.Name {
				case "Repeat":
					// strings.Repeat("<constant>", n): any number of copies of the constant
					ps, ok := a.pieces(x.Args[0])
					if !ok || len(ps) != 1 || ps[0].dyn != nil {
						return nil, false
					}
					var f, r genCharset
					k := ps[0].konst
					for i := 0; i < len(k); i++ {
						r[k[i]] = true
					}
					if k != "" {
						f[k[0]] = true
					}
					return []genPiece{{dyn: &genDyn{what: fmt.Sprintf("Repeat(%q)", k), first: &f, rest: &r, repeat: k}}}, true
				case "Title", "ToLower", "ToUpper":
					ps, ok := a.pieces(x.Args[0])
					if !ok || len(ps) != 1 || ps[0].dyn == nil {
						return nil, false
					}
					d := *ps[0].dyn
					d.first, d.rest = d.first.copy(), d.rest.copy()
					d.what = se.Sel.Name + "(" + d.what + ")"
					d.raw = false
					for c := 'a'; c <= 'z'; c++ {
						u := c - 32
						switch se.Sel.Name {
						case "Title":
							if d.first[c] {
								d.first[c], d.first[u] = false, true
							}
						case "ToLower":
							if d.first[u] {
								d.first[u], d.first[c] = false, true
							}
							if d.rest[u] {
								d.rest[u], d.rest[c] = false, true
							}
						case "ToUpper":
							if d.first[c] {
								d.first[c], d.first[u] = false, true
							}
							if d.rest[c] {
								d.rest[c], d.rest[u] = false, true
							}
						}
					}
					return []genPiece{{dyn: &d}}, true
				case "Replace", "ReplaceAll":
					ps, ok := a.pieces(x.Args[0])
					old, ok1 := a.pieces(x.Args[1])
					nw, ok2 := a.pieces(x.Args[2])
					if !ok || !ok1 || !ok2 || len(ps) != 1 || ps[0].dyn == nil || len(old) != 1 || old[0].dyn != nil || len(nw) != 1 || nw[0].dyn != nil || len(old[0].konst) != 1 {
						return nil, false
					}
					d := *ps[0].dyn
					d.first, d.rest = d.first.copy(), d.rest.copy()
					d.first[old[0].konst[0]] = false
					d.rest[old[0].konst[0]] = false
					if nw[0].konst != "" {
						d.repl = append(append([]string{}, d.repl...), nw[0].konst)
					}
					for _, earlier := range ps[0].dyn.repl {
						if strings.IndexByte(earlier, old[0].konst[0]) >= 0 {
							d.flaw = fmt.Sprintf("the replacement of %q is applied after one that inserts %q, which contains that byte: the earlier splice is rewritten and the emitted text no longer denotes the original value", old[0].konst, earlier)
						}
					}
					d.raw = false
					d.what = fmt.Sprintf("Replace(%s,%q,%q)", d.what, old[0].konst, nw[0].konst)
					if nw[0].konst == "" && ps[0].dyn.first[old[0].konst[0]] {
						// deletion of a byte that can be the first one: the new first byte may be any of the rest
						for i := range d.first {
							d.first[i] = d.first[i] || d.rest[i]
						}
					}
					return []genPiece{{dyn: &d}}, true
				case "TrimRight", "TrimSpace", "TrimLeft":
					ps, ok := a.pieces(x.Args[0])
					if ok && len(ps) == 1 && ps[0].dyn != nil {
						d := *ps[0].dyn
						d.raw = false
						return []genPiece{{dyn: &d}}, true
					}
					return ps, ok
				}
			}
		}
	}
	return nil, false
}

var goKeywords = []string{"break", "case", "chan", "const", "continue", "default", "defer", "else", "fallthrough", "for", "func", "go", "goto", "if", "import", "interface", "map", "package", "range", "return", "select", "struct", "switch", "type", "var"}

func (a *genWalker) feedDyn(l lexState, d *genDyn, at ast.Node, prev, next string, hasNext bool) lexState {
	if d.repeat != "" {
		// zero or more copies of a constant (indentation): the lexical mode must be the same after any number of them
		once := l.feedStr(d.repeat)
		j, ok := joinLex(l, once)
		twice := once.feedStr(d.repeat)
		if _, ok2 := joinLex(once, twice); !ok || !ok2 {
			a.problem(at, fmt.Sprintf("a repeated constant %q changes the lexical mode of the output", d.repeat))
		}
		return j
	}
	sp := &genSplice{Pos: at.Pos(), Fn: a.curFn, Dyn: d, Mode: l.m, Prev: prev, Next: next, OK: true}
	a.Splices = append(a.Splices, sp)
	bad := func(set *genCharset, pred func(byte) bool) string {
		var out []string
		for i := 0; i < 256; i++ {
			if set[i] && pred(byte(i)) {
				out = append(out, fmt.Sprintf("%q", rune(i)))
			}
		}
		if len(out) > 6 {
			out = append(out[:6], "…")
		}
		return strings.Join(out, " ")
	}
	union := d.rest.copy()
	for i := range union {
		union[i] = union[i] || d.first[i]
	}
	fail := func(msg string) {
		sp.OK = false
		if sp.Why != "" {
			sp.Why += "; "
		}
		sp.Why += msg
	}
	switch l.m {
	case lmCode:
		if b := bad(union, func(c byte) bool { return !isIdentByte(c) }); b != "" {
			fail("spliced as (part of) an identifier in code but may contain " + b)
		}
		sp.Start = !l.inIdent
		if sp.Start {
			if b := bad(d.first, func(c byte) bool { return c >= '0' && c <= '9' }); b != "" {
				fail("starts an identifier in code and may begin with " + b)
			}
			// whole identifier?
			sp.Whole = !hasNext || next == "" || !isIdentByte(next[0])
			if sp.Whole && !d.kwSafe {
				for _, kw := range goKeywords {
					can := d.first[kw[0]]
					for i := 1; i < len(kw) && can; i++ {
						can = d.rest[kw[i]]
					}
					if can {
						fail("is a whole identifier and may spell the Go keyword `" + kw + "`")
						break
					}
				}
			}
		}
		l.inIdent = true
		l.slash = false
		l.tk.word += "\x00" // (part of) a name that depends on the description
	case lmStr:
		if b := bad(union, func(c byte) bool { return c == '"' || c == '\\' || c == '\n' }); b != "" {
			fail("spliced inside an interpreted string literal but may contain " + b)
		}
	case lmRune:
		fail("spliced inside a rune literal")
	case lmRaw:
		if b := bad(union, func(c byte) bool { return c == '`' }); b != "" {
			fail("spliced inside a raw string literal but may contain " + b + " (terminates the literal)")
		}
		if b := bad(union, func(c byte) bool { return c == '\r' }); b != "" {
			fail("spliced inside a raw string literal but may contain " + b + " (carriage returns are dropped by the Go lexer: the value is not preserved)")
		}
		// a struct tag value: `json:"<here>"`
		if strings.HasSuffix(prev, `json:"`) {
			sp.InTag = true
			if b := bad(union, func(c byte) bool { return !isIdentByte(c) }); b != "" {
				fail("spliced as a struct tag key but may contain " + b)
			}
		}
	case lmLineComment:
		if b := bad(union, func(c byte) bool { return c == '\n' }); b != "" {
			fail("spliced inside a line comment but may contain " + b + " (the rest would be emitted as code)")
		}
	}
	if d.flaw != "" {
		fail(d.flaw)
	}
	for _, rp := range d.repl {
		after := l.feedStr(rp)
		if after.m != l.m {
			fail(fmt.Sprintf("replacement %q does not return to %s mode (ends in %s)", rp, lexModeName[l.m], lexModeName[after.m]))
		}
	}
	return l
}

func (a *genWalker) feedExpr(l lexState, e ast.Expr) lexState {
	// an operand that is a call of a string-valued function of the generator which also writes to the output
	// (`g.sendParameters(m)` emits the declaration of `in` and returns "in"): its writes happen when the operand is
	// evaluated, before this text
	if a.evalDepth == 0 {
		ast.Inspect(e, func(n ast.Node) bool {
			c, ok := n.(*ast.CallExpr)
			if !ok {
				return true
			}
			var fd *ast.FuncDecl
			switch f := c.Fun.(type) {
			case *ast.Ident:
				fd = a.funcDeclOf(f)
			case *ast.SelectorExpr:
				fd = a.methodDecl(f)
			}
			if fd == nil || fd.Body == nil || a.valueFns[fd] || !a.returnsString(fd) || !a.hasSideWrites(fd) || a.prewalking[fd] {
				return true
			}
			a.prewalking[fd] = true
			a.flushSeg()
			a.bindParams(fd, c)
			l = a.callFn(fd, l, c)
			a.flushSeg()
			delete(a.prewalking, fd)
			return true
		})
	}
	ps, ok := a.pieces(e)
	if !ok {
		a.problem(e, "expression written to the output buffer could not be classified: "+types.ExprString(e))
		return l
	}
	// adjacent constant pieces of one expression are one fragment (a quote kept in a local such as
	// `q := "\"" + name + "\""` must not split the text it is spliced into)
	var merged []genPiece
	for _, p := range ps {
		isK := func(q genPiece) bool {
			return q.dyn == nil && q.alts == nil && q.group == nil && q.emit == nil && q.oneOf == nil
		}
		if isK(p) && len(merged) > 0 && isK(merged[len(merged)-1]) {
			merged[len(merged)-1].konst += p.konst
			continue
		}
		merged = append(merged, p)
	}
	ps = merged
	for _, p := range ps {
		if a.evalDepth > 0 {
			break
		}
		if a.curSeg == nil {
			a.curSeg = &genFrag{Pos: e.Pos(), Fn: a.curFn, At: l}
		}
		if p.emit != nil {
			continue // the emitting function's own text follows in its own segments
		}
		if p.dyn != nil || p.alts != nil || p.group != nil || p.oneOf != nil {
			a.curSeg.Text += "\x00"
		} else {
			a.curSeg.Text += p.konst
		}
	}
	for i, p := range ps {
		if p.emit != nil {
			a.flushSeg()
			l = a.callFn(p.emit, l, p.emitCall)
			a.flushSeg()
			a.lastConst = ""
			continue
		}
		if p.oneOf != nil {
			// exactly one of several texts: each is fed from here; all must leave the output in the same mode
			var out lexState
			for k, alt := range p.oneOf {
				o := a.feedPieces(l, alt, e)
				if k == 0 {
					out = o
				} else if j, ok := joinLex(out, o); ok {
					out = j
				} else {
					a.problem(e, "the alternative values of a local leave the output in different lexical modes")
				}
			}
			l = out
			a.lastConst = ""
			continue
		}
		if p.group != nil {
			// zero or more elements separated by a constant: every element and the separator must leave the output
			// in the mode it was in (like the body of a loop)
			out := l
			for _, el := range p.group.elems {
				o := a.feedPieces(l, el, e)
				if j, ok := joinLex(out, o); ok {
					out = j
				} else {
					a.problem(e, "a joined list element changes the lexical mode of the output")
				}
			}
			a.Frags = append(a.Frags, genFrag{e.Pos(), a.curFn, p.group.sep, l})
			if j, ok := joinLex(out, l.feedStr(p.group.sep)); ok {
				out = j
			} else {
				a.problem(e, fmt.Sprintf("the separator %q of a joined list changes the lexical mode of the output", p.group.sep))
			}
			l = out
			a.lastConst = ""
			continue
		}
		if p.alts != nil {
			// each alternative is constant text of the template; all must leave the output in the same mode
			var out lexState
			for k, alt := range p.alts {
				a.Frags = append(a.Frags, genFrag{e.Pos(), a.curFn, alt, l})
				o := l.feedStr(alt)
				if k == 0 {
					out = o
				} else if j, ok := joinLex(out, o); ok {
					out = j
				} else {
					a.problem(e, fmt.Sprintf("the entries of a constant table leave the output in different lexical modes (%q)", alt))
				}
			}
			l = out
			a.lastConst = ""
			continue
		}
		if p.dyn != nil {
			prev := a.lastConst
			next, hasNext := "", false
			if i+1 < len(ps) && ps[i+1].dyn == nil {
				next, hasNext = ps[i+1].konst, true
			} else if i+1 < len(ps) {
				next, hasNext = "x", true // followed directly by another splice: not a whole identifier boundary we can see
			}
			l = a.feedDyn(l, p.dyn, e, prev, next, hasNext)
			a.lastConst = ""
		} else {
			a.Frags = append(a.Frags, genFrag{e.Pos(), a.curFn, p.konst, l})
			l = l.feedStr(p.konst)
			a.lastConst = p.konst
		}
	}
	return l
}

// feedPieces feeds already classified pieces (the elements of a joined list).
func (a *genWalker) feedPieces(l lexState, ps []genPiece, e ast.Expr) lexState {
	for i, p := range ps {
		switch {
		case p.emit != nil:
			a.flushSeg()
			l = a.callFn(p.emit, l, p.emitCall)
			a.flushSeg()
		case p.oneOf != nil:
			var out lexState
			// (a value chosen in a branch of the template - `arg := "nil"; if ... { arg = "in" }` - is correlated with
			// what that branch declared: its identifiers are not judged)
			a.altFeed++
			defer func() { a.altFeed-- }()
			for k, alt := range p.oneOf {
				o := a.feedPieces(l, alt, e)
				if k == 0 {
					out = o
				} else if j, ok := joinLex(out, o); ok {
					out = j
				} else {
					a.problem(e, "the alternative values of a local leave the output in different lexical modes")
				}
			}
			{
				// as a token the chosen value is an unknown name
				tk := l.tk
				l = out
				if l.m == lmCode && tk.inFn == out.tk.inFn && tk.efn == out.tk.efn {
					l.tk = tk
					l.tk.word += "\x00"
				}
			}
		case p.group != nil:
			out := l
			for _, el := range p.group.elems {
				o := a.feedPieces(l, el, e)
				if j, ok := joinLex(out, o); ok {
					out = j
				} else {
					a.problem(e, "a joined list element changes the lexical mode of the output")
				}
			}
			a.Frags = append(a.Frags, genFrag{e.Pos(), a.curFn, p.group.sep, l})
			if j, ok := joinLex(out, l.feedStr(p.group.sep)); ok {
				out = j
			} else {
				a.problem(e, fmt.Sprintf("the separator %q of a joined list changes the lexical mode of the output", p.group.sep))
			}
			l = out
		case p.dyn != nil:
			next, hasNext := "", false
			if i+1 < len(ps) && ps[i+1].dyn == nil {
				next, hasNext = ps[i+1].konst, true
			} else {
				next, hasNext = "x", true // followed by the separator or another element: not at the end of the text
			}
			prev := ""
			if i > 0 && ps[i-1].dyn == nil {
				prev = ps[i-1].konst
			}
			l = a.feedDyn(l, p.dyn, e, prev, next, hasNext)
		case p.alts != nil:
			for _, alt := range p.alts {
				a.Frags = append(a.Frags, genFrag{e.Pos(), a.curFn, alt, l})
			}
			{
				// one of several constants (a parameter bound at several call sites, a table value): for the lexical
				// mode any of them will do (they were checked to agree), as a token it is an unknown name
				tk := l.tk
				l = l.feedStr(p.alts[0])
				l.tk = tk
				if l.m == lmCode {
					l.tk.word += "\x00"
				}
			}
		default:
			a.Frags = append(a.Frags, genFrag{e.Pos(), a.curFn, p.konst, l})
			l = l.feedStr(p.konst)
		}
	}
	return l
}

func isBufWrite(call *ast.CallExpr) bool {
	se, ok := call.Fun.(*ast.SelectorExpr)
	return ok && se.Sel.Name == "WriteString"
}

// variadicEmitter: fd's only non-buffer parameter is `s ...string` and its body is `for _, x := range s { <buffer>.WriteString(x) }`.
func variadicEmitter(info *types.Info, fd *ast.FuncDecl) bool {
	if fd.Body == nil || len(fd.Body.List) != 1 || fd.Type.Params == nil || len(fd.Type.Params.List) == 0 {
		return false
	}
	last := fd.Type.Params.List[len(fd.Type.Params.List)-1]
	el, ok := last.Type.(*ast.Ellipsis)
	if !ok || len(last.Names) != 1 || !types.Identical(info.TypeOf(el.Elt), types.Typ[types.String]) {
		return false
	}
	// other parameters may only be the buffer
	for _, f := range fd.Type.Params.List[:len(fd.Type.Params.List)-1] {
		if !isBufferType(info.TypeOf(f.Type)) {
			return false
		}
	}
	rs, ok := fd.Body.List[0].(*ast.RangeStmt)
	if !ok || rs.Value == nil || len(rs.Body.List) != 1 {
		return false
	}
	if id, ok := rs.X.(*ast.Ident); !ok || info.Uses[id] != info.Defs[last.Names[0]] {
		return false
	}
	es, ok := rs.Body.List[0].(*ast.ExprStmt)
	if !ok {
		return false
	}
	call, ok := es.X.(*ast.CallExpr)
	if !ok || !isBufWrite(call) || len(call.Args) != 1 {
		return false
	}
	arg, ok := call.Args[0].(*ast.Ident)
	val, ok2 := rs.Value.(*ast.Ident)
	return ok && ok2 && info.Uses[arg] == info.Defs[val]
}

// recordStateFields: string-typed members of a struct declared in the generator package that are set by a composite
// literal or a member assignment become known values (the variable they are set from may carry the keyword guard).
func (a *genWalker) recordStateFields(lhs, rhs ast.Expr) {
	set := func(fld *types.Var, val ast.Expr) {
		if fld == nil || !fld.IsField() || fld.Pkg() == nil || fld.Pkg().Path() != pkgGen || !types.Identical(fld.Type(), types.Typ[types.String]) {
			return
		}
		a.locals[fld] = a.freeze(val)
		if id, ok := val.(*ast.Ident); ok && a.kwSafe[a.info.Uses[id]] {
			a.kwSafe[fld] = true
		}
	}
	if se, ok := lhs.(*ast.SelectorExpr); ok && lhs != nil {
		if fld, ok := a.info.Uses[se.Sel].(*types.Var); ok {
			set(fld, rhs)
		}
		return
	}
	if u, ok := rhs.(*ast.UnaryExpr); ok && u.Op == token.AND {
		rhs = u.X
	}
	cl, ok := rhs.(*ast.CompositeLit)
	if !ok {
		return
	}
	st, ok := a.info.TypeOf(cl).Underlying().(*types.Struct)
	if !ok {
		return
	}
	for i, el := range cl.Elts {
		if kv, ok := el.(*ast.KeyValueExpr); ok {
			if kid, ok := kv.Key.(*ast.Ident); ok {
				if fld, ok := a.info.Uses[kid].(*types.Var); ok {
					set(fld, kv.Value)
				} else {
					for j := 0; j < st.NumFields(); j++ {
						if st.Field(j).Name() == kid.Name {
							set(st.Field(j), kv.Value)
						}
					}
				}
			}
		} else if i < st.NumFields() {
			set(st.Field(i), el)
		}
	}
}

// formatEmitter: fd forwards (format string, args ...interface{}) to fmt.Fprintf on the buffer; returns the index of
// the format parameter, or -1.
func formatEmitter(info *types.Info, fd *ast.FuncDecl) int {
	if fd.Body == nil || len(fd.Body.List) != 1 || fd.Type.Params == nil || len(fd.Type.Params.List) < 2 {
		return -1
	}
	last := fd.Type.Params.List[len(fd.Type.Params.List)-1]
	if _, ok := last.Type.(*ast.Ellipsis); !ok || len(last.Names) != 1 {
		return -1
	}
	es, ok := fd.Body.List[0].(*ast.ExprStmt)
	if !ok {
		return -1
	}
	c, ok := es.X.(*ast.CallExpr)
	if !ok || !c.Ellipsis.IsValid() || len(c.Args) != 3 {
		return -1
	}
	se, ok := c.Fun.(*ast.SelectorExpr)
	if !ok || se.Sel.Name != "Fprintf" {
		return -1
	}
	if id, ok := se.X.(*ast.Ident); !ok || id.Name != "fmt" {
		return -1
	}
	fid, ok := c.Args[1].(*ast.Ident)
	aid, ok2 := c.Args[2].(*ast.Ident)
	if !ok || !ok2 || info.Uses[aid] != info.Defs[last.Names[0]] {
		return -1
	}
	idx := 0
	for _, f := range fd.Type.Params.List {
		for _, n := range f.Names {
			if info.Defs[n] == info.Uses[fid] {
				return idx
			}
			idx++
		}
	}
	return -1
}

// returnsState: fd's first result is (a pointer to) a struct type declared in the generator package.
func (a *genWalker) returnsState(fd *ast.FuncDecl) bool {
	if fd.Type.Results == nil || len(fd.Type.Results.List) == 0 {
		return false
	}
	t := a.info.TypeOf(fd.Type.Results.List[0].Type)
	if pt, ok := t.(*types.Pointer); ok {
		t = pt.Elem()
	}
	n, ok := t.(*types.Named)
	if !ok || n.Obj().Pkg() == nil || n.Obj().Pkg().Path() != pkgGen {
		return false
	}
	_, isStruct := n.Underlying().(*types.Struct)
	return isStruct
}

// concatArgs: a1 + a2 + ... (what a variadic emitter writes).
func concatArgs(args []ast.Expr) ast.Expr {
	var e ast.Expr
	for _, a := range args {
		if e == nil {
			e = a
		} else {
			e = &ast.BinaryExpr{X: e, Op: token.ADD, Y: a, OpPos: a.Pos()}
		}
	}
	return e
}

// variadicCount: how many of the call's arguments belong to the variadic parameter.
func variadicCount(fd *ast.FuncDecl, call *ast.CallExpr) int {
	fixed := 0
	for _, f := range fd.Type.Params.List[:len(fd.Type.Params.List)-1] {
		fixed += len(f.Names)
	}
	if n := len(call.Args) - fixed; n > 0 {
		return n
	}
	return 0
}

// isBufferType: *bytes.Buffer / *strings.Builder (or the values).
func isBufferType(t types.Type) bool {
	if pt, ok := t.(*types.Pointer); ok {
		t = pt.Elem()
	}
	return isNamed(t, "bytes", "Buffer") || isNamed(t, "strings", "Builder")
}

// branch walks the body of a branch or loop: its text is a segment of its own.
func (a *genWalker) branch(list []ast.Stmt, l lexState, rets *[]lexState) (lexState, bool) {
	a.flushSeg()
	defer a.flushSeg()
	genCtlDepth++
	defer func() { genCtlDepth-- }()
	return a.stmts(list, l, rets)
}

func (a *genWalker) stmts(list []ast.Stmt, l lexState, rets *[]lexState) (lexState, bool) {
	for _, s := range list {
		var dead bool
		l, dead = a.stmt(s, l, rets)
		if dead {
			return l, true
		}
	}
	return l, false
}

// only the mode (and a pending escape) must agree at joins; the auxiliary flags are joined as may-facts
func joinLex(x, y lexState) (lexState, bool) {
	if x.m != y.m || x.esc != y.esc {
		return x, false
	}
	if x.par != y.par || x.brk != y.brk || x.brc != y.brc {
		return x, false // the ways into this point have emitted different numbers of ( [ { ) ] }
	}
	x.inIdent = x.inIdent || y.inIdent
	x.slash = x.slash || y.slash
	x.tk = joinTok(x.tk, y.tk)
	return x, true
}

// joinTok: what is known on both ways.
func joinTok(x, y tokState) tokState {
	if x == y {
		return x
	}
	out := x
	if x.efn != y.efn || x.inFn != y.inFn || x.hdr != y.hdr {
		if os.Getenv("VLDEBUG") == "g10" {
			fmt.Fprintf(os.Stderr, "G10 join reset: %q/%v/%v vs %q/%v/%v\n", x.efn, x.inFn, x.hdr, y.efn, y.inFn, y.hdr)
		}
		return tokState{}
	}
	if x.word != y.word || x.pend != y.pend || x.pendOpen != y.pendOpen || x.colon != y.colon {
		out.word, out.pend, out.pendOpen, out.colon = "", "", false, false
	}
	if x.prev != y.prev {
		out.prev = "?"
	}
	// declared on both ways
	d := ""
	for _, id := range strings.Split(x.decl, ",") {
		if id != "" && y.has(id) {
			if d == "" {
				d = ","
			}
			d += id + ","
		}
	}
	out.decl = d
	out.dynDecl = x.dynDecl || y.dynDecl
	mb := x.maybe
	if mb == "" {
		mb = y.maybe
	} else if y.maybe != "" && y.maybe != x.maybe {
		mb = x.maybe + strings.TrimPrefix(y.maybe, ",")
	}
	for _, pr := range [][2]tokState{{x, y}, {y, x}} {
		for _, id := range strings.Split(pr[0].decl, ",") {
			if id != "" && !pr[1].has(id) {
				if _, seen := (tokState{maybe: mb}).maybeDepth(id); !seen {
					if mb == "" {
						mb = ","
					}
					mb += fmt.Sprintf("%s@%d,", id, genCtlDepth)
				}
			}
		}
	}
	out.maybe = mb
	return out
}

func (a *genWalker) flushSeg() {
	if a.evalDepth > 0 {
		return // evaluating a string-valued helper emits nothing
	}
	if a.curSeg != nil && a.curSeg.Text != "" {
		a.Segs = append(a.Segs, *a.curSeg)
	}
	if a.curSeg != nil {
		a.nFlush++
	}
	a.curSeg = nil
}

func (a *genWalker) stmt(s ast.Stmt, l lexState, rets *[]lexState) (lexState, bool) {
	// `for i := 0; i < n; i++ { buf.WriteString("\t") }`: zero or more copies of a constant (indentation), like
	// strings.Repeat - part of the surrounding text, not a new stretch of the template
	if fs, ok := s.(*ast.ForStmt); ok && fs.Body != nil && len(fs.Body.List) == 1 {
		if es, ok := fs.Body.List[0].(*ast.ExprStmt); ok {
			if call, ok := es.X.(*ast.CallExpr); ok && isBufWrite(call) && len(call.Args) == 1 {
				if tv, ok := a.info.Types[call.Args[0]]; ok && tv.Value != nil && tv.Value.Kind() == constant.String {
					k := constant.StringVal(tv.Value)
					if _, isInc := fs.Post.(*ast.IncDecStmt); isInc && fs.Cond != nil && k != "" {
						var f, r genCharset
						for i := 0; i < len(k); i++ {
							r[k[i]] = true
						}
						f[k[0]] = true
						d := &genDyn{what: fmt.Sprintf("Repeat(%q)", k), first: &f, rest: &r, repeat: k}
						if a.evalDepth == 0 {
							if a.curSeg == nil {
								a.curSeg = &genFrag{Pos: s.Pos(), Fn: a.curFn, At: l}
							}
							a.curSeg.Text += "\x00"
						}
						l = a.feedDyn(l, d, s, a.lastConst, "x", true)
						a.lastConst = ""
						return l, false
					}
				}
			}
		}
	}
	unrolled := false
	if rs, ok := s.(*ast.RangeStmt); ok {
		if id, ok := rs.X.(*ast.Ident); ok && a.boundLists[a.info.Uses[id]] {
			unrolled = true // straight-line text of the call being walked, not a loop of the template
		}
	}
	switch s.(type) {
	case *ast.IfStmt, *ast.SwitchStmt, *ast.RangeStmt, *ast.ForStmt, *ast.ReturnStmt, *ast.TypeSwitchStmt:
		if !unrolled {
			a.flushSeg()
			defer a.flushSeg()
		}
	}
	if es, ok := s.(*ast.ExprStmt); ok && a.evalDepth == 0 {
		// the text this statement emits (constant text, \x00 per splice), for rules that ask what is written right
		// before / after a given statement
		before, flushes := 0, a.nFlush
		if a.curSeg != nil {
			before = len(a.curSeg.Text)
		}
		defer func() {
			if a.nFlush == flushes && a.curSeg != nil && len(a.curSeg.Text) >= before {
				a.StmtText[es] = a.curSeg.Text[before:]
			}
		}()
	}
	switch x := s.(type) {
	case *ast.ExprStmt:
		if call, ok := x.X.(*ast.CallExpr); ok {
			if isBufWrite(call) {
				return a.feedExpr(l, call.Args[0]), false
			}
			// fmt.Fprintf(&b, "format", args...): the format's constant text with its %s / %d verbs as splices
			if se, ok := call.Fun.(*ast.SelectorExpr); ok && se.Sel.Name == "Fprintf" && len(call.Args) >= 2 {
				if id, ok := se.X.(*ast.Ident); ok && id.Name == "fmt" {
					if e, ok := a.formatExpr(call.Args[1], call.Args[2:]); ok {
						return a.feedExpr(l, e), false
					}
					a.problem(call, "fmt.Fprintf to the output buffer with a format that could not be classified: "+types.ExprString(call))
					return l, false
				}
			}
			if _, ok := call.Fun.(*ast.Ident); ok {
				if fd := a.funcDeclOf(call.Fun); fd != nil && fd.Body != nil {
					if variadicEmitter(a.info, fd) && !call.Ellipsis.IsValid() {
						if e := concatArgs(call.Args[len(call.Args)-variadicCount(fd, call):]); e != nil {
							l = a.feedExpr(l, e)
						}
						return l, false
					}
					// `func (g *gen) pf(format string, args ...interface{}) { fmt.Fprintf(&g.out, format, args...) }`
					if fi := formatEmitter(a.info, fd); fi >= 0 && !call.Ellipsis.IsValid() && fi < len(call.Args) {
						if e, ok := a.formatExpr(call.Args[fi], call.Args[fi+1:]); ok {
							return a.feedExpr(l, e), false
						}
						a.problem(call, "formatted write to the output buffer with a format that could not be classified: "+types.ExprString(call))
						return l, false
					}
					a.bindParams(fd, call)
					return a.callFn(fd, l, call), false
				}
			}
			// a method declared in the generator on its output type (`func (o *out) line(s string)`)
			if se, ok := call.Fun.(*ast.SelectorExpr); ok {
				if fd := a.methodDecl(se); fd != nil {
					// `func (g *gen) p(s ...string) { for _, x := range s { g.out.WriteString(x) } }`: writes its
					// arguments in order
					if variadicEmitter(a.info, fd) && !call.Ellipsis.IsValid() {
						if e := concatArgs(call.Args[len(call.Args)-variadicCount(fd, call):]); e != nil {
							l = a.feedExpr(l, e)
						}
						return l, false
					}
					// the argument list of the caller handed on (`e.p(parts...)`): written as one text
					if variadicEmitter(a.info, fd) && call.Ellipsis.IsValid() && len(call.Args) > 0 {
						if id, ok := call.Args[len(call.Args)-1].(*ast.Ident); ok && a.boundLists[a.info.Uses[id]] {
							if e := concatArgs(a.sliceElems[a.info.Uses[id]]); e != nil {
								l = a.feedExpr(l, e)
							}
							return l, false
						}
					}
					// `func (g *gen) pf(format string, args ...interface{}) { fmt.Fprintf(&g.out, format, args...) }`
					if fi := formatEmitter(a.info, fd); fi >= 0 && !call.Ellipsis.IsValid() && fi < len(call.Args) {
						if e, ok := a.formatExpr(call.Args[fi], call.Args[fi+1:]); ok {
							return a.feedExpr(l, e), false
						}
						a.problem(call, "formatted write to the output buffer with a format that could not be classified: "+types.ExprString(call))
						return l, false
					}
					a.bindParams(fd, call)
					return a.callFn(fd, l, call), false
				}
			}
		}
	case *ast.AssignStmt:
		// name := func(...) {...}: a function of the generator kept in a local
		if len(x.Lhs) == 1 && len(x.Rhs) == 1 && x.Tok == token.DEFINE {
			if lit, ok := x.Rhs[0].(*ast.FuncLit); ok {
				if id, ok := x.Lhs[0].(*ast.Ident); ok {
					if obj := a.info.Defs[id]; obj != nil {
						if _, seen := a.closures[obj]; !seen {
							a.closures[obj] = &ast.FuncDecl{Name: id, Type: lit.Type, Body: lit.Body}
						}
						return l, false
					}
				}
			}
		}
		if len(x.Rhs) == 1 {
			// g, err := newGenerator(...): the constructor of the generator's state is walked (without emitting) for the
			// values it gives the state's string members
			if c, ok := x.Rhs[0].(*ast.CallExpr); ok {
				if fid, ok := c.Fun.(*ast.Ident); ok {
					if fd := a.funcs[fid.Name]; fd != nil && fd.Body != nil && a.returnsState(fd) && a.evalDepth < 3 {
						a.bindParams(fd, c)
						save := a.curFn
						a.evalDepth++
						a.curFn = fd.Name.Name
						var rr []lexState
						saveRet, saveRetFn := a.retExprs, a.retFn
						a.stmts(fd.Body.List, lexState{}, &rr)
						a.retExprs, a.retFn = saveRet, saveRetFn
						a.evalDepth--
						a.curFn = save
					}
				}
			}
		}
		if len(x.Lhs) == 2 && len(x.Rhs) == 1 {
			// name, ok := table[key]
			if ix, ok := x.Rhs[0].(*ast.IndexExpr); ok {
				if id, ok := x.Lhs[0].(*ast.Ident); ok {
					if obj := a.info.Defs[id]; obj != nil && types.Identical(obj.Type(), types.Typ[types.String]) {
						a.locals[obj] = ix
					}
				}
			}
			// name, ok := tableFunc(key)
			if c, ok := x.Rhs[0].(*ast.CallExpr); ok {
				if fid, ok := c.Fun.(*ast.Ident); ok {
					if _, _, isT := a.tableFunc(a.funcs[fid.Name]); isT {
						if id, ok := x.Lhs[0].(*ast.Ident); ok {
							if obj := a.info.Defs[id]; obj != nil {
								a.locals[obj] = c
							}
						}
					}
				}
			}
		}
		// list = append(list, elem) on a local []string
		if len(x.Lhs) == 1 && len(x.Rhs) == 1 {
			if c, ok := x.Rhs[0].(*ast.CallExpr); ok && len(c.Args) >= 2 && !c.Ellipsis.IsValid() {
				if fid, ok := c.Fun.(*ast.Ident); ok && fid.Name == "append" {
					if id, ok := x.Lhs[0].(*ast.Ident); ok {
						if obj := a.info.Uses[id]; obj != nil {
							if st, ok := obj.Type().Underlying().(*types.Slice); ok && types.Identical(st.Elem(), types.Typ[types.String]) {
								for _, el := range c.Args[1:] {
									a.sliceElems[obj] = append(a.sliceElems[obj], a.freeze(el))
								}
							}
						}
					}
				}
			}
		}
		if len(x.Lhs) == 1 && len(x.Rhs) == 1 {
			// g := &generator{pkg: pkgname, ...} / g.pkg = pkgname: string members of the generator's state are
			// values like locals (keyed by the field object)
			a.recordStateFields(x.Lhs[0], x.Rhs[0])
			if id, ok := x.Lhs[0].(*ast.Ident); ok {
				obj := a.info.Defs[id]
				if obj == nil {
					obj = a.info.Uses[id]
				}
				if obj != nil && types.Identical(obj.Type(), types.Typ[types.String]) {
					if x.Tok == token.ADD_ASSIGN {
						if old, ok := a.locals[obj]; ok {
							a.locals[obj] = &ast.BinaryExpr{X: old, Op: token.ADD, Y: x.Rhs[0]}
						}
					} else {
						// v = f(v): the occurrences of v on the right denote the previous value
						old, had := a.locals[obj]
						if !had {
							orig := &ast.Ident{Name: id.Name, NamePos: id.NamePos}
							if a.origIdent == nil {
								a.origIdent = map[*ast.Ident]types.Object{}
							}
							a.origIdent[orig] = obj
							old = orig
						}
						a.locals[obj] = a.substIdent(x.Rhs[0], obj, old)
					}
				}
			}
		}
	case *ast.BlockStmt:
		return a.stmts(x.List, l, rets)
	case *ast.IfStmt:
		// keyword guard: if token.Lookup(v).IsKeyword() { v += "_" }
		if obj := keywordGuard(a.info, x); obj != nil {
			a.kwSafe[obj] = true
			if _, isRet := x.Body.List[0].(*ast.ReturnStmt); isRet {
				// the guarded return is one of the helper's results
				a.stmts(x.Body.List, l, rets)
			}
			return l, false
		}
		if x.Init != nil {
			a.stmt(x.Init, l, rets)
		}
		before := map[types.Object]ast.Expr{}
		for k, v := range a.locals {
			before[k] = v
		}
		thenL, thenDead := a.branch(x.Body.List, l, rets)
		afterThen := map[types.Object]ast.Expr{}
		for k, v := range a.locals {
			afterThen[k] = v
		}
		elseL, elseDead := l, false
		if x.Else != nil {
			// the else branch starts from what held before the if
			for k := range a.locals {
				if _, had := before[k]; !had {
					delete(a.locals, k)
				}
			}
			for k, v := range before {
				a.locals[k] = v
			}
			a.flushSeg()
			elseL, elseDead = a.stmt(x.Else, l, rets)
			a.flushSeg()
		}
		// a string local that the two ways through the statement leave with different values is one of them
		if !thenDead {
			for k, vThen := range afterThen {
				vElse, hadElse := a.locals[k]
				if _, isStr := k.Type().Underlying().(*types.Basic); !isStr || !types.Identical(k.Type().Underlying(), types.Typ[types.String]) {
					continue
				}
				if _, known := before[k]; !known {
					continue // declared inside the branch
				}
				switch {
				case elseDead:
					a.locals[k] = vThen
				case hadElse && vElse != vThen:
					a.locals[k] = a.altExpr(vThen, vElse)
				}
			}
		}
		switch {
		case thenDead && elseDead:
			return l, true
		case thenDead:
			return elseL, false
		case elseDead:
			return thenL, false
		}
		// what only the `len(X) > 0` branch declares in the emitted function is declared wherever the template later
		// ranges over X (the loop body runs only for a non-empty X)
		if lx := lenPositive(x.Cond); lx != nil && thenL.tk.efn == elseL.tk.efn && thenL.tk.inFn {
			key := thenL.tk.efn + "|" + types.ExprString(lx)
			for _, id := range strings.Split(thenL.tk.decl, ",") {
				if id != "" && !elseL.tk.has(id) {
					if a.condDecl == nil {
						a.condDecl = map[string][]string{}
					}
					a.condDecl[key] = append(a.condDecl[key], id)
				}
			}
		}
		j, ok := joinLex(thenL, elseL)
		if !ok {
			a.problem(x, fmt.Sprintf("branches leave the output in different lexical modes or at different nesting depths (%s vs %s): an unbalanced quote, parenthesis or brace in the template", thenL.desc(), elseL.desc()))
		}
		return j, false
	case *ast.SwitchStmt:
		var outs []lexState
		hasDefault := false
		saveSw := a.inSwitch
		a.inSwitch = true
		defer func() { a.inSwitch = saveSw }()
		for _, c := range x.Body.List {
			cc := c.(*ast.CaseClause)
			if cc.List == nil {
				hasDefault = true
			}
			o, dead := a.branch(cc.Body, l, rets)
			if !dead {
				outs = append(outs, o)
			}
		}
		if !hasDefault {
			outs = append(outs, l)
		}
		if len(outs) == 0 {
			return l, true
		}
		j := outs[0]
		for _, o := range outs[1:] {
			var ok bool
			if j, ok = joinLex(j, o); !ok {
				a.problem(x, "switch arms leave the output in different lexical modes or at different nesting depths")
			}
		}
		return j, false
	case *ast.RangeStmt:
		// a range over the (bound) variadic parameter: the body once per argument, in order
		if id, ok := x.X.(*ast.Ident); ok && a.boundLists[a.info.Uses[id]] {
			if vid, ok := x.Value.(*ast.Ident); ok {
				vobj := a.info.Defs[vid]
				old, had := a.locals[vobj]
				for _, el := range a.sliceElems[a.info.Uses[id]] {
					a.locals[vobj] = el
					var dead bool
					l, dead = a.stmts(x.Body.List, l, rets)
					if dead {
						break
					}
				}
				if had {
					a.locals[vobj] = old
				} else {
					delete(a.locals, vobj)
				}
				return l, false
			}
		}
		lb := l
		for _, id := range a.condDecl[l.tk.efn+"|"+types.ExprString(x.X)] {
			lb.tk = lb.tk.declare(id)
		}
		return a.loop(x, x.Body.List, l, lb, rets), false
	case *ast.ForStmt:
		return a.loop(x, x.Body.List, l, l, rets), false
	case *ast.BranchStmt:
		// continue / break of a template loop: this way through the body ends here; its state meets the others at the
		// end of the body (continue) or behind the loop (break)
		if n := len(a.loopExits); n > 0 && x.Label == nil {
			switch x.Tok {
			case token.CONTINUE:
				a.loopExits[n-1].conts = append(a.loopExits[n-1].conts, l)
				return l, true
			case token.BREAK:
				if !a.inSwitch {
					a.loopExits[n-1].breaks = append(a.loopExits[n-1].breaks, l)
					return l, true
				}
			}
		}
	case *ast.ReturnStmt:
		for _, res := range x.Results {
			a.recordStateFields(nil, res) // `return &generator{pkg: name, ...}` of a constructor
		}
		if a.evalDepth > 0 && len(x.Results) >= 1 {
			a.retExprs = append(a.retExprs, x.Results[0])
			a.retFn = append(a.retFn, a.curFn)
		}
		if a.evalDepth == 0 && a.curDecl != nil && a.valueFns[a.curDecl] && len(x.Results) == 1 {
			// the function's text: what it wrote to its local builder so far (already fed), or this result
			if !a.isLocalBuilderResult(x.Results[0]) {
				l = a.feedExpr(l, x.Results[0])
				a.flushSeg()
			}
		}
		*rets = append(*rets, l)
		return l, true
	}
	return l, false
}

// bindParams: the string parameters of a helper are classified by what its call sites pass (union over the call sites
// seen during the walk; the walk is repeated until no class grows).
func (a *genWalker) bindParams(fd *ast.FuncDecl, call *ast.CallExpr) {
	if fd.Type.Params == nil {
		return
	}
	idx := 0
	for _, fld := range fd.Type.Params.List {
		for _, pn := range fld.Names {
			if types.Identical(a.info.TypeOf(fld.Type), types.Typ[types.String]) && idx < len(call.Args) {
				key := "param:" + fd.Name.Name + "." + pn.Name
				var d *genDyn
				ps, ok := a.pieces(call.Args[idx])
				switch {
				case ok && len(ps) == 1 && ps[0].dyn != nil:
					c := *ps[0].dyn
					c.first, c.rest = c.first.copy(), c.rest.copy()
					c.what = "argument of " + fd.Name.Name + " (" + c.what + ", …)"
					d = &c
				case ok && len(ps) == 1 && ps[0].dyn == nil:
					// a constant
					var f, r genCharset
					k := ps[0].konst
					if k != "" {
						f[k[0]] = true
						for i := 1; i < len(k); i++ {
							r[k[i]] = true
						}
					}
					d = &genDyn{what: "argument of " + fd.Name.Name + fmt.Sprintf(" (constant %q, …)", k), first: &f, rest: &r}
				default:
					d = &genDyn{what: "argument of " + fd.Name.Name + " (unclassified)", first: gcsAny(), rest: gcsAny()}
				}
				d.raw = false
				if old, seen := a.classes[key]; !seen {
					a.classes[key] = d
					a.changed = true
				} else {
					for i := range old.first {
						if d.first[i] && !old.first[i] {
							old.first[i] = true
							a.changed = true
						}
						if d.rest[i] && !old.rest[i] {
							old.rest[i] = true
							a.changed = true
						}
					}
					if old.kwSafe && !d.kwSafe {
						old.kwSafe = false
						a.changed = true
					}
				}
			}
			idx++
		}
	}
}

// evalStringFunc: the pieces of the string a helper function returns for the given call, if the helper has one return
// statement with a classifiable result (its body is walked for the assignments to its locals; nothing is emitted).
func (a *genWalker) evalStringFunc(fd *ast.FuncDecl, call *ast.CallExpr) ([]genPiece, bool) {
	if a.evalDepth > 3 || fd.Body == nil {
		return nil, false
	}
	a.bindParams(fd, call)
	// for this evaluation the string parameters stand for the argument expressions of this call (so that
	// `qualified(e.Name)` is <interface name> + "." + <this error's name>, not a name of unknown kind)
	type bound struct {
		obj   types.Object
		old   ast.Expr
		had   bool
		oldKw bool
	}
	var bs []bound
	if fd.Type.Params != nil && !call.Ellipsis.IsValid() {
		idx := 0
		for _, fld := range fd.Type.Params.List {
			for _, pn := range fld.Names {
				_, isFn := a.info.TypeOf(fld.Type).Underlying().(*types.Signature)
				if (types.Identical(a.info.TypeOf(fld.Type), types.Typ[types.String]) || isFn) && idx < len(call.Args) {
					if obj := a.info.Defs[pn]; obj != nil {
						old, had := a.locals[obj]
						bs = append(bs, bound{obj, old, had, a.kwSafe[obj]})
						a.locals[obj] = a.freeze(call.Args[idx])
					}
				}
				idx++
			}
		}
	}
	defer func() {
		for _, b := range bs {
			if b.had {
				a.locals[b.obj] = b.old
			} else {
				delete(a.locals, b.obj)
			}
			a.kwSafe[b.obj] = b.oldKw
		}
	}()
	saveFn, saveRet, saveRetFn := a.curFn, a.retExprs, a.retFn
	nSpl, nPrb, nFrag := len(a.Splices), len(a.Problems), len(a.Frags)
	a.evalDepth++
	a.curFn = fd.Name.Name
	a.retExprs, a.retFn = nil, nil
	var rets []lexState
	a.stmts(fd.Body.List, lexState{}, &rets)
	res := a.retExprs
	var out []genPiece
	ok := len(res) >= 1
	if len(res) == 1 {
		out, ok = a.pieces(res[0])
	} else if ok && func() bool {
		// several returns, each a constant: the result is one of them
		var ks []string
		for _, e := range res {
			ps, ok1 := a.pieces(e)
			if !ok1 || len(ps) != 1 || ps[0].dyn != nil || ps[0].alts != nil || ps[0].group != nil || ps[0].emit != nil || ps[0].oneOf != nil {
				return false
			}
			ks = append(ks, ps[0].konst)
		}
		out = []genPiece{{alts: ks}}
		return true
	}() {
	} else if ok {
		// several returns: each `<one dynamic piece> [+ constant suffix]`; the result is their union
		var u *genDyn
		for _, e := range res {
			ps, ok1 := a.pieces(e)
			if !ok1 || len(ps) == 0 || len(ps) > 2 || ps[0].dyn == nil || (len(ps) == 2 && ps[1].dyn != nil) {
				ok = false
				break
			}
			d := *ps[0].dyn
			d.first, d.rest = d.first.copy(), d.rest.copy()
			if len(ps) == 2 {
				for i := 0; i < len(ps[1].konst); i++ {
					d.rest[ps[1].konst[i]] = true
				}
				d.what += fmt.Sprintf("+%q", ps[1].konst)
			}
			if u == nil {
				u = &d
				continue
			}
			for i := range u.first {
				u.first[i] = u.first[i] || d.first[i]
				u.rest[i] = u.rest[i] || d.rest[i]
			}
			u.kwSafe = u.kwSafe && d.kwSafe
			u.raw = false
		}
		if ok {
			u.what = "result of " + fd.Name.Name + " (" + u.what + ", …)"
			out = []genPiece{{dyn: u}}
		}
	}
	a.evalDepth--
	a.curFn, a.retExprs, a.retFn = saveFn, saveRet, saveRetFn
	a.Splices, a.Problems, a.Frags = a.Splices[:nSpl], a.Problems[:nPrb], a.Frags[:nFrag]
	return out, ok
}

// keywordGuard recognises `if token.Lookup(v).IsKeyword() { v += <non-empty identifier constant> }`.
func keywordGuard(info *types.Info, x *ast.IfStmt) types.Object {
	call, ok := x.Cond.(*ast.CallExpr)
	if !ok {
		return nil
	}
	se, ok := call.Fun.(*ast.SelectorExpr)
	if !ok || se.Sel.Name != "IsKeyword" {
		return nil
	}
	inner, ok := se.X.(*ast.CallExpr)
	if !ok || len(inner.Args) != 1 {
		return nil
	}
	f, ok := inner.Fun.(*ast.SelectorExpr)
	if !ok || f.Sel.Name != "Lookup" {
		return nil
	}
	if pk, ok := f.X.(*ast.Ident); !ok || pk.Name != "token" {
		return nil
	}
	id, ok := inner.Args[0].(*ast.Ident)
	if !ok || x.Else != nil || len(x.Body.List) != 1 {
		return nil
	}
	var sfx ast.Expr
	switch st := x.Body.List[0].(type) {
	case *ast.AssignStmt:
		// v += "<suffix>"
		if st.Tok != token.ADD_ASSIGN || len(st.Lhs) != 1 {
			return nil
		}
		lid, ok := st.Lhs[0].(*ast.Ident)
		if !ok || info.Uses[lid] != info.Uses[id] {
			return nil
		}
		sfx = st.Rhs[0]
	case *ast.ReturnStmt:
		// return v + "<suffix>"  (in a helper that otherwise returns v)
		if len(st.Results) != 1 {
			return nil
		}
		be, ok := st.Results[0].(*ast.BinaryExpr)
		if !ok || be.Op != token.ADD {
			return nil
		}
		lid, ok := be.X.(*ast.Ident)
		if !ok || info.Uses[lid] != info.Uses[id] {
			return nil
		}
		sfx = be.Y
	default:
		return nil
	}
	tv, ok := info.Types[sfx]
	if !ok || tv.Value == nil || tv.Value.Kind() != constant.String {
		return nil
	}
	suffix := constant.StringVal(tv.Value)
	if suffix == "" {
		return nil
	}
	for i := 0; i < len(suffix); i++ {
		if !isIdentByte(suffix[i]) {
			return nil
		}
	}
	// no Go keyword plus this suffix is a keyword again
	return info.Uses[id]
}

func (a *genWalker) callFn(fd *ast.FuncDecl, l lexState, at ast.Node) lexState {
	// a function with string parameters is walked for this call with the parameters standing for the argument
	// expressions (so `o.line("func f() {")` emits exactly that text); others are summarised per entry mode
	if call, ok := at.(*ast.CallExpr); ok && a.inlineDepth < 8 && fd.Type.Params != nil {
		type bound struct {
			obj types.Object
			e   ast.Expr
		}
		var bs []bound
		idx := 0
		// a variadic string parameter stands for the list of the remaining arguments (or for the list the caller
		// forwards with `parts...`)
		var listObj types.Object
		var listElems []ast.Expr
		hadList := false
		var oldList []ast.Expr
		for _, fld := range fd.Type.Params.List {
			for _, pn := range fld.Names {
				if el, isVar := fld.Type.(*ast.Ellipsis); isVar && types.Identical(a.info.TypeOf(el.Elt), types.Typ[types.String]) {
					if obj := a.info.Defs[pn]; obj != nil {
						switch {
						case !call.Ellipsis.IsValid():
							listObj = obj
							if idx <= len(call.Args) {
								for _, arg := range call.Args[idx:] {
									listElems = append(listElems, a.freeze(arg))
								}
							}
						case idx == len(call.Args)-1:
							if id, ok := call.Args[idx].(*ast.Ident); ok {
								if els, known := a.sliceElems[a.info.Uses[id]]; known {
									listObj, listElems = obj, els
								}
							}
						}
					}
					idx++
					continue
				}
				_, isFn := a.info.TypeOf(fld.Type).Underlying().(*types.Signature)
				if (types.Identical(a.info.TypeOf(fld.Type), types.Typ[types.String]) || isFn) && idx < len(call.Args) {
					if obj := a.info.Defs[pn]; obj != nil {
						bs = append(bs, bound{obj, call.Args[idx]})
					}
				}
				idx++
			}
		}
		if listObj != nil {
			oldList, hadList = a.sliceElems[listObj]
			a.sliceElems[listObj] = listElems
			a.boundLists[listObj] = true
			defer func() {
				if hadList {
					a.sliceElems[listObj] = oldList
				} else {
					delete(a.sliceElems, listObj)
					delete(a.boundLists, listObj)
				}
			}()
		}
		if len(bs) > 0 || listObj != nil {
			saved := map[types.Object]ast.Expr{}
			had := map[types.Object]bool{}
			for _, b := range bs {
				if old, ok := a.locals[b.obj]; ok {
					saved[b.obj], had[b.obj] = old, true
				}
				// the argument is evaluated in the caller: freeze what its identifiers mean now
				a.locals[b.obj] = a.freeze(b.e)
			}
			save, saveDecl := a.curFn, a.curDecl
			a.curFn, a.curDecl = fd.Name.Name, fd
			a.inlineDepth++
			var rets []lexState
			out, dead := a.stmts(fd.Body.List, l, &rets)
			a.inlineDepth--
			a.curFn, a.curDecl = save, saveDecl
			for _, b := range bs {
				if had[b.obj] {
					a.locals[b.obj] = saved[b.obj]
				} else {
					delete(a.locals, b.obj)
				}
			}
			if !dead {
				rets = append(rets, out)
			}
			if len(rets) == 0 {
				return l
			}
			j := rets[0]
			for _, r := range rets[1:] {
				var ok bool
				if j, ok = joinLex(j, r); !ok {
					a.problem(fd, fd.Name.Name+" returns with the output in different lexical modes or at different nesting depths")
				}
			}
			return j
		}
	}
	key := fmt.Sprintf("%s|%v|%v", fd.Name.Name, l.m, l.esc)
	// (the memo answers recursive calls - the type writer calling itself - and calls made while a value is evaluated;
	// a helper called again from the template is walked again, so that the text it writes is seen at every call)
	if out, ok := a.memo[key]; ok && (a.onStack[fd] > 0 || a.evalDepth > 0) {
		// (the memo holds the nesting relative to the entry state)
		out.par, out.brk, out.brc = out.par+l.par, out.brk+l.brk, out.brc+l.brc
		out.tk = l.tk // (the token context is the caller's: the helper's text - a type expression - was cut into tokens when it was first walked)
		out.tk.word = ""
		return out
	}
	{
		z := l
		z.par, z.brk, z.brc = 0, 0, 0
		a.memo[key] = z // coinductive assumption for recursion: returns in the entry mode and at the entry depth (validated below)
	}
	save, saveDecl := a.curFn, a.curDecl
	a.curFn, a.curDecl = fd.Name.Name, fd
	if a.onStack == nil {
		a.onStack = map[*ast.FuncDecl]int{}
	}
	a.onStack[fd]++
	var rets []lexState
	out, dead := a.stmts(fd.Body.List, l, &rets)
	a.onStack[fd]--
	a.curFn, a.curDecl = save, saveDecl
	if !dead {
		rets = append(rets, out)
	}
	if len(rets) == 0 {
		return l
	}
	j := rets[0]
	for _, r := range rets[1:] {
		var ok bool
		if j, ok = joinLex(j, r); !ok {
			a.problem(fd, fd.Name.Name+" returns with the output in different lexical modes or at different nesting depths")
		}
	}
	if j.m != l.m {
		// exit mode differs from the assumption used for recursive calls
		a.problem(fd, fd.Name.Name+" does not preserve the lexical mode of the output ("+lexModeName[l.m]+" -> "+lexModeName[j.m]+")")
	}
	{
		rel := j
		rel.par, rel.brk, rel.brc = j.par-l.par, j.brk-l.brk, j.brc-l.brc
		a.memo[key] = rel
	}
	return j
}

// RunGenWalker analyses the generator starting at function `root`.
func RunGenWalker(p *Prog, m *idlModel, root string) (*genWalker, lexState, string) {
	pk := p.Pkgs[pkgGen]
	if pk == nil {
		return nil, lexState{}, "generator package not loaded"
	}
	a := &genWalker{p: p, info: pk.TypesInfo, fset: p.Fset, funcs: map[string]*ast.FuncDecl{}, classes: idlFieldClasses(m),
		locals: map[types.Object]ast.Expr{}, kwSafe: map[types.Object]bool{}, memo: map[string]lexState{}, curFn: root}
	a.methods, a.synthConst = map[string]*ast.FuncDecl{}, map[ast.Expr]string{}
	a.closures, a.litDecls, a.valueFns, a.synthAlt = map[types.Object]*ast.FuncDecl{}, map[*ast.FuncLit]*ast.FuncDecl{}, map[*ast.FuncDecl]bool{}, map[ast.Expr][]ast.Expr{}
	a.boundLists, a.prewalking = map[types.Object]bool{}, map[*ast.FuncDecl]bool{}
	for _, f := range pk.Syntax {
		for _, d := range f.Decls {
			if fd, ok := d.(*ast.FuncDecl); ok && fd.Recv == nil {
				a.funcs[fd.Name.Name] = fd
			} else if ok && fd.Body != nil {
				a.methods[fd.Name.Name] = fd
			}
		}
	}
	gt := a.funcs[root]
	if gt == nil {
		return nil, lexState{}, "function " + root + " not found in the generator"
	}
	// (string parameters of helper functions are classified during the walk by what their call sites pass: bindParams)
	var end lexState
	for iter := 0; iter < 6; iter++ {
		a.changed = false
		a.Splices, a.Frags, a.Problems, a.Segs, a.curSeg = nil, nil, nil, nil, nil
		a.StmtText = map[*ast.ExprStmt]string{}
		a.locals, a.kwSafe, a.memo = map[types.Object]ast.Expr{}, map[types.Object]bool{}, map[string]lexState{}
		a.sliceElems = map[types.Object][]ast.Expr{}
		a.curFn, a.lastConst = root, ""
		a.UndeclUses = map[string]map[string]bool{}
		a.condDecl = nil
		genCtlDepth = 0
		genUseSink = func(fn, ident, kind string) {
			if a.evalDepth > 0 || a.altFeed > 0 {
				return
			}
			if a.UndeclUses[fn] == nil {
				a.UndeclUses[fn] = map[string]bool{}
			}
			a.UndeclUses[fn][ident+"|"+kind] = true
		}
		var rets []lexState
		end, _ = a.stmts(gt.Body.List, lexState{}, &rets)
		genUseSink = nil
		if !a.changed {
			break
		}
	}
	if a.changed {
		a.problem(gt, "the classes of helper parameters did not stabilise")
	}
	sort.SliceStable(a.Splices, func(i, j int) bool { return a.Splices[i].Pos < a.Splices[j].Pos })
	return a, end, ""
}

// substIdent rebuilds e with the uses of obj replaced by repl (parenthesised, binary and call expressions only).
func (a *genWalker) substIdent(e ast.Expr, obj types.Object, repl ast.Expr) ast.Expr {
	switch x := e.(type) {
	case *ast.Ident:
		if a.info.Uses[x] == obj {
			return repl
		}
	case *ast.ParenExpr:
		if n := a.substIdent(x.X, obj, repl); n != x.X {
			return &ast.ParenExpr{Lparen: x.Lparen, X: n, Rparen: x.Rparen}
		}
	case *ast.BinaryExpr:
		l, r := a.substIdent(x.X, obj, repl), a.substIdent(x.Y, obj, repl)
		if l != x.X || r != x.Y {
			return &ast.BinaryExpr{X: l, OpPos: x.OpPos, Op: x.Op, Y: r}
		}
	case *ast.CallExpr:
		changed := false
		args := make([]ast.Expr, len(x.Args))
		for i, arg := range x.Args {
			args[i] = a.substIdent(arg, obj, repl)
			if args[i] != arg {
				changed = true
			}
		}
		if changed {
			return &ast.CallExpr{Fun: x.Fun, Lparen: x.Lparen, Args: args, Ellipsis: x.Ellipsis, Rparen: x.Rparen}
		}
	}
	return e
}

// generatorRoot: the name of the template function of the generator, found by role: the innermost function of the
// generator package whose inlined view both parses the description (idl.New) and formats the result (go/format.Source).
func generatorRoot(p *Prog) string {
	cg := BuildCallGraph(p)
	var cands []*ssa.Function
	for _, f := range p.FuncsOf(pkgGen) {
		if f.Parent() != nil || len(f.Blocks) == 0 {
			continue
		}
		v := p.Inlined(f, func(callee *ssa.Function) bool { return fnPkgPath(callee) != pkgGen })
		hasNew, hasFmt := false, false
		for _, cs := range callsIn(v, true) {
			switch cs.Name() {
			case "idl.New":
				hasNew = true
			case "format.Source":
				hasFmt = true
			}
		}
		if hasNew && hasFmt {
			cands = append(cands, f)
		}
	}
	for _, f := range cands {
		inner := true
		for _, g := range cands {
			if g != f && cg.Reach([]*ssa.Function{f}, false)[g] {
				inner = false
			}
		}
		if inner {
			return f.Name()
		}
	}
	return "generateTemplate"
}

// methodDecl: the declaration of the generator's own method selected by se, if any (and it is not WriteString itself).
// packageVarInit: the initialiser of a package-level variable of the generator that is never assigned elsewhere.
func (a *genWalker) packageVarInit(obj types.Object) ast.Expr {
	v, ok := obj.(*types.Var)
	if !ok || v.Pkg() == nil || v.Pkg().Path() != pkgGen || v.Parent() != v.Pkg().Scope() {
		return nil
	}
	var init ast.Expr
	assigned := false
	for _, f := range a.p.Pkgs[pkgGen].Syntax {
		ast.Inspect(f, func(n ast.Node) bool {
			switch x := n.(type) {
			case *ast.ValueSpec:
				for i, nm := range x.Names {
					if a.info.Defs[nm] == obj && i < len(x.Values) {
						init = x.Values[i]
					}
				}
			case *ast.AssignStmt:
				for _, l := range x.Lhs {
					if id, ok := l.(*ast.Ident); ok && a.info.Uses[id] == obj {
						assigned = true
					}
				}
			case *ast.UnaryExpr:
				if id, ok := x.X.(*ast.Ident); ok && x.Op == token.AND && a.info.Uses[id] == obj {
					assigned = true
				}
			}
			return true
		})
	}
	if assigned {
		return nil
	}
	return init
}

// constTable: e names a package-level map (or slice) variable of the generator, never reassigned, whose initialiser is
// a composite literal with constant string values; returns the values and the key expressions in source order.
func (a *genWalker) constTable(e ast.Expr) ([]string, []ast.Expr, bool) {
	id, ok := e.(*ast.Ident)
	if !ok {
		return nil, nil, false
	}
	cl, ok := a.packageVarInit(a.info.Uses[id]).(*ast.CompositeLit)
	if !ok || len(cl.Elts) == 0 {
		return nil, nil, false
	}
	var vals []string
	var keys []ast.Expr
	for _, el := range cl.Elts {
		v := el
		var k ast.Expr
		if kv, isKV := el.(*ast.KeyValueExpr); isKV {
			k, v = kv.Key, kv.Value
		}
		tv, ok := a.info.Types[v]
		if !ok || tv.Value == nil || tv.Value.Kind() != constant.String {
			return nil, nil, false
		}
		vals = append(vals, constant.StringVal(tv.Value))
		keys = append(keys, k)
	}
	return vals, keys, true
}

// tableFunc: fd is `func(k K) (string, bool) { switch k { case A: return "a", true ... }; return "", false }`: a constant
// table written as a function; returns the values and the case expressions in source order.
func (a *genWalker) tableFunc(fd *ast.FuncDecl) ([]string, []ast.Expr, bool) {
	if fd == nil || fd.Body == nil || fd.Recv != nil || len(fd.Body.List) != 2 || fd.Type.Results == nil || fd.Type.Params == nil {
		return nil, nil, false
	}
	if n := fd.Type.Results.NumFields(); n != 2 || fd.Type.Params.NumFields() != 1 {
		return nil, nil, false
	}
	sw, ok := fd.Body.List[0].(*ast.SwitchStmt)
	if !ok || sw.Tag == nil {
		return nil, nil, false
	}
	if id, ok := sw.Tag.(*ast.Ident); !ok || a.info.Uses[id] != a.info.Defs[fd.Type.Params.List[0].Names[0]] {
		return nil, nil, false
	}
	ret := func(st ast.Stmt) (string, bool, bool) {
		r, ok := st.(*ast.ReturnStmt)
		if !ok || len(r.Results) != 2 {
			return "", false, false
		}
		tv, ok1 := a.info.Types[r.Results[0]]
		bv, ok2 := a.info.Types[r.Results[1]]
		if !ok1 || !ok2 || tv.Value == nil || bv.Value == nil || tv.Value.Kind() != constant.String || bv.Value.Kind() != constant.Bool {
			return "", false, false
		}
		return constant.StringVal(tv.Value), constant.BoolVal(bv.Value), true
	}
	if v, b, ok := ret(fd.Body.List[1]); !ok || b || v != "" {
		return nil, nil, false
	}
	var vals []string
	var keys []ast.Expr
	for _, c := range sw.Body.List {
		cc := c.(*ast.CaseClause)
		if cc.List == nil || len(cc.Body) != 1 {
			return nil, nil, false
		}
		v, b, ok := ret(cc.Body[0])
		if !ok || !b {
			return nil, nil, false
		}
		for _, k := range cc.List {
			vals = append(vals, v)
			keys = append(keys, k)
		}
	}
	return vals, keys, len(vals) > 0
}

// stringForwarder: fd is `func f(args) string { var sb strings.Builder; g(&sb, args...); return sb.String() }`: the text
// that the emitting function g writes, as a value. Returns g and the call of g.
func (a *genWalker) stringForwarder(fd *ast.FuncDecl) (*ast.FuncDecl, *ast.CallExpr) {
	if fd == nil || fd.Body == nil || len(fd.Body.List) != 3 || fd.Type.Results == nil || fd.Type.Results.NumFields() != 1 {
		return nil, nil
	}
	ds, ok := fd.Body.List[0].(*ast.DeclStmt)
	if !ok {
		return nil, nil
	}
	gd, ok := ds.Decl.(*ast.GenDecl)
	if !ok || len(gd.Specs) != 1 {
		return nil, nil
	}
	vs, ok := gd.Specs[0].(*ast.ValueSpec)
	if !ok || len(vs.Names) != 1 || !isBufferType(a.info.TypeOf(vs.Type)) {
		return nil, nil
	}
	buf := a.info.Defs[vs.Names[0]]
	es, ok := fd.Body.List[1].(*ast.ExprStmt)
	if !ok {
		return nil, nil
	}
	call, ok := es.X.(*ast.CallExpr)
	if !ok || len(call.Args) == 0 {
		return nil, nil
	}
	// first argument &sb
	u, ok := call.Args[0].(*ast.UnaryExpr)
	if !ok || u.Op != token.AND {
		return nil, nil
	}
	if id, ok := u.X.(*ast.Ident); !ok || a.info.Uses[id] != buf {
		return nil, nil
	}
	var g *ast.FuncDecl
	switch f := call.Fun.(type) {
	case *ast.Ident:
		g = a.funcs[f.Name]
	case *ast.SelectorExpr:
		g = a.methodDecl(f)
	}
	if g == nil {
		return nil, nil
	}
	rs, ok := fd.Body.List[2].(*ast.ReturnStmt)
	if !ok || len(rs.Results) != 1 {
		return nil, nil
	}
	rc, ok := rs.Results[0].(*ast.CallExpr)
	if !ok {
		return nil, nil
	}
	rse, ok := rc.Fun.(*ast.SelectorExpr)
	if !ok || rse.Sel.Name != "String" {
		return nil, nil
	}
	if id, ok := rse.X.(*ast.Ident); !ok || a.info.Uses[id] != buf {
		return nil, nil
	}
	return g, call
}

// decls: the functions and the methods of the generator package (methods keyed "<name>()").
func (a *genWalker) decls() map[string]*ast.FuncDecl {
	out := map[string]*ast.FuncDecl{}
	for n, fd := range a.funcs {
		out[n] = fd
	}
	for n, fd := range a.methods {
		if _, clash := out[n]; clash {
			n += "()"
		}
		out[n] = fd
	}
	return out
}

func (a *genWalker) methodDecl(se *ast.SelectorExpr) *ast.FuncDecl {
	sel, ok := a.info.Selections[se]
	if !ok || sel.Kind() != types.MethodVal {
		return nil
	}
	fn, ok := sel.Obj().(*types.Func)
	if !ok || fn.Pkg() == nil || fn.Pkg().Path() != pkgGen {
		return nil
	}
	return a.methods[fn.Name()]
}

// freeze replaces the identifiers of e that currently have a tracked definition by that definition, so that e keeps its
// meaning when it is looked at later in another function.
func (a *genWalker) freeze(e ast.Expr) ast.Expr {
	switch x := e.(type) {
	case *ast.Ident:
		if obj := a.info.Uses[x]; obj != nil {
			if def, ok := a.locals[obj]; ok {
				if a.kwSafe[obj] {
					return e // keep the identifier: its keyword-safety is attached to the variable
				}
				return def
			}
		}
	case *ast.ParenExpr:
		if n := a.freeze(x.X); n != x.X {
			return &ast.ParenExpr{Lparen: x.Lparen, X: n, Rparen: x.Rparen}
		}
	case *ast.BinaryExpr:
		l, r := a.freeze(x.X), a.freeze(x.Y)
		if l != x.X || r != x.Y {
			return &ast.BinaryExpr{X: l, OpPos: x.OpPos, Op: x.Op, Y: r}
		}
	case *ast.CallExpr:
		changed := false
		args := make([]ast.Expr, len(x.Args))
		for i, arg := range x.Args {
			args[i] = a.freeze(arg)
			if args[i] != arg {
				changed = true
			}
		}
		if changed {
			return &ast.CallExpr{Fun: x.Fun, Lparen: x.Lparen, Args: args, Ellipsis: x.Ellipsis, Rparen: x.Rparen}
		}
	}
	return e
}

// formatExpr turns fmt.Fprintf's ("const format", args...) into the equivalent concatenation: constant text, %s -> the
// string argument, %d -> the integer argument (a digits splice), %% -> "%". Any other verb: not classified.
func (a *genWalker) formatExpr(format ast.Expr, args []ast.Expr) (ast.Expr, bool) {
	tv, ok := a.info.Types[format]
	if !ok || tv.Value == nil || tv.Value.Kind() != constant.String {
		return nil, false
	}
	f := constant.StringVal(tv.Value)
	var parts []ast.Expr
	lit := func(s string) ast.Expr {
		e := &ast.BasicLit{Kind: token.STRING, Value: strconv.Quote(s), ValuePos: format.Pos()}
		a.synthConst[e] = s
		return e
	}
	cur := ""
	ai := 0
	explicit := false
	for i := 0; i < len(f); i++ {
		if f[i] != '%' {
			cur += string(f[i])
			continue
		}
		if i+1 >= len(f) {
			return nil, false
		}
		i++
		// explicit argument index: %[n]s
		if f[i] == '[' {
			j := strings.IndexByte(f[i:], ']')
			if j < 0 {
				return nil, false
			}
			n, err := strconv.Atoi(f[i+1 : i+j])
			if err != nil || n < 1 || n > len(args) {
				return nil, false
			}
			ai = n - 1
			explicit = true
			i += j + 1
			if i >= len(f) {
				return nil, false
			}
		}
		switch f[i] {
		case '%':
			cur += "%"
		case 's':
			if ai >= len(args) || !a.isStringExpr(args[ai]) {
				return nil, false
			}
			if cur != "" {
				parts = append(parts, lit(cur))
				cur = ""
			}
			parts = append(parts, args[ai])
			ai++
		default:
			return nil, false
		}
	}
	if cur != "" || len(parts) == 0 {
		parts = append(parts, lit(cur))
	}
	if ai != len(args) && !explicit {
		return nil, false
	}
	e := parts[0]
	for _, p := range parts[1:] {
		e = &ast.BinaryExpr{X: e, Op: token.ADD, Y: p, OpPos: format.Pos()}
	}
	return e, true
}

// funcDeclOf: the function a call through e invokes, if it is known: a declared function of the generator, a function
// literal kept in a local, a function-typed parameter bound to such a value for the call being walked, or a literal.
func (a *genWalker) funcDeclOf(e ast.Expr) *ast.FuncDecl {
	for depth := 0; depth < 6; depth++ {
		switch x := e.(type) {
		case *ast.ParenExpr:
			e = x.X
			continue
		case *ast.FuncLit:
			if d, ok := a.litDecls[x]; ok {
				return d
			}
			d := &ast.FuncDecl{Name: &ast.Ident{Name: fmt.Sprintf("func@%d", a.fset.Position(x.Pos()).Line), NamePos: x.Pos()}, Type: x.Type, Body: x.Body}
			a.litDecls[x] = d
			return d
		case *ast.Ident:
			obj := a.info.Uses[x]
			if obj == nil {
				obj = a.info.Defs[x]
			}
			if obj == nil {
				return nil
			}
			if d, ok := a.closures[obj]; ok {
				return d
			}
			if def, ok := a.locals[obj]; ok {
				if _, isSig := obj.Type().Underlying().(*types.Signature); isSig {
					e = def
					continue
				}
				return nil
			}
			if fn, ok := obj.(*types.Func); ok && fn.Pkg() != nil && fn.Pkg().Path() == pkgGen {
				if sig, ok := fn.Type().(*types.Signature); ok && sig.Recv() == nil {
					return a.funcs[x.Name]
				}
			}
			return nil
		default:
			return nil
		}
	}
	return nil
}

// typeOf: the type of e, also for expressions the walker built itself from typed parts.
func (a *genWalker) typeOf(e ast.Expr) types.Type {
	if t := a.info.TypeOf(e); t != nil {
		return t
	}
	if _, ok := a.synthConst[e]; ok {
		return types.Typ[types.String]
	}
	if alts, ok := a.synthAlt[e]; ok && len(alts) > 0 {
		return a.typeOf(alts[0])
	}
	switch x := e.(type) {
	case *ast.ParenExpr:
		return a.typeOf(x.X)
	case *ast.BinaryExpr:
		return a.typeOf(x.X)
	case *ast.BasicLit:
		if x.Kind == token.STRING {
			return types.Typ[types.String]
		}
	case *ast.CallExpr:
		if ft := a.typeOf(x.Fun); ft != nil {
			if sig, ok := ft.Underlying().(*types.Signature); ok && sig.Results().Len() >= 1 {
				return sig.Results().At(0).Type()
			}
		}
	case *ast.Ident:
		if obj := a.info.Uses[x]; obj != nil {
			return obj.Type()
		}
		if obj, ok := a.origIdent[x]; ok {
			return obj.Type()
		}
	}
	return nil
}

func (a *genWalker) isStringExpr(e ast.Expr) bool {
	t := a.typeOf(e)
	return t != nil && types.Identical(t.Underlying(), types.Typ[types.String])
}

// altExpr: a value that is one of the given expressions.
func (a *genWalker) altExpr(alts ...ast.Expr) ast.Expr {
	var flat []ast.Expr
	for _, e := range alts {
		if inner, ok := a.synthAlt[e]; ok {
			flat = append(flat, inner...)
		} else {
			flat = append(flat, e)
		}
	}
	var uniq []ast.Expr
	for _, e := range flat {
		dup := false
		for _, u := range uniq {
			if u == e {
				dup = true
			}
		}
		if !dup {
			uniq = append(uniq, e)
		}
	}
	if len(uniq) == 1 {
		return uniq[0]
	}
	n := &ast.Ident{Name: "$alt", NamePos: uniq[0].Pos()}
	a.synthAlt[n] = uniq
	return n
}

// isLocalBuilderResult: e is `X.String()` for a strings.Builder / bytes.Buffer X (the text a value emitter has written).
func (a *genWalker) isLocalBuilderResult(e ast.Expr) bool {
	c, ok := e.(*ast.CallExpr)
	if !ok || len(c.Args) != 0 {
		return false
	}
	se, ok := c.Fun.(*ast.SelectorExpr)
	if !ok || se.Sel.Name != "String" {
		return false
	}
	t := a.info.TypeOf(se.X)
	return t != nil && isBufferType(t)
}

// returnsString: fd's first result is a string.
func (a *genWalker) returnsString(fd *ast.FuncDecl) bool {
	return fd.Type.Results != nil && len(fd.Type.Results.List) >= 1 && a.info.TypeOf(fd.Type.Results.List[0].Type) != nil &&
		types.Identical(a.info.TypeOf(fd.Type.Results.List[0].Type), types.Typ[types.String])
}

// hasSideWrites: the body of fd contains a statement that is a call (a write to the buffer, or a call of another
// function of the generator for its effect).
func (a *genWalker) hasSideWrites(fd *ast.FuncDecl) bool {
	found := false
	ast.Inspect(fd.Body, func(n ast.Node) bool {
		if _, isLit := n.(*ast.FuncLit); isLit {
			return false
		}
		if es, ok := n.(*ast.ExprStmt); ok {
			if c, ok := es.X.(*ast.CallExpr); ok {
				if isBufWrite(c) {
					found = true
				}
				switch f := c.Fun.(type) {
				case *ast.Ident:
					if a.funcDeclOf(f) != nil {
						found = true
					}
				case *ast.SelectorExpr:
					if a.methodDecl(f) != nil {
						found = true
					}
					if id, ok := f.X.(*ast.Ident); ok && id.Name == "fmt" && f.Sel.Name == "Fprintf" {
						found = true
					}
				}
			}
		}
		return !found
	})
	return found
}
