package main

// Role discovery: the functions, types and fields the rules apply to are found by what they do,
// not by what they are called (names are used only for exported API, wire keys and protocol constants).

import (
	"go/types"
	"strings"

	"golang.org/x/tools/go/ssa"
)

type Roles struct {
	p  *Prog
	T  *Terms
	CG *CallGraph

	// ctxio
	ConnT       *types.Named // ctxio.Conn: struct wrapping a net.Conn and a *bufio.Reader
	ConnRawIdx  int          // field of type net.Conn
	ConnBufIdx  int          // field of type *bufio.Reader
	ConnRawName string
	ConnBufName string
	ConnCtor    []*ssa.Function // functions that allocate a ctxio.Conn

	ServiceT *types.Named
	CallT    *types.Named

	connExported int
	Serving      []*ssa.Function // accept connections; inlined views (inline.go) of ServingOrig
	ServingOrig  []*ssa.Function // the built functions behind Serving
	ConnEntry    []*ssa.Function // started by `go` from a serving function (owns the connection's accounting)
	ConnLoop     []*ssa.Function // the function (the go target or one of its callees) that holds the frame-read loop
	Handle       *ssa.Function   // Service.HandleMessage (exported API)
	WFuncs       []*ssa.Function // functions in package varlink that Write on a Call's connection
	WSites       []CallSite

	dispEntry     *ssa.Function
	dispEntryDone bool
	dispKeep      func(*ssa.Function) bool // what stays a call in the dispatch entry's view
	reachW        map[*ssa.Function]bool
}

func isNamed(t types.Type, pkg, name string) bool {
	if pt, ok := t.(*types.Pointer); ok {
		t = pt.Elem()
	}
	n, ok := t.(*types.Named)
	if !ok || n.Obj().Pkg() == nil {
		return false
	}
	return n.Obj().Pkg().Path() == pkg && n.Obj().Name() == name
}

func DiscoverRoles(p *Prog) *Roles {
	if p.roles != nil {
		return p.roles
	}
	ro := discoverRoles(p)
	p.roles = ro
	return ro
}

func discoverRoles(p *Prog) *Roles {
	ro := &Roles{p: p, T: NewTerms(p), CG: BuildCallGraph(p), ConnRawIdx: -1, ConnBufIdx: -1}
	ro.T.FieldWrites = fieldWriteSummaries(p, ro.CG, ro.T)
	// ctxio.Conn: the named struct in ctxio with a net.Conn field and a *bufio.Reader field
	if pk := p.Pkgs[pkgCtxio]; pk != nil {
		sc := pk.Types.Scope()
		for _, n := range sc.Names() {
			tn, ok := sc.Lookup(n).(*types.TypeName)
			if !ok {
				continue
			}
			named, ok := tn.Type().(*types.Named)
			if !ok {
				continue
			}
			st, ok := named.Underlying().(*types.Struct)
			if !ok {
				continue
			}
			raw, buf := -1, -1
			for i := 0; i < st.NumFields(); i++ {
				ft := st.Field(i).Type()
				if isNamed(ft, "net", "Conn") {
					raw = i
				}
				if isNamed(ft, "bufio", "Reader") {
					buf = i
				}
			}
			if raw >= 0 && buf >= 0 {
				// (several named types may share the struct - `type readSide Conn` as a view of one direction -: the
				// wrapper is the one with exported methods)
				exported := 0
				ms := types.NewMethodSet(types.NewPointer(named))
				for i := 0; i < ms.Len(); i++ {
					if ms.At(i).Obj().Exported() {
						exported++
					}
				}
				if ro.ConnT != nil && exported <= ro.connExported {
					continue
				}
				ro.connExported = exported
				ro.ConnT, ro.ConnRawIdx, ro.ConnBufIdx = named, raw, buf
				ro.ConnRawName, ro.ConnBufName = st.Field(raw).Name(), st.Field(buf).Name()
			}
		}
	}
	ro.ServiceT = p.NamedType(pkgVarlink, "Service")
	ro.CallT = p.NamedType(pkgVarlink, "Call")
	ro.Handle = p.Func(pkgVarlink, "Service.HandleMessage")
	for _, f := range p.Funcs {
		for _, b := range f.Blocks {
			for _, in := range b.Instrs {
				if a, ok := in.(*ssa.Alloc); ok && ro.ConnT != nil {
					if pt, ok := a.Type().(*types.Pointer); ok && types.Identical(pt.Elem(), ro.ConnT) {
						ro.ConnCtor = appendFn(ro.ConnCtor, f)
					}
				}
			}
		}
		if fnPkgPath(f) != pkgVarlink {
			continue
		}
	}
	// serving functions: the functions of package varlink whose body - with the repository's helpers inlined - accepts
	// connections, and that are not themselves a helper of another such function. They are analysed in their inlined
	// view, so that it does not matter whether the accept loop, the refresh or the reset are written out or factored
	// into helpers.
	accepts := func(f *ssa.Function) bool {
		for _, cs := range callsIn(f, false) {
			if cs.Common.IsInvoke() && cs.Common.Method.Name() == "Accept" && isNamed(cs.Common.Value.Type(), "net", "Listener") {
				return true
			}
		}
		return false
	}
	var cands []*ssa.Function
	for _, f := range p.Funcs {
		if fnPkgPath(f) == pkgVarlink && f.Parent() == nil && len(f.Blocks) > 0 && accepts(p.Inlined(f, nil)) {
			cands = append(cands, f)
		}
	}
	for _, f := range cands {
		helper := false
		for _, g := range cands {
			if g != f && ro.CG.Reach([]*ssa.Function{g}, false)[f] {
				helper = true
			}
		}
		if !helper {
			v := p.Inlined(f, nil)
			ro.CG.AddView(v)
			ro.Serving = appendFn(ro.Serving, v)
			ro.ServingOrig = appendFn(ro.ServingOrig, f)
		}
	}
	for _, sv := range ro.Serving {
		for _, cs := range callsIn(sv, true) {
			if _, ok := cs.Instr.(*ssa.Go); ok {
				if t := staticTarget(cs.Common); t != nil && p.InRepo(t) {
					ro.ConnLoop = appendFn(ro.ConnLoop, t)
				}
			}
		}
	}
	// W sites: Write on a connection reached from a Call value (service side reply path)
	for _, f := range p.FuncsOf(pkgVarlink) {
		for _, cs := range callsIn(f, false) {
			if !isProtoWrite(cs) {
				continue
			}
			recv := ro.T.T(cs.Common.Value)
			if cs.Common.IsInvoke() {
				// receiver rooted in a *Call / Call value
				if ro.rootedInCall(cs.Common.Value) {
					ro.WSites = append(ro.WSites, cs)
					ro.WFuncs = appendFn(ro.WFuncs, f)
				}
			}
			_ = recv
		}
	}
	// the connection handler is analysed in its inlined view (inline.go): the frame-read loop may be written in the go
	// target, in a callee, or as `for !s.serveOne(...) {}` around a helper that reads and dispatches one frame. The
	// dispatch entry (and HandleMessage) and everything outside package varlink stay calls.
	ro.ConnEntry = ro.ConnLoop
	var loops []*ssa.Function
	keepLoop := func(callee *ssa.Function) bool {
		return fnPkgPath(callee) != pkgVarlink || isDispatchTarget(p, ro, callee)
	}
	for _, e := range ro.ConnEntry {
		v := p.Inlined(e, keepLoop)
		hasLoopRead := false
		for _, cs := range callsIn(v, false) {
			if isProtoReadBytes(cs) && blockInLoop(cs.Instr.Block()) {
				hasLoopRead = true
			}
		}
		if hasLoopRead {
			ro.CG.AddView(v)
			loops = appendFn(loops, v)
			continue
		}
		// not visible in the view (a callee that could not be inlined): the built function that holds the loop
		found := false
		var cands []*ssa.Function
		for f := range ro.CG.Reach([]*ssa.Function{e}, false) {
			cands = append(cands, f)
		}
		for _, f := range append([]*ssa.Function{e}, cands...) {
			if found || fnPkgPath(f) != pkgVarlink {
				continue
			}
			for _, cs := range callsIn(f, false) {
				if isProtoReadBytes(cs) && blockInLoop(cs.Instr.Block()) {
					loops = appendFn(loops, f)
					found = true
				}
			}
		}
		if !found {
			loops = appendFn(loops, e)
		}
	}
	ro.ConnLoop = loops
	discoverServiceStateTypes(ro)
	svcF = discoverServiceFields(p, ro)
	discoverReplyStruct(p)
	return ro
}

func appendFn(l []*ssa.Function, f *ssa.Function) []*ssa.Function {
	for _, x := range l {
		if x == f {
			return l
		}
	}
	return append(l, f)
}

// isProtoWrite: a call of Write(ctx, []byte) on a ReadWriterContext or *ctxio.Conn.
// ctxIOInvoke: an interface method with the protocol connection's context-taking shape: name(ctx context.Context, x T)
// (..., error), invoked on ReadWriterContext or on an unexported repo interface that narrows it (`frameWriter`).
func ctxIOInvoke(c *ssa.CallCommon, name string) bool {
	if !c.IsInvoke() || c.Method.Name() != name {
		return false
	}
	if isNamed(c.Value.Type(), pkgVarlink, "ReadWriterContext") {
		return true
	}
	nt, ok := c.Value.Type().(*types.Named)
	if !ok || nt.Obj().Pkg() == nil || !strings.HasPrefix(nt.Obj().Pkg().Path(), pkgVarlink) {
		return false
	}
	sig, ok := c.Method.Type().(*types.Signature)
	if !ok || sig.Params().Len() != 2 || !isNamed(sig.Params().At(0).Type(), "context", "Context") {
		return false
	}
	return sig.Results().Len() == 2 && isErrorType(sig.Results().At(1).Type())
}

func isProtoWrite(cs CallSite) bool {
	c := cs.Common
	if c.IsInvoke() {
		return ctxIOInvoke(c, "Write")
	}
	if f := c.StaticCallee(); f != nil && f.Name() == "Write" && f.Signature.Recv() != nil {
		return isNamed(f.Signature.Recv().Type(), pkgCtxio, "Conn")
	}
	return false
}

// isProtoReadBytes: ReadBytes(ctx, delim) on a ReadWriterContext or *ctxio.Conn.
func isProtoReadBytes(cs CallSite) bool {
	c := cs.Common
	if c.IsInvoke() {
		return ctxIOInvoke(c, "ReadBytes")
	}
	if f := c.StaticCallee(); f != nil && f.Name() == "ReadBytes" && f.Signature.Recv() != nil {
		return isNamed(f.Signature.Recv().Type(), pkgCtxio, "Conn")
	}
	return false
}

// rootedInCall: the value is a field load chain starting at a parameter/receiver of type Call or *Call.
func (ro *Roles) rootedInCall(v ssa.Value) bool {
	for i := 0; i < 10; i++ {
		switch x := v.(type) {
		case *ssa.UnOp:
			v = x.X
		case *ssa.ChangeInterface:
			v = x.X
		case *ssa.FieldAddr:
			if isNamed(x.X.Type(), pkgVarlink, "Call") {
				return true
			}
			v = x.X
		case *ssa.Field:
			if isNamed(x.X.Type(), pkgVarlink, "Call") {
				return true
			}
			v = x.X
		case *ssa.Alloc:
			if val, ok := singleStore(x); ok {
				v = val
				continue
			}
			return false
		case *ssa.Parameter:
			return isNamed(x.Type(), pkgVarlink, "Call")
		default:
			return false
		}
	}
	return false
}

// fieldAccesses lists FieldAddr instructions on values of (pointer to) named type nt, for field index idx.
func fieldAddrs(p *Prog, nt *types.Named, idx int) []*ssa.FieldAddr {
	var out []*ssa.FieldAddr
	for _, f := range p.Funcs {
		for _, b := range f.Blocks {
			for _, in := range b.Instrs {
				if fa, ok := in.(*ssa.FieldAddr); ok && fa.Field == idx {
					if pt, ok := fa.X.Type().Underlying().(*types.Pointer); ok && types.Identical(pt.Elem(), nt) {
						out = append(out, fa)
					}
				}
			}
		}
	}
	return out
}

func storesTo(fa *ssa.FieldAddr) []*ssa.Store {
	var out []*ssa.Store
	for _, r := range *fa.Referrers() {
		if st, ok := r.(*ssa.Store); ok && st.Addr == ssa.Value(fa) {
			out = append(out, st)
		}
	}
	return out
}

func fieldIndex(nt *types.Named, name string) int {
	st, ok := nt.Underlying().(*types.Struct)
	if !ok {
		return -1
	}
	for i := 0; i < st.NumFields(); i++ {
		if st.Field(i).Name() == name {
			return i
		}
	}
	return -1
}

func hasPrefixAny(s string, ps ...string) bool {
	for _, p := range ps {
		if strings.HasPrefix(s, p) {
			return true
		}
	}
	return false
}

// servingSide: the serving functions (views and originals) and every function they call synchronously.
func (ro *Roles) servingSide() map[*ssa.Function]bool {
	out := ro.CG.Reach(ro.ServingOrig, false)
	for _, v := range ro.Serving {
		out[v] = true
	}
	return out
}

// keepsWriting: f writes on a Call's connection or reaches a function that does (the reply path). Such functions are not
// inlined into the dispatch entry's view: replies are counted as calls of the reply primitives.
func (ro *Roles) keepsWriting(f *ssa.Function) bool {
	if ro.reachW == nil {
		ro.reachW = map[*ssa.Function]bool{}
		w := fnSet(ro.WFuncs)
		for _, g := range ro.p.Funcs {
			for h := range ro.CG.Reach([]*ssa.Function{g}, false) {
				if w[h] {
					ro.reachW[g] = true
				}
			}
		}
	}
	return ro.reachW[f]
}

// svcFields: the members of Service the rules speak about, found by type and use, not by name (unexported members
// can be renamed freely): the listener (type net.Listener), the mutex (sync.Mutex/RWMutex), the running flag (the bool
// member; with several, the one a serving function sets to true), the dispatcher table (map[string]<interface with
// VarlinkDispatch>), the description table (map[string]string) and the registration-order list ([]string).
type svcFields struct {
	Listener, Mutex, Running, Interfaces, Descriptions, Names string
	// RunningVal: when the lifecycle is an enumeration member instead of a flag, the constant that means "serving"
	RunningVal string
}

// svcF is set by DiscoverRoles.
var svcF svcFields

func discoverServiceFields(p *Prog, ro *Roles) svcFields {
	var f svcFields
	if ro.ServiceT == nil {
		return f
	}
	var bools, strLists []string
	var flds []*types.Var
	for _, stt := range serviceStateTypes {
		if st, ok := stt.Underlying().(*types.Struct); ok {
			for i := 0; i < st.NumFields(); i++ {
				flds = append(flds, st.Field(i))
			}
		}
	}
	for _, fld := range flds {
		t := fld.Type()
		switch {
		case isNamed(t, "net", "Listener"):
			f.Listener = fld.Name()
		case isNamed(t, "sync", "Mutex") || isNamed(t, "sync", "RWMutex"):
			f.Mutex = fld.Name()
		}
		switch u := t.Underlying().(type) {
		case *types.Basic:
			if u.Kind() == types.Bool {
				bools = append(bools, fld.Name())
			}
		case *types.Map:
			if kb, ok := u.Key().Underlying().(*types.Basic); ok && kb.Kind() == types.String {
				if vb, ok := u.Elem().Underlying().(*types.Basic); ok && vb.Kind() == types.String {
					f.Descriptions = fld.Name()
				}
				if it, ok := u.Elem().Underlying().(*types.Interface); ok {
					for m := 0; m < it.NumMethods(); m++ {
						if it.Method(m).Name() == "VarlinkDispatch" {
							f.Interfaces = fld.Name()
						}
					}
				}
			}
		case *types.Slice:
			if eb, ok := u.Elem().Underlying().(*types.Basic); ok && eb.Kind() == types.String {
				strLists = append(strLists, fld.Name())
			}
		}
	}
	if len(bools) == 0 {
		// no flag: the lifecycle is an enumeration member (`state serviceState`) into which a serving function stores
		// a non-zero constant ("serving"); being in that state is what `running` means
		for _, sv := range ro.Serving {
			for _, b := range sv.Blocks {
				for _, in := range b.Instrs {
					st, ok := in.(*ssa.Store)
					if !ok {
						continue
					}
					k, ok := st.Val.(*ssa.Const)
					fa, ok2 := st.Addr.(*ssa.FieldAddr)
					if !ok || !ok2 || !isServiceState(fa.X.Type()) || k.Value == nil {
						continue
					}
					if bt, isB := k.Type().Underlying().(*types.Basic); isB && bt.Info()&types.IsInteger != 0 && constTerm(k) != "const:0" {
						if _, isNamedT := k.Type().(*types.Named); isNamedT {
							f.Running, f.RunningVal = fieldName(fa.X, fa.Field), constTerm(k)
						}
					}
				}
			}
		}
	}
	if len(bools) == 1 {
		f.Running = bools[0]
	} else if f.Running == "" {
		// the bool member a serving function stores true into
		for _, sv := range ro.Serving {
			for _, b := range sv.Blocks {
				for _, in := range b.Instrs {
					if st, ok := in.(*ssa.Store); ok {
						if k, ok := st.Val.(*ssa.Const); ok && constTerm(k) == "const:true" {
							if fa, ok := st.Addr.(*ssa.FieldAddr); ok && isServiceState(fa.X.Type()) {
								f.Running = fieldName(fa.X, fa.Field)
							}
						}
					}
				}
			}
		}
	}
	if len(strLists) == 1 {
		f.Names = strLists[0]
	} else if reg := p.Func(pkgVarlink, "Service.RegisterInterface"); reg != nil {
		for _, b := range reg.Blocks {
			for _, in := range b.Instrs {
				if st, ok := in.(*ssa.Store); ok {
					if fa, ok := st.Addr.(*ssa.FieldAddr); ok && isServiceState(fa.X.Type()) {
						for _, n := range strLists {
							if fieldName(fa.X, fa.Field) == n {
								f.Names = n
							}
						}
					}
				}
			}
		}
	}
	return f
}

// isClientConnRecv: v is (a load of) the connection-wrapper member of a client Connection value - found by type: a member
// of type *ctxio.Conn of the struct type varlink.Connection - whatever the member is called.
func isClientConnRecv(v ssa.Value) bool {
	for i := 0; i < 4 && v != nil; i++ {
		switch x := v.(type) {
		case *ssa.UnOp:
			v = x.X
		case *ssa.FieldAddr:
			return isNamed(x.X.Type(), pkgVarlink, "Connection") && isNamed(x.Type().(*types.Pointer).Elem(), pkgCtxio, "Conn")
		case *ssa.Field:
			return isNamed(x.X.Type(), pkgVarlink, "Connection") && isNamed(x.Type(), pkgCtxio, "Conn")
		default:
			return false
		}
	}
	return false
}

// replyF: the service's reply message struct, found by its JSON keys (parameters, continues, error), and the Go names of
// those members - the type and its members are unexported and can be renamed.
var replyF struct {
	Type                         *types.Named
	Error, Parameters, Continues string
}

func discoverReplyStruct(p *Prog) {
	replyF.Type, replyF.Error, replyF.Parameters, replyF.Continues = nil, "Error", "Parameters", "Continues"
	pk := p.Pkgs[pkgVarlink]
	if pk == nil {
		return
	}
	sc := pk.Types.Scope()
	for _, n := range sc.Names() {
		tn, ok := sc.Lookup(n).(*types.TypeName)
		if !ok {
			continue
		}
		named, ok := tn.Type().(*types.Named)
		if !ok {
			continue
		}
		st, ok := named.Underlying().(*types.Struct)
		if !ok {
			continue
		}
		_, e := structFieldByJSON(st, "error")
		_, pa := structFieldByJSON(st, "parameters")
		_, co := structFieldByJSON(st, "continues")
		if e != nil && pa != nil && co != nil && st.NumFields() == 3 {
			replyF.Type, replyF.Error, replyF.Parameters, replyF.Continues = named, e.Name(), pa.Name(), co.Name()
		}
	}
}

// serviceStateTypes: Service and the struct types of package varlink that Service holds by value (an embedded
// `serveState`, a nested bookkeeping struct): their members are the Service's state, whatever the nesting.
var serviceStateTypes []*types.Named

func discoverServiceStateTypes(ro *Roles) {
	serviceStateTypes = nil
	if ro.ServiceT == nil {
		return
	}
	seen := map[*types.Named]bool{}
	var walk func(n *types.Named, depth int)
	walk = func(n *types.Named, depth int) {
		if seen[n] || depth > 3 {
			return
		}
		seen[n] = true
		serviceStateTypes = append(serviceStateTypes, n)
		st, ok := n.Underlying().(*types.Struct)
		if !ok {
			return
		}
		for i := 0; i < st.NumFields(); i++ {
			if fn, ok := st.Field(i).Type().(*types.Named); ok && fn.Obj().Pkg() != nil && fn.Obj().Pkg().Path() == pkgVarlink {
				if _, isSt := fn.Underlying().(*types.Struct); isSt {
					walk(fn, depth+1)
				}
			}
		}
	}
	walk(ro.ServiceT, 0)
}

// isServiceState: t is (a pointer to) Service or one of the structs it holds by value.
func isServiceState(t types.Type) bool {
	if pt, ok := t.(*types.Pointer); ok {
		t = pt.Elem()
	}
	n, ok := t.(*types.Named)
	if !ok {
		return false
	}
	for _, s := range serviceStateTypes {
		if s == n || types.Identical(s, n) {
			return true
		}
	}
	return false
}

// stateKeyField: k is a write-summary key "<Type>.<member>" of Service or of a struct it holds by value; returns the member.
func stateKeyField(k string) (string, bool) {
	i := strings.Index(k, ".")
	if i < 0 {
		return "", false
	}
	for _, s := range serviceStateTypes {
		if s.Obj().Name() == k[:i] {
			// a nested state struct as a whole is not a member of interest
			if st, ok := s.Underlying().(*types.Struct); ok {
				for j := 0; j < st.NumFields(); j++ {
					if st.Field(j).Name() == k[i+1:] && isServiceState(st.Field(j).Type()) {
						return "", false
					}
				}
			}
			return k[i+1:], true
		}
	}
	return "", false
}
