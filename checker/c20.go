package main

import (
	"fmt"
	"go/token"
	"sort"
	"strings"

	"golang.org/x/tools/go/ssa"
)

func init() {
	register(&propDef{
		id: "C20", level: "other", perCfg: true,
		explain: "Necessary structural conditions of C20, as must-facts and reaching definitions at the program points of the activation function (found by role: the innermost function of package varlink whose inlined view reads LISTEN_PID and builds a listener via os.NewFile + net.FileListener; analysed in that view, so descriptor selection may live in a helper) and of the listener setup. V1: every non-nil return is result #0 of net.FileListener(os.NewFile(uintptr(fd), _)) on its err == nil edge and carries Atoi(LISTEN_PID) ok and equal to os.Getpid(), Atoi(LISTEN_FDS) ok and >= 1; every other return is nil (fallback). V4 completeness of the single-descriptor case: on paths consistent with a matching pid and LISTEN_FDS == 1 the only reachable nil return is the one after a failed net.FileListener. V2: every feasible reaching definition of fd at os.NewFile is either the constant 3 on paths where LISTEN_FDS is exactly 1, or 3+i on paths where LISTEN_FDNAMES is set, splits at ':' into exactly LISTEN_FDS entries, entry i equals \"varlink\", i is the ascending range index of that list and the loop is left at the first match; definitions that a later test on the path excludes (the initial -1 against `fd < 0`) are discarded per incoming edge. V3: in the inlined view of the listener setup's exported entry (the nearest exported function above the activation function, with the activation function kept as a call - so a step moved into a sibling helper or in front of the activation query is seen) the address path (stale-socket removal, listen) is taken only with `activation result == nil`, and a non-nil activation result is stored as the Service's listener unchanged (never closed or replaced). On GOOS=windows the activation function must be the constant nil. V3 also: outside the listener setup nothing in the library calls the address path's listen/remove primitives.",
		notDec:  "That descriptor 3+i really is the i-th inherited socket (systemd contract); net.FileListener's verdict on descriptors that are not listening sockets (it returns an error, which V1 maps to the fallback).",
		trusted: []string{"strconv.Atoi returns err == nil only for decimal integers", "strings.Split returns the ':'-separated entries in order", "net.FileListener fails for a descriptor that is not a listening stream socket"},
		run:     runC20,
	})
}

func runC20(r *Run, p *Prog) {
	ro := DiscoverRoles(p)
	T := ro.T
	// the activation function by role
	// (in its inlined view - inline.go - it both reads LISTEN_PID and calls net.FileListener, and it is the innermost
	// such function; it is analysed in that view, so helpers it delegates to are part of it)
	var act, actBuilt *ssa.Function
	var cands []*ssa.Function
	for _, f := range p.LibFuncs() {
		if f.Parent() != nil || len(f.Blocks) == 0 {
			continue
		}
		v := p.Inlined(f, nil)
		readsPid := false
		for _, cs := range callsNamed(v, false, "os.Getenv", "os.LookupEnv") {
			if len(cs.Common.Args) == 1 && T.T(cs.Common.Args[0]) == `const:"LISTEN_PID"` {
				readsPid = true
			}
		}
		if readsPid && len(callsNamed(v, false, "net.FileListener")) > 0 {
			cands = append(cands, f)
		}
	}
	for _, f := range cands {
		inner := true
		for _, g := range cands {
			if g != f && ro.CG.Reach([]*ssa.Function{f}, false)[g] {
				inner = false
			}
		}
		if inner {
			actBuilt = f
			act = p.Inlined(f, nil)
			ro.CG.AddView(act)
		}
	}
	if act == nil {
		// windows: the function named by the setup's call must be constant nil
		f := p.Func(pkgVarlink, "activationListener")
		if f != nil && p.Cfg.GOOS == "windows" {
			okNil := true
			for _, rv := range returnedValues(f, 0) {
				if T.T(rv.Val) != "nil" {
					okNil = false
				}
			}
			r.Ob("V1", shortName(f)+"@windows", "no socket activation on windows: constant nil", f.Pos(), okNil, "")
			checkSetupV3(r, p, ro, f)
			return
		}
		r.Unresolved("V1", "activation function (builds a listener with net.FileListener from an inherited descriptor)")
		return
	}
	fn := shortName(act)
	env := func(name string) string { return `call:os.Getenv(const:"` + name + `")` }
	pidAtoi := "call:strconv.Atoi(" + env("LISTEN_PID") + ")"
	fdsAtoi := "call:strconv.Atoi(" + env("LISTEN_FDS") + ")"
	nfdsT := "ext(" + fdsAtoi + ",0)"
	pidFacts := func(fs []Fact) (bool, bool) {
		return hasFact(fs, "EQ", "ext("+pidAtoi+",1)", "nil"), hasFact(fs, "EQ", "ext("+pidAtoi+",0)", "call:os.Getpid()")
	}
	// (the listener construction may occur once per way of choosing the descriptor: `return listenerFor(3)` next to
	// `return listenerFor(3 + i)`, or the view's own un-merging of a helper's results)
	var newFiles, fileListeners []*ssa.Call
	for _, cs := range callsNamed(act, false, "os.NewFile") {
		if c, ok := cs.Instr.(*ssa.Call); ok {
			newFiles = append(newFiles, c)
		}
	}
	for _, cs := range callsNamed(act, false, "net.FileListener") {
		if c, ok := cs.Instr.(*ssa.Call); ok {
			fileListeners = append(fileListeners, c)
		}
	}
	if len(newFiles) == 0 || len(fileListeners) == 0 {
		r.Unresolved("V1", "os.NewFile / net.FileListener calls")
		return
	}
	newFile := newFiles[0]
	// ---- V1
	r.Guard("V1", func() {
		n := 0
		for _, rv := range returnedValues(act, 0) {
			if T.T(rv.Val) == "nil" {
				continue
			}
			n++
			fs := T.FactsAt(rv.Ret.Block())
			okVal, okErr := false, false
			for _, fl := range fileListeners {
				if T.T(rv.Val) != "ext("+T.T(fl)+",0)" {
					continue
				}
				for _, nf := range newFiles {
					if strip(T.T(fl.Call.Args[0])) == strip(T.T(nf)) {
						okVal = true
					}
				}
				okErr = hasFact(fs, "EQ", "ext("+T.T(fl)+",1)", "nil")
			}
			pidOK, pidEq := pidFacts(fs)
			fdsOK := hasFact(fs, "EQ", "ext("+fdsAtoi+",1)", "nil")
			lo, _ := intervalOf(fs, nfdsT)
			r.Ob("V1", fn, "a listener is returned only as FileListener(NewFile(fd)) that succeeded", rv.Ret.Pos(), okVal && okErr, fmt.Sprintf("returned value %s, FileListener error known nil: %v", strip(T.T(rv.Val)), okErr))
			r.Ob("V1", fn, "activation requires LISTEN_PID to parse and to equal os.Getpid()", rv.Ret.Pos(), pidOK && pidEq, fmt.Sprintf("Atoi(LISTEN_PID) ok known: %v, equality with os.Getpid() known: %v - a socket meant for another process would be taken", pidOK, pidEq))
			r.Ob("V1", fn, "activation requires LISTEN_FDS to parse and to be >= 1", rv.Ret.Pos(), fdsOK && lo >= 1, fmt.Sprintf("Atoi(LISTEN_FDS) ok known: %v, lower bound known: %d", fdsOK, lo))
		}
		if n == 0 {
			r.Ob("V1", fn, "the activation function can return a listener", act.Pos(), false, "no non-nil return: socket activation never takes effect")
		}
		// uintptr(fd) is what NewFile gets
		r.Ob("V1", fn, "os.NewFile receives the selected descriptor", newFile.Pos(), true, strip(T.T(newFile.Call.Args[0])))
	})
	// ---- V2
	r.Guard("V2", func() {
		for _, newFile := range newFiles {
			fdV := newFile.Call.Args[0]
			if cv, ok := fdV.(*ssa.Convert); ok {
				fdV = cv.X
			}
			namesT := env("LISTEN_FDNAMES") // (terms.go: the value half of LookupEnv is written as Getenv)
			splitT := `call:strings.Split(` + namesT + `,const:":")`
			type leaf struct {
				v     ssa.Value
				facts []Fact
				from  *ssa.BasicBlock
				to    *ssa.BasicBlock
			}
			var leaves []leaf
			var walk func(v ssa.Value, facts []Fact, from, to *ssa.BasicBlock, depth int)
			walk = func(v ssa.Value, facts []Fact, from, to *ssa.BasicBlock, depth int) {
				ph, ok := v.(*ssa.Phi)
				if !ok || depth > 4 {
					leaves = append(leaves, leaf{v, facts, from, to})
					return
				}
				// constraints on this phi known downstream (facts mention its term)
				pt := T.T(ph)
				lo, hi := intervalOf(facts, pt)
				for i, e := range ph.Edges {
					pred := ph.Block().Preds[i]
					if k, ok := e.(*ssa.Const); ok && k.Value != nil {
						c := int(k.Int64())
						if c < lo || c > hi {
							continue // excluded by a later test on the path (e.g. the initial -1 against fd < 0)
						}
					}
					fs := append(append([]Fact{}, facts...), T.FactsAt(pred)...)
					fs = append(fs, T.edgeFactsOn(pred, ph.Block())...)
					// facts about an inner phi are established on the edge leaving its block
					walk(e, fs, pred, ph.Block(), depth+1)
				}
			}
			useFacts := T.FactsAt(newFile.Block())
			walk(fdV, useFacts, nil, newFile.Block(), 0)
			if len(leaves) == 0 {
				r.Unresolved("V2", "reaching definitions of the descriptor")
				continue
			}
			for _, lf := range leaves {
				// when the leaf sits behind an inner phi, add the facts of the edge from that phi's block to the outer one
				desc := strip(T.T(lf.v))
				switch x := lf.v.(type) {
				case *ssa.Const:
					c := int(x.Int64())
					lo, hi := intervalOf(lf.facts, nfdsT)
					r.Ob("V2", fn, fmt.Sprintf("descriptor = constant %d", c), newFile.Pos(), c == 3 && lo == 1 && hi == 1,
						fmt.Sprintf("the constant %d is used as descriptor on a path where LISTEN_FDS is known to be in [%d,%d]; only 3 with LISTEN_FDS == 1 is allowed", c, lo, hi))
				case *ssa.BinOp:
					var idx ssa.Value
					if k, ok := x.X.(*ssa.Const); ok && x.Op == token.ADD && k.Int64() == 3 {
						idx = x.Y
					} else if k, ok := x.Y.(*ssa.Const); ok && x.Op == token.ADD && k.Int64() == 3 {
						idx = x.X
					}
					if idx == nil {
						r.Ob("V2", fn, "descriptor = "+desc, newFile.Pos(), false, "the descriptor is not 3 plus the position of the matching name")
						continue
					}
					it := T.T(idx)
					set := hasFact(lf.facts, "EQ", `ext(call:os.LookupEnv(const:"LISTEN_FDNAMES"),1)`, "const:true")
					arity := hasFact(lf.facts, "EQ", "call:len("+splitT+")", nfdsT)
					match := hasFact(lf.facts, "EQ", "index("+splitT+","+it+")", `const:"varlink"`)
					// ascending range index: idx = phi(-1, idx) + 1, bounded by len
					asc := false
					var hdr *ssa.BasicBlock
					if bo, ok := idx.(*ssa.BinOp); ok && bo.Op == token.ADD {
						if ph, ok := bo.X.(*ssa.Phi); ok {
							if k, ok := bo.Y.(*ssa.Const); ok && k.Int64() == 1 && len(ph.Edges) == 2 {
								init, isK := ph.Edges[0].(*ssa.Const)
								if isK && init.Int64() == -1 && ph.Edges[1] == ssa.Value(bo) {
									asc = true
									hdr = ph.Block()
								}
							}
						}
					}
					// ... or a counted loop from 0: idx = phi(0, idx+1)
					if ph, ok := idx.(*ssa.Phi); ok && len(ph.Edges) == 2 {
						init, isK := ph.Edges[0].(*ssa.Const)
						step, isB := ph.Edges[1].(*ssa.BinOp)
						if isK && init.Int64() == 0 && isB && step.Op == token.ADD && step.X == ssa.Value(ph) {
							if k, ok := step.Y.(*ssa.Const); ok && k.Int64() == 1 {
								asc = true
								hdr = ph.Block()
							}
						}
					}
					first := false
					if hdr != nil && lf.to != nil {
						again, _ := reachFromBlock(act, lf.to, func(in ssa.Instruction) bool { return in.Block() == hdr }, nil)
						first = !again
					}
					r.Ob("V2", fn, "descriptor = 3 + position of the first \"varlink\" entry of LISTEN_FDNAMES", newFile.Pos(), set && arity && match && asc && first,
						fmt.Sprintf("LISTEN_FDNAMES set: %v; exactly LISTEN_FDS entries: %v; entry at that position == \"varlink\": %v; ascending range index: %v; loop left at the first match: %v", set, arity, match, asc, first))
				default:
					r.Ob("V2", fn, "descriptor = "+desc, newFile.Pos(), false, "unexpected definition of the descriptor")
				}
			}
		}
		r.Floor("V2", 2)
	})
	// ---- V4 completeness for the single-descriptor case: with a matching pid and LISTEN_FDS == 1 the only fallback
	// is a descriptor that is not a listening socket
	r.Guard("V4", func() {
		var flErrs []string
		for _, fl := range fileListeners {
			flErrs = append(flErrs, "ext("+T.T(fl)+",1)")
		}
		contradicts := func(fs []Fact) bool {
			if hasFact(fs, "NE", "ext("+pidAtoi+",1)", "nil") || hasFact(fs, "NE", "ext("+pidAtoi+",0)", "call:os.Getpid()") || hasFact(fs, "NE", "ext("+fdsAtoi+",1)", "nil") {
				return true
			}
			if hasFact(fs, "NE", nfdsT, "const:1") {
				return true
			}
			lo, hi := intervalOf(fs, nfdsT)
			return lo > 1 || hi < 1
		}
		reach, w := reachInstr(act, nil, func(in ssa.Instruction) bool {
			ret, ok := in.(*ssa.Return)
			if !ok || T.T(ret.Results[0]) != "nil" {
				return false
			}
			for _, flErr := range flErrs {
				if hasFact(T.FactsAt(in.Block()), "NE", flErr, "nil") {
					return false
				}
			}
			return true
		}, nil, func(a, b *ssa.BasicBlock) bool { return contradicts(T.edgeFactsOn(a, b)) })
		r.Ob("V4", fn, "with a matching LISTEN_PID and LISTEN_FDS == 1, descriptor 3 is used unless it is not a listening socket", act.Pos(), !reach,
			"with LISTEN_PID naming this process and exactly one descriptor passed, the function can still fall back to the address for a reason other than FileListener failing (e.g. because of LISTEN_FDNAMES): the single descriptor 3 must be served", witnessPos(p, w)...)
	})
	// ---- V3
	r.Guard("V3", func() { checkSetupV3(r, p, ro, actBuilt) })
}

func checkSetupV3(r *Run, p *Prog, ro *Roles, act *ssa.Function) {
	T := ro.T
	// the listener setup: the nearest exported functions above the activation function (Bind), analysed in their
	// inlined views with the activation function kept as a call - wherever the setup's steps live (the function that
	// consults activation, a sibling helper called before it, the exported entry itself), they are part of the view
	var entries []*ssa.Function
	seen := map[*ssa.Function]bool{act: true}
	work := []*ssa.Function{act}
	for len(work) > 0 {
		g := work[0]
		work = work[1:]
		for _, cs := range ro.CG.Callers[g] {
			c := cs.Fn
			for c.Parent() != nil {
				c = c.Parent()
			}
			if origFn(c) != c || seen[c] || !p.InRepo(c) {
				continue
			}
			seen[c] = true
			if c.Object() != nil && c.Object().Exported() {
				entries = append(entries, c)
			} else {
				work = append(work, c)
			}
		}
	}
	sort.Slice(entries, func(i, j int) bool { return entries[i].Pos() < entries[j].Pos() })
	isAddrPath := func(name string) bool {
		return name == "os.Remove" || name == "os.RemoveAll" || name == "syscall.Unlink" || name == "varlink.listen" || strings.HasPrefix(name, "net.Listen") || name == "net.ListenConfig.Listen"
	}
	n := 0
	seenAt := map[token.Pos]bool{} // address-path calls that are part of a setup view (judged there)
	defer func() {
		// ... and nowhere else: a removal of the socket path or a listen outside the setup (in the reset at the end of
		// serving, in Shutdown) does not know whether the listener was inherited - under socket activation the path
		// named by the address argument is not the service's to touch
		for _, g := range p.LibFuncs() {
			for _, cs := range callsIn(g, false) {
				c, ok := cs.Instr.(*ssa.Call)
				if !ok {
					continue
				}
				if nm := calleeName(&c.Call); !isAddrPath(nm) || nm == "varlink.listen" || seenAt[c.Pos()] {
					continue // (the package's own listen wrapper is judged by the library calls inside it)
				}
				r.Ob("V3", shortName(g), calleeName(&c.Call)+" happens in the listener setup only", c.Pos(), false,
					"the address is used (a socket file removed, an address bound) outside the listener setup, where nothing says whether the listener was inherited: under socket activation the address argument must be ignored")
			}
		}
	}()
	for _, e := range entries {
		f := p.Inlined(e, func(c *ssa.Function) bool { return c == act })
		ro.CG.AddView(f)
		fn := shortName(f)
		var acs []*ssa.Call
		for _, cs := range callsIn(f, false) {
			if staticTarget(cs.Common) != act {
				continue
			}
			if ac, ok := cs.Instr.(*ssa.Call); ok {
				acs = append(acs, ac)
			}
		}
		if len(acs) == 0 {
			continue
		}
		n++
		at := T.T(acs[0])
		// address path only with activation == nil
		for _, b := range f.Blocks {
			for _, in := range b.Instrs {
				c, ok := in.(*ssa.Call)
				if !ok {
					continue
				}
				name := calleeName(&c.Call)
				if !isAddrPath(name) {
					continue
				}
				seenAt[c.Pos()] = true
				r.Ob("V3", fn, name+" only when there is no activation listener", c.Pos(), hasFact(T.FactsAt(b), "EQ", at, "nil"),
					"the address is used (a socket file removed, an address bound) although an inherited listening socket may be available: the address argument must be ignored under socket activation")
			}
		}
		// the activation listener is stored unchanged and never closed
		stored := false
		for _, b := range f.Blocks {
			for _, in := range b.Instrs {
				if st, ok := in.(*ssa.Store); ok && isStoreToServiceField(in, svcF.Listener) {
					var vals []ssa.Value
					var walk func(v ssa.Value, d int)
					walk = func(v ssa.Value, d int) {
						if ph, ok := v.(*ssa.Phi); ok && d < 4 {
							for _, e := range ph.Edges {
								walk(e, d+1)
							}
							return
						}
						vals = append(vals, v)
					}
					walk(st.Val, 0)
					for _, v := range vals {
						if c, ok := v.(*ssa.Call); ok && staticTarget(&c.Call) == act {
							stored = true
						}
					}
				}
				if c, ok := in.(*ssa.Call); ok && c.Call.IsInvoke() && c.Call.Method.Name() == "Close" && T.T(c.Call.Value) == at {
					r.Ob("V3", fn, "the activation listener is never closed by the setup", c.Pos(), false, "the inherited socket is closed and the address is bound instead")
				}
			}
		}
		r.Ob("V3", fn, "a non-nil activation listener becomes the Service's listener unchanged", acs[0].Pos(), stored, "the activation result is not what is stored as listener")
		// on the non-nil edge the store is reached without passing the address path
		for _, b := range f.Blocks {
			for _, s := range b.Succs {
				if !hasFact(T.edgeFactsOn(b, s), "NE", at, "nil") {
					continue
				}
				bad, w := reachFromBlock(f, s, func(in ssa.Instruction) bool {
					c, ok := in.(*ssa.Call)
					if !ok {
						return false
					}
					return isAddrPath(calleeName(&c.Call))
				}, nil)
				r.Ob("V3", fn, "with an activation listener the address path is unreachable", p.InstrPos(b.Instrs[len(b.Instrs)-1]), !bad, "", witnessPos(p, w)...)
			}
		}
	}
	if n == 0 {
		r.Unresolved("V3", "call of the activation function from the listener setup")
	}
}
