package main

import (
	"fmt"
	"go/types"
	"strings"

	"golang.org/x/tools/go/ssa"
)

func init() {
	register(&propDef{
		id: "C15", level: "other", perCfg: true,
		explain: "Necessary structural conditions of C15, decided for all paths of each serving function (found by role and analysed in its inlined view, DESIGN 9.2: the refresh may be written in the loop or in a helper; a listener without a SetDeadline method - none of those this package creates - is assumed away on the `ok == false` edge of the interface test). I1 re-arming: the listener deadline is refreshed (SetDeadline(time.Now().Add(timeout)) on the Service's listener) on every path to Accept that has seen timeout != 0, never on paths with timeout == 0, a failing refresh ends serving with that error, and nothing else in the package sets a listener deadline. I2 decision: the dedicated timeout error is returned only on the accept-timeout edge with the connection counter (read under the mutex) known to be 0; with a non-zero counter the loop goes back to Accept (and thereby re-arms, by I1) without returning. I3 release: every exit of a serving function runs the deferred reset (C14.L1 is re-evaluated here), and the reset closes the listener it drops on every path where one is set - so the endpoint is released on a timeout exit exactly as on shutdown. The counter the decision reads is maintained by the accounting rules C14.L3 (exactly one increment per accepted connection, exactly one decrement per handler exit), which are re-evaluated here because a miscount breaks 'then always'. I2 also: after a failed accept the loop accepts again only after the error was tested for being a timeout. I5 (= C14.L7) an idle stop releases everything a shutdown releases. I2 also: an accept error that is returned is not counted as idle. I4 the counter is written only by the accounting (+1 per accept, -1 per handler exit).",
		notDec:  "Clocks and real expiry times; that a listener deadline makes Accept fail with a timeout error (net contract); 'at once' re-listen behaviour of the operating system.",
		trusted: []string{"net.Listener deadlines: Accept fails with a net.Error whose Timeout() is true once the deadline passes", "closing a listener releases its address (and, with unlink-on-close, its socket file)"},
		run:     runC15,
	})
}

func runC15(r *Run, p *Prog) {
	// I5: an idle stop releases everything a shutdown releases (the reset covers every member the serving call sets)
	siblingRules(r, p, "C14", []string{"L7"}, "I5")
	ro := DiscoverRoles(p)
	T, cg := ro.T, ro.CG
	m := BuildServeModel(p, ro)
	if len(m.Fns) == 0 {
		r.Unresolved("I1", "serving functions")
		return
	}
	ls := ComputeLockSets(p, cg, p.FuncsOf(pkgVarlink))
	// refresh functions: repo functions that call SetDeadline on a value derived from Service.listener
	refresh := map[*ssa.Function]bool{}
	for _, f := range p.FuncsOf(pkgVarlink) {
		for _, cs := range callsIn(f, false) {
			if !cs.Common.IsInvoke() || cs.Common.Method.Name() != "SetDeadline" {
				continue
			}
			recv := strip(T.T(cs.Common.Value))
			isListener := strings.Contains(recv, "."+svcF.Listener) || isNamed(cs.Common.Value.Type(), "net", "Listener")
			if !isListener {
				continue
			}
			refresh[f] = true
			// argument: time.Now().Add(<duration parameter>)
			at := strip(T.T(cs.Common.Args[0]))
			okArg := false
			for _, prm := range f.Params {
				if isNamed(prm.Type(), "time", "Duration") && strings.HasPrefix(at, "call:time.Time.Add(call:time.Now()") && strings.HasSuffix(at, ",param:"+prm.Name()+")") {
					okArg = true
				}
			}
			r.Ob("I1", shortName(f), "listener deadline = time.Now().Add(timeout)", cs.Instr.Pos(), okArg && strings.Contains(recv, "."+svcF.Listener),
				fmt.Sprintf("the accept deadline is set to %s on %s; expected now+timeout on the Service's listener", at, recv))
			// a failing SetDeadline is reported to the caller
			if v, ok := cs.Instr.(ssa.Value); ok {
				et := T.T(v)
				bad := false
				for _, rv := range returnedValues(f, f.Signature.Results().Len()-1) {
					fs := T.FactsAt(rv.Ret.Block())
					if hasFact(fs, "NE", et, "nil") && T.T(rv.Val) != et {
						bad = true
					}
				}
				reach, _ := reachInstr(f, cs.Instr, isNilErrorReturn, nil, func(a, b *ssa.BasicBlock) bool {
					return hasFact(T.edgeFactsOn(a, b), "EQ", et, "nil")
				})
				r.Ob("I1", shortName(f), "a failing SetDeadline is returned", cs.Instr.Pos(), !bad && !reach, "the error of SetDeadline is swallowed: serving continues without an armed timeout")
			}
		}
	}
	if len(refresh) == 0 {
		r.Unresolved("I1", "deadline refresh (SetDeadline on the Service's listener)")
	}
	// in a serving function's inlined view the refresh is the SetDeadline call itself (whether written in the loop
	// or in a helper); a call of a refresh function that was not inlined counts as well
	isRefresh := func(in ssa.Instruction) bool {
		c, ok := in.(*ssa.Call)
		if !ok {
			return false
		}
		if c.Call.IsInvoke() && c.Call.Method.Name() == "SetDeadline" {
			recv := strip(T.T(c.Call.Value))
			return strings.Contains(recv, "."+svcF.Listener) || isNamed(c.Call.Value.Type(), "net", "Listener")
		}
		t := staticTarget(&c.Call)
		return t != nil && refresh[t]
	}
	for _, sf := range m.Fns {
		fn := shortName(sf.Fn)
		if sf.Accept == nil {
			r.Unresolved("I1", fn+": accept call")
			continue
		}
		var toParam string
		for _, prm := range sf.Fn.Params {
			if isNamed(prm.Type(), "time", "Duration") {
				toParam = "param:" + prm.Name()
			}
		}
		if toParam == "" {
			r.Unresolved("I1", fn+": timeout parameter")
			continue
		}
		isAccept := func(in ssa.Instruction) bool { return in == ssa.Instruction(sf.Accept) }
		toFact := func(fs []Fact, nonzero bool) bool {
			for _, f := range fs {
				if (f.A == "const:0" && f.B == toParam) || (f.B == "const:0" && f.A == toParam) {
					if nonzero && f.Op == "NE" || !nonzero && f.Op == "EQ" {
						return true
					}
				}
				if nonzero && f.Op == "LT" && f.A == "const:0" && f.B == toParam {
					return true
				}
			}
			return false
		}
		r.Guard("I1", func() {
			n := 0
			for _, b := range sf.Fn.Blocks {
				for _, in := range b.Instrs {
					if !isRefresh(in) {
						continue
					}
					n++
					c := in.(*ssa.Call)
					fs := T.FactsAt(b)
					argOK := false
					for _, a := range c.Call.Args {
						if at := strip(T.T(a)); at == toParam || strings.HasPrefix(at, "call:time.Time.Add(call:time.Now()") && strings.HasSuffix(at, ","+toParam+")") {
							argOK = true
						}
					}
					r.Ob("I1", fn, "the refresh runs only with timeout != 0 and passes the timeout through", in.Pos(), toFact(fs, true) && argOK,
						fmt.Sprintf("refresh guarded by timeout != 0: %v; timeout parameter passed unchanged: %v (started without a timeout the service must never stop by itself)", toFact(fs, true), argOK))
					// failing refresh ends serving with that error
					et := T.T(c)
					reach, w := reachInstr(sf.Fn, in, func(i ssa.Instruction) bool { return isAccept(i) || isNilErrorReturn(i) }, nil, func(a, bb *ssa.BasicBlock) bool {
						return hasFact(T.edgeFactsOn(a, bb), "EQ", et, "nil")
					})
					r.Ob("I1", fn, "a failing refresh ends serving", in.Pos(), !reach, "after a failed deadline refresh the loop still reaches Accept (unarmed) or returns success", witnessPos(p, w)...)
				}
			}
			if n == 0 {
				r.Ob("I1", fn, "the serving loop refreshes the accept deadline", sf.Accept.Pos(), false, "no deadline refresh in this serving function: an idle timeout can never fire (or fires once relative to bind time)")
				return
			}
			// every path to Accept that crossed timeout != 0 ... passes a refresh after its last Accept:
			// (a) from entry, (b) from Accept itself (loop)
			for _, from := range []ssa.Instruction{nil, sf.Accept} {
				reach, w := reachInstr(sf.Fn, from, isAccept, isRefresh, func(a, b *ssa.BasicBlock) bool {
					return toFact(T.edgeFactsOn(a, b), false) || noDeadlineSupportEdge(a, b)
				})
				what := "from entry"
				if from != nil {
					what = "around the loop"
				}
				r.Ob("I1", fn, "with timeout != 0 every path to Accept ("+what+") re-arms the deadline first", sf.Accept.Pos(), !reach,
					"Accept can be reached with a non-zero timeout without refreshing the listener deadline: the idle period is then measured from an earlier accept (or never), so the service stops while clients are still arriving or never stops", witnessPos(p, w)...)
			}
		})
		r.Guard("I2", func() {
			n := 0
			cnt := ""
			for _, rv := range returnedValues(sf.Fn, sf.Fn.Signature.Results().Len()-1) {
				mi, ok := rv.Val.(*ssa.MakeInterface)
				if !ok || !isNamed(mi.X.Type(), pkgVarlink, "ServiceTimeoutError") {
					continue
				}
				n++
				fs := T.FactsAt(rv.Ret.Block())
				acceptFailed := hasFact(fs, "NE", sf.AcceptEr, "nil")
				to := timeoutFact(fs, true)
				// counter == 0, read under the mutex
				idle := false
				locked := false
				for _, f := range fs {
					for _, t := range []string{f.A, f.B} {
						if strings.HasSuffix(strip(t), "."+m.Counter) {
							_, hi := intervalOf(fs, t)
							lo, _ := intervalOf(fs, t)
							if hi <= 0 && (f.Op == "EQ" || lo >= 0 || hi <= 0) {
								idle = true
								cnt = t
							}
						}
					}
				}
				if idle {
					// the load feeding the comparison must be under the lock
					for _, b := range sf.Fn.Blocks {
						for _, in := range b.Instrs {
							if v, ok := in.(ssa.Value); ok && T.T(v) == cnt {
								if u, ok := in.(*ssa.UnOp); ok && ls != nil && len(ls.At[u]) > 0 {
									locked = true
								}
							}
						}
					}
				}
				r.Ob("I2", fn, "the timeout error is returned only on the accept-timeout edge with zero open connections (counter read under the mutex)", rv.Ret.Pos(),
					acceptFailed && to && idle && locked,
					fmt.Sprintf("return ServiceTimeoutError: after a failed accept=%v, error is a timeout=%v, counter known to be 0=%v, counter read under the mutex=%v - otherwise the service stops while a connection is still open", acceptFailed, to, idle, locked))
			}
			if n == 0 {
				r.Ob("I2", fn, "the serving function returns the dedicated timeout error", sf.Fn.Pos(), false, "no return of ServiceTimeoutError: an idle service never stops with the dedicated error")
				return
			}
			// with a non-zero counter on the timeout edge: no return before the next Accept
			for _, b := range sf.Fn.Blocks {
				for _, s := range b.Succs {
					fs := T.edgeFactsOn(b, s)
					isBusy := false
					for _, f := range fs {
						for _, t := range []string{f.A, f.B} {
							if strings.HasSuffix(strip(t), "."+m.Counter) {
								lo, hi := intervalOf(fs, t)
								if lo > 0 || hi < 0 || f.Op == "NE" {
									isBusy = true
								}
							}
						}
					}
					if !isBusy || !timeoutFact(T.FactsAt(b), true) {
						continue
					}
					reach, w := reachFromBlock(sf.Fn, s, isReturn, func(x, y *ssa.BasicBlock) bool { return false })
					// reachable returns must come after another Accept
					reach2, w2 := reachFromBlockAvoid(sf.Fn, s, func(in ssa.Instruction) bool {
						// leaving because the service was shut down meanwhile (running == false), or with an
						// error of the re-arming itself, is not a stop by idle timeout
						ret, ok := in.(*ssa.Return)
						if !ok {
							return false
						}
						for _, rv := range returnedValues(sf.Fn, sf.Fn.Signature.Results().Len()-1) {
							if rv.Ret != ret {
								continue
							}
							if mi, ok := rv.Val.(*ssa.MakeInterface); ok && isNamed(mi.X.Type(), pkgVarlink, "ServiceTimeoutError") {
								return true
							}
							if T.T(rv.Val) == "nil" && !m.runningFact(T.FactsAt(in.Block()), false) {
								return true
							}
							// the accept error itself (the timeout) handed to the caller ends serving just as well
							if vt := strip(T.T(rv.Val)); strings.Contains(vt, "Accept(") && !m.runningFact(T.FactsAt(in.Block()), false) {
								return true
							}
						}
						return false
					}, isAccept, nil)
					_ = reach
					_ = w
					r.Ob("I2", fn, "with open connections an accept timeout never ends serving: the loop goes back to Accept", p.InstrPos(b.Instrs[len(b.Instrs)-1]), !reach2,
						"on the accept-timeout edge with a non-zero connection counter a return is reachable before the next Accept: the service stops while a connection is open", witnessPos(p, w2)...)
				}
			}
			// after a failed accept nothing sends the loop back to Accept before the error has been asked whether it
			// is the deadline expiry (a retry policy for temporary errors placed first would swallow every expiry)
			for _, b := range sf.Fn.Blocks {
				for _, s := range b.Succs {
					if !hasFact(T.edgeFactsOn(b, s), "NE", sf.AcceptEr, "nil") {
						continue
					}
					again, w0 := reachFromBlockAvoid(sf.Fn, s, isAccept, nil, func(x, y *ssa.BasicBlock) bool {
						fs := T.edgeFactsOn(x, y)
						return timeoutFact(fs, true) || timeoutFact(fs, false)
					})
					r.Ob("I2", fn, "after a failed accept the loop accepts again only once the error was tested for being a timeout", p.InstrPos(b.Instrs[len(b.Instrs)-1]), !again,
						"after a failed accept the loop can go back to Accept without having asked whether the error is the deadline expiry: the idle timeout is swallowed and the service never stops", witnessPos(p, w0)...)
				}
			}
			// the timeout branch is decided by Timeout() of the accept error
			ok, w := mustCross(T, sf.Fn, sf.Accept, func(in ssa.Instruction) bool {
				ret, ok := in.(*ssa.Return)
				if !ok {
					return false
				}
				for _, rv := range returnedValues(sf.Fn, sf.Fn.Signature.Results().Len()-1) {
					if rv.Ret == ret {
						if mi, ok := rv.Val.(*ssa.MakeInterface); ok && isNamed(mi.X.Type(), pkgVarlink, "ServiceTimeoutError") {
							return true
						}
					}
				}
				return false
			}, isAccept, func(fs []Fact) bool { return timeoutFact(fs, true) })
			r.Ob("I2", fn, "the timeout return is reached only through err.Timeout() == true", sf.Accept.Pos(), ok, "the timeout error can be returned for an accept error that is not a timeout", witnessPos(p, w)...)
		})
	}
	// who may set a listener deadline
	r.Guard("I1w", func() {
		for _, f := range p.FuncsOf(pkgVarlink) {
			for _, cs := range callsIn(f, false) {
				name := ""
				var recv ssa.Value
				if cs.Common.IsInvoke() {
					name, recv = cs.Common.Method.Name(), cs.Common.Value
				} else if sc := cs.Common.StaticCallee(); sc != nil && sc.Signature.Recv() != nil && len(cs.Common.Args) > 0 {
					name, recv = sc.Name(), cs.Common.Args[0]
				}
				if name != "SetDeadline" || recv == nil {
					continue
				}
				rt := strip(T.T(recv))
				if strings.Contains(rt, "."+svcF.Listener) || isNamed(recv.Type(), "net", "Listener") || isNamed(recv.Type(), "net", "TCPListener") || isNamed(recv.Type(), "net", "UnixListener") {
					r.Ob("I1", shortName(f), "listener deadline set only by the refresh function", cs.Instr.Pos(), refresh[f], "a second place sets the listener's deadline")
				}
			}
		}
	})
	// I3: release on every exit
	r.Guard("I3", func() {
		for _, rf := range m.Reset {
			ec := newEffectCache(p, T)
			isClose := func(in ssa.Instruction) bool { return ec.closesListener(in) }
			isDrop := func(in ssa.Instruction) bool {
				// the point at which the reference is gone: a direct zero store, or a helper that drops without closing
				if isZeroStoreTo(in, svcF.Listener) {
					return true
				}
				return ec.zeroes(in, svcF.Listener) && !ec.closesListener(in)
			}
			reach, w := reachInstr(rf, nil, isDrop, isClose, func(a, b *ssa.BasicBlock) bool {
				for _, f := range T.edgeFactsOn(a, b) {
					if f.Op == "EQ" && (f.A == "nil" && strings.HasSuffix(strip(f.B), "."+svcF.Listener) || f.B == "nil" && strings.HasSuffix(strip(f.A), "."+svcF.Listener)) {
						return true
					}
				}
				return false
			})
			r.Ob("I3", shortName(rf), "the reset closes the listener it drops, on every path where one is set", rf.Pos(), !reach,
				"the reset can forget a listener without closing it: after a timeout exit the endpoint stays open - later connection attempts hang instead of failing, the socket file remains and the address cannot be served again", witnessPos(p, w)...)
			ok, w2 := everyPathPasses(rf, nil, isReturn, func(in ssa.Instruction) bool { return ec.zeroes(in, svcF.Listener) })
			r.Ob("I3", shortName(rf), "the reset drops the listener reference on every path", rf.Pos(), ok, "", witnessPos(p, w2)...)
		}
		if len(m.Reset) == 0 {
			r.Unresolved("I3", "state reset function")
		}
		for _, sf := range m.Fns {
			var d0 *ssa.Defer
			for _, d := range sf.Defers {
				t := staticTarget(&d.Call)
				if t == nil {
					continue
				}
				for g := range cg.Reach([]*ssa.Function{t}, false) {
					for _, rf := range m.Reset {
						if g == rf {
							d0 = d
						}
					}
				}
			}
			ok := false
			var w []ssa.Instruction
			if d0 != nil {
				ok, w = everyPathPasses(sf.Fn, nil, isReturn, func(in ssa.Instruction) bool { return in == ssa.Instruction(d0) })
				if ok {
					lo, _ := NewPathCounter(p, func(in ssa.Instruction) bool {
						c, isC := in.(*ssa.Call)
						if !isC {
							return false
						}
						for _, rf := range m.Reset {
							if staticTarget(&c.Call) == rf {
								return true
							}
						}
						return false
					}).Summary(staticTarget(&d0.Call))
					ok = lo >= 1
				}
			}
			r.Ob("I3", shortName(sf.Fn), "every exit of the serving function runs the reset (deferred before any return)", sf.Fn.Pos(), ok,
				"an exit of the serving function does not run the reset: the listener stays open after serving ended", witnessPos(p, w)...)
		}
	})
	// accounting the decision relies on (re-evaluated from C14.L3)
	r.Guard("I4", func() {
		isInc := func(in ssa.Instruction) bool {
			st, ok := in.(*ssa.Store)
			if !ok {
				return false
			}
			f, d := counterDelta(ro, st)
			return f == m.Counter && d == +1
		}
		isDec := func(in ssa.Instruction) bool {
			st, ok := in.(*ssa.Store)
			if !ok {
				return false
			}
			f, d := counterDelta(ro, st)
			return f == m.Counter && d == -1
		}
		hs := map[*ssa.Function]bool{}
		for _, sf := range m.Fns {
			if sf.Accept == nil || sf.Go == nil {
				continue
			}
			hs[sf.Handler] = true
			lo, hi, found := NewPathCounter(p, isInc).BetweenStop(sf.Fn, sf.Accept, func(in ssa.Instruction) bool { return in == ssa.Instruction(sf.Go) }, func(in ssa.Instruction) bool { return in == ssa.Instruction(sf.Accept) })
			r.Ob("I4", shortName(sf.Fn), "counter +1 exactly once per accepted connection", sf.Accept.Pos(), found && lo == 1 && hi == 1, fmt.Sprintf("between %d and %d increments", lo, hi))
		}
		for h := range hs {
			lo, hi := NewPathCounter(p, isDec).Summary(h)
			r.Ob("I4", shortName(h), "counter -1 exactly once on every path through the handler", h.Pos(), lo == 1 && hi == 1,
				fmt.Sprintf("between %d and %d decrements: once the last connection has ended the counter is not back at zero, so the next expiry does not stop the service (or stops it early)", lo, hi))
		}
		S := ro.servingSide()
		H := cg.Reach(withOrigins(keysOf(hs)), false)
		for _, f := range p.FuncsOf(pkgVarlink) {
			for _, b := range f.Blocks {
				for _, in := range b.Instrs {
					if st, ok := in.(*ssa.Store); ok {
						if fld, d := counterDelta(ro, st); fld == m.Counter && fld != "" {
							root := f
							for root.Parent() != nil {
								root = root.Parent()
							}
							r.Ob("I4", shortName(f), "counter written only by the accept/handler accounting", st.Pos(), (d == 1 && S[root]) || (d == -1 && (H[f] || H[root])), fmt.Sprintf("delta %+d", d))
						}
					}
				}
			}
		}
	})
}

// noDeadlineSupportEdge: the edge on which the listener turned out not to have a SetDeadline method (`l, ok :=
// listener.(interface{ SetDeadline(time.Time) error })` with ok false, or the default arm of the equivalent type switch).
// The listeners this package creates (unix, tcp, inherited socket) all have one; for any other listener there is no
// deadline to refresh. Stated as an assumption in the evidence.
func noDeadlineSupportEdge(a, b *ssa.BasicBlock) bool {
	if len(a.Instrs) == 0 || len(a.Succs) != 2 || a.Succs[1] != b {
		return false
	}
	ifi, ok := a.Instrs[len(a.Instrs)-1].(*ssa.If)
	if !ok {
		return false
	}
	ex, ok := ifi.Cond.(*ssa.Extract)
	if !ok || ex.Index != 1 {
		return false
	}
	ta, ok := ex.Tuple.(*ssa.TypeAssert)
	if !ok || !ta.CommaOk {
		return false
	}
	it, ok := ta.AssertedType.Underlying().(*types.Interface)
	if !ok {
		return false
	}
	for i := 0; i < it.NumMethods(); i++ {
		if it.Method(i).Name() == "SetDeadline" {
			return true
		}
	}
	return false
}
