package main

// G10 (C07): identifiers of the emitted code. The text the template writes (constants in emission order, splices as
// opaque identifier parts) is cut into Go tokens with the lexical state the walker computed for every stretch, and
// grouped into emitted functions (from a `func` at nesting depth 0 to the brace that closes it). Flow-insensitively,
// within one emitted function:
//   - every plain identifier that is used is declared somewhere in that function (parameter, result, `x :=`, `var x`,
//     range variable), at package level of the emitted file, is a package qualifier of the template, or predeclared;
//   - every variable the function declares is used in it (Go rejects `declared and not used`).
// Both are necessary for the output to compile whatever the description; a deleted or reordered WriteString that drops
// the declaration of `in`, `out`, `err`, `param`, or the only use of one, is reported here without knowing anything
// about the description.

import (
	"fmt"
	"go/token"
	"os"
	"regexp"
	"sort"
	"strings"
)

var goKeywordsAndPredeclared = map[string]bool{}

func init() {
	for _, w := range strings.Fields(`break case chan const continue default defer else fallthrough for func go goto if import
		interface map package range return select struct switch type var
		bool byte complex64 complex128 error float32 float64 int int8 int16 int32 int64 rune string uint uint8 uint16
		uint32 uint64 uintptr any true false iota nil append cap close complex copy delete imag len make new panic print
		println real recover _`) {
		goKeywordsAndPredeclared[w] = true
	}
}

type gTok struct {
	text  string // identifier text, or the punctuation/operator
	ident bool
	dyn   bool // contains a splice: a name that depends on the description
	pos   token.Pos
	brc   int // brace depth before the token
	par   int
}

// genTokens cuts the emitted code into tokens. Strings, runes and comments are skipped (one token "lit" for a literal).
func genTokens(w *genWalker) []gTok {
	var out []gTok
	for _, sg := range w.Segs {
		l := sg.At
		txt := sg.Text
		i := 0
		for i < len(txt) {
			c := txt[i]
			if l.m != lmCode {
				wasStr := l.m == lmStr || l.m == lmRaw || l.m == lmRune
				l = l.feed(c)
				i++
				if wasStr && l.m == lmCode {
					out = append(out, gTok{text: "lit", pos: sg.Pos, brc: l.brc, par: l.par})
				}
				continue
			}
			switch {
			case isIdentByte(c) || c == 0:
				j := i
				dyn := false
				for j < len(txt) && (isIdentByte(txt[j]) || txt[j] == 0) {
					if txt[j] == 0 {
						dyn = true
					}
					j++
				}
				word := txt[i:j]
				isNum := word[0] >= '0' && word[0] <= '9'
				out = append(out, gTok{text: word, ident: !isNum, dyn: dyn, pos: sg.Pos, brc: l.brc, par: l.par})
				for k := i; k < j; k++ {
					if txt[k] != 0 {
						l = l.feed(txt[k])
					}
				}
				i = j
			case c == ' ' || c == '\t' || c == '\n' || c == '\r':
				l = l.feed(c)
				i++
			default:
				// two-byte operators that matter here
				if c == ':' && i+1 < len(txt) && txt[i+1] == '=' {
					out = append(out, gTok{text: ":=", pos: sg.Pos, brc: l.brc, par: l.par})
					l = l.feed(':').feed('=')
					i += 2
					continue
				}
				before := l
				l = l.feed(c)
				i++
				if l.m == lmCode && !l.slash {
					out = append(out, gTok{text: string(c), pos: sg.Pos, brc: before.brc, par: before.par})
				}
			}
		}
	}
	return out
}

type gFunc struct {
	name     string
	pos      token.Pos
	declared map[string]token.Pos
	bodyDecl map[string]token.Pos // declared in the body (:=, var, range): must be used
	used     map[string]token.Pos
	dynDecl  bool // declares a name that is not a constant of the template
	dynUse   bool // uses such a name (possibly one of the declared variables)
}

func emittedIdentifierRules(r *Run, w *genWalker, root string) {
	toks := genTokens(w)
	pkgLevel := map[string]bool{}
	// package-level declarations of the emitted file: `type X`, `func X(`, `var X`, `const X` at depth 0
	for i, t := range toks {
		if t.brc != 0 || t.par != 0 || !t.ident {
			continue
		}
		switch t.text {
		case "type", "var", "const":
			if i+1 < len(toks) && toks[i+1].ident && !toks[i+1].dyn {
				pkgLevel[toks[i+1].text] = true
			}
		case "func":
			if i+2 < len(toks) && toks[i+1].ident && !toks[i+1].dyn && toks[i+2].text == "(" {
				pkgLevel[toks[i+1].text] = true
			}
		}
	}
	// (also by the text alone: a declaration at the start of a line of a constant fragment, wherever the walker thinks
	// the nesting is)
	reTop := regexp.MustCompile(`(?m)^(?:func|type|var|const) ([A-Za-z_][A-Za-z0-9_]*)[ (]`)
	for _, sg := range w.Segs {
		for _, m := range reTop.FindAllStringSubmatch(sg.Text, -1) {
			pkgLevel[m[1]] = true
		}
	}
	for _, fr := range w.Frags {
		for _, m := range reTop.FindAllStringSubmatch(fr.Text, -1) {
			pkgLevel[m[1]] = true
		}
	}
	quals := map[string]bool{}
	for _, q := range strings.Fields("context json fmt varlink strings errors bytes os io time sort strconv") {
		quals[q] = true
	}
	var fns []*gFunc
	var cur *gFunc
	inHeader := false
	for i := 0; i < len(toks); i++ {
		t := toks[i]
		if cur == nil {
			if t.ident && t.text == "func" && t.brc == 0 && t.par == 0 {
				cur = &gFunc{pos: t.pos, declared: map[string]token.Pos{}, bodyDecl: map[string]token.Pos{}, used: map[string]token.Pos{}}
				inHeader = true
				// name: first plain identifier after the receiver
				for j := i + 1; j < len(toks) && j < i+12; j++ {
					if toks[j].text == "(" && toks[j].par == 0 && j > i+1 && toks[j-1].ident {
						cur.name = toks[j-1].text
						break
					}
				}
			}
			continue
		}
		if inHeader {
			if t.text == "{" && t.brc == 0 && t.par == 0 {
				inHeader = false
				continue
			}
			if t.text == "}" && t.brc == 1 && t.par == 0 && false {
				continue
			}
			if t.ident && !t.dyn && !goKeywordsAndPredeclared[t.text] {
				cur.declared[t.text] = t.pos // (parameters, results and - harmlessly - type names of the signature)
			}
			continue
		}
		// body
		if t.text == "}" && t.brc == 1 && t.par == 0 {
			fns = append(fns, cur)
			cur = nil
			continue
		}
		if t.ident && t.dyn {
			// a name built from the template's own values: `var <name>` / `<name> :=` declares something this rule cannot
			// name, and such a name may be a use of any variable
			if i > 0 && toks[i-1].text == "var" || i+1 < len(toks) && toks[i+1].text == ":=" {
				cur.dynDecl = true
			}
			if !(i > 0 && toks[i-1].text == ".") {
				cur.dynUse = true
			}
		}
		if !t.ident || t.dyn || goKeywordsAndPredeclared[t.text] {
			continue
		}
		prev, next := "", ""
		if i > 0 {
			prev = toks[i-1].text
		}
		if i+1 < len(toks) {
			next = toks[i+1].text
		}
		if prev == "." {
			continue // a member or a qualified name
		}
		// declarations: `a, b := ...`, `var a`, `for a, b := range`
		isDecl := false
		_ = next
		if prev == "var" {
			isDecl = true
		} else {
			// identifier list up to `:=`
			j := i
			for j+1 < len(toks) && toks[j+1].text == "," && j+2 < len(toks) && toks[j+2].ident {
				j += 2
			}
			if j+1 < len(toks) && toks[j+1].text == ":=" {
				// ... that starts a statement (after `{`, `;`, newline is not a token: accept when the list is preceded
				// by something that cannot end an expression)
				k := i
				for k-2 >= 0 && toks[k-1].text == "," && toks[k-2].ident {
					k -= 2
				}
				p := ""
				if k > 0 {
					p = toks[k-1].text
				}
				if p == "{" || p == "}" || p == ")" || p == "lit" || p == "if" || p == "for" || p == "switch" || p == "else" || p == ";" || toks[k-1].ident && goKeywordsAndPredeclared[p] || p == "nil" || k == 0 || true {
					isDecl = true
				}
			}
		}
		if isDecl {
			if _, again := cur.declared[t.text]; !again {
				cur.bodyDecl[t.text] = t.pos
			}
			cur.declared[t.text] = t.pos
			continue
		}
		if next == ":" && prev != "?" && prev != "case" {
			// a key of a composite literal or a label: not a use of a variable (a `case x:` is)
			if prev == "{" || prev == "," {
				continue
			}
		}
		cur.used[t.text] = t.pos
	}
	declaredSomewhere := map[string]map[string]bool{}
	for _, f := range fns {
		if declaredSomewhere[f.name] == nil {
			declaredSomewhere[f.name] = map[string]bool{}
		}
		for id := range f.declared {
			declaredSomewhere[f.name][id] = true
		}
		if f.dynDecl {
			for id := range f.used {
				declaredSomewhere[f.name][id] = true // (names are not all known: nothing is decided for this function)
			}
		}
	}
	n := 0
	sort.SliceStable(fns, func(i, j int) bool { return fns[i].pos < fns[j].pos })
	ord := map[string]int{}
	for _, f := range fns {
		n++
		ord[f.name]++
		label := fmt.Sprintf("emitted func %s", f.name)
		if ord[f.name] > 1 {
			label = fmt.Sprintf("emitted func %s (#%d)", f.name, ord[f.name])
		}
		var undeclared, unused []string
		for id := range f.used {
			if _, ok := f.declared[id]; ok || pkgLevel[id] || quals[id] {
				continue
			}
			undeclared = append(undeclared, id)
		}
		for id := range f.bodyDecl {
			if _, ok := f.used[id]; !ok {
				unused = append(unused, id)
			}
		}
		sort.Strings(undeclared)
		sort.Strings(unused)
		if f.dynDecl {
			undeclared = nil
		}
		if f.dynUse {
			unused = nil
		}
		_ = undeclared // (decided path-sensitively below, on the text as the walker feeds it)
		r.Ob("G10", root, label+": every variable declared is used", f.pos, len(unused) == 0,
			"the emitted function declares "+strings.Join(unused, ", ")+" and never uses it: `declared and not used` - the output does not compile")
	}
	// path-sensitive: a use on a path of the template on which the declaration has not been emitted (the declaration
	// sits in the other branch, or further down)
	if os.Getenv("VLDEBUG") == "g10" {
		for fn, ids := range w.UndeclUses {
			fmt.Fprintf(os.Stderr, "G10 undecl %q: %v\n", fn, ids)
		}
	}
	var efns []string
	for fn := range w.UndeclUses {
		efns = append(efns, fn)
	}
	sort.Strings(efns)
	for _, fn := range efns {
		var und []string
		for k := range w.UndeclUses[fn] {
			id, kind, _ := strings.Cut(k, "|")
			if pkgLevel[id] || quals[id] || goKeywordsAndPredeclared[id] {
				continue
			}
			if kind == "branch" {
				// declared on one way into an earlier join only: whether the use is on that way too (the same condition
				// written twice, a value chosen together with the declaration) is not decided
				continue
			}
			if kind == "never" && declaredSomewhere[fn][id] {
				continue // declared further down or under a correlated condition: not decided here
			}
			und = append(und, id)
		}
		sort.Strings(und)
		if len(und) == 0 {
			continue
		}
		r.Ob("G10", root, "emitted func "+fn+": every identifier is declared before it is used on every path through the template", w.funcs[root].Pos(), false,
			"on some path through the template the emitted function uses "+strings.Join(und, ", ")+" before any text declaring it has been written (the declaration is emitted only in another branch, or later): the output does not compile for the descriptions that take that path")
	}
	r.Stat("G10_emitted_functions", n)
	r.Floor("G10", 3)
}
