// vlcheck decides the given properties of varlink/go by static analysis of /repo's current source.
package main

import (
	"encoding/json"
	"flag"
	"fmt"
	"os"
	"os/exec"
	"path/filepath"
	"regexp"
	"sort"
	"strconv"
	"strings"
	"sync"
)

type propDef struct {
	id      string
	level   string
	explain string
	notDec  string
	trusted []string
	assume  []string
	run     func(r *Run, p *Prog)
	perCfg  bool // run under every configuration of the tier (otherwise linux/amd64 only)
}

var registry = map[string]*propDef{}

func register(d *propDef) { registry[d.id] = d }

func main() {
	prop := flag.String("property", "", "property id (C01..C20)")
	tier := flag.String("tier", "quick", "quick|thorough")
	repo := flag.String("repo", "/repo", "repository root")
	verif := flag.String("verif", "", "verification directory (default: parent of the binary's directory, else /verif)")
	list := flag.Bool("list", false, "list implemented properties")
	explain := flag.String("explain", "", "print a violations file in readable form")
	inlTest := flag.Bool("inline-selftest", false, "build the inlined view of every repo function and sanity-check it")
	dumpInl := flag.String("dump-inlined", "", "print the inlined view of the named function (e.g. varlink.Service.Listen)")
	flag.Parse()
	if *inlTest || *dumpInl != "" {
		p := Load(*repo, Config{GOOS: "linux", GOARCH: "amd64"})
		if *dumpInl != "" {
			for _, f := range p.Funcs {
				if funcFullName(f) == *dumpInl {
					if os.Getenv("VLDUMP") == "built" {
						f.WriteTo(os.Stdout) // the function as loaded (after the normalisation pass)
					} else {
						p.Inlined(f, nil).WriteTo(os.Stdout)
					}
				}
			}
			return
		}
		n, ni := inlineSelfTest(p)
		fmt.Printf("inlined views: %d functions, %d with inlined code, all well-formed\n", n, ni)
		return
	}
	if *list {
		var ids []string
		for id := range registry {
			ids = append(ids, id)
		}
		sort.Strings(ids)
		for _, id := range ids {
			fmt.Println(id)
		}
		return
	}
	if *explain != "" {
		b, err := os.ReadFile(*explain)
		if err != nil {
			brokenf("%v", err)
		}
		os.Stdout.Write(b)
		fmt.Println()
		return
	}
	if *verif == "" {
		*verif = "/verif"
		if exe, err := os.Executable(); err == nil {
			d := filepath.Dir(filepath.Dir(exe))
			if _, err := os.Stat(filepath.Join(d, "MANIFEST.json")); err == nil {
				*verif = d
			}
		}
	}
	if t := os.Getenv("VERIF_TIER"); t != "" && *tier == "" {
		*tier = t
	}
	d := registry[*prop]
	if d == nil {
		brokenf("unknown property %q", *prop)
	}
	seed := 0
	if s := os.Getenv("VERIF_SEED"); s != "" {
		seed, _ = strconv.Atoi(s)
	}
	r := NewRun(d.id, *tier, seed)
	r.Level = d.level
	r.explain = d.explain
	r.notDec = d.notDec
	r.trusted = append([]string{"go/packages, go/types and go/ssa (x/tools v0.29.0) represent the source faithfully", "Go language semantics (string immutability, map lookup is exact string equality, defer order)"}, d.trusted...)
	r.assume = d.assume
	cfgs := []Config{{"linux", "amd64"}}
	if *tier == "thorough" && d.perCfg {
		cfgs = append(cfgs, Config{"linux", "386"}, Config{"windows", "amd64"})
	}
	for _, c := range cfgs {
		p := Load(*repo, c)
		r.P = p
		r.Configs = append(r.Configs, c.String())
		r.Stat("packages_loaded", p.npkgs)
		r.Stat("repo_functions", len(p.Funcs))
		r.Stat("functions_with_function_literal_blocks_normalised", p.normalised)
		d.run(r, p)
	}
	if *tier == "thorough" && os.Getenv("VLCHECK_NO_SELFTEST") == "" {
		selfTest(r, *repo, *verif)
	}
	r.Finish(*verif)
}

// selfTest (thorough tier): every independently written breaking change filed under <verif>/seeded that this
// property's check is recorded to report is applied to a scratch copy of the CURRENT /repo tree (outside /repo and
// /verif, removed afterwards) and the quick check is run against the copy in a separate process. The result is
// recorded in the evidence; it never influences the verdict on /repo (if /repo was edited a patch may simply not apply).
func selfTest(r *Run, repo, verif string) {
	type res struct {
		ID       string   `json:"id"`
		Outcome  string   `json:"outcome"` // detected | missed | not_applicable
		Rules    []string `json:"rules,omitempty"`
		Expected []string `json:"expected_rules,omitempty"`
	}
	metas, _ := filepath.Glob(filepath.Join(verif, "seeded", "*", "meta.json"))
	sort.Strings(metas)
	exe, err := os.Executable()
	if err != nil {
		return
	}
	var out []res
	applied, detected, na := 0, 0, 0
	var wgS sync.WaitGroup
	var muS sync.Mutex // guards out and the counters; released while the child process runs
	semS := make(chan struct{}, 8)
	for _, mf := range metas {
		b, err := os.ReadFile(mf)
		if err != nil {
			continue
		}
		var meta struct {
			ID      string              `json:"id"`
			Reports map[string][]string `json:"checks_reporting"`
		}
		if json.Unmarshal(b, &meta) != nil {
			continue
		}
		exp, mine := meta.Reports[r.Property]
		if !mine {
			continue
		}
		tmp, err := os.MkdirTemp("", "vlcheck-selftest-")
		if err != nil {
			continue
		}
		wgS.Add(1)
		go func() {
			defer wgS.Done()
			semS <- struct{}{}
			defer func() { <-semS }()
			muS.Lock()
			defer muS.Unlock()
			defer os.RemoveAll(tmp)
			tree := filepath.Join(tmp, "tree")
			ev := filepath.Join(tmp, "verif")
			os.MkdirAll(filepath.Join(ev, "evidence"), 0o755)
			os.WriteFile(filepath.Join(ev, "MANIFEST.json"), []byte("{}"), 0o644)
			if kf, err := os.ReadFile(filepath.Join(verif, "known_findings.json")); err == nil {
				os.WriteFile(filepath.Join(ev, "known_findings.json"), kf, 0o644)
			}
			if err := exec.Command("rsync", "-a", "--exclude", ".git", repo+"/", tree+"/").Run(); err != nil {
				out = append(out, res{ID: meta.ID, Outcome: "not_applicable"})
				na++
				return
			}
			ap := exec.Command("patch", "-p1", "-s", "-f", "-i", filepath.Join(filepath.Dir(mf), "patch.diff"))
			ap.Dir = tree
			if err := ap.Run(); err != nil {
				out = append(out, res{ID: meta.ID, Outcome: "not_applicable", Expected: exp})
				na++
				return
			}
			applied++
			c := exec.Command(exe, "-property", r.Property, "-tier", "quick", "-repo", tree, "-verif", ev)
			c.Env = append(os.Environ(), "VLCHECK_NO_SELFTEST=1")
			muS.Unlock()
			o, _ := c.CombinedOutput()
			muS.Lock()
			code := c.ProcessState.ExitCode()
			var rules []string
			seen := map[string]bool{}
			for _, m := range regexp.MustCompile(`\[`+r.Property+`\.(\w+)\]`).FindAllStringSubmatch(string(o), -1) {
				if !seen[m[1]] {
					seen[m[1]] = true
					rules = append(rules, m[1])
				}
			}
			sort.Strings(rules)
			if code == 1 {
				detected++
				out = append(out, res{ID: meta.ID, Outcome: "detected", Rules: rules, Expected: exp})
			} else {
				out = append(out, res{ID: meta.ID, Outcome: "missed", Expected: exp})
			}
		}()
	}
	wgS.Wait()
	sort.Slice(out, func(i, j int) bool { return out[i].ID < out[j].ID })
	// the other direction: behaviour-preserving refactorings (extract/inline helper, renamed locals, if-chain <-> switch,
	// closures handed to shared helpers, ...) must not make this property's check report
	benign, _ := filepath.Glob(filepath.Join(verif, "benign", "*.diff"))
	sort.Strings(benign)
	type bres struct {
		Name    string `json:"name"`
		Outcome string `json:"outcome"` // silent | reported | not_applicable
	}
	bout := make([]bres, len(benign))
	sem := make(chan struct{}, 8)
	var wgB sync.WaitGroup
	for i, bp := range benign {
		wgB.Add(1)
		go func(i int, bp string) {
			defer wgB.Done()
			sem <- struct{}{}
			defer func() { <-sem }()
			name := strings.TrimSuffix(filepath.Base(bp), ".diff")
			bout[i] = bres{Name: name, Outcome: "not_applicable"}
			tmp, err := os.MkdirTemp("", "vlcheck-selftest-")
			if err != nil {
				return
			}
			defer os.RemoveAll(tmp)
			tree := filepath.Join(tmp, "tree")
			ev := filepath.Join(tmp, "verif")
			os.MkdirAll(filepath.Join(ev, "evidence"), 0o755)
			os.WriteFile(filepath.Join(ev, "MANIFEST.json"), []byte("{}"), 0o644)
			if kf, err := os.ReadFile(filepath.Join(verif, "known_findings.json")); err == nil {
				os.WriteFile(filepath.Join(ev, "known_findings.json"), kf, 0o644)
			}
			if exec.Command("rsync", "-a", "--exclude", ".git", repo+"/", tree+"/").Run() != nil {
				return
			}
			ap := exec.Command("patch", "-p1", "-s", "-f", "-i", bp)
			ap.Dir = tree
			if ap.Run() != nil {
				return
			}
			c := exec.Command(exe, "-property", r.Property, "-tier", "quick", "-repo", tree, "-verif", ev)
			c.Env = append(os.Environ(), "VLCHECK_NO_SELFTEST=1")
			c.CombinedOutput()
			switch c.ProcessState.ExitCode() {
			case 0:
				bout[i].Outcome = "silent"
			case 1:
				bout[i].Outcome = "reported"
			}
		}(i, bp)
	}
	wgB.Wait()
	silent, reported := 0, 0
	for _, b := range bout {
		switch b.Outcome {
		case "silent":
			silent++
		case "reported":
			reported++
		}
	}
	r.extra["selftest_benign"] = map[string]interface{}{
		"what":     "behaviour-preserving refactorings (written by sub-agents that saw only the source) applied one at a time to a scratch copy of the current tree; the quick check must stay silent on each",
		"applied":  silent + reported,
		"silent":   silent,
		"reported": reported,
		"results":  bout,
	}
	fmt.Printf("  selftest: %d behaviour-preserving refactoring(s) applied to a scratch copy, %d silent, %d reported\n", silent+reported, silent, reported)
	r.extra["selftest"] = map[string]interface{}{
		"what":           "seeded breaking changes (written by sub-agents that saw only the property text) applied one at a time to a scratch copy of the current tree; the quick check must report each",
		"applied":        applied,
		"detected":       detected,
		"not_applicable": na,
		"results":        out,
	}
	fmt.Printf("  selftest: %d seeded change(s) applied to a scratch copy, %d detected, %d not applicable\n", applied, detected, na)
}
