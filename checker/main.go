// vlcheck decides the given properties of varlink/go by static analysis of /repo's current source.
package main

import (
	"flag"
	"fmt"
	"os"
	"path/filepath"
	"sort"
	"strconv"
)

type propDef struct {
	id      string
	level   string
	explain string
	notDec  string
	trusted []string
	assume  []string
	run     func(r *Run, p *Prog)
	perCfg  bool // run under every configuration of the tier (otherwise linux/amd64 only)
}

var registry = map[string]*propDef{}

func register(d *propDef) { registry[d.id] = d }

func main() {
	prop := flag.String("property", "", "property id (C01..C20)")
	tier := flag.String("tier", "quick", "quick|thorough")
	repo := flag.String("repo", "/repo", "repository root")
	verif := flag.String("verif", "", "verification directory (default: parent of the binary's directory, else /verif)")
	list := flag.Bool("list", false, "list implemented properties")
	explain := flag.String("explain", "", "print a violations file in readable form")
	flag.Parse()
	if *list {
		var ids []string
		for id := range registry {
			ids = append(ids, id)
		}
		sort.Strings(ids)
		for _, id := range ids {
			fmt.Println(id)
		}
		return
	}
	if *explain != "" {
		b, err := os.ReadFile(*explain)
		if err != nil {
			brokenf("%v", err)
		}
		os.Stdout.Write(b)
		fmt.Println()
		return
	}
	if *verif == "" {
		*verif = "/verif"
		if exe, err := os.Executable(); err == nil {
			d := filepath.Dir(filepath.Dir(exe))
			if _, err := os.Stat(filepath.Join(d, "MANIFEST.json")); err == nil {
				*verif = d
			}
		}
	}
	if t := os.Getenv("VERIF_TIER"); t != "" && *tier == "" {
		*tier = t
	}
	d := registry[*prop]
	if d == nil {
		brokenf("unknown property %q", *prop)
	}
	seed := 0
	if s := os.Getenv("VERIF_SEED"); s != "" {
		seed, _ = strconv.Atoi(s)
	}
	r := NewRun(d.id, *tier, seed)
	r.Level = d.level
	r.explain = d.explain
	r.notDec = d.notDec
	r.trusted = append([]string{"go/packages, go/types and go/ssa (x/tools v0.29.0) represent the source faithfully", "Go language semantics (string immutability, map lookup is exact string equality, defer order)"}, d.trusted...)
	r.assume = d.assume
	cfgs := []Config{{"linux", "amd64"}}
	if *tier == "thorough" && d.perCfg {
		cfgs = append(cfgs, Config{"linux", "386"}, Config{"windows", "amd64"})
	}
	for _, c := range cfgs {
		p := Load(*repo, c)
		r.P = p
		r.Configs = append(r.Configs, c.String())
		r.Stat("packages_loaded", p.npkgs)
		r.Stat("repo_functions", len(p.Funcs))
		d.run(r, p)
	}
	r.Finish(*verif)
}
