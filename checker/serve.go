package main

// Model of the serving side found by role (shared by C14, C15, C10, C01):
// serving functions (callers of net.Listener.Accept), their accept loop, the deferred reset, the handler
// goroutine, the connection counter, and an interprocedural path counter that understands defers.

import (
	"go/token"
	"go/types"
	"strings"

	"golang.org/x/tools/go/ssa"
)

type ServeFn struct {
	Fn       *ssa.Function
	Accept   *ssa.Call // invoke Accept() on a net.Listener
	Go       *ssa.Go   // go handler(...)
	Handler  *ssa.Function
	Defers   []*ssa.Defer
	WG       ssa.Value // the WaitGroup allocation
	AcceptEr string    // term of Accept's error result
}

type ServeModel struct {
	ro      *Roles
	Fns     []*ServeFn
	Reset   []*ssa.Function // functions reachable from a serving function's defer that store nil to Service.listener
	Counter string          // name of the Service field used as connection counter (int field incremented in serving fns)
	Getters map[string]bool // running getters (term prefixes)
}

func BuildServeModel(p *Prog, ro *Roles) *ServeModel {
	m := &ServeModel{ro: ro, Getters: runningGetters(p, ro)}
	T := ro.T
	for _, f := range ro.Serving {
		sf := &ServeFn{Fn: f}
		for _, b := range f.Blocks {
			for _, in := range b.Instrs {
				switch x := in.(type) {
				case *ssa.Call:
					if x.Call.IsInvoke() && x.Call.Method.Name() == "Accept" && isNamed(x.Call.Value.Type(), "net", "Listener") {
						sf.Accept = x
						sf.AcceptEr = "ext(" + T.T(x) + ",1)"
					}
				case *ssa.Go:
					if t := staticTarget(&x.Call); t != nil && p.InRepo(t) {
						sf.Go = x
						sf.Handler = t
					}
				case *ssa.Defer:
					sf.Defers = append(sf.Defers, x)
				case *ssa.Alloc:
					if pt, ok := x.Type().(*types.Pointer); ok && isNamed(pt.Elem(), "sync", "WaitGroup") {
						sf.WG = x
					}
				}
			}
		}
		m.Fns = append(m.Fns, sf)
	}
	// counter: integer Service field that a serving function stores load+1 into
	if ro.ServiceT != nil {
		for _, sf := range m.Fns {
			for _, b := range sf.Fn.Blocks {
				for _, in := range b.Instrs {
					if st, ok := in.(*ssa.Store); ok {
						if fld, d := counterDelta(ro, st); d == +1 {
							m.Counter = fld
						}
					}
				}
			}
		}
	}
	// reset functions: called from a serving function's deferred closure and dropping the listener on every path
	ec := newEffectCache(p, ro.T)
	for _, sf := range m.Fns {
		for _, d := range sf.Defers {
			t := staticTarget(&d.Call)
			if t == nil || !p.InRepo(t) {
				continue
			}
			found := false
			for _, cs := range callsIn(t, false) {
				if c := staticTarget(cs.Common); c != nil && p.InRepo(c) && ec.zeroesOnEveryPath(c, svcF.Listener) {
					m.Reset = appendFn(m.Reset, c)
					found = true
				}
			}
			if !found && ec.zeroesOnEveryPath(t, svcF.Listener) {
				m.Reset = appendFn(m.Reset, t)
			}
		}
	}
	return m
}

// counterDelta: st stores load(f)+1 / load(f)-1 into integer field f of Service: returns (field, +1/-1); other stores
// to an integer Service field return (field, 0).
func counterDelta(ro *Roles, st *ssa.Store) (string, int) {
	fa, ok := st.Addr.(*ssa.FieldAddr)
	if !ok || !isServiceState(fa.X.Type()) {
		return "", 0
	}
	b, ok := fa.Type().(*types.Pointer).Elem().Underlying().(*types.Basic)
	if !ok || b.Info()&types.IsInteger == 0 {
		return "", 0
	}
	name := fieldName(fa.X, fa.Field)
	bo, ok := st.Val.(*ssa.BinOp)
	if !ok {
		return name, 0
	}
	ld, ok := bo.X.(*ssa.UnOp)
	if !ok || ld.Op != token.MUL {
		return name, 0
	}
	lfa, ok := ld.X.(*ssa.FieldAddr)
	if !ok || lfa.Field != fa.Field || strip(ro.T.T(lfa.X)) != strip(ro.T.T(fa.X)) {
		return name, 0
	}
	k, ok := bo.Y.(*ssa.Const)
	if !ok || (k.Int64() != 1 && k.Int64() != -1) {
		return name, 0
	}
	d := int(k.Int64()) // (`counter += -1`, the constant argument of an inlined `add(delta)` helper)
	switch bo.Op {
	case token.ADD:
		return name, d
	case token.SUB:
		return name, -d
	}
	return name, 0
}

// ---------------------------------------------------------------------------
// interprocedural path counting with defers

type PathCounter struct {
	p *Prog
	// NoDescend: a matching call counts as one and its callee is not entered
	NoDescend bool
	match     func(ssa.Instruction) bool
	memo      map[*ssa.Function][2]int
	busy      map[*ssa.Function]bool
}

func NewPathCounter(p *Prog, match func(ssa.Instruction) bool) *PathCounter {
	return &PathCounter{p: p, match: match, memo: map[*ssa.Function][2]int{}, busy: map[*ssa.Function]bool{}}
}

func sat2(x int) int {
	if x > 2 {
		return 2
	}
	return x
}

// weight of executing one instruction: (min,max) matches, following static repo callees and running defers.
func (pc *PathCounter) weight(fn *ssa.Function, in ssa.Instruction) (int, int) {
	lo, hi := 0, 0
	switch in.(type) {
	case *ssa.Defer, *ssa.Go:
		// a deferred call is counted where it runs (rundefers); a go statement runs in another goroutine
	default:
		if pc.match(in) {
			lo, hi = 1, 1
		}
	}
	if pc.NoDescend && lo == 1 {
		return lo, hi
	}
	switch x := in.(type) {
	case *ssa.Call:
		if t := staticTarget(&x.Call); t != nil && pc.p.InRepo(t) {
			a, b := pc.Summary(t)
			lo, hi = lo+a, hi+b
		}
	case *ssa.RunDefers:
		for _, b := range fn.Blocks {
			for _, i2 := range b.Instrs {
				d, ok := i2.(*ssa.Defer)
				if !ok {
					continue
				}
				t := staticTarget(&d.Call)
				a, c := 0, 0
				if t != nil && pc.p.InRepo(t) {
					a, c = pc.Summary(t)
				} else if pc.match(d) {
					a, c = 1, 1
				}
				// registered on every path to this rundefers?
				if reach, _ := reachInstr(fn, nil, func(i ssa.Instruction) bool { return i == in }, func(i ssa.Instruction) bool { return i == ssa.Instruction(d) }, nil); reach {
					a = 0 // may not have been registered
				}
				// registered at all before this point?
				if r2, _ := reachInstr(fn, d, func(i ssa.Instruction) bool { return i == in }, nil, nil); !r2 {
					a, c = 0, 0
				}
				lo, hi = lo+a, hi+c
			}
		}
	}
	return lo, sat2(hi)
}

// Summary: (min,max) number of matches on any path entry -> return of fn.
func (pc *PathCounter) Summary(fn *ssa.Function) (int, int) {
	if v, ok := pc.memo[fn]; ok {
		return v[0], v[1]
	}
	if pc.busy[fn] || fn.Blocks == nil {
		return 0, 2
	}
	pc.busy[fn] = true
	lo, hi := pc.Between(fn, nil, isReturn)
	delete(pc.busy, fn)
	pc.memo[fn] = [2]int{lo, hi}
	return lo, hi
}

// Between: (min,max) matches on paths from just after `from` (nil = entry) to the first instruction satisfying end
// (end itself is not counted). Returns (0,0) with hi=-1 semantics folded: if no path exists returns (0,0).
func (pc *PathCounter) Between(fn *ssa.Function, from ssa.Instruction, end func(ssa.Instruction) bool) (int, int) {
	type mm struct{ lo, hi int }
	in := map[*ssa.BasicBlock]mm{}
	startB, startI := fn.Blocks[0], 0
	if from != nil {
		startB, startI = from.Block(), instrIndex(from)+1
	}
	resLo, resHi := 99, -1
	process := func(b *ssa.BasicBlock, i int, v mm) (mm, bool) {
		for ; i < len(b.Instrs); i++ {
			x := b.Instrs[i]
			if end(x) {
				resLo, resHi = min(resLo, v.lo), max(resHi, v.hi)
				return v, false
			}
			a, c := pc.weight(fn, x)
			v.lo, v.hi = sat2(v.lo+a), sat2(v.hi+c)
			switch x.(type) {
			case *ssa.Return, *ssa.Panic:
				return v, false
			}
		}
		return v, true
	}
	var work []*ssa.BasicBlock
	push := func(s *ssa.BasicBlock, v mm) {
		old, ok := in[s]
		nv := v
		if ok {
			nv = mm{min(old.lo, v.lo), max(old.hi, v.hi)}
			if nv == old {
				return
			}
		}
		in[s] = nv
		work = append(work, s)
	}
	v, cont := process(startB, startI, mm{0, 0})
	if cont {
		for _, s := range startB.Succs {
			push(s, v)
		}
	}
	for len(work) > 0 {
		b := work[0]
		work = work[1:]
		v, cont := process(b, 0, in[b])
		if cont {
			for _, s := range b.Succs {
				push(s, v)
			}
		}
	}
	if resHi < 0 {
		return 0, 0
	}
	return resLo, resHi
}

// isCallTo: instruction is a Call/Defer/Go of a function with the given full name.
func isCallNamed(in ssa.Instruction, names ...string) bool {
	ci, ok := in.(ssa.CallInstruction)
	if !ok {
		return false
	}
	n := calleeName(ci.Common())
	for _, w := range names {
		if n == w {
			return true
		}
	}
	return false
}

// zeroStoreTo: st stores the zero value to Service field fld.
func isZeroStoreTo(in ssa.Instruction, fld string) bool {
	st, ok := in.(*ssa.Store)
	if !ok {
		return false
	}
	fa, ok := st.Addr.(*ssa.FieldAddr)
	if !ok || !isServiceState(fa.X.Type()) {
		return false
	}
	c, ok := st.Val.(*ssa.Const)
	if !ok {
		return false
	}
	if fieldName(fa.X, fa.Field) != fld {
		// the zero value of a nested state struct clears all of its members (`s.endpoint = endpoint{}`)
		return c.Value == nil && structHasField(fa.Type().(*types.Pointer).Elem(), fld, 0)
	}
	if c.Value == nil {
		return true
	}
	s := constTerm(c)
	return s == `const:""` || s == "const:false" || s == "const:0"
}

// structHasField: t is a struct with a member named fld, directly or in a nested struct member.
func structHasField(t types.Type, fld string, depth int) bool {
	st, ok := t.Underlying().(*types.Struct)
	if !ok || depth > 3 {
		return false
	}
	for i := 0; i < st.NumFields(); i++ {
		if st.Field(i).Name() == fld || structHasField(st.Field(i).Type(), fld, depth+1) {
			return true
		}
	}
	return false
}

func isStoreToServiceField(in ssa.Instruction, fld string) bool {
	st, ok := in.(*ssa.Store)
	if !ok {
		return false
	}
	fa, ok := st.Addr.(*ssa.FieldAddr)
	return ok && isServiceState(fa.X.Type()) && fieldName(fa.X, fa.Field) == fld
}

func trimRecv(loc string) string {
	if i := strings.LastIndex(loc, "."); i >= 0 {
		return loc[i+1:]
	}
	return loc
}

// BetweenStop is Between with barrier instructions: paths that execute an instruction satisfying stop are dropped.
func (pc *PathCounter) BetweenStop(fn *ssa.Function, from ssa.Instruction, end, stop func(ssa.Instruction) bool) (int, int, bool) {
	startB, startI := fn.Blocks[0], 0
	if from != nil {
		startB, startI = from.Block(), instrIndex(from)+1
	}
	return pc.FromPos(fn, startB, startI, end, stop)
}

// FromPos counts from instruction index startI of block startB.
func (pc *PathCounter) FromPos(fn *ssa.Function, startB *ssa.BasicBlock, startI int, end, stop func(ssa.Instruction) bool) (int, int, bool) {
	type mm struct{ lo, hi int }
	in := map[*ssa.BasicBlock]mm{}
	resLo, resHi := 99, -1
	process := func(b *ssa.BasicBlock, i int, v mm) (mm, bool) {
		for ; i < len(b.Instrs); i++ {
			x := b.Instrs[i]
			if end(x) {
				resLo, resHi = min(resLo, v.lo), max(resHi, v.hi)
				return v, false
			}
			if stop != nil && stop(x) {
				return v, false
			}
			a, c := pc.weight(fn, x)
			v.lo, v.hi = sat2(v.lo+a), sat2(v.hi+c)
			switch x.(type) {
			case *ssa.Return, *ssa.Panic:
				return v, false
			}
		}
		return v, true
	}
	var work []*ssa.BasicBlock
	push := func(s *ssa.BasicBlock, v mm) {
		old, ok := in[s]
		nv := v
		if ok {
			nv = mm{min(old.lo, v.lo), max(old.hi, v.hi)}
			if nv == old {
				return
			}
		}
		in[s] = nv
		work = append(work, s)
	}
	v, cont := process(startB, startI, mm{0, 0})
	if cont {
		for _, s := range startB.Succs {
			push(s, v)
		}
	}
	for len(work) > 0 {
		b := work[0]
		work = work[1:]
		v, cont := process(b, 0, in[b])
		if cont {
			for _, s := range b.Succs {
				push(s, v)
			}
		}
	}
	if resHi < 0 {
		return 0, 0, false
	}
	return resLo, resHi, true
}

// runningFact: fs says the running flag (field load or getter) has truth value pol.
func (m *ServeModel) runningFact(fs []Fact, pol bool) bool {
	want := ifs(pol, "const:true", "const:false")
	for _, f := range fs {
		if f.Op == "EQ" && (f.B == want && isRunningTerm(f.A, m.Getters) || f.A == want && isRunningTerm(f.B, m.Getters)) {
			return true
		}
	}
	// the lifecycle kept as an enumeration: `state == stateServing` / `state != stateServing` / `state == <another state>`
	if svcF.RunningVal != "" {
		for _, f := range fs {
			for _, pr := range [][2]string{{f.A, f.B}, {f.B, f.A}} {
				if !strings.HasSuffix(strip(pr[0]), "."+svcF.Running) || !strings.HasPrefix(pr[1], "const:") {
					continue
				}
				isServing := pr[1] == svcF.RunningVal
				switch {
				case f.Op == "EQ" && isServing && pol, f.Op == "NE" && isServing && !pol, f.Op == "EQ" && !isServing && !pol:
					return true
				}
			}
		}
	}
	return false
}

// timeoutFact: fs says <accept error>.Timeout() has truth value pol.
func timeoutFact(fs []Fact, pol bool) bool {
	want := ifs(pol, "const:true", "const:false")
	for _, f := range fs {
		if f.Op != "EQ" {
			continue
		}
		for _, pr := range [][2]string{{f.A, f.B}, {f.B, f.A}} {
			if pr[1] == want && strings.HasPrefix(strip(pr[0]), "call:invoke:Timeout(") {
				return true
			}
		}
	}
	return false
}

// ---- effects through helpers

type effectCache struct {
	p      *Prog
	T      *Terms
	zero   map[string]map[*ssa.Function]int // field -> function -> 0 unknown, 1 yes, 2 no
	closes map[*ssa.Function]int
}

func newEffectCache(p *Prog, T *Terms) *effectCache {
	return &effectCache{p: p, T: T, zero: map[string]map[*ssa.Function]int{}, closes: map[*ssa.Function]int{}}
}

// zeroesOnEveryPath: every path through f stores the zero value to Service.<fld>, directly or through a repo callee that does.
func (ec *effectCache) zeroesOnEveryPath(f *ssa.Function, fld string) bool {
	if f == nil || f.Blocks == nil {
		return false
	}
	if ec.zero[fld] == nil {
		ec.zero[fld] = map[*ssa.Function]int{}
	}
	switch ec.zero[fld][f] {
	case 1:
		return true
	case 2, 3:
		return false
	}
	ec.zero[fld][f] = 3 // in progress: recursion does not count
	// a path on which the member is already known to hold its zero value needs no store
	reach, _ := reachInstr(f, nil, isReturn, func(in ssa.Instruction) bool { return ec.zeroes(in, fld) }, func(a, b *ssa.BasicBlock) bool {
		for _, fc := range ec.T.edgeFactsOn(a, b) {
			if fc.Op != "EQ" {
				continue
			}
			for _, pr := range [][2]string{{fc.A, fc.B}, {fc.B, fc.A}} {
				if strings.HasSuffix(strip(pr[0]), "."+fld) && (pr[1] == "nil" || pr[1] == "const:false" || pr[1] == `const:""` || pr[1] == "const:0") {
					return true
				}
			}
		}
		return false
	})
	ok := !reach
	ec.zero[fld][f] = ifi(ok, 1, 2)
	return ok
}

// zeroes: the instruction stores the zero value to Service.<fld>, or calls a repo function that does so on every path.
func (ec *effectCache) zeroes(in ssa.Instruction, fld string) bool {
	if isZeroStoreTo(in, fld) {
		return true
	}
	if c, ok := in.(*ssa.Call); ok {
		if t := staticTarget(&c.Call); t != nil && ec.p.InRepo(t) {
			return ec.zeroesOnEveryPath(t, fld)
		}
	}
	return false
}

// closesListener: the instruction invokes Close on the Service's listener (the loaded member or a copy of it), or calls
// a repo function that contains such a call.
func (ec *effectCache) closesListener(in ssa.Instruction) bool {
	c, ok := in.(*ssa.Call)
	if !ok {
		return false
	}
	if c.Call.IsInvoke() && c.Call.Method.Name() == "Close" && strings.HasSuffix(strip(ec.T.T(c.Call.Value)), "."+svcF.Listener) {
		return true
	}
	t := staticTarget(&c.Call)
	if t == nil || !ec.p.InRepo(t) || t.Blocks == nil {
		return false
	}
	switch ec.closes[t] {
	case 1:
		return true
	case 2, 3:
		return false
	}
	ec.closes[t] = 3
	found := false
	for _, b := range t.Blocks {
		for _, i2 := range b.Instrs {
			if ec.closesListener(i2) {
				found = true
			}
		}
	}
	ec.closes[t] = ifi(found, 1, 2)
	return found
}

func ifi(c bool, a, b int) int {
	if c {
		return a
	}
	return b
}
