package main

import (
	"fmt"
	"go/token"
	"sort"
	"strings"

	"golang.org/x/tools/go/ssa"
)

func init() {
	register(&propDef{
		id: "C14", level: "other", perCfg: true,
		explain: "Necessary structural conditions of C14, decided for all paths of each serving function (found by role: the outermost functions whose inlined view calls net.Listener.Accept - the accept loop, the refresh and the reset may be written out or factored into helpers; each is checked on its own, which is the sibling cross-check between Listen and DoListen). L1: a deferred closure registered before any return runs the state reset and then wg.Wait() on the same WaitGroup the handlers release - draining on every exit. L2: Accept is called on the listener read under the mutex. L3 accounting: between a successful Accept and the `go handler` there is exactly one counter increment and exactly one wg.Add(1) on every path, every successful accept reaches the `go` before the next accept or any return, the handler receives that connection and that WaitGroup, the handler executes exactly one decrement and one Done on every path (defers included), and nothing else in the package writes the counter. L4 exit protocol: every path to Accept re-tests `running`; not-running exits return nil; on a non-timeout accept error the function returns nil when not running and the accept error otherwise. L5: Shutdown stores running=false on every path before closing the current listener (or finds no listener), synchronously. L6: Bind's refusal on `running` touches neither address nor listener. L7: the reset clears exactly the fields written on the bind path plus `running`, and closes the listener it drops. L5 also: Shutdown waits for nothing but the mutex (no channel operation, WaitGroup/Cond wait or sleep), since a method handler may issue it. L5/L6 are decided in the inlined views of Shutdown and Bind (the effects may live in a helper of a nested state struct, the flag may be read through a getter). L9 (= C10.S9) nothing in the handler waits for the peer outside the context-aware wrapper. L4 also: the running mark is set before the first Accept and the listener is tested non-nil before use. L8 (= C17.D1-D3,D5), L10 (= C10.S1,S2) a bad or incomplete frame ends its connection so the drain terminates, L11 (= C16.LB) lock balance.",
		notDec:  "Real schedules and timing ('as soon as'); that closing a Go listener makes a blocked Accept fail and that no connection is accepted from a closed listener (net contract); behaviour of user dispatchers.",
		trusted: []string{"net.Listener.Close unblocks a pending Accept with a non-timeout error and refuses later connections", "sync.WaitGroup.Wait returns when every Add has been matched by a Done"},
		assume:  []string{"one serving call at a time on a Service (the property's model)"},
		run:     runC14,
	})
}

func runC14(r *Run, p *Prog) {
	// L8: every accepted connection ends when the serving context is cancelled: the per-connection read is interruptible
	siblingRules(r, p, "C17", []string{"D1", "D2", "D3", "D5"}, "L8")
	// L9: ... and nothing else in the handler waits for the peer: the accepted connection is read and written only
	// through the context-aware wrapper (a lingering-close drain, a raw copy loop are not interruptible)
	siblingRules(r, p, "C10", []string{"S9"}, "L9")
	// L11: Shutdown, the accept loop and the handlers' accounting all take the Service mutex: it is released on every path
	siblingRules(r, p, "C16", []string{"LB"}, "L11")
	// L10: however a connection ends - read error, expired context, handler error - the handler leaves its loop (a retry
	// on "temporary" errors keeps a handler whose context is done spinning, and serving never drains)
	siblingRules(r, p, "C10", []string{"S1", "S2"}, "L10")
	ro := DiscoverRoles(p)
	T, cg := ro.T, ro.CG
	m := BuildServeModel(p, ro)
	if len(m.Fns) == 0 {
		r.Unresolved("L1", "serving functions (callers of net.Listener.Accept)")
		return
	}
	ls := ComputeLockSets(p, cg, p.FuncsOf(pkgVarlink))
	if ls == nil {
		r.Unresolved("L2", "lock-set fixpoint")
		return
	}
	writes := fieldWriteSummaries(p, cg, T)
	r.Note("serving=%v reset=%v counter=%s", fnNames(fnSet(ro.Serving)), fnNames(fnSet(m.Reset)), m.Counter)
	if m.Counter == "" {
		r.Unresolved("L3", "connection counter (integer Service field incremented in a serving function)")
	}
	if len(m.Reset) == 0 {
		r.Unresolved("L7", "state reset (function reachable from a serving function's defer that stores nil to Service.listener)")
	}
	isResetCall := func(in ssa.Instruction) bool {
		ci, ok := in.(*ssa.Call)
		if !ok {
			return false
		}
		t := staticTarget(&ci.Call)
		for _, rf := range m.Reset {
			if t == rf {
				return true
			}
		}
		return false
	}
	isInc := func(in ssa.Instruction) bool {
		st, ok := in.(*ssa.Store)
		if !ok {
			return false
		}
		f, d := counterDelta(ro, st)
		return f == m.Counter && d == +1
	}
	isDec := func(in ssa.Instruction) bool {
		st, ok := in.(*ssa.Store)
		if !ok {
			return false
		}
		f, d := counterDelta(ro, st)
		return f == m.Counter && d == -1
	}
	handlers := map[*ssa.Function]bool{}
	for _, sf := range m.Fns {
		fn := shortName(sf.Fn)
		if sf.Accept == nil || sf.Go == nil || sf.Handler == nil {
			r.Unresolved("L3", fmt.Sprintf("%s: accept call / go handler statement", fn))
			continue
		}
		handlers[sf.Handler] = true
		isAccept := func(in ssa.Instruction) bool { return in == ssa.Instruction(sf.Accept) }
		isGo := func(in ssa.Instruction) bool { return in == ssa.Instruction(sf.Go) }
		errEdge := func(a, b *ssa.BasicBlock) bool { // accept error != nil
			for _, f := range T.edgeFactsOn(a, b) {
				if f.Op == "NE" && (f.A == sf.AcceptEr || f.B == sf.AcceptEr) {
					return true
				}
			}
			return false
		}
		// ---- L1
		r.Guard("L1", func() {
			var d0 *ssa.Defer
			var wgT string
			if sf.WG != nil {
				wgT = T.T(sf.WG)
			}
			for _, d := range sf.Defers {
				t := staticTarget(&d.Call)
				if t == nil || !p.InRepo(t) {
					continue
				}
				hasReset := false
				for _, b := range t.Blocks {
					for _, in := range b.Instrs {
						if isResetCall(in) {
							hasReset = true
						}
					}
				}
				if hasReset {
					d0 = d
				}
			}
			if d0 == nil {
				r.Ob("L1", fn, "a deferred call runs the state reset", sf.Fn.Pos(), false, "no deferred function of the serving call invokes the state reset: on error exits the service stays marked running with a stale listener")
				return
			}
			ok, w := everyPathPasses(sf.Fn, nil, isReturn, func(in ssa.Instruction) bool { return in == ssa.Instruction(d0) })
			r.Ob("L1", fn, "the reset+drain defer is registered before every return", d0.Pos(), ok,
				"a return of the serving call is reachable before the reset/drain defer is registered: that exit neither resets the state nor waits for the handlers", witnessPos(p, w)...)
			cl := staticTarget(&d0.Call)
			pcR := NewPathCounter(p, isResetCall)
			lo, hi := pcR.Summary(cl)
			r.Ob("L1", fn, "the deferred closure resets the state exactly once on every path", cl.Pos(), lo == 1 && hi == 1, fmt.Sprintf("reset executed between %d and %d times", lo, hi))
			// (the deferred function may be a method taking the WaitGroup as an argument: `defer s.finish(&wg)`)
			wgInCallee := strip(wgT)
			for i, arg := range d0.Call.Args {
				if wgT != "" && strip(T.T(arg)) == strip(wgT) && i < len(cl.Params) {
					wgInCallee = strip(T.T(cl.Params[i]))
				}
			}
			isWait := func(in ssa.Instruction) bool {
				c, ok := in.(*ssa.Call)
				if !ok || calleeName(&c.Call) != "sync.WaitGroup.Wait" {
					return false
				}
				t := strip(T.T(c.Call.Args[0]))
				return t == strip(wgT) || t == wgInCallee
			}
			// Wait after the reset on every path
			var resetCall ssa.Instruction
			for _, b := range cl.Blocks {
				for _, in := range b.Instrs {
					if isResetCall(in) {
						resetCall = in
					}
				}
			}
			pcW := NewPathCounter(p, isWait)
			lo, hi = pcW.Between(cl, resetCall, isReturn)
			r.Ob("L1", fn, "after the reset the deferred closure waits for the handlers (wg.Wait on the serving call's WaitGroup) on every path", cl.Pos(), lo == 1 && hi == 1 && wgT != "",
				fmt.Sprintf("wg.Wait() on %s executed between %d and %d times after the reset: the serving call can return while accepted connections are still being handled (no draining)", strip(wgT), lo, hi))
		})
		// ---- L2
		r.Guard("L2", func() {
			v := sf.Accept.Call.Value
			ok := false
			detail := "Accept is not called on a value loaded from Service.listener"
			if ld, isLoad := v.(*ssa.UnOp); isLoad && strings.HasSuffix(strip(T.T(ld)), "."+svcF.Listener) {
				held := ls.At[ld]
				ok = len(held) > 0
				detail = fmt.Sprintf("listener loaded holding %s", held)
			}
			r.Ob("L2", fn, "Accept is called on the listener read from the Service under the mutex", sf.Accept.Pos(), ok, detail)
		})
		// ---- L3
		r.Guard("L3", func() {
			lo, hi, found := NewPathCounter(p, isInc).BetweenStop(sf.Fn, sf.Accept, isGo, isAccept)
			r.Ob("L3", fn, "exactly one counter increment between a successful accept and the go statement", sf.Accept.Pos(), found && lo == 1 && hi == 1,
				fmt.Sprintf("Service.%s is incremented between %d and %d times on paths from Accept to `go handler`: an accepted connection is not counted exactly once", m.Counter, lo, hi))
			isAdd := func(in ssa.Instruction) bool {
				c, ok := in.(*ssa.Call)
				if !ok || calleeName(&c.Call) != "sync.WaitGroup.Add" || sf.WG == nil || T.T(c.Call.Args[0]) != T.T(sf.WG) {
					return false
				}
				k, ok := c.Call.Args[1].(*ssa.Const)
				return ok && k.Int64() == 1
			}
			lo, hi, found = NewPathCounter(p, isAdd).BetweenStop(sf.Fn, sf.Accept, isGo, isAccept)
			r.Ob("L3", fn, "exactly one wg.Add(1) between a successful accept and the go statement", sf.Accept.Pos(), found && lo == 1 && hi == 1,
				fmt.Sprintf("wg.Add(1) executed between %d and %d times on paths from Accept to `go handler`", lo, hi))
			reach, w := reachInstr(sf.Fn, sf.Accept, func(in ssa.Instruction) bool { return isAccept(in) || isReturn(in) }, isGo, errEdge)
			r.Ob("L3", fn, "every successfully accepted connection is handed to a handler goroutine", sf.Accept.Pos(), !reach,
				"after a successful Accept there is a path to the next Accept or to a return that does not start the handler: the connection is dropped while possibly counted", witnessPos(p, w)...)
			// arguments
			args := sf.Go.Call.Args
			if mc, ok := sf.Go.Call.Value.(*ssa.MakeClosure); ok {
				args = append(append([]ssa.Value{}, args...), mc.Bindings...) // what a function literal captures is handed to it
			}
			connOK, wgOK := false, false
			for _, a := range args {
				if T.T(a) == "ext("+T.T(sf.Accept)+",0)" {
					connOK = true
				}
				if sf.WG != nil && T.T(a) == T.T(sf.WG) {
					wgOK = true
				}
			}
			r.Ob("L3", fn, "the handler goroutine receives the accepted connection and the serving call's WaitGroup", sf.Go.Pos(), connOK && wgOK,
				fmt.Sprintf("accepted connection passed=%v, WaitGroup passed=%v", connOK, wgOK))
		})
		// ---- L4
		r.Guard("L4", func() {
			ok, w := mustCross(T, sf.Fn, nil, isAccept, nil, func(fs []Fact) bool { return m.runningFact(fs, true) })
			r.Ob("L4", fn, "every path from entry to Accept has seen running == true", sf.Accept.Pos(), ok, "Accept can be reached without testing the running flag", witnessPos(p, w)...)
			// ... and the function itself has marked the service as running on the way there (otherwise the loop is left
			// at once and nothing is ever accepted, or a Shutdown issued before the mark is lost)
			{
				okSet, w0 := everyPathPasses(sf.Fn, nil, isAccept, func(in ssa.Instruction) bool {
					st, isSt := in.(*ssa.Store)
					if !isSt || !isStoreToServiceField(in, svcF.Running) {
						return false
					}
					vt := T.T(st.Val)
					return vt == "const:true" || svcF.RunningVal != "" && vt == svcF.RunningVal
				})
				r.Ob("L4", fn, "the serving function marks the service as running before its first Accept", sf.Accept.Pos(), okSet,
					"Accept can be reached (or the loop left) without the running mark having been set by this call: the loop condition fails at once and the service never accepts", witnessPos(p, w0)...)
			}
			// a serving function that does not create the listener itself accepts only on a listener it has tested
			{
				creates := false
				// (anywhere below it: the view inlines a bounded number of levels, the bind step may sit deeper)
				for g := range cg.Reach([]*ssa.Function{sf.Fn, origFn(sf.Fn)}, false) {
					for _, cs := range callsIn(g, false) {
						if nm := calleeName(cs.Common); strings.HasPrefix(nm, "net.Listen") || nm == "net.ListenConfig.Listen" || nm == "net.FileListener" {
							creates = true
						}
					}
				}
				if ac := sf.Accept; ac != nil && !creates && ac.Call.IsInvoke() {
					lt := T.T(ac.Call.Value)
					r.Ob("L4", fn, "Accept is called on a listener that was tested against nil", sf.Accept.Pos(), hasFact(T.FactsAt(ac.Block()), "NE", lt, "nil"),
						"the serving function accepts on "+strip(lt)+" without having established that it is set (a flipped or missing `no listener` test): serving without a prior Bind dereferences nil, or a bound service is refused")
				}
			}
			ok, w = mustCross(T, sf.Fn, sf.Go, isAccept, nil, func(fs []Fact) bool { return m.runningFact(fs, true) })
			r.Ob("L4", fn, "after starting a handler the loop re-tests running before the next Accept", sf.Go.Pos(), ok,
				"after a successful accept the loop goes back to Accept without re-testing the running flag", witnessPos(p, w)...)
			// classify returns
			n := 0
			// (only the exits of the accept loop: a start-up failure - bind error, no listener - happens before the
			// service is marked running and is not governed by this rule)
			afterAccept := map[*ssa.BasicBlock]bool{}
			work := []*ssa.BasicBlock{sf.Accept.Block()}
			for len(work) > 0 {
				b := work[len(work)-1]
				work = work[:len(work)-1]
				for _, sc := range b.Succs {
					if !afterAccept[sc] {
						afterAccept[sc] = true
						work = append(work, sc)
					}
				}
			}
			for _, rv := range returnedValues(sf.Fn, sf.Fn.Signature.Results().Len()-1) {
				if !afterAccept[rv.Ret.Block()] {
					continue
				}
				fs := T.FactsAt(rv.Ret.Block())
				vt := T.T(rv.Val)
				notRunning := m.runningFact(fs, false)
				acceptFailed := false
				for _, f := range fs {
					if f.Op == "NE" && (f.A == sf.AcceptEr || f.B == sf.AcceptEr) {
						acceptFailed = true
					}
				}
				switch {
				case acceptFailed && timeoutFact(fs, true):
					continue // C15
				case notRunning:
					n++
					r.Ob("L4", fn, "exit with running == false returns nil", rv.Ret.Pos(), vt == "nil",
						"the serving call returns "+strip(vt)+" although the service was shut down: Shutdown must make it return nil")
				case acceptFailed:
					n++
					ret := rv.Ret
					tested, _ := mustCross(T, sf.Fn, sf.Accept, func(in ssa.Instruction) bool { return in == ssa.Instruction(ret) }, isAccept,
						func(fs []Fact) bool { return m.runningFact(fs, true) })
					r.Ob("L4", fn, "a non-timeout accept error is returned only while still running", rv.Ret.Pos(), vt == sf.AcceptEr && tested,
						fmt.Sprintf("on an accept error the call returns %s; expected the accept error, and only after having seen running == true (otherwise nil)", strip(vt)))
				}
			}
			if n < 2 {
				r.Unresolved("L4", fn+": returns for 'not running' and 'accept error while running'")
			}
		})
	}
	// ---- L3 handler side and counter census
	r.Guard("L3h", func() {
		for h := range handlers {
			lo, hi := NewPathCounter(p, isDec).Summary(h)
			r.Ob("L3", shortName(h), "the handler decrements the connection counter exactly once on every path (defers included)", h.Pos(), lo == 1 && hi == 1,
				fmt.Sprintf("Service.%s is decremented between %d and %d times on the paths through the connection handler: a connection that ends on some path is never released (or released twice), so draining and the idle timeout miscount", m.Counter, lo, hi))
			var wgParam string
			for _, prm := range h.Params {
				if isNamed(prm.Type(), "sync", "WaitGroup") {
					wgParam = T.T(prm)
				}
			}
			for _, fv := range h.FreeVars {
				if isNamed(fv.Type(), "sync", "WaitGroup") && wgParam == "" {
					wgParam = T.T(fv) // a handler written (or seen) as a function literal of the serving call
				}
			}
			isDone := func(in ssa.Instruction) bool {
				ci, ok := in.(ssa.CallInstruction)
				return ok && calleeName(ci.Common()) == "sync.WaitGroup.Done" && len(ci.Common().Args) > 0 && T.T(ci.Common().Args[0]) == wgParam
			}
			lo, hi = NewPathCounter(p, isDone).Summary(h)
			r.Ob("L3", shortName(h), "the handler calls wg.Done() exactly once on every path (defers included)", h.Pos(), lo == 1 && hi == 1 && wgParam != "",
				fmt.Sprintf("wg.Done() on the handler's WaitGroup parameter executed between %d and %d times: the serving call's wg.Wait() hangs or panics", lo, hi))
		}
		// census of counter writers
		H := cg.Reach(withOrigins(keysOf(handlers)), false)
		S := ro.servingSide()
		for _, f := range p.FuncsOf(pkgVarlink) {
			for _, b := range f.Blocks {
				for _, in := range b.Instrs {
					st, ok := in.(*ssa.Store)
					if !ok {
						continue
					}
					fld, d := counterDelta(ro, st)
					if fld == "" || fld != m.Counter {
						continue
					}
					root := f
					for root.Parent() != nil {
						root = root.Parent()
					}
					ok2 := (d == +1 && S[root]) || (d == -1 && (H[f] || H[root]))
					r.Ob("L3", shortName(f), "write of the connection counter is an accept-side +1 or a handler-side -1", st.Pos(), ok2,
						fmt.Sprintf("Service.%s is written here with delta %+d (0 = not a +-1 update) outside the accept/handler accounting: connections still draining are miscounted", fld, d))
				}
			}
		}
		r.Floor("L3", 6)
	})
	// ---- L5 Shutdown
	r.Guard("L5", func() {
		sd := p.Func(pkgVarlink, "Service.Shutdown")
		if sd == nil {
			r.Unresolved("L5", "Service.Shutdown")
			return
		}
		// (in its inlined view: the two effects may live in one helper - `return s.state.stop()`)
		sd = p.Inlined(sd, nil)
		cg.AddView(sd)
		ec := newEffectCache(p, T)
		isStop := func(in ssa.Instruction) bool { return ec.zeroes(in, svcF.Running) }
		isClose := func(in ssa.Instruction) bool { return ec.closesListener(in) }
		ok, w := everyPathPasses(sd, nil, isReturn, isStop)
		r.Ob("L5", shortName(sd), "running = false on every path through Shutdown", sd.Pos(), ok, "Shutdown can return without clearing the running flag: the accept loop keeps serving", witnessPos(p, w)...)
		reach, w2 := reachInstr(sd, nil, isReturn, isClose, func(a, b *ssa.BasicBlock) bool {
			for _, f := range T.edgeFactsOn(a, b) {
				if f.Op == "EQ" && (f.A == "nil" && strings.HasSuffix(strip(f.B), "."+svcF.Listener) || f.B == "nil" && strings.HasSuffix(strip(f.A), "."+svcF.Listener)) {
					return true
				}
			}
			return false
		})
		r.Ob("L5", shortName(sd), "Shutdown closes the current listener on every path unless none is set", sd.Pos(), !reach,
			"Shutdown can return without closing a listener that is set: a serving call blocked in (or about to enter) Accept is never woken and keeps accepting connections after Shutdown has returned", witnessPos(p, w2)...)
		reach3, w3 := reachInstr(sd, nil, isClose, isStop, nil)
		r.Ob("L5", shortName(sd), "running is cleared before the listener is closed", sd.Pos(), !reach3, "the listener can be closed before running is cleared: the accept loop sees the error while still running and returns it instead of nil", witnessPos(p, w3)...)
		nogo := true
		for _, cs := range callsIn(sd, true) {
			if _, ok := cs.Instr.(*ssa.Go); ok {
				nogo = false
			}
		}
		r.Ob("L5", shortName(sd), "Shutdown acts synchronously (starts no goroutine)", sd.Pos(), nogo, "Shutdown defers its work to a goroutine: it can return before the listener is closed")
		// Shutdown may be issued at any moment, also by a method handler: it waits for nothing the serving call or a
		// handler has to provide (no channel operation, no WaitGroup/Cond wait, no sleep) besides the mutex
		sdv := sd
		var blocker ssa.Instruction
		for _, b := range sdv.Blocks {
			for _, in := range b.Instrs {
				switch x := in.(type) {
				case *ssa.UnOp:
					if x.Op == token.ARROW {
						blocker = in
					}
				case *ssa.Select, *ssa.Send:
					blocker = in
				case ssa.CallInstruction:
					switch calleeName(x.Common()) {
					case "sync.WaitGroup.Wait", "sync.Cond.Wait", "time.Sleep":
						blocker = in
					}
				}
			}
		}
		pos := sd.Pos()
		if blocker != nil {
			pos = blocker.Pos()
		}
		r.Ob("L5", shortName(sd), "Shutdown waits for nothing but the mutex", pos, blocker == nil,
			"Shutdown blocks on a channel, a WaitGroup or a timer: issued from a method handler (or while a handler needs the caller) it waits for the serving call, which waits for that handler - neither returns")
	})
	// ---- L6 Bind
	r.Guard("L6", func() {
		bind := p.Func(pkgVarlink, "Service.Bind")
		if bind == nil {
			r.Unresolved("L6", "Service.Bind")
			return
		}
		// (in its inlined view: the flag may be read through a getter - `s.state.phase() == phaseRunning`)
		bind = p.Inlined(bind, nil)
		cg.AddView(bind)
		n := 0
		for _, b := range bind.Blocks {
			for _, s := range b.Succs {
				if !m.runningFact(T.edgeFactsOn(b, s), true) {
					continue
				}
				n++
				bad, w := reachFromBlock(bind, s, func(in ssa.Instruction) bool {
					if isNilErrorReturn(in) {
						return true
					}
					if st, ok := in.(*ssa.Store); ok {
						if fa, ok := st.Addr.(*ssa.FieldAddr); ok && isServiceState(fa.X.Type()) {
							return true
						}
					}
					if c, ok := in.(*ssa.Call); ok {
						if t := staticTarget(&c.Call); t != nil && p.InRepo(t) && len(writes[t]) > 0 {
							return true
						}
					}
					return false
				}, nil)
				r.Ob("L6", shortName(bind), "a bind while running is refused without touching address or listener", p.InstrPos(b.Instrs[len(b.Instrs)-1]), !bad,
					"on the `already running` edge Bind can succeed or modify Service state", witnessPos(p, w)...)
			}
		}
		if n == 0 {
			r.Ob("L6", shortName(bind), "Bind tests the running flag", bind.Pos(), false, "Bind has no edge decided by the running flag: a second bind during serving is not refused")
		}
	})
	// ---- L7 reset
	r.Guard("L7", func() {
		bind := p.Func(pkgVarlink, "Service.Bind")
		want := map[string]bool{svcF.Running: true}
		if bind != nil {
			for k := range writes[bind] {
				if f, ok := stateKeyField(k); ok {
					want[f] = true
				}
			}
		}
		var wl []string
		for k := range want {
			wl = append(wl, k)
		}
		sort.Strings(wl)
		for _, rf := range m.Reset {
			for _, fld := range wl {
				fld := fld
				ec := newEffectCache(p, T)
				ok, w := everyPathPasses(rf, nil, isReturn, func(in ssa.Instruction) bool { return ec.zeroes(in, fld) })
				r.Ob("L7", shortName(rf), "the reset clears Service."+fld+" on every path", rf.Pos(), ok,
					"Service."+fld+" is written on the bind/serve path but not cleared by the reset: the next bind or serve on the same object starts from stale state", witnessPos(p, w)...)
			}
			for k := range writes[rf] {
				f, isState := stateKeyField(k)
				if isState && !want[f] {
					r.Ob("L7", shortName(rf), "the reset does not write Service."+f, rf.Pos(), false,
						"the reset writes Service."+f+", which is not part of the bind/serve state: it runs before the handlers have drained, so state they still maintain (the connection accounting) is corrupted")
				}
			}
		}
		r.Floor("L7", 4)
	})
}

func keysOf(m map[*ssa.Function]bool) []*ssa.Function {
	var out []*ssa.Function
	for f := range m {
		out = append(out, f)
	}
	return out
}

// withOrigins: the functions and, for inlined views and closures copied into views, the built functions behind them.
func withOrigins(fs []*ssa.Function) []*ssa.Function {
	out := append([]*ssa.Function{}, fs...)
	for _, f := range fs {
		if o := origFn(f); o != f {
			out = append(out, o)
		}
	}
	return out
}
