package main

import (
	"fmt"
	"go/types"
	"os"
	"sort"
	"strings"

	"golang.org/x/tools/go/ssa"
)

func init() {
	register(&propDef{
		id: "C04", level: "other", perCfg: false,
		explain: "Necessary structural conditions of C04, decided for all paths of the dispatch entry (the innermost function reachable from HandleMessage that decodes the request and invokes a dispatcher, analysed in its inlined view with the reply functions kept as calls, DESIGN 9.2) and of the built-in dispatcher (found by role: the callee of HandleMessage that is selected by comparison with the built-in interface's name). T1/T3 split: r = strings.LastIndex(method, \".\"); interface = method[:r]; method name = method[r+1:], all on the decoded method string. T2 guard: every use of these slices and every delivery carries r >= 1; on the complementary edge the only delivery is ReplyInvalidParameter(\"method\"). T4 exactly one delivery: on every path after a successful decode exactly one leaf delivery happens (a call of the reply write helper, an invoke of a dispatcher's VarlinkDispatch, or an explicit refusal error inside a reply function) - counted interprocedurally through the built-in handlers; the dispatcher invoked is the ok-result of the lookup of the interface name in the Service's table and receives (ctx, call, method name); the !ok edge replies InterfaceNotFound(interface name). T5 built-in: the constant compared with the interface name equals what the built-in interface's VarlinkGetName returns; the edge on which no built-in method name matched replies MethodNotFound(method name). T6: on the decode-error edge the decode error is returned with zero deliveries. T7: every function on the path returns the result of its delivery unchanged (a successful reply yields nil, so the connection stays usable; a failed one ends it). Routing depends on the method string and the table only: the dispatch path keeps no other state (fresh decode target, no Service writes - shared with C01.R5). T11 (= C13.M2) registration files an interface under exactly the name it reports. T2 also the converse: InvalidParameter(\"method\") is sent only under `last dot index <= 0`, so every other method string - trailing dot, empty components - is routed by its two parts. T2 converse: every registered name that is not refused reaches the dispatcher lookup. T8 routing input is decoded into a fresh value and the dispatch path keeps no state in the Service or in package variables. T9 every standard error has its typed value. T10 (= C10.S6).",
		notDec:  "Behaviour of user dispatchers; that Go map lookup is exact string equality (language semantics, trusted); JSON shape checking inside encoding/json.",
		trusted: []string{"strings.LastIndex(s, sep) returns -1 or an index i with i+len(sep) <= len(s)", "encoding/json.Unmarshal into a struct fails for input that is not an object (or null) and for a non-string method member"},
		run:     runC04,
	})
}

// deliveryModel: a *delivery call* is a call that hands the current request to exactly one place - an invoke of a
// dispatcher's VarlinkDispatch, or a static call of a repo function that reaches the reply write helper. The rule
// "exactly one delivery" is evaluated per function, level by level: in the dispatch entry, in the built-in dispatcher
// and in every typed helper they call, every path makes exactly one delivery call; the generic reply primitives (the
// functions with an interface{}-typed parameter, where refusals live) and the write helper itself are where it stops.
type deliveryModel struct {
	p         *Prog
	ro        *Roles
	wfn       map[*ssa.Function]bool
	replyFns  map[*ssa.Function]bool // repo functions that reach a write helper
	primitive map[*ssa.Function]bool
}

func newDeliveryModel(p *Prog, ro *Roles, entries ...*ssa.Function) *deliveryModel {
	dm := &deliveryModel{p: p, ro: ro, wfn: fnSet(ro.WFuncs), replyFns: map[*ssa.Function]bool{}, primitive: map[*ssa.Function]bool{}}
	for _, f := range p.FuncsOf(pkgVarlink) {
		for g := range ro.CG.Reach([]*ssa.Function{f}, false) {
			if dm.wfn[g] {
				dm.replyFns[f] = true
			}
		}
	}
	for f := range dm.replyFns {
		if dm.wfn[f] {
			dm.primitive[f] = true
			continue
		}
		for _, prm := range f.Params {
			if it, ok := prm.Type().Underlying().(*types.Interface); ok && it.NumMethods() == 0 {
				dm.primitive[f] = true
			}
		}
	}
	for _, e := range entries {
		delete(dm.primitive, e)
	}
	return dm
}

// isLeaf: in is a delivery call.
func (dm *deliveryModel) isLeaf(in ssa.Instruction) bool {
	c, ok := in.(*ssa.Call)
	if !ok {
		return false
	}
	if c.Call.IsInvoke() {
		return c.Call.Method.Name() == "VarlinkDispatch"
	}
	t := staticTarget(&c.Call)
	return t != nil && dm.replyFns[t]
}

// counter: path counter over delivery calls that does not descend into them.
func (dm *deliveryModel) counter() *PathCounter {
	pc := NewPathCounter(dm.p, dm.isLeaf)
	pc.NoDescend = true
	return pc
}

// closure: the non-primitive functions reached through delivery calls from the given roots.
func (dm *deliveryModel) closure(roots ...*ssa.Function) []*ssa.Function {
	seen := map[*ssa.Function]bool{}
	var out []*ssa.Function
	var walk func(f *ssa.Function)
	walk = func(f *ssa.Function) {
		if f == nil || seen[f] || dm.primitive[f] || f.Blocks == nil {
			return
		}
		seen[f] = true
		out = append(out, f)
		for _, cs := range callsIn(f, false) {
			if c, ok := cs.Instr.(*ssa.Call); ok && dm.isLeaf(c) {
				walk(staticTarget(&c.Call))
			}
		}
	}
	for _, r := range roots {
		walk(r)
	}
	return out
}

func isNamedRecvOrParam(f *ssa.Function, name string) bool {
	for _, prm := range f.Params {
		if isNamed(prm.Type(), pkgVarlink, name) {
			return true
		}
	}
	return false
}

func runC04(r *Run, p *Prog) {
	// T10: routing is a function of the method string alone only if the table lookup does not keep the Service mutex across dispatch or reply
	siblingRules(r, p, "C10", []string{"S6"}, "T10")
	// T11: the interface part selects the registered interface only if registration files it under exactly the name it reports
	siblingRules(r, p, "C13", []string{"M2"}, "T11")
	ro := DiscoverRoles(p)
	T := ro.T
	if ro.Handle == nil {
		r.Unresolved("T1", "Service.HandleMessage")
		return
	}
	// the dispatch entry: the function reachable from HandleMessage that decodes the request and invokes a dispatcher
	hm := dispatchView(p, ro)
	if hm == nil {
		r.Unresolved("T1", "dispatch entry (function reachable from HandleMessage that decodes the request and invokes VarlinkDispatch)")
		return
	}
	ds := decodeSitesDeep(p, hm)
	if len(ds) != 1 {
		r.Unresolved("T6", fmt.Sprintf("exactly one decode of the request in HandleMessage (found %d)", len(ds)))
		return
	}
	dec := ds[0]
	decErr := dec.ErrTerm(T)
	// the method string: member with JSON key "method" of the decode target
	st := derefStruct(dec.Target.Type())
	if st == nil {
		r.Unresolved("T1", "decode target struct")
		return
	}
	mi, _ := structFieldByJSON(st, "method")
	if mi < 0 {
		r.Unresolved("T1", "member with JSON key \"method\" in the decoded call")
		return
	}
	M := strip(T.T(dec.Target)) + "." + st.Field(mi).Name()
	R := `call:strings.LastIndex(` + M + `,const:".")`
	ifaceT := "slice(" + M + ",nil," + R + ")"
	methT := "slice(" + M + ",(" + R + " + const:1),nil)"
	// built-in dispatcher: static callee of HandleMessage reached under EQ(iface, const)
	var builtin *ssa.Function
	var builtinCall *ssa.Call
	var builtinConst string
	for _, cs := range callsIn(hm, false) {
		c, ok := cs.Instr.(*ssa.Call)
		if !ok {
			continue
		}
		t := staticTarget(cs.Common)
		if t == nil || !p.InRepo(t) {
			continue
		}
		for _, f := range T.FactsAt(c.Block()) {
			if f.Op == "EQ" && strings.HasPrefix(f.A, `const:"`) && strip(f.B) == ifaceT {
				builtin, builtinCall, builtinConst = t, c, f.A
			}
		}
	}
	dm := newDeliveryModel(p, ro, hm, builtin)
	pc := dm.counter()

	r.Guard("T1", func() {
		// every slice of the method string uses the last-dot index
		n := 0
		for _, b := range hm.Blocks {
			for _, in := range b.Instrs {
				sl, ok := in.(*ssa.Slice)
				if !ok || strip(T.T(sl.X)) != M {
					continue
				}
				n++
				got := strip(T.T(sl))
				r.Ob("T1", shortName(hm), "method string is split at its last '.': "+got, sl.Pos(), got == ifaceT || got == methT,
					"the method string is sliced as "+got+"; expected "+ifaceT+" (interface) or "+methT+" (method name)")
				lo, _ := intervalOf(T.FactsAt(b), R)
				r.Ob("T2", shortName(hm), "slice of the method string carries r >= 1", sl.Pos(), lo >= 1,
					fmt.Sprintf("the split index is only known to be >= %d here: a method without interface part (or starting with '.') would be routed or would panic", lo))
			}
		}
		if n < 2 {
			r.Unresolved("T1", "slices of the decoded method string (interface part and method part)")
		}
	})
	r.Guard("T2", func() {
		// on the edge r <= 0 the only delivery is ReplyInvalidParameter("method")
		found := false
		for _, b := range hm.Blocks {
			for _, s := range b.Succs {
				fs := T.edgeFactsOn(b, s)
				_, hi := intervalOf(fs, R)
				if hi > 0 {
					continue
				}
				found = true
				okCall := false
				bad := ""
				for _, in := range s.Instrs {
					c, isCall := in.(*ssa.Call)
					if !isCall {
						continue
					}
					name := calleeName(&c.Call)
					if name == "varlink.Call.ReplyInvalidParameter" && len(c.Call.Args) == 3 && T.T(c.Call.Args[2]) == `const:"method"` {
						okCall = true
					} else {
						bad = name
					}
				}
				lo, hi2, _ := pc.FromPos(hm, s, 0, isReturn, nil)
				r.Ob("T2", shortName(hm), "a method string without interface part is answered InvalidParameter(\"method\"), exactly once", p.InstrPos(b.Instrs[len(b.Instrs)-1]),
					okCall && bad == "" && lo == 1 && hi2 == 1, fmt.Sprintf("on the edge r <= 0: ReplyInvalidParameter(\"method\") called=%v, other call=%q, deliveries between %d and %d", okCall, bad, lo, hi2))
			}
		}
		if !found {
			r.Ob("T2", shortName(hm), "the split index is tested against 0", hm.Pos(), false, "no edge on which LastIndex(method, \".\") <= 0: method strings without interface part are not rejected")
		}
		// ... and only there: every other method string is routed by its two parts, whatever they are (an empty method
		// name after a trailing dot, an interface name with empty components)
		for _, b := range hm.Blocks {
			for _, in := range b.Instrs {
				c, isCall := in.(*ssa.Call)
				if !isCall || calleeName(&c.Call) != "varlink.Call.ReplyInvalidParameter" || len(c.Call.Args) != 3 || T.T(c.Call.Args[2]) != `const:"method"` {
					continue
				}
				_, hi := intervalOf(T.FactsAt(b), R)
				r.Ob("T2", shortName(hm), "InvalidParameter(\"method\") is sent only for a method string without interface part", c.Pos(), hi <= 0,
					"the refusal is also reached when LastIndex(method, \".\") > 0: a method string that has an interface part is refused instead of being routed by its two parts")
			}
		}
	})
	r.Guard("T4", func() {
		// exactly one delivery after a successful decode; zero on the decode-error edge (T6)
		for _, b := range hm.Blocks {
			for _, s := range b.Succs {
				fs := T.edgeFactsOn(b, s)
				if hasFact(fs, "EQ", decErr, "nil") {
					lo, hi, _ := pc.FromPos(hm, s, 0, isReturn, nil)
					r.Ob("T4", shortName(hm), "exactly one delivery on every path after a successful decode", p.InstrPos(b.Instrs[len(b.Instrs)-1]), lo == 1 && hi == 1,
						fmt.Sprintf("between %d and %d deliveries (reply writes, dispatcher invocations, refusals) per call: a call is dropped, answered twice, or answered and dispatched", lo, hi))
				}
				if hasFact(fs, "NE", decErr, "nil") {
					lo, hi, _ := pc.FromPos(hm, s, 0, isReturn, nil)
					okRet := true
					for _, rv := range returnedValues(hm, 0) {
						if hasFact(T.FactsAt(rv.Ret.Block()), "NE", decErr, "nil") && T.T(rv.Val) != decErr {
							okRet = false
						}
					}
					r.Ob("T6", shortName(hm), "a frame that does not decode is returned as error: no delivery, no reply", p.InstrPos(b.Instrs[len(b.Instrs)-1]), lo == 0 && hi == 0 && okRet,
						fmt.Sprintf("on the decode-error edge: deliveries between %d and %d, decode error returned=%v", lo, hi, okRet))
				}
			}
		}
		// level by level: every typed helper on the way delivers exactly once on every path
		for _, f := range dm.closure(hm) {
			if f == hm {
				continue
			}
			lo, hi := pc.Summary(f)
			r.Ob("T4", shortName(f), "exactly one delivery on every path of this handler/helper", f.Pos(), lo == 1 && hi == 1,
				fmt.Sprintf("between %d and %d delivery calls on the paths of %s", lo, hi, shortName(f)))
		}
		// the dispatcher invocation
		n := 0
		for _, b := range hm.Blocks {
			for _, in := range b.Instrs {
				c, ok := in.(*ssa.Call)
				if !ok || !c.Call.IsInvoke() || c.Call.Method.Name() != "VarlinkDispatch" {
					continue
				}
				n++
				recv := strip(T.T(c.Call.Value))
				wantPfx := "ext(lookup("
				okRecv := strings.HasPrefix(recv, wantPfx) && strings.HasSuffix(recv, svcF.Interfaces+","+ifaceT+"),0)")
				okFact := false
				for _, f := range T.FactsAt(b) {
					if f.Op == "EQ" && f.B == "const:true" && strings.HasSuffix(strip(f.A), svcF.Interfaces+","+ifaceT+"),1)") {
						okFact = true
					}
					if f.Op == "EQ" && f.A == "const:true" && strings.HasSuffix(strip(f.B), svcF.Interfaces+","+ifaceT+"),1)") {
						okFact = true
					}
				}
				r.Ob("T4", shortName(hm), "the dispatcher invoked is the table entry of the interface name (lookup ok)", c.Pos(), okRecv && okFact,
					fmt.Sprintf("VarlinkDispatch is invoked on %s (lookup-ok known: %v); expected the ok-result of interfaces[%s]", recv, okFact, ifaceT))
				a := c.Call.Args
				okArgs := len(a) == 3 && strip(T.T(a[2])) == methT && strings.HasPrefix(strip(T.T(a[0])), "param:")
				r.Ob("T4", shortName(hm), "the dispatcher receives (ctx, call, method name)", c.Pos(), okArgs, fmt.Sprintf("arguments are (%s, %s, %s)", strip(T.T(a[0])), strip(T.T(a[1])), strip(T.T(a[2]))))
			}
		}
		if n != 1 {
			r.Ob("T4", shortName(hm), "exactly one dispatcher invocation site", hm.Pos(), false, fmt.Sprintf("%d VarlinkDispatch invocation sites in the dispatch entry: a second route to a dispatcher exists (or none)", n))
		}
		// !ok edge
		nf := 0
		for _, cs := range callsNamed(hm, false, "varlink.Call.ReplyInterfaceNotFound") {
			c := cs.Instr.(*ssa.Call)
			nf++
			okArg := strip(T.T(c.Call.Args[2])) == ifaceT
			okFact := false
			for _, f := range T.FactsAt(c.Block()) {
				if f.Op == "EQ" && (f.B == "const:false" && strings.HasSuffix(strip(f.A), svcF.Interfaces+","+ifaceT+"),1)") || f.A == "const:false" && strings.HasSuffix(strip(f.B), svcF.Interfaces+","+ifaceT+"),1)")) {
					okFact = true
				}
			}
			r.Ob("T4", shortName(hm), "an unregistered interface is answered InterfaceNotFound(interface name)", c.Pos(), okArg && okFact,
				fmt.Sprintf("InterfaceNotFound carries %s (expected %s); sent on the lookup-failed edge: %v", strip(T.T(c.Call.Args[2])), ifaceT, okFact))
		}
		if nf == 0 {
			r.Ob("T4", shortName(hm), "an unregistered interface is answered InterfaceNotFound", hm.Pos(), false, "no InterfaceNotFound reply in the dispatch entry")
		}
	})
	r.Guard("T5", func() {
		if builtin == nil {
			r.Unresolved("T5", "built-in dispatcher (callee of HandleMessage selected by comparing the interface name with a constant)")
			return
		}
		// constant equals VarlinkGetName of the built-in interface registered by NewService
		var nameConst string
		if ctor := p.Func(pkgVarlink, "NewService"); ctor != nil {
			for _, cs := range callsNamed(ctor, false, "varlink.Service.RegisterInterface") {
				arg := cs.Common.Args[1]
				if mi, ok := arg.(*ssa.MakeInterface); ok {
					if gn := p.SSA.LookupMethod(mi.X.Type(), p.Pkgs[pkgVarlink].Types, "VarlinkGetName"); gn != nil {
						for _, rv := range returnedValues(gn, 0) {
							nameConst = T.T(rv.Val)
						}
					}
				}
			}
		}
		r.Ob("T5", shortName(hm), "built-in interface is selected by its own registered name", builtinCall.Pos(), nameConst != "" && nameConst == builtinConst,
			fmt.Sprintf("the dispatch entry compares the interface name with %s, the built-in interface registers as %s", builtinConst, nameConst))
		a := builtinCall.Call.Args
		r.Ob("T5", shortName(hm), "built-in dispatcher receives the method name", builtinCall.Pos(), strip(T.T(a[len(a)-1])) == methT, "built-in dispatcher gets "+strip(T.T(a[len(a)-1])))
		// default arm: all method-name comparisons false => ReplyMethodNotFound(methodname)
		mp := "param:" + builtin.Params[len(builtin.Params)-1].Name()
		isNameEq := func(fs []Fact) bool {
			for _, f := range fs {
				if f.Op == "EQ" && (strings.HasPrefix(f.A, `const:"`) && f.B == mp || strings.HasPrefix(f.B, `const:"`) && f.A == mp) {
					return true
				}
			}
			return false
		}
		reach, w := reachInstr(builtin, nil, isReturn, func(in ssa.Instruction) bool {
			c, ok := in.(*ssa.Call)
			return ok && calleeName(&c.Call) == "varlink.Call.ReplyMethodNotFound" && T.T(c.Call.Args[2]) == mp
		}, func(x, y *ssa.BasicBlock) bool { return isNameEq(T.edgeFactsOn(x, y)) })
		r.Ob("T5", shortName(builtin), "an unknown built-in method is answered MethodNotFound(method name)", builtin.Pos(), !reach,
			"with no built-in method name matching, a return is reachable without ReplyMethodNotFound(methodname)", witnessPos(p, w)...)
		lo, hi := pc.Summary(builtin)
		r.Ob("T5", shortName(builtin), "every arm of the built-in dispatcher delivers exactly once", builtin.Pos(), lo == 1 && hi == 1, fmt.Sprintf("between %d and %d deliveries", lo, hi))
	})
	r.Guard("T7", func() {
		// every function on the path returns the result of its delivery unchanged
		onPath := ro.CG.Reach([]*ssa.Function{hm}, false)
		n := 0
		for f := range onPath {
			if fnPkgPath(f) != pkgVarlink {
				continue
			}
			for _, b := range f.Blocks {
				for _, in := range b.Instrs {
					c, ok := in.(*ssa.Call)
					if !ok {
						continue
					}
					t := staticTarget(&c.Call)
					isDelivery := c.Call.IsInvoke() && c.Call.Method.Name() == "VarlinkDispatch" || t != nil && (dm.replyFns[t] || t == builtin)
					if !isDelivery {
						continue
					}
					n++
					returned := false
					for _, rv := range returnedValues(f, f.Signature.Results().Len()-1) {
						if rv.Val == ssa.Value(c) {
							// and it is the return that follows the call
							if reach, _ := reachInstr(f, c, func(i ssa.Instruction) bool { return i == ssa.Instruction(rv.Ret) }, nil, nil); reach {
								returned = true
							}
						}
					}
					dropped, _ := reachInstr(f, c, func(i ssa.Instruction) bool {
						ret, ok := i.(*ssa.Return)
						if !ok {
							return false
						}
						for _, rv := range returnedValues(f, f.Signature.Results().Len()-1) {
							if rv.Ret == ret && rv.Val != ssa.Value(c) {
								return true
							}
						}
						return false
					}, nil, nil)
					r.Ob("T7", shortName(f), "result of "+calleeName(&c.Call)+" is returned unchanged", c.Pos(), returned && !dropped,
						"the result of a delivery is not what the function returns: a failed reply would not end the connection, or a successful one would")
				}
			}
		}
		r.Stat("T7_delivery_calls", n)
		r.Floor("T7", 8)
	})
	// T9: the standard error replies used by routing are rendered by encoding/json from a typed value holding the name
	r.Guard("T9", func() {
		bname, _ := builtinDescription(p, T)
		wfn := fnSet(ro.WFuncs)
		for _, E := range []string{"InterfaceNotFound", "MethodNotFound", "InvalidParameter"} {
			nt := p.NamedType(pkgVarlink, E)
			if nt == nil {
				r.Ob("T9", E, "typed standard error exists", hm.Pos(), false, "")
				continue
			}
			st, _ := nt.Underlying().(*types.Struct)
			ok, detail := stdErrorHelperOK(p, T, ro.CG, wfn, E, fmt.Sprintf("const:%q", bname+"."+E), st)
			r.Ob("T9", E, "Reply"+E+" carries its argument in a typed value marshalled by encoding/json", nt.Obj().Pos(), ok,
				"the standard error reply is not built from the typed struct holding the name ("+detail+"): for unusual names the reply may not be valid JSON, so no reply is sent and the connection ends")
		}
	})
	// state-free routing: decode target fresh (re-evaluated here: routing must depend on the method string alone)
	r.Guard("T8", func() {
		ok, why := freshTarget(p, dec)
		r.Ob("T8", shortName(hm), "routing input is decoded into a fresh zero value", dec.Call.Pos(), ok, why)
		var hf []*ssa.Function
		for f := range ro.CG.Reach([]*ssa.Function{hm}, false) {
			if fnPkgPath(f) == pkgVarlink {
				hf = append(hf, f)
			}
		}
		for _, a := range fieldAccesses(hf, ro.ServiceT) {
			if a.Write && !isNamed(fieldTypeOf(ro.ServiceT, a.Field), "sync", "Mutex") {
				r.Ob("T8", shortName(a.Fn), "dispatch path writes Service."+a.Field, a.Instr.Pos(), false, "the dispatch path keeps state in the Service: routing can depend on earlier calls, not on the method string alone")
			}
		}
		for _, u := range sharedPackageState(p, hf) {
			r.Ob("T8", shortName(u.Fn), "dispatch path uses package-level state "+u.G.Name(), u.At.Pos(), false,
				"the dispatch path uses a package-level variable that can carry objects between calls: routing or the reply can depend on earlier calls")
		}
	})
}

func dispatchEntry(p *Prog, ro *Roles) *ssa.Function {
	if ro.dispEntryDone {
		return ro.dispEntry
	}
	ro.dispEntryDone = true
	// candidates: functions reachable from HandleMessage whose view (non-writing helpers inlined) decodes the request
	// and invokes a dispatcher; the entry is the innermost of them (the one every caller has to go through)
	var cands []*ssa.Function
	for f := range ro.CG.Reach([]*ssa.Function{ro.Handle}, false) {
		if fnPkgPath(f) != pkgVarlink || f.Parent() != nil || len(f.Blocks) == 0 {
			continue
		}
		v := p.Inlined(f, ro.keepsWriting)
		if len(decodeSites(v)) == 0 {
			continue
		}
		for _, cs := range callsIn(v, false) {
			if cs.Common.IsInvoke() && cs.Common.Method.Name() == "VarlinkDispatch" {
				cands = appendFn(cands, f)
			}
		}
	}
	ro.dispKeep = ro.keepsWriting
	if len(cands) == 0 {
		// the routing step itself is a function of its own (`s.dispatch(ctx, c, interfacename, methodname)`): it
		// reaches the reply path, but it is part of the dispatch entry, not a reply primitive
		routes := func(f *ssa.Function) bool {
			for _, cs := range callsIn(f, false) {
				if cs.Common.IsInvoke() && cs.Common.Method.Name() == "VarlinkDispatch" {
					return true
				}
			}
			return false
		}
		ro.dispKeep = func(f *ssa.Function) bool { return ro.keepsWriting(f) && !routes(f) }
		for f := range ro.CG.Reach([]*ssa.Function{ro.Handle}, false) {
			if fnPkgPath(f) != pkgVarlink || f.Parent() != nil || len(f.Blocks) == 0 {
				continue
			}
			v := p.Inlined(f, ro.dispKeep)
			if len(decodeSites(v)) == 0 {
				continue
			}
			for _, cs := range callsIn(v, false) {
				if cs.Common.IsInvoke() && cs.Common.Method.Name() == "VarlinkDispatch" {
					cands = appendFn(cands, f)
				}
			}
		}
	}
	sort.Slice(cands, func(i, j int) bool { return cands[i].Pos() < cands[j].Pos() })
	for _, f := range cands {
		inner := true
		for _, g := range cands {
			if g != f && ro.CG.Reach([]*ssa.Function{f}, false)[g] {
				inner = false
			}
		}
		if inner {
			ro.dispEntry = f
		}
	}
	return ro.dispEntry
}

// dispatchView: the dispatch entry with its non-writing helpers inlined (decode helper, table lookup helper, ...); the
// functions that send replies stay calls, so that deliveries are counted level by level.
func dispatchView(p *Prog, ro *Roles) *ssa.Function {
	e := dispatchEntry(p, ro)
	if e == nil {
		return nil
	}
	v := p.Inlined(e, ro.dispKeep)
	ro.CG.AddView(v)
	if os.Getenv("VLDEBUG") == "dispview" {
		v.WriteTo(os.Stderr)
	}
	return v
}

// isDispatchTarget: t is HandleMessage or the dispatch entry it delegates to.
func isDispatchTarget(p *Prog, ro *Roles, t *ssa.Function) bool {
	if t == nil {
		return false
	}
	return t == ro.Handle || t == dispatchEntry(p, ro)
}

// bytesArg: the first argument of type []byte.
func bytesArg(c *ssa.CallCommon) ssa.Value {
	for _, a := range c.Args {
		if sl, ok := a.Type().Underlying().(*types.Slice); ok && types.Identical(sl.Elem(), types.Typ[types.Byte]) {
			return a
		}
	}
	return nil
}
