package main

// Normalisation of higher-order helpers (DESIGN 9.2). A function literal handed to a repository helper that calls it
// (`s.withLock(func() { n = s.count })`), or called on the spot, is a way of writing a block. Before any rule looks at
// the program, every repository function that contains such a construct gets the helper and the literal inlined at
// that site (the SSA-level inliner of inline_verif.go), the variables the literal captured become ordinary locals
// again, and the result replaces the function's body. All rules, the call graph and the lock sets then see the code
// of the hand-written block; closures that survive (go statements, deferred literals, stored function values) stay
// functions of their own.

import (
	"bytes"
	"fmt"
	"go/token"
	"go/types"
	"os"
	"sort"

	"golang.org/x/tools/go/ssa"
)

// callsParamDirectly: g has a parameter of function type and calls it.
func callsParamDirectly(g *ssa.Function) bool {
	for _, prm := range g.Params {
		if _, ok := prm.Type().Underlying().(*types.Signature); !ok {
			continue
		}
		for _, ref := range *prm.Referrers() {
			if c, ok := ref.(ssa.CallInstruction); ok && c.Common().Value == ssa.Value(prm) {
				if _, isGo := ref.(*ssa.Go); !isGo {
					return true
				}
			}
		}
	}
	return false
}

// polymorphicHelper: an unexported function with a parameter of an interface type declared in the repository
// (`frameWriter`, `ReadWriterContext`), on which it invokes a method: a block shared between call sites whose argument has a different static
// type (`writeFrame(ctx, w frameWriter, v)` used with the service's ReadWriterContext and the client's *ctxio.Conn). It
// is analysed at each call site, where that type is known.
func polymorphicHelper(p *Prog, g *ssa.Function) bool {
	if g.Parent() != nil || g.Object() == nil || g.Object().Exported() || g.Signature.Recv() != nil {
		return false
	}
	for _, prm := range g.Params {
		nt, ok := prm.Type().(*types.Named)
		if !ok || nt.Obj().Pkg() == nil || p.Pkgs[nt.Obj().Pkg().Path()] == nil {
			continue
		}
		if _, isIface := nt.Underlying().(*types.Interface); !isIface {
			continue
		}
		for _, ref := range *prm.Referrers() {
			if c, ok := ref.(ssa.CallInstruction); ok && c.Common().IsInvoke() && c.Common().Value == ssa.Value(prm) {
				return true
			}
		}
	}
	return false
}

// paramUpdater: an unexported function that adds (or subtracts) one of its integer parameters to a member of a struct
// of the repository (`func (s *Service) addConnections(delta int) { s.mutex.Lock(); s.conncounter += delta; ... }`): what
// it does to the state is decided by the constant at each call site, so it is analysed there.
func paramUpdater(p *Prog, g *ssa.Function) bool {
	if g.Parent() != nil || g.Object() == nil || g.Object().Exported() || len(g.Blocks) == 0 || len(g.Blocks) > 6 {
		return false
	}
	for _, b := range g.Blocks {
		for _, in := range b.Instrs {
			st, ok := in.(*ssa.Store)
			if !ok {
				continue
			}
			fa, ok := st.Addr.(*ssa.FieldAddr)
			if !ok {
				continue
			}
			pt, ok := fa.X.Type().Underlying().(*types.Pointer)
			if !ok {
				continue
			}
			nt, ok := pt.Elem().(*types.Named)
			if !ok || nt.Obj().Pkg() == nil || p.Pkgs[nt.Obj().Pkg().Path()] == nil {
				continue
			}
			bo, ok := st.Val.(*ssa.BinOp)
			if !ok || (bo.Op != token.ADD && bo.Op != token.SUB) {
				continue
			}
			isParam := func(v ssa.Value) bool {
				if cv, ok := v.(*ssa.Convert); ok {
					v = cv.X
				}
				prm, ok := v.(*ssa.Parameter)
				if !ok {
					return false
				}
				bt, ok := prm.Type().Underlying().(*types.Basic)
				return ok && bt.Info()&types.IsInteger != 0
			}
			isLoad := func(v ssa.Value) bool {
				ld, ok := v.(*ssa.UnOp)
				if !ok || ld.Op != token.MUL {
					return false
				}
				fa2, ok := ld.X.(*ssa.FieldAddr)
				return ok && fa2.X == fa.X && fa2.Field == fa.Field
			}
			if isLoad(bo.X) && isParam(bo.Y) || bo.Op == token.ADD && isLoad(bo.Y) && isParam(bo.X) {
				return true
			}
		}
	}
	return false
}

// isFuncLiteralArg: a function literal or method value, possibly converted to a named function type, or a method
// expression / function constant.
func isFuncLiteralArg(a ssa.Value) bool {
	for {
		if ct, ok := a.(*ssa.ChangeType); ok {
			a = ct.X
			continue
		}
		break
	}
	switch a.(type) {
	case *ssa.MakeClosure, *ssa.Function:
		return true
	}
	return false
}

func closureDepth(f *ssa.Function) int {
	n := 0
	for f.Parent() != nil {
		f = f.Parent()
		n++
	}
	return n
}

// normaliseHigherOrder rewrites the bodies in place and returns how many functions were rewritten.
func normaliseHigherOrder(p *Prog) int {
	helpers := map[*ssa.Function]bool{}
	poly := map[*ssa.Function]bool{}
	for _, f := range p.Funcs {
		if callsParamDirectly(f) {
			helpers[f] = true
		}
		if polymorphicHelper(p, f) || paramUpdater(p, f) {
			poly[f] = true
		}
	}
	order := append([]*ssa.Function(nil), p.Funcs...)
	sort.SliceStable(order, func(i, j int) bool { return closureDepth(order[i]) > closureDepth(order[j]) })
	n := 0
	for _, f := range order {
		// does f contain such a site at all?
		has := false
		for _, b := range f.Blocks {
			for _, in := range b.Instrs {
				// a lookup in a constant dispatch table (rewritten to the equivalent chain of comparisons)
				if lk, isLk := in.(*ssa.Lookup); isLk && lk.CommaOk {
					if ld, isLd := lk.X.(*ssa.UnOp); isLd {
						if g, isG := ld.X.(*ssa.Global); isG && len(p.constFuncMap(g)) > 0 {
							has = true
						}
					}
				}
				c, ok := in.(*ssa.Call)
				if !ok {
					continue
				}
				if _, isLit := c.Call.Value.(*ssa.MakeClosure); isLit {
					has = true
				}
				if t := c.Call.StaticCallee(); t != nil && poly[t] {
					has = true
				}
				if t := c.Call.StaticCallee(); t != nil && helpers[t] {
					for _, a := range c.Call.Args {
						if isFuncLiteralArg(a) {
							has = true
						}
					}
				}
			}
		}
		if !has {
			continue
		}
		nf, info, _ := ssa.InlinedView(f, func(site ssa.CallInstruction, callee *ssa.Function, d int) bool {
			cm := site.Common()
			fv := cm.Value
			for {
				if ct, ok := fv.(*ssa.ChangeType); ok {
					fv = ct.X
					continue
				}
				break
			}
			if _, isLit := fv.(*ssa.MakeClosure); isLit {
				return true // a function literal or method value called where it is written (or handed to an inlined helper)
			}
			if poly[callee] && d <= 2 {
				return true
			}
			if helpers[callee] && p.InRepo(callee) && d <= 2 {
				for _, a := range cm.Args {
					if isFuncLiteralArg(a) {
						return true
					}
				}
			}
			return false
		})
		if len(info) == 0 {
			continue
		}
		var buf bytes.Buffer
		if !ssa.SanityCheckFunction(nf, &buf) {
			fmt.Fprintf(os.Stderr, "vlcheck: normalised body of %s is not well-formed:\n%s", funcFullName(f), buf.String())
			brokenf("normalisation of %s failed the SSA sanity check", funcFullName(f))
		}
		ssa.TransplantView(f, nf)
		n++
	}
	if n > 0 {
		// an unexported helper all of whose call sites were resolved this way is no longer part of the program (it
		// cannot be called from outside the package); its body is judged where it was inlined
		p.collectFuncs()
		used := map[*ssa.Function]bool{}
		var rands []*ssa.Value
		for _, f := range p.Funcs {
			for _, b := range f.Blocks {
				for _, in := range b.Instrs {
					rands = in.Operands(rands[:0])
					for _, r := range rands {
						if g, ok := (*r).(*ssa.Function); ok && g != nil {
							used[g] = true
						}
					}
				}
			}
		}
		p.consumed = map[*ssa.Function]bool{}
		for g := range poly {
			if !used[g] {
				p.consumed[g] = true
			}
		}
		for g := range helpers {
			if !used[g] && g.Parent() == nil && g.Object() != nil && !g.Object().Exported() {
				p.consumed[g] = true
			}
		}
	}
	return n
}
