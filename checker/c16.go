package main

import (
	"fmt"
	"go/token"
	"go/types"
	"regexp"
	"sort"
	"strings"

	"golang.org/x/tools/go/ssa"
)

func init() {
	register(&propDef{
		id: "C16", level: "other", perCfg: true,
		explain: "Static lock-set (Eraser-style) discipline, decided for all schedules at once because it is a statement about the code, not about an execution. Thread classes are found by role: S = the serving functions (callers of net.Listener.Accept) with everything they call synchronously; H = functions started with `go` from S and their callees (connection handlers, HandleMessage, built-in handlers, Call methods, registered dispatchers of the repo); A = Shutdown, GetListener, RegisterInterface (the API the property names) plus the guard prefix of Bind; X = any other goroutine the library starts. Rule LS: for every field of Service and every pair of accesses (field loads/stores, map lookups/updates/iteration, element accesses, escapes of a map value) from classes that may overlap (everything except S with S), at least one a write, the must-held lock sets intersect. Fields written only during construction are exempt. Rule GV: package-level variables of varlink/ctxio are written only by package initialisation. Rule J: every helper goroutine of the context-aware I/O operations sends its result on a buffered channel created by the same activation and is joined (received from) before every return that follows the `go`, except returns on the error edge of a deadline setter. Rule CR: variables shared with a goroutine by capture are written only before the `go` statement, and helper-written ones are read only after the join - a join being a receive (plain or as the chosen case of a select) from a channel the goroutine sends on or closes after its last write of the variable. BR (= C02.F3) the buffered reader the helper goroutines read from is created in the wrapper's constructor only and belongs to one connection (not pooled, cached or shared). LB lock balance (may-held analysis): on every path of every library function each Lock is followed by exactly one Unlock before return (defers included), no Unlock without a Lock, no second Lock while held. CR joins are recognised generically (receive, select case, WaitGroup.Wait after Done).",
		notDec:  "Races inside user handlers and user dispatchers; misuse outside the stated model (two concurrent serving calls, Bind concurrent with Bind); races inside net, bufio, encoding/json (trusted goroutine-safety of net.Conn methods).",
		trusted: []string{"net.Conn methods (Read/Write/Set*Deadline/Close) may be called concurrently (net package contract)", "sync.Mutex provides mutual exclusion and happens-before", "a receive from a channel happens after the corresponding send"},
		assume:  []string{"at most one serving call (Listen/DoListen) runs on a Service at a time; Bind is not called concurrently with Bind or with the start of a serving call (the property's stated model)", "all methods operate on one Service object: the lock is identified by its field (standard lock-set simplification)"},
		run:     runC16,
	})
}

func runC16(r *Run, p *Prog) {
	ro := DiscoverRoles(p)
	T := ro.T
	cg := ro.CG
	if ro.ServiceT == nil {
		r.Unresolved("LS", "type Service")
		return
	}
	// BR: the buffered reader the helper goroutines read from belongs to one connection: readers that are pooled,
	// cached or created anywhere but in the wrapper's constructor can be handed to two connections, whose helper
	// goroutines then race on it although each connection is used by one goroutine at a time
	siblingRules(r, p, "C02", []string{"F3"}, "BR")
	// LB: lock balance (lockbalance.go)
	r.Guard("LB", func() { lockBalanceRule(r, p, "LB", pkgVarlink, pkgCtxio) })
	fns := p.FuncsOf(pkgVarlink)
	ls := ComputeLockSets(p, cg, fns)
	if ls == nil {
		r.Unresolved("LS", "lock-set fixpoint not reached in 20 rounds")
		return
	}
	if len(ro.Serving) == 0 {
		r.Unresolved("LS", "serving functions (callers of net.Listener.Accept)")
		return
	}
	// thread classes
	S := cg.Reach(ro.ServingOrig, false)
	var hroots, xroots []*ssa.Function
	for _, f := range fns {
		for _, t := range cg.GoTargs[f] {
			if S[f] {
				hroots = appendFn(hroots, t)
			} else {
				xroots = appendFn(xroots, t)
			}
		}
	}
	H := cg.Reach(hroots, false)
	// goroutines started from handlers etc. that are not ctxio helpers
	var xr []*ssa.Function
	for _, t := range xroots {
		if fnPkgPath(t) != pkgCtxio {
			xr = append(xr, t)
		}
	}
	X := cg.Reach(xr, false)
	var aroots []*ssa.Function
	for _, n := range []string{"Shutdown", "GetListener", "RegisterInterface"} {
		f := p.Func(pkgVarlink, "Service."+n)
		if f == nil {
			r.Unresolved("LS", "exported API Service."+n)
			continue
		}
		aroots = append(aroots, f)
	}
	A := cg.Reach(aroots, false)
	bind := p.Func(pkgVarlink, "Service.Bind")
	ctor := p.Func(pkgVarlink, "NewService")
	r.Note("thread classes: S=%v  H-roots=%v |H|=%d  A=%v  X-roots=%v", fnNames(S), fnNames(fnSet(hroots)), len(H), fnNames(A), fnNames(fnSet(xr)))
	if len(hroots) == 0 {
		r.Unresolved("LS", "no goroutine started by the serving functions (handler class empty)")
	}
	classOf := func(f *ssa.Function, in ssa.Instruction) string {
		root := f
		for root.Parent() != nil {
			root = root.Parent()
		}
		c := ""
		if A[f] || A[root] {
			c += "A"
		}
		if f == bind || root == bind {
			// Bind's guard prefix may run concurrently with serving (a second bind is refused);
			// past the guard (`running` seen false under the lock) it belongs to the single serving thread.
			if !hasFactRe(T.FactsAt(in.Block()), `^EQ\(const:false,param:\w+\.`+regexp.QuoteMeta(svcF.Running)+`\)$`) && !strings.Contains(c, "A") {
				c += "A"
			}
		}
		if S[f] || S[root] {
			c += "S"
		}
		if H[f] || H[root] {
			c += "H"
		}
		if X[f] || X[root] {
			c += "X"
		}
		return c
	}
	may := func(c1, c2 string) bool {
		for _, a := range c1 {
			for _, b := range c2 {
				if !(a == 'S' && b == 'S') {
					return true
				}
			}
		}
		return false
	}
	acc := fieldAccesses(fns, ro.ServiceT)
	acc = append(acc, sharedSliceWrites(p, fns, ro.ServiceT)...)
	r.Stat("service_field_access_sites", len(acc))
	type ainfo struct {
		FieldAccess
		cls   string
		locks lockSet
	}
	byField := map[string][]ainfo{}
	for _, a := range acc {
		if a.Fn == ctor {
			continue // pre-publication
		}
		if ft := fieldTypeOf(ro.ServiceT, a.Field); ft != nil && (isNamed(ft, "sync", "Mutex") || isNamed(ft, "sync", "RWMutex")) {
			continue
		}
		locks := ls.At[a.Instr]
		if locks == nil {
			locks = lockSet{}
		}
		if strings.HasPrefix(a.What, "synchronised access") {
			continue // sync / sync/atomic types synchronise internally
		}
		if strings.Contains(a.What, "escapes") {
			locks = lockSet{} // the value is used where the lock state is not known
		}
		byField[a.Field] = append(byField[a.Field], ainfo{a, classOf(a.Fn, a.Instr), locks})
	}
	var fields []string
	for f := range byField {
		fields = append(fields, f)
	}
	sort.Strings(fields)
	var exempt []string
	for _, fld := range fields {
		as := byField[fld]
		anyWrite := false
		for _, a := range as {
			if a.Write {
				anyWrite = true
			}
		}
		if !anyWrite {
			exempt = append(exempt, fld)
			r.Ob("LS", "-", "Service."+fld+" is written only during construction", ro.ServiceT.Obj().Pos(), true, "no store outside NewService: immutable after publication")
			continue
		}
		for i, a := range as {
			if a.cls == "" {
				r.Ob("LS", shortName(a.Fn), rwName(a.Write)+" Service."+fld+" from a function in no thread class", a.Instr.Pos(), true, "not reachable from the serving call, a handler goroutine or the concurrent API")
				continue
			}
			var confl []string
			for j, b := range as {
				if i == j || !(a.Write || b.Write) || b.cls == "" || !may(a.cls, b.cls) {
					continue
				}
				if len(a.locks.meet(b.locks)) > 0 {
					continue
				}
				if len(a.locks) == 0 || len(b.locks) != 0 {
					confl = append(confl, fmt.Sprintf("%s %s in %s [%s] holding %s", rwName(b.Write), b.What, shortName(b.Fn), b.cls, b.locks)+" at "+p.Pos(b.Instr.Pos()))
				}
			}
			sort.Strings(confl)
			confl = uniq(confl)
			detail := fmt.Sprintf("class %s, holds %s", a.cls, a.locks)
			if len(confl) > 0 {
				detail = fmt.Sprintf("data race: this %s (%s, thread class %s, holding %s) can run concurrently with %d conflicting access(es) and no common lock is held", rwName(a.Write), a.What, a.cls, a.locks, len(confl))
			}
			r.Ob("LS", shortName(a.Fn), rwName(a.Write)+" Service."+fld+" ("+a.What+")", a.Instr.Pos(), len(confl) == 0, detail, confl...)
		}
	}
	r.Note("fields exempt (written only in the constructor): %v", exempt)
	r.Floor("LS", 10)

	// GV: package-level variables are written only by package initialisation, or every access outside it holds a
	// common (package-level or Service) lock
	r.Guard("GV", func() {
		for _, pk := range []string{pkgVarlink, pkgCtxio} {
			pfns := p.FuncsOf(pk)
			pls := ls
			if pk != pkgVarlink {
				pls = ComputeLockSets(p, cg, pfns)
			}
			type gacc struct {
				in    ssa.Instruction
				write bool
				fn    *ssa.Function
			}
			accs := map[*ssa.Global][]gacc{}
			for _, f := range pfns {
				isInit := f.Parent() == nil && (f.Name() == "init" || strings.HasPrefix(f.Name(), "init#"))
				if isInit {
					continue // package initialisation runs before any goroutine of the library exists
				}
				for _, b := range f.Blocks {
					for _, in := range b.Instrs {
						switch x := in.(type) {
						case *ssa.Store:
							if g := globalOf(x.Addr); g != nil {
								accs[g] = append(accs[g], gacc{in, true, f})
							}
						case *ssa.UnOp:
							if g := globalOf(x.X); g != nil && x.Op == token.MUL {
								accs[g] = append(accs[g], gacc{in, false, f})
							}
						}
					}
				}
			}
			sp := p.SPkgs[pk]
			n := 0
			for _, m := range sp.Members {
				g, ok := m.(*ssa.Global)
				if !ok || strings.HasPrefix(g.Name(), "init$") {
					continue
				}
				n++
				as := accs[g]
				anyWrite := false
				for _, a := range as {
					if a.write {
						anyWrite = true
					}
				}
				if !anyWrite {
					r.Ob("GV", "init", "package variable "+pkShort(pk)+"."+g.Name()+" written only by init", g.Pos(), true, "")
					continue
				}
				// written at run time: every access must hold a common lock
				var common lockSet
				for _, a := range as {
					held := lockSet{}
					if pls != nil && pls.At[a.in] != nil {
						held = pls.At[a.in]
					}
					if common == nil {
						common = held.clone()
					} else {
						common = common.meet(held)
					}
				}
				var wit []string
				for _, a := range as {
					held := lockSet{}
					if pls != nil && pls.At[a.in] != nil {
						held = pls.At[a.in]
					}
					wit = append(wit, fmt.Sprintf("%s in %s holding %s at %s", rwName(a.write), shortName(a.fn), held, p.Pos(a.in.Pos())))
				}
				sort.Strings(wit)
				r.Ob("GV", pkShort(pk), "run-time accesses of package variable "+g.Name()+" hold a common lock", g.Pos(), len(common) > 0,
					"a package-level variable is written after initialisation and its accesses hold no common lock: every goroutine of the library shares it", wit...)
			}
			r.Stat("package_variables", n)
		}
	})

	// J and CR over every goroutine the library starts
	r.Guard("J", func() {
		ops := DiscoverCtxOps(p, T, pkgCtxio)
		for _, op := range ops {
			fn := shortName(op.Fn)
			if len(op.Problems) > 0 || op.Chan == nil {
				r.Ob("J", fn, "helper goroutine shape", op.Go.Pos(), false, "the helper goroutine does not match the join protocol: "+strings.Join(append(op.Problems, ifs(op.Chan == nil, "no result channel", "")), "; "))
				continue
			}
			// J1: buffered channel created in this activation
			capOK := false
			if c, ok := op.Chan.Size.(*ssa.Const); ok && c.Int64() >= 1 {
				capOK = true
			}
			if op.closes() {
				capOK = true // the helper signals by closing the channel: a close never blocks, whatever the capacity
			}
			r.Ob("J", fn, "result channel is buffered (capacity >= 1)", op.Chan.Pos(), capOK && op.Chan.Parent() == op.Fn,
				"with an unbuffered result channel the helper goroutine blocks forever on the paths that return without receiving, and the next operation races with it")
			// J2: the helper's last action is the send; nothing but the I/O, the send and local moves
			sends := 0
			var after []string
			for _, b := range op.Closure.Blocks {
				seenSend := false
				for _, in := range b.Instrs {
					switch x := in.(type) {
					case *ssa.Send:
						sends++
						seenSend = true
					case *ssa.Return, *ssa.Jump, *ssa.DebugRef:
					default:
						if c, isCall := in.(*ssa.Call); isCall {
							if bi, isB := c.Call.Value.(*ssa.Builtin); isB && bi.Name() == "close" {
								sends++ // the close of the completion channel is the helper's signal
								seenSend = true
								continue
							}
						}
						if seenSend {
							after = append(after, p.Pos(x.Pos()))
						}
					}
				}
			}
			r.Ob("J", fn, "helper sends exactly once, as its last action", op.Closure.Pos(), sends == 1 && len(after) == 0,
				fmt.Sprintf("helper goroutine performs %d send(s) and %d instruction(s) after the send: work after the join signal runs concurrently with the caller", sends, len(after)))
			// J3: every return after the go is preceded by a join, except on deadline-setter error edges
			reach, w := reachInstr(op.Fn, op.Go, isReturn,
				func(in ssa.Instruction) bool { return op.isJoinRecv(T, in) },
				func(from, to *ssa.BasicBlock) bool {
					if op.Select != nil {
						if k, ok := selectIndexEdge(from, op.Select); ok && k == op.ResIdx && to == from.Succs[0] {
							return true // the select itself received the result
						}
					}
					if _, ok := deadlineSetterErrEdge(from); ok && to == from.Succs[0] {
						return true // exempt with reason: setter fails only on a closed connection; pending I/O returns by itself
					}
					return false
				})
			r.Ob("J", fn, "every return after the go statement is preceded by a receive from the result channel", op.Go.Pos(), !reach,
				"the operation can return while its helper goroutine is still using the buffer and the connection: the next operation on this connection races with it", witnessPos(p, w)...)
		}
		r.Floor("J", 9)
	})
	r.Guard("CR", func() {
		n := 0
		for _, pk := range []string{pkgVarlink, pkgCtxio} {
			for _, f := range p.FuncsOf(pk) {
				for _, b := range f.Blocks {
					for _, in := range b.Instrs {
						g, ok := in.(*ssa.Go)
						if !ok {
							continue
						}
						mc, ok := g.Call.Value.(*ssa.MakeClosure)
						if !ok {
							continue
						}
						cl := mc.Fn.(*ssa.Function)
						var op *CtxOp
						for _, o := range DiscoverCtxOps(p, T, fnPkgPath(f)) {
							if o.Go == g {
								op = o
							}
						}
						for bi, bind := range mc.Bindings {
							al, ok := bind.(*ssa.Alloc)
							if !ok {
								continue
							}
							n++
							name := al.Comment
							fv := cl.FreeVars[bi]
							closureWrites := false
							for _, ref := range *fv.Referrers() {
								if st, ok := ref.(*ssa.Store); ok && st.Addr == ssa.Value(fv) {
									closureWrites = true
								}
							}
							// joins: a receive (plain or as the chosen case of a select) from a channel on which the goroutine
							// sends or which it closes, provided the goroutine does not write the variable after that signal
							joinCh := map[*ssa.MakeChan]bool{}
							for _, cb := range cl.Blocks {
								for _, ci := range cb.Instrs {
									var ch ssa.Value
									switch x := ci.(type) {
									case *ssa.Send:
										ch = x.Chan
									case *ssa.Call:
										if bi, isB := x.Call.Value.(*ssa.Builtin); isB && bi.Name() == "close" && len(x.Call.Args) == 1 {
											ch = x.Call.Args[0]
										}
									}
									if ch == nil {
										continue
									}
									mk := chanOrigin(T, ch)
									if mk == nil {
										continue
									}
									late, _ := reachInstr(cl, ci, func(i ssa.Instruction) bool {
										st, ok := i.(*ssa.Store)
										return ok && st.Addr == ssa.Value(fv)
									}, nil, nil)
									if !late {
										joinCh[mk] = true
									}
								}
							}
							isJoin := func(i ssa.Instruction) bool {
								if op != nil && op.isJoinRecv(T, i) {
									return true
								}
								u, ok := i.(*ssa.UnOp)
								return ok && u.Op == token.ARROW && joinCh[chanOrigin(T, u.X)]
							}
							joinEdge := func(from, to *ssa.BasicBlock) bool {
								if op != nil && op.Select != nil {
									if k, ok := selectIndexEdge(from, op.Select); ok && k == op.ResIdx && to == from.Succs[0] {
										return true
									}
								}
								if len(from.Instrs) == 0 || len(from.Succs) != 2 || to != from.Succs[0] {
									return false
								}
								iff, ok := from.Instrs[len(from.Instrs)-1].(*ssa.If)
								if !ok {
									return false
								}
								bo, ok := iff.Cond.(*ssa.BinOp)
								if !ok {
									return false
								}
								ex, ok := bo.X.(*ssa.Extract)
								if !ok {
									return false
								}
								sel, ok := ex.Tuple.(*ssa.Select)
								if !ok {
									return false
								}
								k, ok := selectIndexEdge(from, sel)
								if !ok || k < 0 || k >= len(sel.States) {
									return false
								}
								stt := sel.States[k]
								return stt.Dir == types.RecvOnly && joinCh[chanOrigin(T, stt.Chan)]
							}
							// parent accesses reachable after the go
							bad := ""
							var wit []ssa.Instruction
							for _, ref := range *al.Referrers() {
								st, isStore := ref.(*ssa.Store)
								if isStore && st.Addr != ssa.Value(al) {
									isStore = false
								}
								_, isLoad := ref.(*ssa.UnOp)
								if !isStore && !(closureWrites && isLoad) {
									continue
								}
								if ref.Parent() != f {
									continue
								}
								target := ref
								reach, w := reachInstr(f, g, func(i ssa.Instruction) bool { return i == target }, isJoin, joinEdge)
								if reach {
									bad = ifs(isStore, "written", "read") + " by the parent after the go statement without an intervening join"
									wit = w
								}
							}
							r.Ob("CR", shortName(f), "captured variable "+name+" shared with goroutine "+shortName(cl), g.Pos(), bad == "",
								"variable "+name+" is captured by the goroutine and "+bad+": unsynchronised concurrent access", witnessPos(p, wit)...)
						}
					}
				}
			}
		}
		r.Stat("captured_variables_checked", n)
		// (no floor: goroutines that receive everything as arguments share no captured variable)
	})
}

func fnSet(l []*ssa.Function) map[*ssa.Function]bool {
	m := map[*ssa.Function]bool{}
	for _, f := range l {
		m[f] = true
	}
	return m
}

func rwName(w bool) string {
	if w {
		return "write"
	}
	return "read"
}

func ifs(c bool, a, b string) string {
	if c {
		return a
	}
	return b
}

func uniq(s []string) []string {
	var out []string
	for i, x := range s {
		if i == 0 || x != s[i-1] {
			out = append(out, x)
		}
	}
	return out
}

func pkShort(path string) string {
	if i := strings.LastIndex(path, "/"); i >= 0 {
		return path[i+1:]
	}
	return path
}

func fieldTypeOf(nt *types.Named, name string) types.Type {
	st, ok := nt.Underlying().(*types.Struct)
	if !ok {
		return nil
	}
	for i := 0; i < st.NumFields(); i++ {
		if st.Field(i).Name() == name {
			return st.Field(i).Type()
		}
	}
	return nil
}

func globalOf(addr ssa.Value) *ssa.Global {
	for i := 0; i < 5; i++ {
		switch x := addr.(type) {
		case *ssa.Global:
			return x
		case *ssa.FieldAddr:
			addr = x.X
		case *ssa.IndexAddr:
			addr = x.X
		default:
			return nil
		}
	}
	return nil
}

func witnessPos(p *Prog, w []ssa.Instruction) []string {
	var out []string
	last := ""
	for _, in := range w {
		s := p.Pos(p.InstrPos(in))
		if s != last {
			out = append(out, "path: "+s+"  "+instrBrief(in))
			last = s
		}
	}
	return out
}

func instrBrief(in ssa.Instruction) string {
	s := in.String()
	if len(s) > 90 {
		s = s[:90] + "…"
	}
	return s
}

// sharedSliceWrites: a slice taken out of a Service member (the member itself, or an element of a map/slice member) and
// handed on - also through parameters of repo functions - is written when something appends to it (append writes into the
// shared backing array whenever there is spare capacity) or stores through an index. Such a write is an access to the
// member, performed wherever the append happens.
func sharedSliceWrites(p *Prog, fns []*ssa.Function, svc *types.Named) []FieldAccess {
	origin := map[ssa.Value]string{}
	changed := true
	mark := func(v ssa.Value, fld string) {
		if v == nil {
			return
		}
		if _, isSlice := v.Type().Underlying().(*types.Slice); !isSlice {
			return
		}
		if _, seen := origin[v]; !seen {
			origin[v] = fld
			changed = true
		}
	}
	isSvcField := func(v ssa.Value) (string, bool) {
		ld, ok := v.(*ssa.UnOp)
		if !ok {
			return "", false
		}
		fa, ok := ld.X.(*ssa.FieldAddr)
		if !ok {
			return "", false
		}
		pt, ok := fa.X.Type().Underlying().(*types.Pointer)
		if !ok || !types.Identical(pt.Elem(), svc) {
			return "", false
		}
		return fieldName(fa.X, fa.Field), true
	}
	for round := 0; changed && round < 20; round++ {
		changed = false
		for _, f := range fns {
			for _, b := range f.Blocks {
				for _, in := range b.Instrs {
					switch x := in.(type) {
					case *ssa.UnOp:
						if fld, ok := isSvcField(x); ok {
							mark(x, fld)
						}
					case *ssa.Lookup:
						if fld, ok := isSvcField(x.X); ok {
							if x.CommaOk {
								for _, ref := range *x.Referrers() {
									if ex, ok := ref.(*ssa.Extract); ok && ex.Index == 0 {
										mark(ex, fld)
									}
								}
							} else {
								mark(x, fld)
							}
						}
					case *ssa.Phi:
						for _, e := range x.Edges {
							if fld, ok := origin[e]; ok {
								mark(x, fld)
							}
						}
					case *ssa.Slice:
						if fld, ok := origin[x.X]; ok {
							mark(x, fld)
						}
					case ssa.CallInstruction:
						if callee := staticTarget(x.Common()); callee != nil && p.InRepo(callee) {
							for i, a := range x.Common().Args {
								if fld, ok := origin[a]; ok && i < len(callee.Params) {
									mark(callee.Params[i], fld)
								}
							}
						}
					}
				}
			}
		}
	}
	var out []FieldAccess
	for _, f := range fns {
		for _, b := range f.Blocks {
			for _, in := range b.Instrs {
				switch x := in.(type) {
				case *ssa.Call:
					if bi, ok := x.Call.Value.(*ssa.Builtin); ok && bi.Name() == "append" && len(x.Call.Args) > 0 {
						if fld, ok := origin[x.Call.Args[0]]; ok {
							// appending to the member itself and storing the result back into the member is the ordinary
							// (locked) update, already recorded as load+store
							back := false
							for _, ref := range *x.Referrers() {
								if st, ok := ref.(*ssa.Store); ok && isStoreToServiceField(st, fld) {
									back = true
								}
							}
							if !back {
								out = append(out, FieldAccess{f, fld, true, "append to a slice taken from the shared member (writes its backing array)", x})
							}
						}
					}
				case *ssa.IndexAddr:
					if fld, ok := origin[x.X]; ok {
						for _, ref := range *x.Referrers() {
							if st, ok := ref.(*ssa.Store); ok && st.Addr == ssa.Value(x) {
								out = append(out, FieldAccess{f, fld, true, "element store through a slice taken from the shared member", st})
							}
						}
					}
				}
			}
		}
	}
	return out
}
