package main

// Obligations, evidence, known findings, verdict.

import (
	"encoding/json"
	"fmt"
	"go/token"
	"os"
	"path/filepath"
	"runtime/debug"
	"sort"
	"strings"
	"time"
)

// Oblig is one rule instance: a rule applied to one construct of the source.
type Oblig struct {
	Rule      string   `json:"rule"`
	Func      string   `json:"function"`
	Construct string   `json:"construct"`
	Pos       string   `json:"pos"`
	OK        bool     `json:"discharged"`
	Detail    string   `json:"detail,omitempty"`
	Witness   []string `json:"witness,omitempty"`
	Config    string   `json:"config,omitempty"`
}

func (o *Oblig) Key() string { return o.Rule + "|" + o.Func + "|" + o.Construct }

type Run struct {
	Property string
	Tier     string
	Seed     int
	Level    string
	Start    time.Time
	P        *Prog // current configuration
	Configs  []string

	obligs  map[string]*Oblig
	order   []string
	notes   []string
	floors  map[string]int
	stats   map[string]int
	extra   map[string]interface{}
	fnSeen  map[string]bool
	assume  []string
	trusted []string
	explain string
	notDec  string
	only    map[string]bool // sub-run of siblingRules: only these guarded rules are evaluated
}

func NewRun(prop, tier string, seed int) *Run {
	return &Run{Property: prop, Tier: tier, Seed: seed, Level: "other", Start: time.Now(),
		obligs: map[string]*Oblig{}, floors: map[string]int{}, stats: map[string]int{}, extra: map[string]interface{}{}, fnSeen: map[string]bool{}}
}

// Ob records the verdict of a rule instance. The key is rule+function+construct (never a line number);
// an instance reported twice (e.g. under two build configurations) is discharged only if both are.
func (r *Run) Ob(rule, fn, construct string, pos token.Pos, ok bool, detail string, witness ...string) {
	o := &Oblig{Rule: rule, Func: fn, Construct: construct, OK: ok, Detail: detail, Witness: witness}
	if r.P != nil {
		o.Pos = r.P.Pos(pos)
		o.Config = r.P.Cfg.String()
	}
	k := o.Key()
	if prev, seen := r.obligs[k]; seen {
		if prev.OK && !ok {
			*prev = *o
		}
		return
	}
	r.obligs[k] = o
	r.order = append(r.order, k)
	if fn != "" {
		r.fnSeen[fn] = true
	}
}

// Fail records an obligation that could not even be located (fail closed).
func (r *Run) Unresolved(rule, what string) {
	r.Ob(rule, "-", "anchor unresolved: "+what, token.NoPos, false, "the construct this rule applies to could not be found in the current source; the rule cannot be decided and is therefore not discharged")
}

// Floor demands that rule matched at least n instances (a rule matching nothing passes vacuously forever).
func (r *Run) Floor(rule string, n int) { r.floors[rule] = n }

func (r *Run) Stat(k string, n int) { r.stats[k] += n }
func (r *Run) Note(format string, a ...interface{}) {
	r.notes = append(r.notes, fmt.Sprintf(format, a...))
}

// Guard runs one rule and converts a panic inside it into an undischarged obligation.
func (r *Run) Guard(rule string, f func()) {
	if r.only != nil && !r.only[rule] {
		return
	}
	defer func() {
		if e := recover(); e != nil {
			st := string(debug.Stack())
			lines := strings.Split(st, "\n")
			if len(lines) > 14 {
				lines = lines[:14]
			}
			r.Ob(rule, "-", "rule evaluation aborted", token.NoPos, false,
				fmt.Sprintf("the analyser could not match the shape of the code this rule applies to (%v); undecided counts as not discharged", e), lines...)
		}
	}()
	f()
}

// siblingRules evaluates rules that belong to another property's check and records their obligations under this
// property's own rule id: the mechanisms several properties rest on (the context-aware I/O template, the oneway guard,
// the Service mutex discipline, the token character sets ...) are necessary conditions of each of them, and a change
// that breaks one is a violation of every property that depends on it, not only of the one where the rule was written.
// The construct text names the rule of origin.
func siblingRules(r *Run, p *Prog, from string, rules []string, as string) {
	if r.only != nil {
		return // a sub-run evaluates its own rules only
	}
	d := registry[from]
	if d == nil {
		r.Unresolved(as, "rules of "+from)
		return
	}
	sub := NewRun(from, r.Tier, r.Seed)
	sub.P = r.P
	sub.only = map[string]bool{}
	want := map[string]bool{}
	for _, x := range rules {
		sub.only[x] = true
		want[x] = true
	}
	func() {
		defer func() {
			if e := recover(); e != nil {
				r.Ob(as, "-", "rule evaluation aborted", token.NoPos, false, fmt.Sprintf("evaluating %s.%v: %v", from, rules, e))
			}
		}()
		d.run(sub, p)
	}()
	floor := 0
	for _, x := range rules {
		floor += sub.floors[x]
	}
	n := 0
	for _, k := range sub.order {
		o := sub.obligs[k]
		if !want[o.Rule] {
			continue
		}
		n++
		c := *o
		c.Construct = "[" + from + "." + o.Rule + "] " + o.Construct
		c.Rule = as
		kk := c.Key()
		if prev, seen := r.obligs[kk]; seen {
			if prev.OK && !c.OK {
				*prev = c
			}
			continue
		}
		r.obligs[kk] = &c
		r.order = append(r.order, kk)
		if c.Func != "" {
			r.fnSeen[c.Func] = true
		}
	}
	if floor > 0 {
		r.floors[as] += floor
	}
	if n == 0 {
		r.Unresolved(as, "rules "+strings.Join(rules, ",")+" of "+from+" matched nothing")
	}
}

type knownFile struct {
	Known []knownEntry `json:"known"`
	Fixed []string     `json:"fixed"`
}
type knownEntry struct {
	Property   string `json:"property"`
	Rule       string `json:"rule"`
	Func       string `json:"function"`
	Construct  string `json:"construct"`
	WhatFails  string `json:"what_fails"`
	FailingInp string `json:"failing_input"`
}

func loadKnown(verifDir string) knownFile {
	var kf knownFile
	b, err := os.ReadFile(filepath.Join(verifDir, "known_findings.json"))
	if err != nil {
		return kf
	}
	if err := json.Unmarshal(b, &kf); err != nil {
		brokenf("known_findings.json: %v", err)
	}
	return kf
}

// Finish checks floors, writes evidence, prints the verdict and exits.
func (r *Run) Finish(verifDir string) {
	// floors
	perRule := map[string]int{}
	for _, k := range r.order {
		perRule[r.obligs[k].Rule]++
	}
	var frules []string
	for rule := range r.floors {
		frules = append(frules, rule)
	}
	sort.Strings(frules)
	for _, rule := range frules {
		n := r.floors[rule]
		if perRule[rule] < n {
			r.Ob(rule, "-", "rule instance floor", token.NoPos, false,
				fmt.Sprintf("rule matched %d instance(s), at least %d required: the code this rule governs was not found", perRule[rule], n))
		}
	}
	known := loadKnown(verifDir)
	isKnown := func(o *Oblig) *knownEntry {
		for i := range known.Known {
			e := &known.Known[i]
			if e.Property == r.Property && e.Rule == o.Rule && e.Func == o.Func && e.Construct == o.Construct {
				return e
			}
		}
		return nil
	}
	var obl []*Oblig
	for _, k := range r.order {
		obl = append(obl, r.obligs[k])
	}
	var viol, knownHits []*Oblig
	discharged := 0
	for _, o := range obl {
		if o.OK {
			discharged++
			continue
		}
		if isKnown(o) != nil {
			knownHits = append(knownHits, o)
		} else {
			viol = append(viol, o)
		}
	}
	// print rule summary
	rules := map[string][2]int{}
	var rnames []string
	for _, o := range obl {
		c := rules[o.Rule]
		if _, ok := rules[o.Rule]; !ok {
			rnames = append(rnames, o.Rule)
		}
		c[0]++
		if o.OK {
			c[1]++
		}
		rules[o.Rule] = c
	}
	sort.Strings(rnames)
	fmt.Printf("vlcheck property=%s tier=%s configs=%s functions=%d obligations=%d discharged=%d\n",
		r.Property, r.Tier, strings.Join(r.Configs, ","), len(r.fnSeen), len(obl), discharged)
	ruleInst := map[string]interface{}{}
	for _, rn := range rnames {
		c := rules[rn]
		fl := ""
		if f, ok := r.floors[rn]; ok {
			fl = fmt.Sprintf(" (floor %d)", f)
		}
		fmt.Printf("  rule %-10s instances=%d discharged=%d%s\n", rn, c[0], c[1], fl)
		ruleInst[rn] = map[string]int{"instances": c[0], "discharged": c[1], "floor": r.floors[rn]}
	}
	for _, n := range r.notes {
		fmt.Println("  note:", n)
	}
	for _, o := range knownHits {
		e := isKnown(o)
		fmt.Printf("KNOWN-FINDING: property=%s %s: [%s] %s — %s (%s)\n", r.Property, o.Pos, o.Rule, o.Func, o.Construct, e.WhatFails)
	}
	violPath := filepath.Join(verifDir, "evidence", r.Property+".violations.json")
	os.MkdirAll(filepath.Join(verifDir, "evidence"), 0o755)
	if len(viol) > 0 {
		b, _ := json.MarshalIndent(map[string]interface{}{"property": r.Property, "tier": r.Tier, "violations": viol}, "", " ")
		os.WriteFile(violPath, b, 0o644)
		for _, o := range viol {
			fmt.Printf("%s: [%s.%s] %s: %s — %s\n", o.Pos, r.Property, o.Rule, o.Func, o.Construct, o.Detail)
			for _, w := range o.Witness {
				fmt.Printf("      %s\n", w)
			}
		}
	} else {
		os.Remove(violPath)
	}
	// evidence
	samples := []interface{}{}
	for i, o := range obl {
		if i >= 400 {
			break
		}
		samples = append(samples, o)
	}
	distinct := map[string]bool{}
	for _, o := range obl {
		distinct[o.Key()] = true
	}
	cov := map[string]interface{}{
		"explanation":         r.explain,
		"not_decided":         r.notDec,
		"obligations":         len(obl),
		"discharged":          discharged,
		"evaluations":         len(obl),
		"distinct_nontrivial": len(distinct),
		"rule":                "one obligation per (rule, function, construct) found by role discovery in the SSA/AST of the current /repo tree; every obligation is a distinct non-trivial rule instance (trivial = none: rules without an instance fail their floor)",
		"samples":             samples,
		"functions_analysed":  len(r.fnSeen),
		"rule_instances":      ruleInst,
		"configurations":      r.Configs,
		"checker_cmd":         fmt.Sprintf("./bin/vlcheck -property %s -tier %s", r.Property, r.Tier),
		"trusted_base":        r.trusted,
		"exhaustive":          true,
		"known_findings":      len(knownHits),
		"stats":               r.stats,
		"notes":               r.notes,
	}
	for k, v := range r.extra {
		cov[k] = v
	}
	assume := append([]string{"the tree analysed is the tree that is built: no build tags other than the GOOS/GOARCH configurations listed, no cgo, no generated sources outside the loaded packages"}, r.assume...)
	ev := map[string]interface{}{
		"property_id": r.Property,
		"tier":        r.Tier,
		"seed":        r.Seed,
		"level":       r.Level,
		"coverage":    cov,
		"assumptions": assume,
		"wall_s":      time.Since(r.Start).Seconds(),
		"violations":  len(viol),
	}
	b, _ := json.MarshalIndent(ev, "", " ")
	if err := os.WriteFile(filepath.Join(verifDir, "evidence", r.Property+".json"), b, 0o644); err != nil {
		brokenf("writing evidence: %v", err)
	}
	if len(viol) > 0 {
		fmt.Printf("VIOLATION property=%s replay=%s\n", r.Property, violPath)
		os.Exit(1)
	}
	fmt.Printf("OK property=%s: %d/%d obligations discharged (%d known finding(s))\n", r.Property, discharged, len(obl), len(knownHits))
	os.Exit(0)
}
