package main

import (
	"fmt"
	"go/token"
	"go/types"
	"regexp"
	"strings"

	"golang.org/x/tools/go/ssa"
)

func init() {
	register(&propDef{
		id: "C12", level: "other", perCfg: false,
		explain: "Necessary structural conditions of C12, decided for all paths. X1 in the handler-facing error reply function (found by role: the exported Call method that takes an error name and reaches the write helper with the Error member set to that name): the only edges that lead to a return without the reply are `LastIndex(name,\".\") <= 0` and `name[:r] == \"org.varlink.service\"`; both return a non-nil error with no write reachable; the reply carries Error = name and Parameters = parameters unchanged. X2 four-way table agreement for each standard error E of the built-in interface (read from the org.varlink.service description embedded in the repository): the helper Reply<E> (in its inlined view, down to the function that takes the finished reply, so it may build the reply itself or go through the generic error-reply function) hands over exactly one reply literal {Error: org.varlink.service.<E>, Parameters: *<E> whose single member is the helper's argument} to the write path; <E>.Error() returns the same constant; DispatchError has an arm for the same constant that decodes into a fresh <E> and returns its address, returning the untyped error when the parameters do not decode; the JSON tag of <E>'s member equals the field name in the description. X3 client side: the Error value carries the frame's error member as Name and Error() returns Name (with C11.N4). X3 also: both members of the client's Error value are set on every path to the typed conversion. X4 (= C02.F1) the frame is the encoder's rendering of the reply (no hand-built frames). X5 the convenience API (Call and the helpers built on it, two levels above Send) returns as its error nil or exactly an error result of Send / of the function Send returned: the *Error or dedicated typed error is not wrapped or re-created. X2 also: the typed conversion decodes parameters iff they are present.",
		notDec:  "JSON equality of the parameters themselves (delegated to encoding/json given raw pass-through, see C03).",
		trusted: []string{"strings.LastIndex contract"},
		run:     runC12,
	})
}

var reErrDecl = regexp.MustCompile(`(?m)^error\s+([A-Za-z0-9_]+)\s*\(\s*([A-Za-z0-9_]+)\s*:\s*string\s*\)`)

// builtinDescription returns the constant returned by the built-in interface's VarlinkGetDescription.
func builtinDescription(p *Prog, T *Terms) (name, desc string) {
	ctor := p.Func(pkgVarlink, "NewService")
	if ctor == nil {
		return
	}
	for _, cs := range callsNamed(ctor, false, "varlink.Service.RegisterInterface") {
		mi, ok := cs.Common.Args[1].(*ssa.MakeInterface)
		if !ok {
			continue
		}
		for _, m := range []string{"VarlinkGetName", "VarlinkGetDescription"} {
			if f := p.SSA.LookupMethod(mi.X.Type(), p.Pkgs[pkgVarlink].Types, m); f != nil {
				for _, rv := range returnedValues(f, 0) {
					if k, ok := rv.Val.(*ssa.Const); ok {
						s := constTerm(k)
						var v string
						fmt.Sscanf(s, "const:%q", &v)
						if m == "VarlinkGetName" {
							name = v
						} else {
							desc = v
						}
					}
				}
			}
		}
	}
	return
}

func runC12(r *Run, p *Prog) {
	// X4: the name arrives exactly as given only if the frame is the encoder's rendering of the reply (no hand-built frames)
	siblingRules(r, p, "C02", []string{"F1"}, "X4")
	ro := DiscoverRoles(p)
	T, cg := ro.T, ro.CG
	wfn := fnSet(ro.WFuncs)
	isW := func(in ssa.Instruction) bool {
		ci, ok := in.(ssa.CallInstruction)
		if !ok {
			return false
		}
		t := staticTarget(ci.Common())
		if t == nil {
			return false
		}
		for g := range cg.Reach([]*ssa.Function{t}, false) {
			if wfn[g] {
				return true
			}
		}
		return false
	}
	bname, bdesc := builtinDescription(p, T)
	// ---- X1
	r.Guard("X1", func() {
		f := p.Func(pkgVarlink, "Call.ReplyError")
		if f == nil {
			r.Unresolved("X1", "Call.ReplyError")
			return
		}
		// analysed with the package's own helpers inlined (a shared name splitter); the write chain and the exported
		// API stay calls
		f = p.Inlined(f, func(callee *ssa.Function) bool {
			if fnPkgPath(callee) != pkgVarlink || callee.Object() != nil && callee.Object().Exported() {
				return true
			}
			for g := range cg.Reach([]*ssa.Function{callee}, false) {
				if wfn[g] {
					return true
				}
			}
			return false
		})
		cg.AddView(f)
		nameP := "param:" + f.Params[2].Name()
		parP := "param:" + f.Params[3].Name()
		R := "call:strings.LastIndex(" + nameP + `,const:".")`
		ifaceT := "slice(" + nameP + ",nil," + R + ")"
		allowed := func(fs []Fact) bool {
			_, hi := intervalOf(fs, R)
			if hi <= 0 {
				return true
			}
			return bname != "" && hasFact(fs, "EQ", ifaceT, fmt.Sprintf("const:%q", bname))
		}
		// every return without a write crosses an allowed refusal edge
		reach, w := reachInstr(f, nil, isReturn, isW, func(a, b *ssa.BasicBlock) bool { return allowed(T.edgeFactsOn(a, b)) })
		r.Ob("X1", shortName(f), "an error name is refused only for a missing interface part or the reserved interface org.varlink.service", f.Pos(), !reach,
			"the function can return without sending the error for a name that has an interface part other than org.varlink.service: valid error names are refused (or silently dropped)", witnessPos(p, w)...)
		// refusal edges: non-nil error, no write
		n := 0
		for _, b := range f.Blocks {
			for _, s := range b.Succs {
				if !allowed(T.edgeFactsOn(b, s)) {
					continue
				}
				n++
				bad, w2 := reachFromBlock(f, s, func(in ssa.Instruction) bool { return isW(in) || isNilErrorReturn(in) }, nil)
				r.Ob("X1", shortName(f), "a refused name yields an error and nothing is written", p.InstrPos(b.Instrs[len(b.Instrs)-1]), !bad, "on a refusing edge a write or a success return is reachable", witnessPos(p, w2)...)
			}
		}
		if n < 2 {
			r.Ob("X1", shortName(f), "both refusals exist (no interface part; reserved interface)", f.Pos(), false, fmt.Sprintf("%d refusing edges found: names without interface part or of the reserved interface are sent", n))
		}
		// the write carries the two facts and the reply members
		for _, b := range f.Blocks {
			for _, in := range b.Instrs {
				if !isW(in) {
					continue
				}
				fs := T.FactsAt(b)
				lo, _ := intervalOf(fs, R)
				okF := lo >= 1 && hasFact(fs, "NE", ifaceT, fmt.Sprintf("const:%q", bname))
				r.Ob("X1", shortName(f), "the reply is sent only with r >= 1 and interface != org.varlink.service", in.Pos(), okF, fmt.Sprintf("facts at the write: %v", factStrings(fs)))
				c := in.(ssa.CallInstruction).Common()
				var rep *ssa.Alloc
				for _, a := range c.Args {
					if al := unwrapAlloc(a); al != nil {
						rep = al
					}
				}
				okM := false
				detail := "reply literal not found"
				if rep != nil {
					st := fieldStores(rep)
					e, pp := st[replyF.Error], st[replyF.Parameters]
					okM = len(e) == 1 && strip(T.T(e[0])) == nameP && len(pp) == 1 && strip(T.T(pp[0])) == parP && len(st[replyF.Continues]) == 0
					detail = fmt.Sprintf("Error=%v Parameters=%v", termsOf(T, e), termsOf(T, pp))
				} else if e, pp, cont, found := replyLiteralBelow(T, isW, c, 0); found {
					// the literal is built by a function of the write chain from its own parameters
					// (`c.replyError(ctx, name, parameters)`): the members are the arguments passed here
					okM = e == nameP && pp == parP && !cont
					detail = fmt.Sprintf("Error=%s Parameters=%s (literal built in the callee), continues set=%v", e, pp, cont)
				}
				r.Ob("X1", shortName(f), "the reply carries the name and the parameters unchanged", in.Pos(), okM, detail)
			}
		}
	})
	// ---- X1b: below ReplyError, the write chain refuses a reply only for a oneway call or a failed marshal
	r.Guard("X1b", func() {
		f := p.Func(pkgVarlink, "Call.ReplyError")
		if f == nil {
			return
		}
		chain := map[*ssa.Function]bool{}
		for g := range cg.Reach([]*ssa.Function{f}, false) {
			if g == f || fnPkgPath(g) != pkgVarlink {
				continue
			}
			for h := range cg.Reach([]*ssa.Function{g}, false) {
				if wfn[h] {
					chain[g] = true
				}
			}
		}
		wsite := map[ssa.Instruction]bool{}
		for _, w := range ro.WSites {
			wsite[w.Instr] = true
		}
		ctx := map[*ssa.Function]bool{f: true}
		for g := range chain {
			ctx[g] = true
		}
		n := 0
		for g := range chain {
			n++
			delivers := func(in ssa.Instruction) bool { return wsite[in] || isW(in) }
			allowed := func(fs []Fact) bool {
				if callFlagFact(fs, ".In.Oneway", true) {
					return true
				}
				for _, fc := range fs {
					if fc.Op == "NE" && (fc.A == "nil" || fc.B == "nil") && strings.Contains(fc.A+fc.B, "json.Marshal") {
						return true
					}
				}
				return false
			}
			reach, w := reachInstr(g, nil, isReturn, delivers, func(a, b *ssa.BasicBlock) bool {
				return allowed(T.edgeFactsOn(a, b)) || encodeErrorEdge(p, cg, wfn, a, b) || zeroFieldEdgeInContext(cg, g, a, b, ctx)
			})
			r.Ob("X1", shortName(g), "the write path below ReplyError gives up only for a oneway call or a marshal error", g.Pos(), !reach,
				"a function between ReplyError and the connection write can return without writing for another reason: error replies with a valid name are refused in some call states", witnessPos(p, w)...)
		}
		if n == 0 {
			r.Unresolved("X1", "functions between ReplyError and the connection write")
		}
	})
	// ---- X2
	r.Guard("X2", func() {
		decl := reErrDecl.FindAllStringSubmatch(bdesc, -1)
		if len(decl) == 0 || bname == "" {
			r.Unresolved("X2", "error declarations in the embedded org.varlink.service description")
			return
		}
		de := p.Func(pkgVarlink, "Error.DispatchError")
		if de == nil {
			r.Unresolved("X2", "Error.DispatchError")
			return
		}
		de = p.Inlined(de, nil) // a decode helper shared by the arms is part of each arm
		for _, d := range decl {
			E, fld := d[1], d[2]
			wire := fmt.Sprintf("const:%q", bname+"."+E)
			nt := p.NamedType(pkgVarlink, E)
			if nt == nil {
				r.Ob("X2", "-", "typed error "+E+" exists", de.Pos(), false, "no Go type for the standard error "+E)
				continue
			}
			st, _ := nt.Underlying().(*types.Struct)
			// (a) tag
			okTag := st != nil && st.NumFields() == 1 && jsonKey(st, 0) == fld
			r.Ob("X2", E, "JSON key of "+E+"'s member equals the description's field name "+fld, nt.Obj().Pos(), okTag, "the typed error's member is encoded under another key than the description declares: the client decodes an empty value")
			// (b) Error() constant
			ef := p.SSA.LookupMethod(nt, p.Pkgs[pkgVarlink].Types, "Error")
			okE := false
			if ef != nil {
				for _, rv := range returnedValues(ef, 0) {
					okE = T.T(rv.Val) == wire
				}
			}
			r.Ob("X2", E, E+".Error() returns "+bname+"."+E, nt.Obj().Pos(), okE, "the typed error reports a different name than the one on the wire")
			// (c) helper Reply<E>
			okH, detail := stdErrorHelperOK(p, T, cg, wfn, E, wire, st)
			r.Ob("X2", E, "Reply"+E+" sends "+bname+"."+E+" with its argument", nt.Obj().Pos(), okH, detail)
			// (d) DispatchError arm
			okD := false
			detailD := "no arm for " + wire
			for _, b := range de.Blocks {
				for _, s := range b.Succs {
					found := false
					for _, f := range T.edgeFactsOn(b, s) {
						if f.Op == "EQ" && (f.A == wire || f.B == wire) && (strings.HasSuffix(strip(f.A), ".Name") || strings.HasSuffix(strip(f.B), ".Name")) {
							found = true
						}
					}
					if !found {
						continue
					}
					// in the arm: decode into a fresh E, return its address; decode failure returns the receiver
					var target *ssa.Alloc
					okArm := true
					why := ""
					for _, in := range armInstrs(de, s) {
						switch x := in.(type) {
						case *ssa.Call:
							if calleeName(&x.Call) == "json.Unmarshal" {
								al := unwrapAlloc(x.Call.Args[1])
								if al == nil || !isNamed(al.Type(), pkgVarlink, E) {
									okArm, why = false, "decodes into a value that is not a *"+E
								}
								target = al
							}
						case *ssa.Return:
							v := x.Results[0]
							if mi, ok := v.(*ssa.MakeInterface); ok {
								if al, ok := mi.X.(*ssa.Alloc); ok {
									if !isNamed(al.Type(), pkgVarlink, E) {
										okArm, why = false, "returns a "+typeStr(al.Type())
									}
									if target != nil && al != target {
										okArm, why = false, "returns a different value than the one decoded into"
									}
									continue
								}
								if strip(T.T(mi.X)) == "param:"+de.Params[0].Name() {
									continue // untyped error on decode failure
								}
							}
							okArm, why = false, "returns "+strip(T.T(v))
						}
					}
					// the decode error is examined: a typed error is returned only if the parameters decoded
					for _, in := range armInstrs(de, s) {
						c, isC := in.(*ssa.Call)
						if !isC || calleeName(&c.Call) != "json.Unmarshal" {
							continue
						}
						errT := T.T(c)
						tested, _ := mustCross(T, de, c, func(i ssa.Instruction) bool {
							ret, ok := i.(*ssa.Return)
							if !ok {
								return false
							}
							mi, ok := ret.Results[0].(*ssa.MakeInterface)
							if !ok {
								return false
							}
							_, isAl := mi.X.(*ssa.Alloc)
							return isAl
						}, nil, func(fs []Fact) bool { return hasFact(fs, "EQ", errT, "nil") })
						if !tested {
							okArm, why = false, "the typed error is returned although decoding its parameters may have failed (decode error not examined)"
						}
						// the parameters are decoded exactly when there are any: the decode reads *raw under raw != nil, and
						// without passing the decode the typed error is returned only where raw == nil
						var raw ssa.Value
						if ld, ok := c.Call.Args[0].(*ssa.UnOp); ok && ld.Op == token.MUL {
							raw = ld.X
						} else if cv, ok := c.Call.Args[0].(*ssa.ChangeType); ok {
							if ld, ok := cv.X.(*ssa.UnOp); ok && ld.Op == token.MUL {
								raw = ld.X
							}
						}
						if raw == nil {
							okArm, why = false, "the decode does not read the raw parameters of the error"
						} else {
							rawT := T.T(raw)
							if !hasFact(T.FactsAt(c.Block()), "NE", rawT, "nil") {
								okArm, why = false, "the raw parameters are dereferenced where they are not known to be present (flipped or missing nil test): an error reply without parameters crashes the client, one with parameters is not decoded"
							}
							if len(s.Instrs) > 0 {
								skip, _ := reachFromBlockAvoid(de, s, func(i ssa.Instruction) bool {
									ret, ok := i.(*ssa.Return)
									if !ok {
										return false
									}
									mi, ok := ret.Results[0].(*ssa.MakeInterface)
									if !ok {
										return false
									}
									_, isAl := mi.X.(*ssa.Alloc)
									return isAl
								}, func(i ssa.Instruction) bool { return i == ssa.Instruction(c) }, func(x, y *ssa.BasicBlock) bool {
									return hasFact(T.edgeFactsOn(x, y), "EQ", rawT, "nil")
								})
								if skip {
									okArm, why = false, "the typed error can be returned without decoding parameters that are present"
								}
							}
						}
					}
					okD = okArm && target != nil
					detailD = why
					if target == nil && okArm {
						detailD = "the arm does not decode the parameters into a " + E
					}
				}
			}
			r.Ob("X2", E, "DispatchError maps "+bname+"."+E+" to *"+E+" decoded from the parameters", de.Pos(), okD, detailD)
		}
		r.Floor("X2", 16)
	})
	// ---- X3
	r.Guard("X3", func() {
		ef := p.Func(pkgVarlink, "Error.Error")
		ok := false
		if ef != nil {
			for _, rv := range returnedValues(ef, 0) {
				ok = strip(T.T(rv.Val)) == "param:"+ef.Params[0].Name()+".Name"
			}
		}
		r.Ob("X3", "Error.Error", "Error() returns the Name member", ef.Pos(), ok, "")
		// the error frame's name and raw parameters reach the Error value unchanged, from a fresh decode target
		if cm := buildClientModel(p, ro); cm.Decode != nil {
			okF, why := freshTarget(p, *cm.Decode)
			r.Ob("X3", shortName(cm.Recv), "the reply frame is decoded into a fresh zero value", cm.Decode.Call.Pos(), okF,
				"an error reply without parameters would carry the parameters of an earlier reply: "+why)
			st := derefStruct(cm.Decode.Target.Type())
			_, efld := structFieldByJSON(st, "error")
			_, pfld := structFieldByJSON(st, "parameters")
			n := 0
			if efld != nil && pfld != nil {
				mT := strip(T.T(cm.Decode.Target))
				for _, cs := range callsNamed(cm.Recv, false, "varlink.Error.DispatchError") {
					if a := unwrapAlloc(cs.Common.Args[0]); a != nil {
						n++
						fsS := fieldStores(a)
						nn, pp := fsS["Name"], fsS["Parameters"]
						okk := len(nn) == 1 && strip(T.T(nn[0])) == mT+"."+efld.Name() && len(pp) == 1 && strip(T.T(pp[0])) == mT+"."+pfld.Name()
						detailX := fmt.Sprintf("Name=%v Parameters=%v", termsOf(T, nn), termsOf(T, pp))
						// both members are set on every path to the conversion (the typed-error conversion asserts the
						// dynamic type of Parameters: a member left unset is a nil interface there)
						if okk {
							for _, ref := range *a.Referrers() {
								fa, isFA := ref.(*ssa.FieldAddr)
								if !isFA {
									continue
								}
								for _, st := range storesTo(fa) {
									dom := st.Block() == cs.Instr.Block() && instrIndex(st) < instrIndex(cs.Instr) || st.Block() != cs.Instr.Block() && st.Block().Dominates(cs.Instr.Block())
									if !dom {
										okk = false
										detailX += fmt.Sprintf("; member %s is set only on some paths to the conversion", fieldName(fa.X, fa.Field))
									}
								}
							}
						}
						r.Ob("X3", shortName(cm.Recv), "Error{Name: frame's error member, Parameters: frame's raw parameters}", cs.Instr.Pos(), okk, detailX)
						raw := false
						if pt, ok := pfld.Type().(*types.Pointer); ok {
							raw = isNamed(pt.Elem(), "encoding/json", "RawMessage")
						}
						r.Ob("X3", shortName(cm.Recv), "error parameters stay raw JSON until the typed error decodes them", pfld.Pos(), raw || isNamed(pfld.Type(), "encoding/json", "RawMessage"), "the parameters member is decoded generically (numbers become float64)")
					}
				}
			}
			if n == 0 {
				r.Unresolved("X3", "construction of the Error value from the reply frame")
			}
		} else {
			r.Unresolved("X3", "client receive function")
		}
		de := p.Func(pkgVarlink, "Error.DispatchError")
		// names outside the table come back as the untyped error itself
		if de != nil {
			okDef := false
			for _, rv := range returnedValues(de, 0) {
				fs := T.FactsAt(rv.Ret.Block())
				nEq := 0
				for _, f := range fs {
					if f.Op == "EQ" && strings.HasPrefix(f.A+f.B, "const:\"") {
						nEq++
					}
				}
				if nEq == 0 {
					if mi, ok := rv.Val.(*ssa.MakeInterface); ok && strip(T.T(mi.X)) == "param:"+de.Params[0].Name() {
						okDef = true
					}
				}
			}
			r.Ob("X3", shortName(de), "any other error name is returned as the untyped *Error itself", de.Pos(), okDef, "the default path of DispatchError does not return the receiver")
		}
	})
	// ---- X5: what the client's receive function reports reaches the caller of the convenience API as the same error
	// value: every function of the package that calls Send and the function Send returns (Call; GetInfo and the
	// resolver go through Call) returns, as its error, nil or exactly an error result of those two calls - wrapped or
	// re-created errors (fmt.Errorf("%s: %v", method, err)) are no longer the typed values a caller can match
	r.Guard("X5", func() {
		cm := buildClientModel(p, ro)
		if cm.SendBuilt == nil {
			r.Unresolved("X5", "client Send")
			return
		}
		n := 0
		// (and, one level up, the functions that call those: GetInfo, GetInterfaceDescription, the resolver helpers)
		targets := map[*ssa.Function]bool{cm.SendBuilt: true}
		var fns []*ssa.Function
		for round := 0; round < 2; round++ {
			var add []*ssa.Function
			for _, f := range p.FuncsOf(pkgVarlink) {
				if f.Parent() != nil || targets[f] || len(f.Blocks) == 0 {
					continue
				}
				res := f.Signature.Results()
				if res.Len() == 0 || !isErrorType(res.At(res.Len()-1).Type()) {
					continue
				}
				for _, cs := range callsIn(f, false) {
					if t := staticTarget(cs.Common); t != nil && targets[t] {
						add = append(add, f)
						break
					}
				}
			}
			for _, f := range add {
				targets[f] = true
				fns = appendFn(fns, f)
			}
		}
		for _, f := range fns {
			res := f.Signature.Results()
			var sends []*ssa.Call
			for _, cs := range callsIn(f, false) {
				if c, ok := cs.Instr.(*ssa.Call); ok && targets[staticTarget(cs.Common)] && staticTarget(cs.Common) != f {
					sends = append(sends, c)
				}
			}
			if len(sends) == 0 {
				continue
			}
			okTerms := map[string]bool{"nil": true}
			for _, sc := range sends {
				if tup, isTup := sc.Type().(*types.Tuple); isTup {
					okTerms[fmt.Sprintf("ext(%s,%d)", T.T(sc), tup.Len()-1)] = true
				} else {
					okTerms[T.T(sc)] = true
				}
				// the call of the returned function value
				for _, cs := range callsIn(f, false) {
					if c, ok := cs.Instr.(*ssa.Call); ok && !c.Call.IsInvoke() && T.T(c.Call.Value) == "ext("+T.T(sc)+",0)" {
						okTerms["ext("+T.T(c)+",1)"] = true
						okTerms[T.T(c)] = true
					}
				}
			}
			for _, rv := range returnedValues(f, res.Len()-1) {
				// (only returns after Send was called: argument checks before it may fail with their own errors)
				after := false
				for _, sc := range sends {
					if sc.Block() == rv.Ret.Block() || sc.Block().Dominates(rv.Ret.Block()) {
						after = true
					}
				}
				if !after {
					continue
				}
				n++
				vt := T.T(rv.Val)
				ok := okTerms[vt]
				if ph, isPhi := rv.Val.(*ssa.Phi); isPhi && !ok {
					ok = true
					for _, e := range ph.Edges {
						if !okTerms[T.T(e)] {
							ok = false
						}
					}
				}
				r.Ob("X5", shortName(f), "the error of Send / receive is returned as it is", rv.Ret.Pos(), ok,
					"returns "+strip(vt)+": the caller no longer gets the error value the receive function produced (*Error with the remote name and parameters, or the dedicated typed error), so it cannot match it")
			}
		}
		r.Floor("X5", 2)
	})
}

// armInstrs: instructions of the blocks dominated by (and including) start, in block order.
func armInstrs(f *ssa.Function, start *ssa.BasicBlock) []ssa.Instruction {
	var out []ssa.Instruction
	for _, b := range f.Blocks {
		dom := false
		for d := b; d != nil; d = d.Idom() {
			if d == start {
				dom = true
			}
		}
		if dom {
			out = append(out, b.Instrs...)
		}
	}
	return out
}

// replyErrorFlow: in function t (a reply helper), the reply literal handed to the write helper has
// Error = <a string parameter> and Parameters = <an interface parameter>, unchanged.
func replyErrorFlow(T *Terms, t *ssa.Function, wfn map[*ssa.Function]bool) bool {
	for _, cs := range callsIn(t, false) {
		c := staticTarget(cs.Common)
		if c == nil || !wfn[c] {
			continue
		}
		for _, a := range cs.Common.Args {
			if al := unwrapAlloc(a); al != nil {
				st := fieldStores(al)
				e, pp := st[replyF.Error], st[replyF.Parameters]
				if len(e) == 1 && len(pp) == 1 && strings.HasPrefix(strip(T.T(e[0])), "param:") && strings.HasPrefix(strip(T.T(pp[0])), "param:") && len(st[replyF.Continues]) == 0 {
					return true
				}
			}
		}
	}
	return false
}

// stdErrorHelperOK: the helper Call.Reply<E> hands the reply path the constant wire name and a *<E> whose single member
// is the helper's argument (so that encoding/json, not hand-written code, renders it).
func stdErrorHelperOK(p *Prog, T *Terms, cg *CallGraph, wfn map[*ssa.Function]bool, E, wire string, st *types.Struct) (bool, string) {
	h := p.Func(pkgVarlink, "Call.Reply"+E)
	if h == nil {
		return false, "helper Reply" + E + " not found"
	}
	replyT := replyF.Type
	if replyT == nil {
		return false, "type serviceReply not found"
	}
	// the helper in its inlined view, down to (not including) the function that takes the finished *serviceReply: it
	// must hand over a reply literal {Error: <wire name>, Parameters: &E{<member>: <its argument>}} - whether it builds
	// the literal itself or through the generic error-reply function makes no difference
	takesReply := func(callee *ssa.Function) bool {
		for _, prm := range callee.Params {
			if pt, ok := prm.Type().(*types.Pointer); ok && types.Identical(pt.Elem(), replyT) {
				return true
			}
		}
		return fnPkgPath(callee) != pkgVarlink
	}
	v := p.Inlined(h, takesReply)
	okH := false
	detail := "helper does not send a reply literal {Error: " + wire + ", Parameters: &" + E + "{its argument}}"
	n := 0
	for _, b := range v.Blocks {
		for _, in := range b.Instrs {
			al, ok := in.(*ssa.Alloc)
			if !ok {
				continue
			}
			if pt, ok := al.Type().(*types.Pointer); !ok || !types.Identical(pt.Elem(), replyT) {
				continue
			}
			n++
			fs := fieldStores(al)
			hasName := len(fs[replyF.Error]) == 1 && T.T(fs[replyF.Error][0]) == wire
			hasParam := false
			if len(fs[replyF.Parameters]) == 1 {
				if pa := unwrapAlloc(fs[replyF.Parameters][0]); pa != nil && isNamed(pa.Type(), pkgVarlink, E) && st != nil {
					vals := fieldStores(pa)[st.Field(0).Name()]
					if len(vals) == 1 && strip(T.T(vals[0])) == "param:"+v.Params[len(v.Params)-1].Name() {
						hasParam = true
					}
				}
			}
			noCont := len(fs[replyF.Continues]) == 0
			// the literal is what reaches a writing function
			sent := false
			for _, ref := range *al.Referrers() {
				if ci, ok := ref.(ssa.CallInstruction); ok {
					if t := staticTarget(ci.Common()); t != nil {
						for g := range cg.Reach([]*ssa.Function{t}, false) {
							if wfn[g] {
								sent = true
							}
						}
					}
				}
			}
			okH = hasName && hasParam && noCont && sent
			detail = fmt.Sprintf("name constant passed=%v, *%s with the argument passed=%v, continues left unset=%v, literal handed to the write path=%v", hasName, E, hasParam, noCont, sent)
		}
	}
	if n != 1 {
		return false, fmt.Sprintf("%d reply literals on the paths of Reply%s, exactly one expected", n, E)
	}
	return okH, detail
}

// replyLiteralBelow: the callee of the write-chain call c builds the reply literal; returns the terms - in the caller's
// vocabulary - of what its Error and Parameters members are set to, when they are parameters of the callee (possibly
// through a further such callee), and whether Continues is stored.
func replyLiteralBelow(T *Terms, isW func(ssa.Instruction) bool, c *ssa.CallCommon, depth int) (string, string, bool, bool) {
	t := staticTarget(c)
	if t == nil || depth > 2 || len(t.Blocks) == 0 {
		return "", "", false, false
	}
	argOf := func(v ssa.Value) string {
		for i, prm := range t.Params {
			if v == ssa.Value(prm) && i < len(c.Args) {
				return strip(T.T(c.Args[i]))
			}
		}
		return "?" + strip(T.T(v))
	}
	for _, b := range t.Blocks {
		for _, in := range b.Instrs {
			if !isW(in) {
				continue
			}
			ic := in.(ssa.CallInstruction).Common()
			for _, a := range ic.Args {
				if al := unwrapAlloc(a); al != nil {
					st := fieldStores(al)
					e, pp := st[replyF.Error], st[replyF.Parameters]
					if len(e) == 1 && len(pp) == 1 {
						return argOf(e[0]), argOf(pp[0]), len(st[replyF.Continues]) > 0, true
					}
				}
			}
			if e, pp, cont, ok := replyLiteralBelow(T, isW, ic, depth+1); ok {
				// translate the inner callee's argument terms: they are terms of t; only plain parameters map on
				tr := func(s string) string {
					for i, prm := range t.Params {
						if s == "param:"+prm.Name() && i < len(c.Args) {
							return strip(T.T(c.Args[i]))
						}
					}
					return "?" + s
				}
				return tr(e), tr(pp), cont, true
			}
		}
	}
	return "", "", false, false
}
