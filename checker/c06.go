package main

import (
	"fmt"
	"go/token"
	"go/types"
	"regexp"
	"strings"

	"golang.org/x/tools/go/ssa"
)

func init() {
	register(&propDef{
		id: "C06", level: "other", perCfg: false,
		explain: "Necessary structural conditions of C06 - each is one of the mechanisms the statement lists - decided for all paths of package idl by the cursor analysis (E9) and edge-fact rules; roles (layout skipper, token readers, type readers, member loop, entry point) are found by shape. Q1 no blind consume: every byte consumed by the read primitive is inspected, or the byte at the cursor is known from a preceding read+step-back. Q1c comments consume only themselves: between the comment introducer and the end of the comment no read consumes a line terminator except the final one; the comment body stops exactly at newline/end of input. Q2 failure sentinels are propagated: after a reader that can fail, its result is tested before the cursor is used again (or the cursor is proved unchanged since a snapshot). Q3 success only at end of input: the member loop's only success return is on the edge `skipper reported end of input` (whose value is position < len(input)), and every way around the loop crosses a keyword-equality edge, the no-match edge returning an error. Q4 one namespace, checked before insert: every member kind inserts its name into the same map, on the lookup-failed edge, in the block that appends the member. Q5 the entry point's success return carries len(Methods) != 0. Q6 an optional node is built only with element.Kind != optional. Q7 map only for key keyword \"string\", array only for the empty keyword, closing bracket required. Q8 struct/enum homogeneity: a typed field is appended only with Kind != enum; a bare name only when no field was appended yet or Kind == enum, and then Kind becomes enum. Q9 punctuation: the method reader succeeds only after '-' '>' ; the struct reader only after '(' ... ')' and continues only on ','. Q10 interface-name patterns are constant, ^-anchored and the cursor advances by the match length. Q9 also: after a ',' the field list ends only after another field name was read (no dangling comma). Q12 (= C05.K1) every built-in type node is built under the fact `keyword == its name`. Q13 (= C05.K5) the layout skipper passes over exactly space, tab, CR, LF and comments: no other byte is silently ignored. Q5 also: the interface name stored is the reader's non-empty result. Q6 also accepts the guarded-peek form (the element's first byte is tested before the recursive read). Q8 also: the first-field test is exactly `len(fields) == 0`. Q10 also: names longer than 255 bytes are refused in both pattern arms. Q11 (= C05.K8).",
		notDec:  "The re-print/round-trip equality as such (it is the conjunction of the mechanisms above plus the token charsets); name-shape rules the statement does not list.",
		trusted: []string{"regexp with a ^-anchored pattern matches a prefix of its argument"},
		run:     runC06,
	})
}

func runC06(r *Run, p *Prog) {
	// Q11: the token character sets decide which names are well-formed
	siblingRules(r, p, "C05", []string{"K8"}, "Q11")
	// Q12: an unknown lower-case word is rejected only if every built-in type node is built under the fact `keyword == its name`
	siblingRules(r, p, "C05", []string{"K1"}, "Q12")
	// Q13: no text is silently ignored only if the layout skipper passes over exactly the grammar's layout bytes and comments
	siblingRules(r, p, "C05", []string{"K5"}, "Q13")
	m, why := buildIDLModel(p)
	if m == nil {
		r.Unresolved("Q1", why)
		return
	}
	T, a := m.T, m.a
	n := emitCursor(r, m.res, map[string]bool{"Q1": true, "Q2": true})
	r.Stat("cursor_obligations", n)
	// every read site is classified (Q1 coverage): inspected or blind
	nsites := 0
	for _, f := range a.methods {
		for _, s := range a.readSites(f) {
			nsites++
			if len(*s.Referrers()) > 0 {
				r.Ob("Q1", shortName(f), fmt.Sprintf("byte consumed by read #%d has been inspected", a.ord(s)), s.Pos(), true, "result flows into a comparison")
			}
		}
	}
	r.Stat("read_sites", nsites)
	r.Floor("Q1", 10)
	r.Floor("Q2", 6)
	r.Note("roles: skipper=%s line-skippers=%v token-readers=%d type-readers=%d member-loop=%s entry=%s", shortName(m.skipper), fnNames(fnSet(m.lineSkipper)), len(m.tokens)/2, len(m.typeReaders)/2, shortName(m.memberLoop), shortName(m.entry))
	if m.skipper == nil || m.memberLoop == nil || m.entry == nil {
		r.Unresolved("Q3", "layout skipper / member loop / entry point")
		return
	}
	// ---- Q1c comment region
	r.Guard("Q1c", func() { commentRules(r, m, "Q1c") })
	// ---- Q3
	r.Guard("Q3", func() {
		ml := m.memberLoop
		var skipCall *ssa.Call
		for _, b := range ml.Blocks {
			if !blockInLoop(b) {
				continue
			}
			for _, in := range b.Instrs {
				if c, ok := in.(*ssa.Call); ok && c.Call.StaticCallee() == origFn(m.skipper) {
					// the call whose answer decides whether the loop goes on (member readers written in the loop skip
					// layout too, but do not branch on it)
					decides := false
					for _, ref := range *c.Referrers() {
						switch x := ref.(type) {
						case *ssa.If:
							decides = true
						case *ssa.UnOp:
							for _, r2 := range *x.Referrers() {
								if _, isIf := r2.(*ssa.If); isIf && x.Op == token.NOT {
									decides = true
								}
							}
						}
					}
					if decides || skipCall == nil {
						skipCall = c
					}
				}
			}
		}
		if skipCall == nil {
			r.Unresolved("Q3", "skipper call at the head of the member loop")
			return
		}
		// the skipper reports `position < len(input)`
		okRet := false
		for _, rv := range returnedValues(m.skipper, 0) {
			t := strip(T.T(rv.Val))
			okRet = regexp.MustCompile(`^\(param:\w+\.\w+ < call:len\(param:\w+\.\w+\)\)$`).MatchString(t)
		}
		r.Ob("Q3", shortName(m.skipper), "the skipper reports whether input remains (position < len(input))", m.skipper.Pos(), okRet, "the skipper's result is not `position < len(input)`: `end of input` cannot be decided from it")
		nsucc := 0
		for _, rv := range returnedValues(ml, ml.Signature.Results().Len()-1) {
			if T.T(rv.Val) != "nil" {
				continue
			}
			nsucc++
			okk := hasFact(T.FactsAt(rv.Ret.Block()), "EQ", T.T(skipCall), "const:false")
			r.Ob("Q3", shortName(ml), "the member loop succeeds only when the skipper reported end of input", rv.Ret.Pos(), okk,
				"the member loop can return success while input remains: trailing text is accepted without being parsed")
		}
		if nsucc == 0 {
			r.Ob("Q3", shortName(ml), "the member loop has a success return", ml.Pos(), false, "")
		}
		// every way around the loop crosses a keyword-equality edge
		isKw := func(fs []Fact) bool {
			for _, f := range fs {
				if _, _, ok := strConstEq(f); ok {
					return true
				}
			}
			return false
		}
		ok, w := mustCross(T, ml, skipCall, func(in ssa.Instruction) bool { return in == ssa.Instruction(skipCall) }, nil, isKw)
		r.Ob("Q3", shortName(ml), "an unknown keyword ends parsing with an error (no way around the loop without matching a keyword)", skipCall.Pos(), ok,
			"the member loop can continue after a token that matched none of the member keywords: unknown text is skipped", witnessPos(p, w)...)
		// on the no-match edge: error return
		reach, w2 := reachInstr(ml, skipCall, func(in ssa.Instruction) bool {
			ret, isRet := in.(*ssa.Return)
			return isRet && T.T(ret.Results[len(ret.Results)-1]) == "nil"
		}, nil, func(x, y *ssa.BasicBlock) bool {
			fs := T.edgeFactsOn(x, y)
			return isKw(fs) || hasFact(fs, "EQ", T.T(skipCall), "const:false")
		})
		r.Ob("Q3", shortName(ml), "with no keyword matched and input remaining, no success return is reachable", skipCall.Pos(), !reach, "", witnessPos(p, w2)...)
	})
	// ---- Q4
	r.Guard("Q4", func() {
		ml := m.memberLoop
		maps := map[ssa.Value]bool{}
		mapTerms := map[string]ssa.Value{}
		arms := 0
		for _, b := range ml.Blocks {
			for _, in := range b.Instrs {
				mu, ok := in.(*ssa.MapUpdate)
				if !ok {
					continue
				}
				arms++
				if _, isLoad := mu.Map.(*ssa.UnOp); isLoad {
					// (a map kept in a member of the cursor is loaded anew at each use: one map per member term)
					if _, seen := mapTerms[strip(T.T(mu.Map))]; !seen {
						mapTerms[strip(T.T(mu.Map))] = mu.Map
						maps[mu.Map] = true
					}
				} else {
					maps[mu.Map] = true
				}
				key := T.T(mu.Key)
				look := "ext(lookup(" + T.T(mu.Map) + "," + key + "),1)"
				// the lookup is on a load of the same member of the same object
				okFact := false
				// a map[string]bool used as a set: `if set[name]` is the membership test provided every insert stores true
				plain := "lookup(" + T.T(mu.Map) + "," + key + ")"
				allTrue := true
				for _, b2 := range ml.Blocks {
					for _, in2 := range b2.Instrs {
						if mu2, ok := in2.(*ssa.MapUpdate); ok && mu2.Map == mu.Map {
							if k, isK := mu2.Value.(*ssa.Const); !isK || constTerm(k) != "const:true" {
								allTrue = false
							}
						}
					}
				}
				for _, f := range T.FactsAt(b) {
					if f.Op == "EQ" && (f.A == "const:false" && strip(f.B) == strip(look) || f.B == "const:false" && strip(f.A) == strip(look)) {
						okFact = true
					}
					if allTrue && f.Op == "EQ" && (f.A == "const:false" && strip(f.B) == strip(plain) || f.B == "const:false" && strip(f.A) == strip(plain)) {
						okFact = true
					}
				}
				okKey := strings.HasPrefix(strip(key), "ext(call:") && strings.HasSuffix(strip(key), ",0).Name")
				if !okKey && m.memberNodeOf(ml, key) != nil {
					okKey = true // the Name of the member node built on this arm (the reader is written in the loop)
				}
				r.Ob("Q4", shortName(ml), fmt.Sprintf("member name inserted (update #%d) only on the not-yet-defined edge of a lookup of the same name in the same map", a.ord(mu)), mu.Pos(), okFact && okKey,
					fmt.Sprintf("insert of %s: lookup-failed fact for the same key in the same map present: %v", strip(key), okFact))
				// the member is appended in the same block (so under the same fact)
				apps := 0
				for _, i2 := range b.Instrs {
					if st, ok := i2.(*ssa.Store); ok {
						if c, ok := st.Val.(*ssa.Call); ok {
							if bi, ok := c.Call.Value.(*ssa.Builtin); ok && bi.Name() == "append" {
								apps++
							}
						}
					}
				}
				r.Ob("Q4", shortName(ml), fmt.Sprintf("the member of update #%d is appended to its list and to the combined list under the same test", a.ord(mu)), mu.Pos(), apps == 2, fmt.Sprintf("%d appends next to the insert (expected: own list + combined list)", apps))
			}
		}
		r.Ob("Q4", shortName(ml), "all member kinds share one duplicate-detection map", ml.Pos(), len(maps) == 1 && arms >= 3,
			fmt.Sprintf("%d distinct maps for %d member kinds: a name may be defined twice across kinds", len(maps), arms))
		for mp := range maps {
			_, made := mp.(*ssa.MakeMap)
			okMade := made && !blockInLoop(mp.(ssa.Instruction).Block())
			detail := ""
			if ld, isLd := mp.(*ssa.UnOp); isLd && !made {
				// a member of the cursor: assigned a fresh map once, by the member loop's function before the loop, and
				// nowhere else in the package
				if fa, isFA := ld.X.(*ssa.FieldAddr); isFA && a.isCursorT(fa.X.Type()) {
					n, good := 0, 0
					for _, f := range m.funcs() {
						for _, b := range f.Blocks {
							for _, in := range b.Instrs {
								st, ok := in.(*ssa.Store)
								if !ok {
									continue
								}
								fa2, ok := st.Addr.(*ssa.FieldAddr)
								if !ok || fa2.Field != fa.Field || !types.Identical(fa2.X.Type(), fa.X.Type()) {
									continue
								}
								n++
								if _, isMM := st.Val.(*ssa.MakeMap); isMM && f == ml && !blockInLoop(b) && b.Dominates(ld.Block()) {
									good++
								}
							}
						}
					}
					okMade = n == 1 && good == 1
					detail = fmt.Sprintf("the map is a member of the cursor: %d assignment(s) in the package, %d of them a fresh map made by the member loop's function before the loop", n, good)
				}
			}
			r.Ob("Q4", shortName(ml), "the map is created empty per parse", mp.Pos(), okMade, detail)
		}
		// insert only after a successful member reader: under err == nil
		for _, b := range ml.Blocks {
			for _, in := range b.Instrs {
				if mu, ok := in.(*ssa.MapUpdate); ok {
					key := strip(T.T(mu.Key))
					callT := strings.TrimSuffix(strings.TrimPrefix(key, "ext("), ",0).Name")
					okErr := false
					for _, f := range T.FactsAt(b) {
						if f.Op == "EQ" && (f.A == "nil" || f.B == "nil") && strings.Contains(strip(f.A+f.B), callT+",1)") {
							okErr = true
						}
					}
					if !okErr && m.memberNodeOf(ml, T.T(mu.Key)) != nil {
						// the member reader is part of the loop: its failure exits are returns of the loop itself, and what
						// reaches the insert is the node built on the path where every read succeeded (the tests of the
						// individual reads are the cursor-level Q2 obligations of this function)
						okErr = true
					}
					r.Ob("Q2", shortName(ml), fmt.Sprintf("member of update #%d is used only if its reader reported no error", a.ord(mu)), mu.Pos(), okErr, "")
				}
			}
		}
	})
	// ---- Q5
	r.Guard("Q5", func() {
		e := m.entry
		n := 0
		for _, rv := range returnedValues(e, e.Signature.Results().Len()-1) {
			if T.T(rv.Val) != "nil" {
				continue
			}
			n++
			ok := false
			for _, f := range T.FactsAt(rv.Ret.Block()) {
				s := strip(f.String())
				if (f.Op == "NE" || f.Op == "LT") && strings.Contains(s, "call:len(") && strings.Contains(s, ".Methods)") && strings.Contains(s, "const:0") {
					ok = true
				}
			}
			r.Ob("Q5", shortName(e), "a description is accepted only with at least one method", rv.Ret.Pos(), ok, "the success return does not carry len(Methods) != 0")
			// and only if the member loop reported no error
			okErr := false
			for _, f := range T.FactsAt(rv.Ret.Block()) {
				if f.Op == "EQ" && (f.A == "nil" || f.B == "nil") && strings.Contains(f.A+f.B, funcFullName(m.memberLoop)) {
					okErr = true
				}
			}
			r.Ob("Q2", shortName(e), "the tree is returned only if parsing reported no error", rv.Ret.Pos(), okErr, "")
		}
		if n == 0 {
			r.Unresolved("Q5", "success return of the entry point")
		}
		// ... and only with an interface name: the reader of the name yields "" for text that is no name, and that is
		// tested before the member loop can succeed
		if ml := m.memberLoop; ml != nil {
			idlT := p.NamedType(pkgIDL, "IDL")
			var nameV ssa.Value
			for _, b := range ml.Blocks {
				for _, in := range b.Instrs {
					st, ok := in.(*ssa.Store)
					if !ok {
						continue
					}
					fa, ok := st.Addr.(*ssa.FieldAddr)
					if !ok || fieldName(fa.X, fa.Field) != "Name" {
						continue
					}
					if pt, ok := fa.X.Type().Underlying().(*types.Pointer); ok && idlT != nil && types.Identical(pt.Elem(), idlT) {
						nameV = st.Val
					}
				}
			}
			if nameV == nil {
				r.Unresolved("Q5", "the store of the interface name in the member loop's function")
			} else {
				res := ml.Signature.Results()
				for _, rv := range returnedValues(ml, res.Len()-1) {
					if T.T(rv.Val) != "nil" {
						continue
					}
					r.Ob("Q5", shortName(ml), "parsing succeeds only with a non-empty interface name", rv.Ret.Pos(), hasFact(T.FactsAt(rv.Ret.Block()), "NE", T.T(nameV), `const:""`),
						"the success return is reachable without the interface name having been tested against \"\": `interface` followed by something that is no name is accepted with an empty name")
				}
			}
		}
		// error returns carry no tree
		for _, rv := range returnedValues(e, 0) {
			for _, rv2 := range returnedValues(e, 1) {
				if rv.Ret == rv2.Ret && T.T(rv2.Val) != "nil" {
					r.Ob("Q5", shortName(e), "an error is returned with no tree", rv.Ret.Pos(), T.T(rv.Val) == "nil", "an error return also hands out a (partial) tree")
				}
			}
		}
	})
	// ---- Q6, Q7 on type node constructions
	r.Guard("Q6", func() {
		nodes := m.typeNodes()
		nMaybe, nColl := 0, 0
		for _, tn := range nodes {
			for _, ka := range tn.Kinds {
				name := m.kindName[ka.K]
				switch name {
				case "TypeMaybe":
					nMaybe++
					ok := false
					if len(tn.Elem) == 1 {
						et := T.T(tn.Elem[0])
						ok = hasFact(ka.Facts, "NE", et+".Kind", fmt.Sprintf("const:%d", m.kinds["TypeMaybe"])) && hasFact(ka.Facts, "NE", et, "nil")
						// ... or the byte at which the element reader starts was seen not to be '?' (a type reader
						// builds an optional only behind '?': C05.K1): the reader call is the first call of the block
						// entered on the `input[position] != '?'` edge
						if !ok && hasFact(ka.Facts, "NE", et, "nil") {
							if ec, isCall := tn.Elem[0].(*ssa.Call); isCall && ec.Call.StaticCallee() != nil && m.typeReaders[origFn(ec.Call.StaticCallee())] {
								eb := ec.Block()
								first := true
								for _, in := range eb.Instrs {
									if in == ssa.Instruction(ec) {
										break
									}
									if _, isC := in.(ssa.CallInstruction); isC {
										first = false
									}
									if _, isS := in.(*ssa.Store); isS {
										first = false
									}
								}
								if first && len(eb.Preds) >= 1 {
									// every way into the block: `input[position] != '?'`, or the cursor is at the end of the input
									all := true
									for _, pb := range eb.Preds {
										edgeOK := false
										iff, isIf := pb.Instrs[len(pb.Instrs)-1].(*ssa.If)
										bo, isBo := ssa.Value(nil), false
										var cond *ssa.BinOp
										if isIf {
											cond, isBo = iff.Cond.(*ssa.BinOp)
										}
										_ = bo
										if isIf && isBo {
											onFalse := len(pb.Succs) == 2 && pb.Succs[1] == eb && pb.Succs[0] != eb
											onTrue := len(pb.Succs) == 2 && pb.Succs[0] == eb && pb.Succs[1] != eb
											isPos := func(v ssa.Value) bool {
												li, ok := v.(*ssa.UnOp)
												return ok && li.Op == token.MUL && isRecvField(li.X, nil, m.a.posIdx, m.a.cursorT)
											}
											isIn := func(v ssa.Value) bool {
												ld, ok := v.(*ssa.UnOp)
												return ok && ld.Op == token.MUL && isRecvField(ld.X, nil, m.a.inIdx, m.a.cursorT)
											}
											// nothing moves the cursor in pb after the position was read
											clean := true
											for _, in := range pb.Instrs {
												if _, isC := in.(ssa.CallInstruction); isC {
													if c, ok := in.(*ssa.Call); !ok || func() bool { _, isB := c.Call.Value.(*ssa.Builtin); return !isB }() {
														clean = false
													}
												}
												if _, isS := in.(*ssa.Store); isS {
													clean = false
												}
											}
											if ix, isIx := cond.X.(*ssa.Index); isIx && clean {
												if k, isK := cond.Y.(*ssa.Const); isK && k.Value != nil && k.Int64() == '?' && isIn(ix.X) && isPos(ix.Index) {
													edgeOK = cond.Op == token.EQL && onFalse || cond.Op == token.NEQ && onTrue
												}
											}
											if lc, isCall := cond.Y.(*ssa.Call); isCall && clean && isPos(cond.X) && len(lc.Call.Args) == 1 && isIn(lc.Call.Args[0]) {
												if bi, isB := lc.Call.Value.(*ssa.Builtin); isB && bi.Name() == "len" {
													edgeOK = cond.Op == token.LSS && onFalse || cond.Op == token.GEQ && onTrue
												}
											}
										}
										if !edgeOK {
											all = false
										}
									}
									ok = all
								}
							}
						}
					}
					r.Ob("Q6", shortName(tn.Fn), "an optional is built only around a non-nil element that is not itself an optional", tn.Alloc.Pos(), ok, "`??T` would be accepted (or a failed element read wrapped)")
				case "TypeMap", "TypeArray":
					nColl++
					want := ifs(name == "TypeMap", "string", "")
					_, okKw := m.tokenEq(ka.Facts, want)
					_, okOpen := m.nextEq(ka.Facts, '[')
					_, okClose := m.nextEq(ka.Facts, ']')
					okElem := len(tn.Elem) == 1 && hasFact(ka.Facts, "NE", T.T(tn.Elem[0]), "nil")
					r.Ob("Q7", shortName(tn.Fn), name+" is built only for `["+want+"]` followed by a successfully read element type", tn.Alloc.Pos(), okKw && okOpen && okClose && okElem,
						fmt.Sprintf("key keyword == %q known: %v, '[' known: %v, ']' known: %v, element non-nil known: %v", want, okKw, okOpen, okClose, okElem))
				}
			}
		}
		if nMaybe == 0 {
			r.Unresolved("Q6", "construction of an optional type node")
		}
		if nColl < 2 {
			r.Unresolved("Q7", "construction of map and array type nodes")
		}
		// any other key keyword fails: in the function that builds maps, after '[' every path to a non-nil return crosses kw=="string" or kw==""
		for _, tn := range nodes {
			isColl := false
			for _, ka := range tn.Kinds {
				if m.kindName[ka.K] == "TypeMap" {
					isColl = true
				}
			}
			if !isColl {
				continue
			}
			f := tn.Fn
			for _, b := range f.Blocks {
				for _, s := range b.Succs {
					if _, ok := m.nextEq(T.edgeFactsOn(b, s), '['); !ok {
						continue
					}
					reach, w := reachFromBlock(f, s, func(in ssa.Instruction) bool { return in == ssa.Instruction(tn.Alloc) }, func(x, y *ssa.BasicBlock) bool {
						fs := T.edgeFactsOn(x, y)
						_, a1 := m.tokenEq(fs, "string")
						_, a2 := m.tokenEq(fs, "")
						return a1 || a2
					})
					r.Ob("Q7", shortName(f), "after '[' only the key keywords \"string\" and \"\" lead to a collection type", p.InstrPos(b.Instrs[len(b.Instrs)-1]), !reach, "a map key other than string is accepted", witnessPos(p, w)...)
				}
			}
		}
	})
	// ---- Q8
	r.Guard("Q8", func() {
		enumK := fmt.Sprintf("const:%d", m.kinds["TypeEnum"])
		var sf *ssa.Function
		for _, tn := range m.typeNodes() {
			for _, ka := range tn.Kinds {
				if m.kindName[ka.K] == "TypeStruct" {
					sf = tn.Fn
				}
			}
		}
		if sf == nil {
			r.Unresolved("Q8", "struct reader")
			return
		}
		// field appends
		var appends []*ssa.Store
		for _, b := range sf.Blocks {
			for _, in := range b.Instrs {
				if st, ok := in.(*ssa.Store); ok {
					if c, ok := st.Val.(*ssa.Call); ok {
						if bi, ok := c.Call.Value.(*ssa.Builtin); ok && bi.Name() == "append" && strings.HasSuffix(strip(T.T(st.Addr)), ".Fields") {
							appends = append(appends, st)
						}
					}
				}
			}
		}
		if len(appends) == 0 {
			r.Unresolved("Q8", "append of a field in the struct reader")
			return
		}
		kindT := ""
		for _, st := range appends {
			kindT = strings.TrimSuffix(strings.TrimPrefix(strip(T.T(st.Addr)), "&"), ".Fields") + ".Kind"
		}
		isKindEnum := func(fs []Fact, pol bool) bool { return hasFact(fs, ifs(pol, "EQ", "NE"), kindT, enumK) }
		typed, bare := 0, 0
		for _, b := range sf.Blocks {
			for _, s := range b.Succs {
				fs := T.edgeFactsOn(b, s)
				_, isColon := m.nextEq(fs, ':')
				notColon := false
				for _, f := range fs {
					if f.Op == "NE" && (f.A == "const:58" && strings.HasPrefix(f.B, m.nextPfx) || f.B == "const:58" && strings.HasPrefix(f.A, m.nextPfx)) {
						notColon = true
					}
				}
				for _, app := range appends {
					app := app
					target := func(in ssa.Instruction) bool { return in == ssa.Instruction(app) }
					if isColon {
						typed++
						reach, w := reachFromBlock(sf, s, target, func(x, y *ssa.BasicBlock) bool { return isKindEnum(T.edgeFactsOn(x, y), false) })
						r.Ob("Q8", shortName(sf), "a typed field is appended only when the list is not an enum", p.InstrPos(b.Instrs[len(b.Instrs)-1]), !reach,
							"after `name:` the field can be appended without having tested Kind != enum: `(a, b: int)` is accepted as a mixed list", witnessPos(p, w)...)
					}
					if notColon {
						bare++
						reach, w := reachFromBlock(sf, s, target, func(x, y *ssa.BasicBlock) bool {
							fs2 := T.edgeFactsOn(x, y)
							if isKindEnum(fs2, true) {
								return true
							}
							for _, f := range fs2 {
								for _, t := range []string{f.A, f.B} {
									st := strip(t)
									if strings.HasPrefix(st, "call:len(") && strings.HasSuffix(st, ".Fields)") {
										if _, hi := intervalOf(fs2, t); hi <= 0 {
											return true // len(fields) == 0: the first entry
										}
									}
								}
							}
							return false
						})
						r.Ob("Q8", shortName(sf), "a bare name is appended only as the first entry or when the list already is an enum", p.InstrPos(b.Instrs[len(b.Instrs)-1]), !reach,
							"a bare name can be appended after typed fields: `(a: int, b)` is accepted as a mixed list", witnessPos(p, w)...)
						// and the list becomes an enum
						reach2, w2 := reachFromBlockAvoid(sf, s, target, func(in ssa.Instruction) bool {
							st, ok := in.(*ssa.Store)
							return ok && strip(T.T(st.Addr)) == "&"+kindT && T.T(st.Val) == enumK
						}, nil)
						r.Ob("Q8", shortName(sf), "appending a bare name marks the list as an enum", p.InstrPos(b.Instrs[len(b.Instrs)-1]), !reach2, "", witnessPos(p, w2)...)
					}
				}
			}
		}
		if typed == 0 || bare == 0 {
			r.Unresolved("Q8", "typed / bare branches of the field loop (decided by the ':' read)")
		}
	})
	// ---- Q9
	r.Guard("Q9", func() {
		punct := func(f *ssa.Function, node *ssa.Alloc, what string, chars ...int) {
			for _, rv := range returnedValues(f, 0) {
				if T.T(rv.Val) == "nil" {
					continue
				}
				// (when the reader is part of a function that reads other forms too, only the returns of this node)
				if node != nil {
					is := rv.Val == ssa.Value(node)
					if ph, ok := rv.Val.(*ssa.Phi); ok {
						for _, e := range ph.Edges {
							if e == ssa.Value(node) {
								is = true
							}
						}
					}
					if !is {
						continue
					}
				}
				if f.Signature.Results().Len() == 2 {
					// only success returns
					skip := false
					for _, rv2 := range returnedValues(f, 1) {
						if rv2.Ret == rv.Ret && T.T(rv2.Val) != "nil" {
							skip = true
						}
					}
					if skip {
						continue
					}
				}
				for _, c := range chars {
					c := c
					ret := rv.Ret
					ok, w := mustCross(T, f, nil, func(in ssa.Instruction) bool { return in == ssa.Instruction(ret) }, nil, func(fs []Fact) bool {
						_, has := m.nextEq(fs, c)
						return has
					})
					r.Ob("Q9", shortName(f), fmt.Sprintf("%s succeeds only after reading %q", what, rune(c)), ret.Pos(), ok,
						fmt.Sprintf("a success return is reachable without having seen %q", rune(c)), witnessPos(p, w)...)
				}
			}
		}
		var structReader, methodReader *ssa.Function
		var structNode *ssa.Alloc
		for _, tn := range m.typeNodes() {
			for _, ka := range tn.Kinds {
				if m.kindName[ka.K] == "TypeStruct" {
					structReader, structNode = tn.Fn, tn.Alloc
				}
			}
		}
		for _, f := range a.methods {
			if f.Signature.Results().Len() == 2 {
				if pt, ok := f.Signature.Results().At(0).Type().(*types.Pointer); ok && isNamed(pt.Elem(), pkgIDL, "Method") {
					methodReader = f
				}
			}
		}
		// the method reader may be written in (or be a piece of) the member loop: the reader is then the function that
		// builds the Method node, and "succeeds" means the node is handed on (recorded in the tree)
		var methodNode *ssa.Alloc
		if methodReader == nil {
			for _, f := range a.methods {
				for _, b := range f.Blocks {
					for _, in := range b.Instrs {
						if al, ok := in.(*ssa.Alloc); ok && isNamed(al.Type(), pkgIDL, "Method") {
							methodReader, methodNode = f, al
						}
					}
				}
			}
		}
		if structReader == nil || methodReader == nil {
			r.Unresolved("Q9", "struct reader / method reader")
			return
		}
		punct(structReader, structNode, "the struct/enum reader", '(', ')')
		if methodNode == nil {
			punct(methodReader, nil, "the method reader", '-', '>')
		} else {
			pubs := publications(methodNode)
			if len(pubs) == 0 {
				r.Unresolved("Q9", "the Method node is recorded in the tree")
			}
			for _, pub := range pubs {
				for _, c := range []int{'-', '>'} {
					c, pub := c, pub
					ok, w := mustCross(T, methodReader, nil, func(in ssa.Instruction) bool { return in == pub }, nil, func(fs []Fact) bool {
						_, has := m.nextEq(fs, c)
						return has
					})
					r.Ob("Q9", shortName(methodReader), fmt.Sprintf("the method reader succeeds only after reading %q", rune(c)), pub.Pos(), ok,
						fmt.Sprintf("the method is recorded on a path that has not seen %q", rune(c)), witnessPos(p, w)...)
				}
			}
		}
		// the two arrow bytes are consecutive reads
		// (after '-' is consumed, the next cursor event is the read that is compared with '>': nothing is read, skipped
		// or stepped back in between - whether the two reads are written side by side or as two `expect` calls)
		sites := a.readSites(methodReader)
		cons := false
		for _, s0 := range sites {
			o := a.analyseRead(s0)
			nx := o.Next['-']
			if !o.Consumed.has('-') || o.Pushed.has('-') || len(nx) == 0 {
				continue
			}
			all := true
			for _, e := range nx {
				c2, ok := e.(*ssa.Call)
				if !ok || c2 == s0 || c2.Call.StaticCallee() != a.next {
					all = false
					continue
				}
				o2 := a.analyseRead(c2)
				if !o2.Consumed.has('>') {
					all = false
				}
			}
			if all {
				cons = true
			}
		}
		r.Ob("Q9", shortName(methodReader), "'-' and '>' are two consecutive reads", methodReader.Pos(), cons, "")
		// loop continuation requires ','
		for _, b := range structReader.Blocks {
			for _, s := range b.Succs {
				if s.Dominates(b) && b != s { // back edge
					_, ok := m.nextEq(append(T.FactsAt(b), T.edgeFactsOn(b, s)...), ',')
					r.Ob("Q9", shortName(structReader), "the field loop continues only on ','", p.InstrPos(b.Instrs[len(b.Instrs)-1]), ok, "another separator is accepted between fields")
				}
			}
		}
		// after a ',' another field follows: no success return of the list is reachable from the edge that consumed the
		// separator without a field name having been read (and found non-empty) in between - `(a: int,)` is not a list
		nComma := 0
		for _, b := range structReader.Blocks {
			for _, s := range b.Succs {
				if _, isComma := m.nextEq(T.edgeFactsOn(b, s), ','); !isComma || len(s.Instrs) == 0 {
					continue
				}
				nComma++
				ok, w := mustCross(T, structReader, s.Instrs[0], func(in ssa.Instruction) bool {
					ret, isRet := in.(*ssa.Return)
					if !isRet || len(ret.Results) == 0 {
						return false
					}
					v := ret.Results[0]
					if v == ssa.Value(structNode) {
						return true
					}
					if ph, isPhi := v.(*ssa.Phi); isPhi {
						for _, e := range ph.Edges {
							if e == ssa.Value(structNode) {
								return true
							}
						}
					}
					return false
				}, nil, func(fs []Fact) bool {
					for _, f := range fs {
						if f.Op != "NE" {
							continue
						}
						for _, pr := range [][2]string{{f.A, f.B}, {f.B, f.A}} {
							if pr[0] != `const:""` {
								continue
							}
							for tf := range m.tokens {
								if strings.HasPrefix(pr[1], "call:"+funcFullName(tf)+"(") {
									return true
								}
							}
						}
					}
					return false
				})
				if !ok && s.Instrs[0] == ssa.Instruction(nil) {
					continue
				}
				r.Ob("Q9", shortName(structReader), "after ',' the list ends only after another field was read", p.InstrPos(b.Instrs[len(b.Instrs)-1]), ok,
					"after a ',' the field list can be closed without another field: a dangling comma is accepted", witnessPos(p, w)...)
			}
		}
		if nComma == 0 {
			r.Unresolved("Q9", "the edge on which the field list consumes ','")
		}
		// in/out types of a method are read by a type reader and must be non-nil
		var methodNodes []*ssa.Alloc
		if methodNode != nil {
			methodNodes = append(methodNodes, methodNode)
		} else {
			for _, rv := range returnedValues(methodReader, 0) {
				if al, ok := rv.Val.(*ssa.Alloc); ok && T.T(rv.Val) != "nil" {
					methodNodes = append(methodNodes, al)
				}
			}
		}
		for _, al := range methodNodes {
			for _, fld := range []string{"In", "Out"} {
				vals := fieldStores(al)[fld]
				ok2 := len(vals) == 1
				if ok2 {
					c, isC := vals[0].(*ssa.Call)
					ok2 = isC && m.typeReaders[c.Call.StaticCallee()]
				}
				r.Ob("Q9", shortName(methodReader), "method "+fld+" is the result of a type reader", al.Pos(), ok2, "")
			}
		}
	})
	// ---- Q10
	r.Guard("Q10", func() {
		n := 0
		for _, f := range a.methods {
			for _, cs := range compiledPatterns(p, f) {
				pats, isK := patternTexts(cs.Common.Args[0])
				if !isK {
					pats = []string{""}
				}
				for _, pat := range pats {
					n++
					ok := false
					if isK {
						_, err := regexp.Compile(pat)
						ok = err == nil && strings.HasPrefix(pat, "^")
					}
					r.Ob("Q10", shortName(f), fmt.Sprintf("name pattern #%d is a constant anchored at the cursor", n), cs.Instr.Pos(), ok, fmt.Sprintf("pattern %q: an un-anchored pattern finds a name later in the text and skips what precedes it", pat))
				}
			}
		}
		if n == 0 {
			r.Unresolved("Q10", "interface-name patterns")
		}
		// the length limit of the grammar: a matched name is accepted (the cursor advanced, the match returned) only
		// where len(match) <= 255 is established - with exactly that bound
		nl := 0
		for _, f := range a.methods {
			if len(compiledPatterns(p, f)) == 0 {
				continue
			}
			for _, b := range f.Blocks {
				for _, in := range b.Instrs {
					st, ok := in.(*ssa.Store)
					if !ok || !isRecvField(st.Addr, f, a.posIdx, a.cursorT) {
						continue
					}
					bo, ok := st.Val.(*ssa.BinOp)
					if !ok || bo.Op != token.ADD {
						continue
					}
					lc, ok := bo.Y.(*ssa.Call)
					if !ok {
						continue
					}
					if bi, isB := lc.Call.Value.(*ssa.Builtin); !isB || bi.Name() != "len" {
						continue
					}
					nl++
					_, hi := intervalOf(T.FactsAt(b), T.T(lc))
					r.Ob("Q10", shortName(f), fmt.Sprintf("match #%d is accepted only up to 255 bytes", nl), st.Pos(), hi == 255,
						fmt.Sprintf("the cursor advances over a matched interface name whose length is bounded by %d here, not by 255: an over-long name is accepted, or a name of the maximum length refused", hi))
				}
			}
		}
	})
}

// commentRules: shared by C06.Q1c and C05.K5 - byte sets of the layout skipper and of its comment region.
func commentRules(r *Run, m *idlModel, rule string) {
	a := m.a
	f := m.skipper
	sites := a.readSites(f)
	if len(sites) < 2 {
		r.Unresolved(rule, "read sites of the layout skipper")
		return
	}
	n0 := a.analyseRead(sites[0])
	if !n0.Unknown.empty() {
		r.Ob(rule, shortName(f), "layout predicate is decidable per byte", sites[0].Pos(), false, "the skipper's test on the byte could not be evaluated for "+n0.Unknown.String())
		return
	}
	// comment region: reads reachable after consuming a byte at n0 that is not a self-loop
	next := n0.nextSites(a)
	var intro byteSet
	var regionFirst *ssa.Call
	for s, bs := range next {
		for c := -1; c <= 255; c++ {
			if bs.has(c) {
				intro.add(c)
			}
		}
		regionFirst = s
	}
	if rule == "K5" {
		self := n0.selfLoopSet()
		want := setOf(' ', '\t', '\r', '\n')
		r.Ob(rule, shortName(f), "layout bytes skipped between tokens are exactly space, tab, CR, LF", sites[0].Pos(), self.equal(want),
			"the skipper ignores "+self.String()+", the grammar's layout is "+want.String())
		r.Ob(rule, shortName(f), "a comment is introduced exactly by '#'", sites[0].Pos(), intro.equal(setOf('#')) && len(next) == 1, "bytes leading into the comment branch: "+intro.String())
	}
	if regionFirst == nil {
		r.Unresolved(rule, "comment branch of the skipper")
		return
	}
	// walk the comment region: sequence of read sites until control returns to sites[0]
	region := []*ssa.Call{regionFirst}
	seen := map[*ssa.Call]bool{regionFirst: true, sites[0]: true}
	for i := 0; i < len(region); i++ {
		o := a.analyseRead(region[i])
		for s := range o.nextSites(a) {
			if !seen[s] {
				seen[s] = true
				region = append(region, s)
			}
		}
		// also reads reached after a step-back (peek then continue)
		for _, s := range sites {
			if !seen[s] && reachableCall(region[i], s, sites[0]) {
				seen[s] = true
				region = append(region, s)
			}
		}
	}
	var body *readOutcome
	for i, s := range region {
		o := a.analyseRead(s)
		if !o.Unknown.empty() {
			r.Ob(rule, shortName(f), fmt.Sprintf("comment read #%d has a decidable predicate", a.ord(s)), s.Pos(), false, "cannot evaluate for "+o.Unknown.String())
			continue
		}
		self := o.selfLoopSet()
		if !self.empty() {
			body = o
			// the body continues exactly on the bytes that are neither a newline nor end of input; whether the
			// terminator is pushed back or consumed on leaving the loop does not matter
			var want byteSet
			for c := 0; c <= 255; c++ {
				if c != '\n' {
					want.add(c)
				}
			}
			var stop byteSet
			for c := -1; c <= 255; c++ {
				if !self.has(c) {
					stop.add(c)
				}
			}
			r.Ob(rule, shortName(f), "the comment text ends exactly at a newline or at end of input", s.Pos(), self.equal(&want),
				"the comment body loop stops at "+stop.String()+", expected {EOF \\n} - a comment would end early (text after it is parsed as tokens) or run past its line")
			continue
		}
		last := i == len(region)-1
		if body != nil {
			// after the comment text: only its line terminator may be consumed
			_ = last
			r.Ob(rule, shortName(f), "after the comment text only its line terminator is consumed", s.Pos(), o.Consumed.subset(setOf('\n')),
				"after the comment the skipper consumes "+o.Consumed.String()+" without inspecting it as layout")
		} else {
			// between the introducer and the body: must not consume a line terminator or EOF
			bad := o.Consumed.has('\n') || o.Consumed.has(-1)
			r.Ob(rule, shortName(f), fmt.Sprintf("between '#' and the comment text (read #%d) no line terminator is consumed", a.ord(s)), s.Pos(), !bad,
				"the optional byte skipped after '#' can be a newline ("+o.Consumed.String()+"): an empty comment then swallows the following line")
		}
	}
	if body == nil {
		r.Ob(rule, shortName(f), "the comment body is scanned by a loop", f.Pos(), false, "no looping read in the comment branch")
	}
}

// reachableCall: s is reachable from `from` in the CFG without passing `stop`.
func reachableCall(from, s, stop *ssa.Call) bool {
	reach, _ := reachInstr(from.Parent(), from, func(in ssa.Instruction) bool { return in == ssa.Instruction(s) }, func(in ssa.Instruction) bool { return in == ssa.Instruction(stop) }, nil)
	return reach
}

// publications: the instructions that hand the object al on - a return of it, a store of it (or of an interface value
// holding it) anywhere (an element of a slice literal that is appended to a list of the tree), a call taking it.
func publications(al *ssa.Alloc) []ssa.Instruction {
	var out []ssa.Instruction
	seen := map[ssa.Value]bool{}
	var walk func(v ssa.Value)
	walk = func(v ssa.Value) {
		if seen[v] || v.Referrers() == nil {
			return
		}
		seen[v] = true
		for _, ref := range *v.Referrers() {
			switch x := ref.(type) {
			case *ssa.Return:
				out = append(out, x)
			case *ssa.Store:
				if x.Val == v {
					out = append(out, x)
				}
			case *ssa.MakeInterface:
				walk(x)
			case *ssa.Call:
				for _, a := range x.Call.Args {
					if a == v {
						out = append(out, x)
					}
				}
			case *ssa.Phi:
				walk(x)
			}
		}
	}
	walk(al)
	return out
}
